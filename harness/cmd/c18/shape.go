package main

// Shaped variants of the operations that carry whole segments into their results: Shift, Sum, modepb.Cut,
// modepb.Shift, modepb.Sum on segments WITH the `shape` oneof (ops shifts, sums, mcuts, mshifts, msums; segment
// token mag/len/shape with shape = "n" when unset, else the Fixed value).  Tie: the shaped text of every result
// against the Lean model (ShapeOps.lean).  Monitor: (1) the magnitudes/lengths are judged exactly like the
// unshaped operation (the step function reads magnitudes); (2) the CONSUMPTION function (Fixed where set, else
// the magnitude), sampled on the real result through the real ActiveAt, is the translated / split consumption
// function of the argument, and Sum returns no shapes.  Recorded exception (counted, not judged; see
// PropsShape): an idle first segment with a non-zero Fixed value is lengthened with its shape by a right shift.

import (
	"fmt"
	"math/rand"
	"regexp"
	"strconv"
	"strings"
	"time"

	"google.golang.org/protobuf/proto"

	"github.com/smart-core-os/sc-api/go/traits"
	"github.com/smart-core-os/sc-golang/pkg/trait/electricpb/modepb"
	"github.com/smart-core-os/sc-golang/pkg/trait/electricpb/segmentpb"
	"github.com/smart-core-os/sc-golang/verifharness/lib"
)

var shapedOps = map[string]string{"shifts": "shift", "sums": "sum", "mcuts": "mcut", "mshifts": "mshift", "msums": "msum"}

func init() {
	for op, plain := range shapedOps {
		segOps[op] = true
		opName[op] = opName[plain]
	}
}

type shp struct {
	has bool
	v   int64
}

// splitShaped parses a shaped list into the bare segments and their shapes.
func splitShaped(s string) ([]sg, []shp) {
	if s == "e" {
		return nil, nil
	}
	var l []sg
	var sh []shp
	for _, x := range strings.Split(s, ",") {
		seg, v, has := parseShaped(x)
		l = append(l, seg)
		sh = append(sh, shp{has, v})
	}
	return l, sh
}

// mdS: a mode with shaped segments and `info`, the token for its non-timing fields (0 = none set; k > 0 = id
// "id<k>", title "t<k>", description "d<k>", voltage k, normal iff k is odd).  Text: start@list[@info].
type mdS struct {
	md
	shapes []shp
	info   int64
}

func parseMdS(s string) mdS {
	p := strings.Split(s, "@")
	if len(p) != 2 && len(p) != 3 {
		panic("bad mode " + s)
	}
	l, sh := splitShaped(p[1])
	m := mdS{md: md{segs: l}, shapes: sh}
	if p[0] != "-" {
		m.hasStart, m.start = true, mustInt(p[0])
	}
	if len(p) == 3 {
		m.info = mustInt(p[2])
	}
	return m
}

func setInfo(m *traits.ElectricMode, k int64) {
	m.Id, m.Title, m.Description, m.Voltage, m.Normal = "", "", "", 0, false
	if k > 0 {
		m.Id, m.Title, m.Description = fmt.Sprintf("id%d", k), fmt.Sprintf("t%d", k), fmt.Sprintf("d%d", k)
		watchKeep(wa, m.Id, m.Title, m.Description)
		m.Voltage, m.Normal = float32(k), k%2 == 1
	}
}

// infoOf reads the token back from a real mode ("?…" if the fields are not those of one token).
func infoOf(m *traits.ElectricMode) string {
	if m.Id == "" && m.Title == "" && m.Description == "" && m.Voltage == 0 && !m.Normal {
		return "0"
	}
	k := int64(m.Voltage)
	probe := &traits.ElectricMode{}
	setInfo(probe, k)
	if k > 0 && probe.Id == m.Id && probe.Title == m.Title && probe.Description == m.Description && probe.Voltage == m.Voltage && probe.Normal == m.Normal {
		return strconv.FormatInt(k, 10)
	}
	return fmt.Sprintf("?%q/%q/%q/%v/%v", m.Id, m.Title, m.Description, m.Voltage, m.Normal)
}

var segTok = regexp.MustCompile(`-?\d+/(-?\d+|i)(/(n|-?\d+))?`)

// eraseShapes turns a shaped list / lists / mode / modes text into the plain one (shapes and info tokens dropped).
func eraseShapes(s string) string {
	if strings.Contains(s, "@") {
		ms := strings.Split(s, ";")
		for i, m := range ms {
			if p := strings.Split(m, "@"); len(p) == 3 {
				ms[i] = p[0] + "@" + p[1]
			}
		}
		s = strings.Join(ms, ";")
	}
	return segTok.ReplaceAllStringFunc(s, func(tok string) string {
		p := strings.Split(tok, "/")
		return p[0] + "/" + p[1]
	})
}

// addShapes gives every segment token of a plain text a random shape (unset half the time, else Fixed -4..4;
// an idle segment mostly gets unset or Fixed 0).
func addShapes(r *rand.Rand, s string) string {
	return segTok.ReplaceAllStringFunc(s, func(tok string) string {
		if r.Intn(2) == 0 {
			return tok + "/n"
		}
		if strings.HasPrefix(tok, "0/") && r.Intn(4) != 0 {
			return tok + "/0"
		}
		return tok + "/" + strconv.Itoa(r.Intn(9)-4)
	})
}

// applyShapes sets the shapes on the guarded argument's segments (and refreshes the deep copies).
func applyShapes(g *guarded, sh []shp) {
	for i, x := range sh {
		if x.has {
			g.full[i].Shape = pbFixed(magVal(x.v))
			g.clone[i] = proto.Clone(g.full[i]).(*traits.ElectricMode_Segment)
		}
	}
}

func guardModeS(m mdS) *guardedMode {
	g := guardMode(m.md)
	applyShapes(g.g, m.shapes)
	setInfo(g.mode, m.info)
	g.clone = proto.Clone(g.mode).(*traits.ElectricMode)
	return g
}

func showPBSegSs(l []*traits.ElectricMode_Segment) string {
	if len(l) == 0 {
		return "e"
	}
	p := make([]string, len(l))
	for i, s := range l {
		p[i] = showPBSegS(s)
	}
	return strings.Join(p, ",")
}

func showPBModeS(m *traits.ElectricMode) string {
	if m == nil {
		return "nil"
	}
	st := "-"
	if m.StartTime != nil {
		st = strconv.FormatInt(int64(m.StartTime.AsTime().Sub(base)), 10)
	}
	out := st + "@" + showPBSegSs(m.Segments)
	if k := infoOf(m); k != "0" {
		out += "@" + k
	}
	return out
}

// runShaped runs the real code for a shaped op (called inside runCode's Catch).
func (c scase) runShaped(o *outcome) {
	switch c.Op {
	case "shifts":
		l, sh := splitShaped(c.L)
		g := guard(l)
		applyShapes(g, sh)
		watched(wa, func() { o.segs = segmentpb.Shift(time.Duration(mustInt(c.D)), g.arg()...) })
		o.text = showPBSegSs(o.segs)
		o.mutated = g.changed()
	case "sums":
		var gs []*guarded
		var args [][]*traits.ElectricMode_Segment
		if c.L != "none" {
			parts := strings.Split(c.L, ";")
			args = watchSlice[[]*traits.ElectricMode_Segment](wa, 0, len(parts), "slice of lists")
			for _, x := range parts {
				l, sh := splitShaped(x)
				g := guard(l)
				applyShapes(g, sh)
				gs = append(gs, g)
				args = append(args, g.arg())
			}
		}
		watched(wa, func() { o.segs = segmentpb.Sum(args...) })
		o.text = showPBSegSs(o.segs)
		for i, g := range gs {
			if m := g.changed(); m != "" {
				o.mutated = fmt.Sprintf("list %d: %s", i, m)
				break
			}
		}
	case "mcuts", "mshifts":
		x := mustInt(c.D)
		g := guardModeS(parseMdS(c.L))
		if c.Op == "mcuts" {
			watched(wa, func() { o.mBefore, o.mAfter, o.ok = modepb.Cut(at(x), g.mode) })
			o.text = showPBModeS(o.mBefore) + "|" + showPBModeS(o.mAfter) + "|" + strconv.FormatBool(o.ok)
		} else {
			watched(wa, func() { o.mode = modepb.Shift(time.Duration(x), g.mode) })
			o.text = showPBModeS(o.mode)
		}
		o.mutated = g.changed()
	case "msums":
		var gs []*guardedMode
		var args []*traits.ElectricMode
		if c.L != "none" {
			parts := strings.Split(c.L, ";")
			args = watchSlice[*traits.ElectricMode](wa, 0, len(parts), "slice of modes")
			for _, x := range parts {
				g := guardModeS(parseMdS(x))
				gs = append(gs, g)
				args = append(args, g.mode)
			}
		}
		keep := append([]*traits.ElectricMode{}, args...)
		watched(wa, func() { o.mode = modepb.Sum(args...) })
		o.text = showPBModeS(o.mode)
		for i, g := range gs {
			if args[i] != keep[i] {
				o.mutated = fmt.Sprintf("element %d of the argument slice was replaced", i)
				break
			}
			if m := g.changed(); m != "" {
				o.mutated = fmt.Sprintf("mode %d: %s", i, m)
				break
			}
		}
	}
}

// consAt: the consumption function of a shaped list at t (oracle: spans of the bare segments).
func consAt(l []sg, sh []shp, t int64) int64 {
	mag, ok, idx := stepAt(l, t)
	if !ok {
		return 0
	}
	if sh[idx].has {
		return sh[idx].v
	}
	return mag
}

// realConsAt: the consumption the real result stands for at t (segment found by the real ActiveAt).
func realConsAt(t int64, l []*traits.ElectricMode_Segment) int64 {
	if t < 0 {
		return 0
	}
	_, i := segmentpb.ActiveAt(time.Duration(t), l...)
	if i >= len(l) {
		return 0
	}
	n, ok := scaled(consumption(l[i]))
	if !ok {
		return -1 << 50
	}
	return n
}

func realModeConsAt(ref int64, m *traits.ElectricMode, x int64) int64 {
	if m == nil {
		return 0
	}
	st := ref
	if m.StartTime != nil {
		st = int64(m.StartTime.AsTime().Sub(base))
	}
	return realConsAt(x-st, m.Segments)
}

// monitorShaped judges a shaped case (called from monitor after the panic / argument-modified clauses).
func (c scase) monitorShaped(m *lib.Monitor, o outcome) {
	name := opName[c.Op]
	bad := func(class, what, want, got string) {
		m.Violate("C18/"+name+"/"+class, what, c, want, got)
	}
	// (1) magnitudes and lengths: exactly the judgement of the unshaped operation on the same real result
	plain := scase{shapedOps[c.Op], c.D, eraseShapes(c.L), c.B}
	po := o
	po.mutated = ""
	switch c.Op {
	case "shifts", "sums":
		po.text = showPBSegs(o.segs)
	case "mcuts":
		po.text = showPBMode(o.mBefore) + "|" + showPBMode(o.mAfter) + "|" + strconv.FormatBool(o.ok)
	default:
		po.text = showPBMode(o.mode)
	}
	plain.monitor(m, po)
	// (2) the non-timing fields: both parts of modepb.Cut and the result of modepb.Shift are the mode itself or
	// clones of it; modepb.Sum documents "No metadata will be set on the returned mode"
	switch c.Op {
	case "mcuts", "mshifts":
		want := strconv.FormatInt(parseMdS(c.L).info, 10)
		for _, part := range []*traits.ElectricMode{o.mBefore, o.mAfter, o.mode} {
			if part != nil && infoOf(part) != want {
				bad("metadata-changed", "a mode returned by "+name+" does not carry the non-timing fields (id, title, description, voltage, normal) of the mode it was made from", "token "+want, infoOf(part))
				break
			}
		}
	case "msums":
		if o.mode != nil && infoOf(o.mode) != "0" {
			bad("metadata-set", "modepb.Sum documents that no metadata is set on the returned mode", "none of id, title, description, voltage, normal", infoOf(o.mode))
		}
	}
	// (3) the shapes
	switch c.Op {
	case "sums", "msums":
		segs := o.segs
		if c.Op == "msums" && o.mode != nil {
			segs = o.mode.Segments
		}
		for _, s := range segs {
			if s != nil && s.Shape != nil {
				bad("shape-invented", "Sum ignores shapes: no segment of its result carries one", "segments without shape", o.text)
				break
			}
		}
	case "shifts":
		l, sh := splitShaped(c.L)
		d := mustInt(c.D)
		if d > 0 && len(l) > 0 && l[0].mag == 0 && sh[0].has && sh[0].v != 0 {
			m.Count("shifts/idle-first-segment-with-non-zero-Fixed-is-lengthened-with-its-shape (recorded, not judged)")
			return
		}
		var pts []int64
		for _, b := range breakpoints(l) {
			pts = append(pts, b, b+d)
		}
		pts = append(pts, realBps(o.segs)...)
		for _, t := range samplePoints(pts) {
			var want int64
			if t >= 0 {
				want = consAt(l, sh, t-d)
			}
			if got := realConsAt(t, o.segs); got != want {
				bad("consumption-not-translated", "the consumption (Fixed shape, else magnitude) of Shift(d) is not the argument's translated by d",
					fmt.Sprintf("%d at t=%d", want, t), fmt.Sprintf("%d (result %s)", got, o.text))
				break
			}
		}
	case "mshifts":
		mo, d := parseMdS(c.L), mustInt(c.D)
		if !mo.hasStart && d > 0 && len(mo.segs) > 0 && mo.segs[0].mag == 0 && mo.shapes[0].has && mo.shapes[0].v != 0 {
			m.Count("shifts/idle-first-segment-with-non-zero-Fixed-is-lengthened-with-its-shape (recorded, not judged)")
			return
		}
		var st int64
		if mo.hasStart {
			st = mo.start
		}
		h := st + horizon(mo.segs) + abs(d) + 3
		for _, y := range walk(st-abs(d)-2, h, append(append(offsetAll(breakpoints(mo.segs), st), offsetAll(breakpoints(mo.segs), st+d)...), realModeBps(0, o.mode)...)...) {
			want := consAt(mo.segs, mo.shapes, y-d-st)
			if !mo.hasStart && y < 0 {
				want = 0
			}
			if got := realModeConsAt(0, o.mode, y); got != want {
				bad("consumption-not-translated", "the consumption (Fixed shape, else magnitude) of modepb.Shift(d) is not the mode's translated by d",
					fmt.Sprintf("%d at %d", want, y), fmt.Sprintf("%d (%s)", got, o.text))
				break
			}
		}
	case "mcuts":
		mo, x := parseMdS(c.L), mustInt(c.D)
		if len(mo.segs) == 0 {
			return
		}
		st := x
		if mo.hasStart {
			st = mo.start
		}
		// the recorded exception: the cut goes through a length-less segment carrying a shape
		_, active, idx := stepAt(mo.segs, x-st)
		lossy := x > st && active && mo.segs[idx].inf && mo.shapes[idx].has && mo.shapes[idx].v != mo.segs[idx].mag
		h := st + horizon(mo.segs) + 3
		if x > h {
			h = x + 3
		}
		lo := st - 2
		if x < lo {
			lo = x - 2
		}
		for _, y := range walk(lo, h, append(append(append(offsetAll(breakpoints(mo.segs), st), x), realModeBps(x, o.mBefore)...), realModeBps(x, o.mAfter)...)...) {
			want := consAt(mo.segs, mo.shapes, y-st)
			part, what := o.mAfter, "after"
			if y < x {
				part, what = o.mBefore, "before"
			}
			if got := realModeConsAt(x, part, y); got != want {
				if lossy && what == "before" && y >= st+spanFrom(mo.segs, idx) {
					// the defect of segmentpb.Cut repaired in round 5, should it come back: its own signature
					bad("shape-lost-on-unbounded-before", "the mode before a cut through a length-less segment does not carry that segment's Fixed shape on its last segment",
						fmt.Sprintf("%d at %d", want, y), fmt.Sprintf("%d (%s)", got, o.text))
					break
				}
				bad("shape-changed", "the mode "+what+" the cut stands for a different consumption (Fixed shape, else magnitude) than the mode there",
					fmt.Sprintf("%d at %d", want, y), fmt.Sprintf("%d (%s)", got, o.text))
				break
			}
		}
	}
}

// spanFrom: the offset at which segment idx of l starts.
func spanFrom(l []sg, idx int) int64 {
	sp, _, _ := spans(l)
	for _, p := range sp {
		if p.idx == idx {
			return p.from
		}
	}
	return 0
}

// shapedSmall: the shaped lists of the exhaustive family — every list of `lists` under three shape patterns:
// all unset, all Fixed 3, alternating Fixed 0 / unset.
func shapedSmall(lists [][]sg) []string {
	var out []string
	for _, l := range lists {
		if len(l) == 0 {
			out = append(out, "e")
			continue
		}
		for pat := 0; pat < 3; pat++ {
			p := make([]string, len(l))
			for i, s := range l {
				shape := "n"
				switch {
				case pat == 1:
					shape = "3"
				case pat == 2 && i%2 == 0:
					shape = "0"
				}
				p[i] = showSg(s) + "/" + shape
			}
			out = append(out, strings.Join(p, ","))
		}
	}
	return out
}

// shapedCases: the K2 family of the shaped operations.
func shapedCases(l2, l1 [][]sg) []scase {
	itoa := func(x int64) string { return strconv.FormatInt(x, 10) }
	var cases []scase
	for _, s := range shapedSmall(l2) {
		l, _ := splitShaped(s)
		_, end, _ := spans(l)
		for d := -(end + 1); d <= end+1; d++ {
			cases = append(cases, scase{"shifts", itoa(d), s, ""})
		}
		info := []string{"", "@1", "@4"}[len(s)%3]
		for _, st := range []string{"-", "0", "2"} {
			start := int64(0)
			if st == "2" {
				start = 2
			}
			for x := int64(-1); x <= start+end+2; x++ {
				cases = append(cases, scase{"mcuts", itoa(x), st + "@" + s + info, ""})
			}
			for d := int64(-2); d <= 2; d++ {
				cases = append(cases, scase{"mshifts", itoa(d), st + "@" + s + info, ""})
			}
		}
	}
	small := shapedSmall(l1)
	for _, a := range small {
		for _, b := range small {
			cases = append(cases, scase{"sums", "", a + ";" + b, ""})
			cases = append(cases, scase{"msums", "", "0@" + a + "@3;2@" + b, ""}, scase{"msums", "", "-@" + a + ";1@" + b + "@6", ""})
		}
	}
	cases = append(cases, scase{"sums", "", "none", ""}, scase{"msums", "", "none", ""})
	return cases
}

// shapeUp turns a random plain case of an operation that has a shaped variant into that variant, a third of
// the time.
func shapeUp(r *rand.Rand, c scase) scase {
	for shaped, plain := range map[string]string{"shifts": "shift", "sums": "sum", "mcuts": "mcut", "mshifts": "mshift", "msums": "msum"} {
		if c.Op == plain {
			if r.Intn(3) == 0 {
				c.Op = shaped
				c.L = addShapes(r, c.L)
				if strings.HasPrefix(shaped, "m") && c.L != "none" {
					ms := strings.Split(c.L, ";")
					for i := range ms {
						if k := r.Intn(7); k > 0 && r.Intn(3) != 0 {
							ms[i] += "@" + strconv.Itoa(k)
						}
					}
					c.L = strings.Join(ms, ";")
				}
			}
			return c
		}
	}
	return c
}
