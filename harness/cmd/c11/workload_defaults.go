package main

// Scenario "default-models": several models of every trait package that has package-level default
// options (DefaultModelOptions), each built with NO caller options, used concurrently.  Distinct
// models share nothing the caller supplied, so anything they do share comes from the library's own
// package-level defaults (an rng, initial messages, presets) and must be safe to share.

import (
	"context"
	"fmt"
	"math/rand"
	"time"

	"github.com/smart-core-os/sc-api/go/traits"
	"github.com/smart-core-os/sc-golang/pkg/resource"
	"github.com/smart-core-os/sc-golang/pkg/trait"
	"github.com/smart-core-os/sc-golang/pkg/trait/airqualitysensorpb"
	"github.com/smart-core-os/sc-golang/pkg/trait/airtemperaturepb"
	"github.com/smart-core-os/sc-golang/pkg/trait/bookingpb"
	"github.com/smart-core-os/sc-golang/pkg/trait/electricpb"
	"github.com/smart-core-os/sc-golang/pkg/trait/energystoragepb"
	"github.com/smart-core-os/sc-golang/pkg/trait/enterleavesensorpb"
	"github.com/smart-core-os/sc-golang/pkg/trait/fanspeedpb"
	"github.com/smart-core-os/sc-golang/pkg/trait/hailpb"
	"github.com/smart-core-os/sc-golang/pkg/trait/lightpb"
	"github.com/smart-core-os/sc-golang/pkg/trait/occupancysensorpb"
	"github.com/smart-core-os/sc-golang/pkg/trait/onoffpb"
	"github.com/smart-core-os/sc-golang/pkg/trait/openclosepb"
	"github.com/smart-core-os/sc-golang/pkg/trait/parentpb"
	"github.com/smart-core-os/sc-golang/pkg/trait/publicationpb"
	"github.com/smart-core-os/sc-golang/pkg/trait/vendingpb"
)

func init() {
	scenarios = append(scenarios, scenario{"default-models", 2, []string{"shared:", "electricpb.", "hailpb.", "parentpb.", "resource.", "minibus."}, wlDefaultModels})
}

// defaultModelKinds: one constructor per trait package; it builds a model with default options only
// and returns one random operation on it.
var defaultModelKinds = []struct {
	Name string
	Mk   func() func(rng *rand.Rand, i int)
}{
	{"electricpb", func() func(*rand.Rand, int) {
		m := electricpb.NewModel()
		return func(rng *rand.Rand, i int) {
			switch rng.Intn(4) {
			case 0, 1:
				mode, err := m.CreateMode(&traits.ElectricMode{Title: fmt.Sprint(i)})
				if err == nil {
					readMsg(mode)
					if rng.Intn(2) == 0 {
						_ = m.DeleteMode(mode.Id, resource.WithAllowMissing(true))
					}
				}
			case 2:
				res, _ := m.UpdateDemand(&traits.ElectricDemand{Current: float32(i)})
				readMsg(res)
			case 3:
				readMsg(m.Demand())
				readMsg(m.ActiveMode())
				for _, x := range m.Modes() {
					readMsg(x)
				}
			}
		}
	}},
	{"hailpb", func() func(*rand.Rand, int) {
		m := hailpb.NewModel()
		return func(rng *rand.Rand, i int) {
			h, err := m.CreateHail(&traits.Hail{})
			if err == nil {
				readMsg(h)
				_, _ = m.DeleteHail(h.Id, resource.WithAllowMissing(true))
			}
		}
	}},
	{"publicationpb", func() func(*rand.Rand, int) {
		m := publicationpb.NewModel()
		return func(rng *rand.Rand, i int) {
			p, err := m.CreatePublication(&traits.Publication{Body: []byte{byte(i)}})
			if err == nil {
				readMsg(p)
			}
			for _, x := range m.ListPublications() {
				readMsg(x)
			}
		}
	}},
	{"vendingpb", func() func(*rand.Rand, int) {
		m := vendingpb.NewModel()
		return func(rng *rand.Rand, i int) {
			c, err := m.CreateConsumable(&traits.Consumable{DisplayName: fmt.Sprint(i)})
			if err == nil {
				readMsg(c)
			}
			for _, x := range m.ListConsumables() {
				readMsg(x)
			}
		}
	}},
	{"bookingpb", func() func(*rand.Rand, int) {
		m := bookingpb.NewModel()
		return func(rng *rand.Rand, i int) {
			b, err := m.CreateBooking(&traits.Booking{Title: fmt.Sprint(i)})
			if err == nil {
				readMsg(b)
			}
			for _, x := range m.ListBookings() {
				readMsg(x)
			}
		}
	}},
	{"parentpb", func() func(*rand.Rand, int) {
		m := parentpb.NewModel()
		return func(rng *rand.Rand, i int) {
			func() {
				defer func() { _ = recover() }()
				c, _ := m.AddChildTrait("c", trait.OnOff)
				readMsg(c)
			}()
			for _, x := range m.ListChildren() {
				readMsg(x)
			}
		}
	}},
	{"lightpb", func() func(*rand.Rand, int) {
		m := lightpb.NewModel()
		return func(rng *rand.Rand, i int) {
			if rng.Intn(2) == 0 {
				res, _ := m.UpdateBrightness(&traits.Brightness{LevelPercent: float32(i % 100)})
				readMsg(res)
			} else {
				res, _ := m.GetBrightness()
				readMsg(res)
			}
			for _, p := range m.ListPresets() {
				readMsg(p)
			}
		}
	}},
	{"onoffpb", func() func(*rand.Rand, int) {
		m := onoffpb.NewModel()
		return func(rng *rand.Rand, i int) {
			if rng.Intn(2) == 0 {
				res, _ := m.UpdateOnOff(&traits.OnOff{State: traits.OnOff_State(i % 3)})
				readMsg(res)
			} else {
				res, _ := m.GetOnOff()
				readMsg(res)
			}
		}
	}},
	{"airtemperaturepb", func() func(*rand.Rand, int) {
		m := airtemperaturepb.NewModel()
		return func(rng *rand.Rand, i int) {
			if rng.Intn(2) == 0 {
				h := float32(i % 100)
				res, _ := m.UpdateAirTemperature(&traits.AirTemperature{AmbientHumidity: &h})
				readMsg(res)
			} else {
				res, _ := m.GetAirTemperature()
				readMsg(res)
			}
		}
	}},
	{"airqualitysensorpb", func() func(*rand.Rand, int) {
		m := airqualitysensorpb.NewModel()
		return func(rng *rand.Rand, i int) {
			if rng.Intn(2) == 0 {
				v := float32(i)
				res, _ := m.UpdateAirQuality(&traits.AirQuality{CarbonDioxideLevel: &v})
				readMsg(res)
			} else {
				res, _ := m.GetAirQuality()
				readMsg(res)
			}
		}
	}},
	{"fanspeedpb", func() func(*rand.Rand, int) {
		m := fanspeedpb.NewModel()
		return func(rng *rand.Rand, i int) {
			if rng.Intn(2) == 0 {
				res, _ := m.UpdateFanSpeed(&traits.FanSpeed{Percentage: float32(i % 100)})
				readMsg(res)
			} else {
				readMsg(m.FanSpeed())
			}
		}
	}},
	{"openclosepb", func() func(*rand.Rand, int) {
		m := openclosepb.NewModel()
		return func(rng *rand.Rand, i int) {
			if rng.Intn(2) == 0 {
				res, _ := m.UpdatePositions(&traits.OpenClosePositions{States: []*traits.OpenClosePosition{{OpenPercent: float32(i % 100)}}})
				readMsg(res)
			} else {
				res, _ := m.GetPositions()
				readMsg(res)
			}
		}
	}},
	{"occupancysensorpb", func() func(*rand.Rand, int) {
		m := occupancysensorpb.NewModel()
		return func(rng *rand.Rand, i int) {
			if rng.Intn(2) == 0 {
				res, _ := m.SetOccupancy(&traits.Occupancy{PeopleCount: int32(i)})
				readMsg(res)
			} else {
				res, _ := m.GetOccupancy()
				readMsg(res)
			}
		}
	}},
	{"energystoragepb", func() func(*rand.Rand, int) {
		m := energystoragepb.NewModel()
		return func(rng *rand.Rand, i int) {
			if rng.Intn(2) == 0 {
				res, _ := m.UpdateEnergyLevel(&traits.EnergyLevel{Quantity: &traits.EnergyLevel_Quantity{Percentage: float32(i % 100)}})
				readMsg(res)
			} else {
				res, _ := m.GetEnergyLevel()
				readMsg(res)
			}
		}
	}},
	{"enterleavesensorpb", func() func(*rand.Rand, int) {
		m := enterleavesensorpb.NewModel()
		return func(rng *rand.Rand, i int) {
			switch rng.Intn(4) {
			case 0:
				_ = m.CreateEnterLeaveEvent(&traits.EnterLeaveEvent{Direction: traits.EnterLeaveEvent_ENTER})
			case 1:
				res, _ := m.GetEnterLeaveEvent()
				readMsg(res)
			case 2:
				_ = m.ResetTotals()
			case 3:
				ctx, cancel := context.WithTimeout(context.Background(), 2*time.Millisecond)
				drain(ctx, m.PullEnterLeaveEvents(ctx), 10, func(c enterleavesensorpb.EnterLeaveEventChange) { readMsg(c.Value) })
				cancel()
			}
		}
	}},
}

func wlDefaultModels(w *wl) {
	const instances = 3
	ops := make([][]func(*rand.Rand, int), len(defaultModelKinds))
	for k, kind := range defaultModelKinds {
		for n := 0; n < instances; n++ {
			ops[k] = append(ops[k], kind.Mk())
		}
	}
	w.par(func(id int, rng *rand.Rand) {
		for i := 0; w.more(i); i++ {
			k := rng.Intn(len(ops))
			if rng.Intn(3) == 0 {
				k = 0 // the package whose defaults carry an rng gets extra weight
			}
			// goroutine id mostly works on "its" model, so distinct models are in use at the same time
			n := id % instances
			if rng.Intn(4) == 0 {
				n = rng.Intn(instances)
			}
			ops[k][n](rng, i)
		}
	})
}
