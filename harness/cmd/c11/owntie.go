package main

// Tie `own-sync` (K1, round 7): the two side conditions of `C11_lent_argument_unordered`
// (lean/ScVerif/C11/ExecSync.lean: `noReleaseBy es t i j` — goroutine t executes no release at the positions
// [i, j) — and `noAcquireBy es t i j` — no acquire at the positions (i, j]) through the Lean driver (`own`)
// against an independent Go reading of the same event list, on random lists of all nine kinds of event over
// three goroutines (the positions may lie outside the list: the conditions then only look at what exists).

import (
	"fmt"
	"strings"

	"github.com/smart-core-os/sc-golang/verifharness/lib"
)

func runOwnTie(f lib.Flags, res *lib.Result, drv *lib.Driver) {
	tie := res.Tie("own-sync", "K1",
		"random event lists (length 0-10; acquire / release in both modes, close, observe, publish, get, leave, join, access; goroutines 1-3, locks and channels 0-2) with random goroutine and positions i, j (also j <= i and beyond the end) from the run's PRNG: Lean `noReleaseBy` / `noAcquireBy` (driver `own`) vs a Go loop over the tokens; non-trivial = the window holds at least one event; distinct by the request line")
	rng := lib.NewRand(f.Seed + 7)
	n := f.N(3000, 30000)
	kinds := []string{"A", "U", "C", "O", "P", "G", "D", "J", "X"}
	var lines []string
	var want []string
	var nontriv []bool
	for k := 0; k < n; k++ {
		ln := rng.Intn(11)
		evs := make([]string, ln)
		thr := make([]int, ln)
		rel := make([]bool, ln)
		acq := make([]bool, ln)
		for p := 0; p < ln; p++ {
			kd := kinds[rng.Intn(len(kinds))]
			t := 1 + rng.Intn(3)
			thr[p] = t
			switch kd {
			case "A", "U":
				evs[p] = fmt.Sprintf("%s/%d/%d/%s", kd, t, rng.Intn(3), []string{"R", "X"}[rng.Intn(2)])
			case "C", "O":
				evs[p] = fmt.Sprintf("%s/%d/%d", kd, t, rng.Intn(3))
			case "X":
				// an access: the row is irrelevant to the conditions, a fixed lock-free one
				evs[p] = fmt.Sprintf("X/%d", t)
			default:
				evs[p] = fmt.Sprintf("%s/%d", kd, t)
			}
			rel[p] = kd == "U" || kd == "C" || kd == "P" || kd == "D"
			acq[p] = kd == "A" || kd == "O" || kd == "G" || kd == "J"
		}
		t := 1 + rng.Intn(3)
		i, j := rng.Intn(ln+2), rng.Intn(ln+3)
		nr, na, some := true, true, false
		for p := i; p < j && p < ln; p++ {
			some = true
			if rel[p] && thr[p] == t {
				nr = false
			}
		}
		for p := i + 1; p <= j && p < ln; p++ {
			some = true
			if acq[p] && thr[p] == t {
				na = false
			}
		}
		lines = append(lines, strings.TrimSpace(fmt.Sprintf("own %d %d %d %s", t, i, j, strings.Join(evs, " "))))
		want = append(want, fmt.Sprintf("norelease=%s noacquire=%s", bit(nr), bit(na)))
		nontriv = append(nontriv, some)
	}
	lines = append(lines, "own 1 0 x P/1")
	want = append(want, "!bad-op")
	nontriv = append(nontriv, true)
	ans, err := drv.Batch(lines)
	if err != nil {
		tie.Fail(err)
		return
	}
	for k := range lines {
		tie.Record(lines[k], nontriv[k], map[string]any{"line": lines[k]}, ans[k], want[k])
		if k < n {
			tie.Count(want[k])
		}
	}
}
