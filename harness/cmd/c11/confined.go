package main

// Goroutine-confined helper types ("call-local objects").
//
// Since round 4 every struct with a pointer-receiver method is tracked: such objects are normally shared
// by pointer between the goroutines that call their methods.  A small unexported helper type whose every
// instance is created inside a function and stays with the goroutine that created it (the state of ONE call,
// e.g. the get/save steps of one Collection.Update turned from closures over locals into methods of a
// struct) is not such an object: its fields are the former captured locals.  The extractor recognises these
// types by a type-level escape check over the whole package.  T is *confined* when
//
//   - T is unexported, has no mutex, is not a Model, not an event type, not embedded in a tracked struct;
//   - the type NAME T is only written as: the receiver type of its methods, a parameter or result type of a
//     function (`T` or `*T`), the type of a composite literal `T{…}`, `new(T)`, a local `var x *T`
//     — never inside a struct / slice / map / channel / func-field / interface / conversion / assertion;
//   - every EXPRESSION of type T or *T in the package is used in one of these ways only:
//       x.f (field access), x.m(…) (method call), *x, &T{…}, comparison with nil,
//       the right-hand side of an assignment to a LOCAL variable of type T / *T (or `_`),
//       an argument of a package-local function whose parameter has type T / *T,
//       a result of a package-local function whose result has type T / *T,
//       a method value x.m that is immediately passed as a call argument, or bound to a local that is only
//       called or passed as a call argument (the callee is assumed to call it synchronously: the standing
//       assumption for function literals, listed in props/C11.json);
//   - none of these uses sits under a `go` statement, and a function literal that mentions such an
//     expression is itself a call argument, immediately called, or deferred (never stored, returned, sent).
//
// Everything else (stored in a field or a global, put in a container, sent on a channel, converted to an
// interface, handed to another package, captured by a goroutine) makes the type an ordinary tracked object.
// Accesses to the fields of a confined type are recorded as constructor-phase rows (the object is never
// published: every access precedes publication), and the type is listed in the table's notes.

import (
	"go/ast"
	"go/token"
	"go/types"
	"sort"
)

type confinement struct {
	parent map[ast.Node]ast.Node
}

func buildParents(files []*ast.File) map[ast.Node]ast.Node {
	parent := map[ast.Node]ast.Node{}
	for _, f := range files {
		var stack []ast.Node
		ast.Inspect(f, func(n ast.Node) bool {
			if n == nil {
				stack = stack[:len(stack)-1]
				return true
			}
			if len(stack) > 0 {
				parent[n] = stack[len(stack)-1]
			}
			stack = append(stack, n)
			return true
		})
	}
	return parent
}

// confinedTypes: which of the candidate struct types (name -> type name object) are goroutine-confined;
// the result maps the name to "" (confined) or to the first reason found why it is not
func (pa *pkgAn) confinedTypes(cands map[string]*types.TypeName) map[string]string {
	res := map[string]string{}
	if len(cands) == 0 {
		return res
	}
	parent := buildParents(pa.files)
	byObj := map[*types.TypeName]string{}
	for n, tn := range cands {
		byObj[tn] = n
	}
	fail := func(name, why string, at ast.Node) {
		if _, done := res[name]; !done {
			res[name] = why + " @ " + pa.pos(at)
		}
	}
	typeNameOf := func(t types.Type) string {
		if t == nil {
			return ""
		}
		if p, ok := t.(*types.Pointer); ok {
			t = p.Elem()
		}
		if n, ok := t.(*types.Named); ok {
			if nm, ok := byObj[n.Obj()]; ok {
				return nm
			}
		}
		return ""
	}
	up := func(n ast.Node) ast.Node { // parent, skipping parentheses
		p := parent[n]
		for {
			if pe, ok := p.(*ast.ParenExpr); ok {
				p = parent[pe]
				continue
			}
			return p
		}
	}
	underGo := func(n ast.Node) bool {
		for p := parent[n]; p != nil; p = parent[p] {
			if _, ok := p.(*ast.GoStmt); ok {
				return true
			}
			if ce, ok := p.(*ast.CallExpr); ok && pa.timerSpawn(ce) != nil {
				return true
			}
		}
		return false
	}
	// every function literal around n is a call argument, immediately called or deferred
	litsOK := func(n ast.Node) bool {
		for p := parent[n]; p != nil; p = parent[p] {
			fl, ok := p.(*ast.FuncLit)
			if !ok {
				continue
			}
			if _, ok := up(fl).(*ast.CallExpr); !ok {
				return false
			}
		}
		return true
	}
	enclosingDecl := func(n ast.Node) (*ast.FuncDecl, bool) { // false: inside a function literal
		for p := parent[n]; p != nil; p = parent[p] {
			switch x := p.(type) {
			case *ast.FuncLit:
				return nil, false
			case *ast.FuncDecl:
				return x, true
			}
		}
		return nil, true
	}
	localVarOfType := func(e ast.Expr, name string) bool {
		id, ok := e.(*ast.Ident)
		if !ok {
			return false
		}
		if id.Name == "_" {
			return true
		}
		o := pa.objOf(id)
		v, ok := o.(*types.Var)
		if !ok || v.Pkg() == nil || v.Parent() == v.Pkg().Scope() || v.IsField() {
			return false
		}
		return typeNameOf(v.Type()) == name
	}
	// a function value (method value of a confined object) bound to the local `id`: only called / passed on
	boundUseOK := func(id *ast.Ident) bool {
		o := pa.objOf(id)
		if o == nil {
			return false
		}
		if v, ok := o.(*types.Var); !ok || v.Pkg() == nil || v.Parent() == v.Pkg().Scope() || v.IsField() {
			return false
		}
		for use, uo := range pa.info.Uses {
			if uo != o {
				continue
			}
			if _, ok := up(use).(*ast.CallExpr); !ok || underGo(use) || !litsOK(use) {
				return false
			}
		}
		return true
	}

	// 1. where the type name is written
	for id, o := range pa.info.Uses {
		tn, ok := o.(*types.TypeName)
		if !ok {
			continue
		}
		name, ok := byObj[tn]
		if !ok {
			continue
		}
		var n ast.Node = id
		p := up(n)
		if se, ok := p.(*ast.StarExpr); ok {
			n = se
			p = up(se)
		}
		switch x := p.(type) {
		case *ast.Field:
			fl, _ := parent[x].(*ast.FieldList)
			switch parent[fl].(type) {
			case *ast.FuncType, *ast.FuncDecl:
				// receiver / parameter / result; a func TYPE written inside a struct or another type is not a declaration
				if ft, ok := parent[fl].(*ast.FuncType); ok {
					switch parent[ft].(type) {
					case *ast.FuncDecl, *ast.FuncLit:
					default:
						fail(name, "type written inside a function type that is not a declaration", id)
					}
				}
			default:
				fail(name, "type written as a struct field / interface method type", id)
			}
		case *ast.CompositeLit:
			if x.Type != n {
				fail(name, "type written inside a composite literal of another type", id)
			}
		case *ast.CallExpr:
			if fid, ok := x.Fun.(*ast.Ident); !ok || fid.Name != "new" {
				fail(name, "type written in a conversion or call", id)
			}
		case *ast.ValueSpec:
			if x.Type != n {
				fail(name, "type written inside a value", id)
			} else if fd, inDecl := enclosingDecl(x); fd == nil && inDecl {
				fail(name, "package-level variable of the type", id)
			}
		default:
			fail(name, "type written inside another type / conversion / assertion", id)
		}
	}

	// 2. how the values are used
	for e, tv := range pa.info.Types {
		if !tv.IsValue() {
			continue
		}
		name := typeNameOf(tv.Type)
		if name == "" {
			continue
		}
		if _, failed := res[name]; failed {
			continue
		}
		if _, isParen := e.(*ast.ParenExpr); isParen {
			continue // the inner expression is checked
		}
		if underGo(e) {
			fail(name, "used under a go statement", e)
			continue
		}
		if !litsOK(e) {
			fail(name, "used in a function literal that is stored / returned", e)
			continue
		}
		switch p := up(e).(type) {
		case *ast.SelectorExpr:
			if p.X != e && !isParenOf(p.X, e) {
				fail(name, "unexpected selector position", e)
				break
			}
			sel := pa.info.Selections[p]
			if sel == nil {
				fail(name, "unresolved selection", e)
				break
			}
			if sel.Kind() == types.FieldVal {
				break
			}
			// method: called, or a method value handed to a (synchronous) callee / bound to a local
			switch g := up(p).(type) {
			case *ast.CallExpr:
				// Fun position: a call; argument position: a method value passed on
			case *ast.AssignStmt:
				ok := false
				if len(g.Lhs) == len(g.Rhs) {
					for i, r := range g.Rhs {
						if r == ast.Expr(p) || isParenOf(r, p) {
							if lid, isId := g.Lhs[i].(*ast.Ident); isId && (lid.Name == "_" || boundUseOK(lid)) {
								ok = true
							}
						}
					}
				}
				if !ok {
					fail(name, "method value stored", e)
				}
			default:
				fail(name, "method value stored / returned", e)
			}
		case *ast.StarExpr, *ast.ExprStmt:
		case *ast.UnaryExpr:
			if p.Op != token.AND {
				fail(name, "unexpected unary use", e)
			} else if _, lit := e.(*ast.CompositeLit); !lit {
				fail(name, "address of a variable of the type taken", e)
			}
		case *ast.BinaryExpr:
			if p.Op != token.EQL && p.Op != token.NEQ {
				fail(name, "unexpected binary use", e)
			}
		case *ast.AssignStmt:
			inLhs := false
			for _, l := range p.Lhs {
				if l == e {
					inLhs = true
					if !localVarOfType(l, name) {
						fail(name, "stored outside a local variable", e)
					}
				}
			}
			if inLhs {
				break
			}
			if len(p.Lhs) != len(p.Rhs) {
				fail(name, "unexpected multi-value assignment", e)
				break
			}
			for i, r := range p.Rhs {
				if (r == e || isParenOf(r, e)) && !localVarOfType(p.Lhs[i], name) {
					fail(name, "stored outside a local variable of the type", e)
				}
			}
		case *ast.ValueSpec:
			fd, inDecl := enclosingDecl(p)
			if fd == nil && inDecl {
				fail(name, "package-level variable initialised with the type", e)
				break
			}
			for _, nme := range p.Names {
				if !localVarOfType(nme, name) {
					fail(name, "stored in a variable of another type", e)
				}
			}
		case *ast.CallExpr:
			if p.Fun == e {
				break
			}
			callee := pa.calleeOf(p)
			if callee == nil {
				fail(name, "passed to a function outside the package / a function value", e)
				break
			}
			sig, _ := callee.Type().(*types.Signature)
			ok := false
			for i, a := range p.Args {
				if a == e || isParenOf(a, e) {
					if sig != nil && !sig.Variadic() && i < sig.Params().Len() && typeNameOf(sig.Params().At(i).Type()) == name {
						ok = true
					}
				}
			}
			if !ok {
				fail(name, "passed as an argument of another type", e)
			}
		case *ast.ReturnStmt:
			fd, inDecl := enclosingDecl(p)
			if fd == nil || !inDecl {
				fail(name, "returned from a function literal", e)
				break
			}
			fn, _ := pa.info.Defs[fd.Name].(*types.Func)
			var sig *types.Signature
			if fn != nil {
				sig, _ = fn.Type().(*types.Signature)
			}
			ok := false
			for i, r := range p.Results {
				if (r == e || isParenOf(r, e)) && sig != nil && len(p.Results) == sig.Results().Len() && typeNameOf(sig.Results().At(i).Type()) == name {
					ok = true
				}
			}
			if !ok {
				fail(name, "returned as a value of another type", e)
			}
		default:
			fail(name, "escapes (stored in an object / container, sent, converted)", e)
		}
	}
	for n := range cands {
		if _, failed := res[n]; !failed {
			res[n] = ""
		}
	}
	return res
}

func isParenOf(outer ast.Expr, inner ast.Node) bool {
	for {
		p, ok := outer.(*ast.ParenExpr)
		if !ok {
			return false
		}
		if ast.Node(p.X) == inner {
			return true
		}
		outer = p.X
	}
}

func sortedKeys(m map[string]string) []string {
	var ks []string
	for k := range m {
		ks = append(ks, k)
	}
	sort.Strings(ks)
	return ks
}
