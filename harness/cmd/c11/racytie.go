package main

// Tie `racy-execution` (K2 on the extracted table, K1 on synthetic rows): the witness execution of
// lean/ScVerif/C11/ExecNeed.lean (`racyExec a b`: publish, obtain, goroutine 1 takes a's locks, goroutine
// 2 takes b's locks, both access; before that a third goroutine closes the channels the rows want
// observed and the two goroutines observe them) run through the Lean execution semantics and the Lean conformance check
// (driver `racy`), against an independent Go reading of what that execution needs: it is an execution
// iff each row names a lock once and no common lock has an exclusive side; it does what the rows say iff
// neither row is constructor-phase, the rows do not share a non-zero role and no channel a row wants
// observed is one a row closes afterwards; it never contains a synchronisation between the two accesses.  Cross-check of the
// theorems on every pair of the real table: a conforming racy execution exists exactly for the pairs the
// discipline does not order (`consistent`).

import (
	"fmt"

	"github.com/smart-core-os/sc-golang/verifharness/lib"
)

func nodupLocks(r *Row) bool {
	seen := map[string]bool{}
	for _, h := range r.Held {
		if seen[h.Lock] {
			return false
		}
		seen[h.Lock] = true
	}
	return true
}

func goRacy(a, b *Row) string {
	valid := nodupLocks(a) && nodupLocks(b)
	for _, x := range a.Held {
		for _, y := range b.Held {
			if x.Lock == y.Lock && (x.Mode == "X" || y.Mode == "X") {
				valid = false
			}
		}
	}
	// the clauses about the state at an access (locks held, object unpublished) only speak about
	// executions: on a sequence the runtime does not allow they hold vacuously
	phases := !valid || (a.Phase != "init" && b.Phase != "init")
	// a third goroutine closes the channels the rows want observed: a row that lists one of them as closed
	// after itself is contradicted by that close
	closedEarly := map[string]bool{}
	for _, c := range append(append([]string{}, a.AcqBefore...), b.AcqBefore...) {
		closedEarly[c] = true
	}
	rel := true
	for _, c := range append(append([]string{}, a.RelAfter...), b.RelAfter...) {
		if closedEarly[c] {
			rel = false
		}
	}
	conf := phases && (b.Role == 0 || b.Role != a.Role) && rel
	ord := goOrdered(a, b)
	return fmt.Sprintf("valid=%s conf=%s sync=0 ordered=%s consistent=%s", bit(valid), bit(conf), bit(ord), bit(!(valid && conf && ord)))
}

func runRacyTie(f lib.Flags, res *lib.Result, drv *lib.Driver, tbl *Table) {
	tie := res.Tie("racy-execution", "K2",
		"every pair (i<=j, and j<i for rows with different lock sets) of rows of the extracted table that share a field: the witness execution `racyExec a b` through Lean `xrunCount` / `conformsB` / `syncBetween` (driver `racy`) vs an independent Go reading (lock lists compatible, phases, roles, observed closes, Go `ordered`); `consistent` = no conforming racy execution for a pair the discipline orders; non-trivial = conflicting pair; distinct by (field, fnA, fnB, locks)")
	tie.Exhaustive = true
	type pr struct{ a, b *Row }
	var pairs []pr
	for i, a := range tbl.Rows {
		for j := range tbl.Rows {
			b := tbl.Rows[j]
			if b.Field != a.Field {
				continue
			}
			if j >= i || fmt.Sprint(a.Held, a.Role, a.Phase) != fmt.Sprint(b.Held, b.Role, b.Phase) {
				pairs = append(pairs, pr{a, b})
			}
		}
	}
	var lines []string
	for _, p := range pairs {
		lines = append(lines, "racy "+tbl.rowWire(p.a)+" "+tbl.rowWire(p.b))
	}
	ans, err := drv.Batch(lines)
	if err != nil {
		tie.Fail(err)
		return
	}
	for k, p := range pairs {
		code := goRacy(p.a, p.b)
		key := fmt.Sprintf("%s|%s|%s|%v|%v", p.a.Field, p.a.Fn, p.b.Fn, p.a.Held, p.b.Held)
		tie.Record(key, goConflict(p.a, p.b), map[string]any{"a": tbl.describe(p.a), "b": tbl.describe(p.b)}, ans[k], code)
		tie.Count(code)
	}

	rt := res.Tie("racy-execution-random", "K1",
		"random pairs of synthetic rows (fields 0..1, locks 0..2 in both modes with an occasional repeated lock, phases, roles 0..2, close/observe lists on channels 0..2) from the run's PRNG: driver `racy` vs the Go reading; non-trivial = conflicting; distinct by the pair of encodings")
	rng := lib.NewRand(f.Seed + 7)
	n := f.N(2000, 30000)
	st := &Table{Locks: []string{"0", "1", "2"}, Fields: []string{"0", "1"}, Chans: []string{"0", "1", "2"}}
	gen := func() *Row {
		r := &Row{Field: fmt.Sprint(rng.Intn(2)), Kind: []string{"R", "W"}[rng.Intn(2)], Phase: "live", Role: 0}
		if rng.Intn(8) == 0 {
			r.Phase = "init"
		}
		if rng.Intn(3) == 0 {
			r.Role = rng.Intn(3)
		}
		for l := 0; l < 3; l++ {
			if rng.Intn(3) == 0 {
				r.Held = append(r.Held, HeldLock{fmt.Sprint(l), []string{"R", "X"}[rng.Intn(2)]})
			}
		}
		if len(r.Held) > 0 && rng.Intn(12) == 0 {
			r.Held = append(r.Held, HeldLock{r.Held[0].Lock, []string{"R", "X"}[rng.Intn(2)]})
		}
		for c := 0; c < 3; c++ {
			if rng.Intn(6) == 0 {
				r.RelAfter = append(r.RelAfter, fmt.Sprint(c))
			}
			if rng.Intn(10) == 0 {
				r.AcqBefore = append(r.AcqBefore, fmt.Sprint(c))
			}
		}
		return r
	}
	var rl []string
	var rp [][2]*Row
	for i := 0; i < n; i++ {
		a, b := gen(), gen()
		rp = append(rp, [2]*Row{a, b})
		rl = append(rl, "racy "+st.rowWire(a)+" "+st.rowWire(b))
	}
	rl = append(rl, "racy 0,W,live,0,-,-,-")
	ra, err := drv.Batch(rl)
	if err != nil {
		rt.Fail(err)
		return
	}
	for i, p := range rp {
		code := goRacy(p[0], p[1])
		rt.Record(rl[i], goConflict(p[0], p[1]), map[string]any{"line": rl[i]}, ra[i], code)
		rt.Count(code)
	}
	rt.Record("malformed", true, map[string]any{"line": rl[len(rl)-1]}, ra[len(ra)-1], "!bad-op")
}
