package main

// Scenario "slow-writes" (round 7): writes that take longer than the library's own timers.
//
// Everything the other scenarios do completes within milliseconds, so a goroutine the library starts from a
// timer (Value.set's one second "GetAndUpdate took too long" alarm, hailpb's keep-alive collector started by
// time.AfterFunc) either never runs its body or runs it when nothing else is going on.  Here a fixed list of
// write calls — resource.Value, resource.Collection and trait models, each on an object of its own — is made
// with caller callbacks (WithExpectedCheck / InterceptBefore / InterceptAfter) that take their time: each
// holds the write open until the library's one second timers have fired (see hold), all cases concurrently,
// so the whole scenario costs little more than that second.  The messages handed to the calls are written
// while the call is open in every way the API documents: by the library itself (FieldUpdater.Merge filters
// its source under an update mask / the writable fields), by a delta InterceptBefore that adds the old value
// to the update, by an InterceptAfter that stamps the new value; callbacks read (marshal) everything they are
// given, before and after the wait.  The remaining goroutines meanwhile read / subscribe the same resources,
// and run a hail model whose keep-alive is a few milliseconds, so that its timer goroutine fires again and
// again between the calls that arm it.
//
// Every case is first run once with callbacks that do not wait (protobuf builds its per-type tables lazily
// under locks of its own on first use; that would order the goroutines of the very first call by accident).

import (
	"bytes"
	"context"
	"fmt"
	"log"
	"math/rand"
	"os"
	"path/filepath"
	"sync"
	"time"

	"google.golang.org/protobuf/proto"
	"google.golang.org/protobuf/types/known/timestamppb"

	"github.com/smart-core-os/sc-api/go/traits"
	"github.com/smart-core-os/sc-golang/pkg/resource"
	"github.com/smart-core-os/sc-golang/pkg/trait/electricpb"
	"github.com/smart-core-os/sc-golang/pkg/trait/hailpb"
	"github.com/smart-core-os/sc-golang/pkg/trait/onoffpb"
)

func init() {
	scope := []string{"resource.", "minibus.", "electricpb.", "onoffpb.", "hailpb.", "bus-shared:", "local:", "shared:", "arg:"}
	// "slow-writes": the held-open writes alone, every case on objects of its own.  The detector merges the
	// clocks of everything that ever fired a timer on the same P and of everything that marshalled the same
	// stored message (size cache), so with busy neighbours a write and a read one second apart are easily
	// "ordered" through third goroutines; alone, nothing orders them but what the library itself does.
	// "slow-writes-busy": the same writes while the other goroutines read, subscribe and write the same
	// resources and keep a timer-driven collector running.
	scenarios = append(scenarios,
		scenario{"slow-writes", 1, scope, func(w *wl) { wlSlowWrites(w, false) }},
		scenario{"slow-writes-busy", 1, scope, func(w *wl) { wlSlowWrites(w, true) }})
}

// slowHold keeps a callback waiting until the library's timers have had their say, WITHOUT synchronising
// with them as far as the race detector can see: the standard logger of the child process writes to a file,
// and a waiting callback looks at that file by path (fresh descriptor, plain system calls — no channel, no
// mutex, no atomic shared with the logging goroutine).  So whichever way an access of a timer-started
// goroutine and an access of the writing goroutine fall in time, nothing this workload does orders them.
type slowHold struct {
	path   string
	expect int           // log lines the slow cases are expected to produce at most (one alarm each)
	min    time.Duration // hold at least this long (the library's alarm is one second)
	max    time.Duration // and at most this long (the alarm may have been removed or renamed: no line then)
}

func (h *slowHold) wait() {
	t0 := time.Now()
	for {
		time.Sleep(25 * time.Millisecond)
		el := time.Since(t0)
		if el >= h.max {
			return
		}
		if el < h.min {
			continue
		}
		if b, err := os.ReadFile(h.path); err == nil && bytes.Count(b, []byte("\n")) >= h.expect {
			// the lines are written after their arguments have been formatted; a little more for the stragglers
			time.Sleep(50 * time.Millisecond)
			return
		}
	}
}

func wlSlowWrites(w *wl, busy bool) {
	dir, err := os.MkdirTemp("", "c11-slow")
	if err != nil {
		panic(err)
	}
	defer os.RemoveAll(dir)
	logf, err := os.Create(filepath.Join(dir, "log"))
	if err != nil {
		panic(err)
	}
	defer logf.Close()
	log.SetOutput(logf)
	log.SetFlags(0)
	hold := &slowHold{path: logf.Name(), min: 1150 * time.Millisecond, max: 2600 * time.Millisecond}

	demand := func(c, r float32, v float32) *traits.ElectricDemand {
		return &traits.ElectricDemand{Current: c, Rating: r, Voltage: &v}
	}
	// reads everything it is given, optionally waits, reads again
	reader := func(slow bool) func(old, msg proto.Message) {
		return func(old, msg proto.Message) {
			readMsg(old)
			readMsg(msg)
			if slow {
				hold.wait()
			}
			readMsg(old)
			readMsg(msg)
		}
	}
	check := func(slow bool) func(proto.Message) error {
		return func(old proto.Message) error {
			readMsg(old)
			if slow {
				hold.wait()
			}
			readMsg(old)
			return nil
		}
	}
	// the documented use of InterceptBefore: the update is a delta, the interceptor adds the stored value
	delta := func(slow bool) func(old, change proto.Message) {
		return func(old, change proto.Message) {
			o, c := old.(*traits.ElectricDemand), change.(*traits.ElectricDemand)
			c.Current += o.GetCurrent()
			if slow {
				hold.wait()
			}
			c.Rating = o.GetRating() + 1
			readMsg(change)
		}
	}
	// the documented use of InterceptAfter: stamp the new value
	stamp := func(slow bool) func(old, updated proto.Message) {
		return func(old, updated proto.Message) {
			readMsg(old)
			if slow {
				hold.wait()
			}
			if h, ok := updated.(*traits.Hail); ok {
				h.ArriveTime = timestamppb.Now()
			}
			if d, ok := updated.(*traits.ElectricDemand); ok {
				d.Rating++
			}
			readMsg(updated)
		}
	}

	vals := make([]*resource.Value, 5)
	for i := range vals {
		vals[i] = resource.NewValue(resource.WithInitialValue(demand(1, 13, 230)))
	}
	vals[4] = resource.NewValue(resource.WithInitialValue(demand(1, 13, 230)), resource.WithWritablePaths(&traits.ElectricDemand{}, "current", "rating"))
	coll := resource.NewCollection()
	for i := 0; i < 4; i++ {
		_, _ = coll.Add(fmt.Sprint("h", i), &traits.Hail{Id: fmt.Sprint("h", i), Origin: &traits.Hail_Location{Name: "n"}, State: traits.Hail_CALLED})
	}
	onoff := onoffpb.NewModel()
	electric := electricpb.NewModel()
	_, _ = electric.UpdateDemand(demand(1, 13, 230))

	type slowCase struct {
		name   string
		alarms int // how many Value.set calls it holds open
		run    func(slow bool)
	}
	cases := []slowCase{
		{"value/update-mask/slow-after", 1, func(slow bool) {
			// the mask leaves out populated fields of the update: Merge clears them in the caller's message
			m := demand(2, 14, 231)
			res, _ := vals[0].Set(m, resource.WithUpdatePaths("current"), resource.InterceptAfter(reader(slow)))
			readMsg(res)
			m.Current++ // the message is the caller's again
		}},
		{"value/delta-before", 1, func(slow bool) {
			m := demand(2, 13, 230)
			res, _ := vals[1].Set(m, resource.InterceptBefore(delta(slow)))
			readMsg(res)
			m.Current++
		}},
		{"value/slow-check/update-mask", 1, func(slow bool) {
			// the library's own write into the update (Merge) comes after the wait here
			m := demand(3, 15, 232)
			res, _ := vals[2].Set(m, resource.WithExpectedCheck(check(slow)), resource.WithUpdatePaths("rating"), resource.InterceptAfter(stamp(false)))
			readMsg(res)
			m.Current++
		}},
		{"value/reset-mask/stamp-after", 1, func(slow bool) {
			m := demand(4, 16, 233)
			res, _ := vals[3].Set(m, resource.WithUpdatePaths("current", "voltage"), resource.WithResetPaths("rating"), resource.InterceptBefore(reader(false)), resource.InterceptAfter(stamp(slow)))
			readMsg(res)
			m.Current++
		}},
		{"value/writable-fields/delta-before", 1, func(slow bool) {
			// voltage is not writable: Merge clears it in the caller's message
			m := demand(5, 17, 234)
			res, _ := vals[4].Set(m, resource.InterceptBefore(delta(slow)))
			readMsg(res)
			m.Current++
		}},
		{"collection/update/slow-before", 0, func(slow bool) {
			m := &traits.Hail{Id: "h0", State: traits.Hail_BOARDING, Origin: &traits.Hail_Location{Name: "o"}, Destination: &traits.Hail_Location{Name: "d"}}
			res, _ := coll.Update("h0", m, resource.WithUpdatePaths("destination"), resource.InterceptBefore(reader(slow)))
			readMsg(res)
			m.State = traits.Hail_DEPARTED
		}},
		{"collection/update/stamp-after", 0, func(slow bool) {
			m := &traits.Hail{Id: "h1", Origin: &traits.Hail_Location{Name: "slow"}, State: traits.Hail_ARRIVED}
			res, _ := coll.Update("h1", m, resource.WithUpdatePaths("origin", "state"), resource.WithExpectedCheck(check(false)), resource.InterceptAfter(stamp(slow)))
			readMsg(res)
			m.State = traits.Hail_DEPARTED
		}},
		{"collection/create/slow-check", 0, func(slow bool) {
			id := fmt.Sprint("new", slow)
			m := &traits.Hail{Id: id, Origin: &traits.Hail_Location{Name: "created"}}
			res, _ := coll.Update(id, m, resource.WithCreateIfAbsent(), resource.WithExpectedCheck(check(slow)), resource.WithCreatedCallback(func() { use(1) }))
			readMsg(res)
			m.State = traits.Hail_DEPARTED
		}},
		{"collection/delete/slow-check", 0, func(slow bool) {
			id := "h2"
			if slow {
				id = "h3"
			}
			res, _ := coll.Delete(id, resource.WithAllowMissing(true), resource.WithExpectedCheck(check(slow)))
			readMsg(res)
		}},
		{"onoffpb/slow-before", 1, func(slow bool) {
			m := &traits.OnOff{State: traits.OnOff_ON}
			res, _ := onoff.UpdateOnOff(m, resource.InterceptBefore(reader(slow)))
			readMsg(res)
			m.State = traits.OnOff_OFF
		}},
		{"electricpb/update-mask/slow-after", 1, func(slow bool) {
			m := demand(6, 18, 235)
			res, _ := electric.UpdateDemand(m, resource.WithUpdatePaths("current"), resource.InterceptAfter(stamp(slow)))
			readMsg(res)
			m.Current++
		}},
	}
	for _, c := range cases {
		hold.expect += c.alarms
	}
	run := func(c slowCase, slow bool) {
		defer func() {
			if r := recover(); r != nil {
				panics.Add(1)
				if os.Getenv("C11_DEBUG_PANIC") != "" {
					fmt.Println("WORKER-PANIC", c.name, r)
				}
			}
		}()
		c.run(slow)
	}
	// first use of every code path and message type, quickly
	for _, c := range cases {
		run(c, false)
	}

	done := make(chan struct{})
	var wg sync.WaitGroup
	for _, c := range cases {
		wg.Add(1)
		go func(c slowCase) {
			defer wg.Done()
			run(c, true)
		}(c)
	}
	go func() { wg.Wait(); close(done) }()

	// the hail model's collector is started by time.AfterFunc: with a keep-alive of a few milliseconds it fires
	// between (and during) the calls below
	hm := hailpb.NewModel(hailpb.WithKeepAlive(3 * time.Millisecond))
	bg := context.Background()
	if !busy {
		w.g = 0
	}
	w.par(func(id int, rng *rand.Rand) {
		for i := 0; time.Now().Before(w.deadline); i++ {
			select {
			case <-done:
				return
			default:
			}
			ctx, cancel := context.WithTimeout(bg, time.Duration(rng.Intn(5)+1)*time.Millisecond)
			switch rng.Intn(10) {
			case 0, 1:
				readMsg(vals[rng.Intn(len(vals))].Get())
			case 2:
				drain(ctx, vals[rng.Intn(len(vals))].Pull(ctx, resource.WithUpdatesOnly(rng.Intn(2) == 0)), 5, func(c *resource.ValueChange) { readMsg(c.Value) })
			case 3:
				for _, m := range coll.List() {
					readMsg(m)
				}
				if m, ok := coll.Get(fmt.Sprint("h", rng.Intn(4))); ok {
					readMsg(m)
				}
			case 4:
				drain(ctx, coll.Pull(ctx), 8, func(c *resource.CollectionChange) { readMsg(c.OldValue); readMsg(c.NewValue) })
			case 5:
				res, _ := onoff.GetOnOff()
				readMsg(res)
				readMsg(electric.Demand())
			case 6:
				h, err := hm.CreateHail(&traits.Hail{Origin: &traits.Hail_Location{Name: fmt.Sprint(id, i)}, ArriveTime: timestamppb.New(time.Now().Add(-time.Second))})
				readMsg(h)
				if err == nil && rng.Intn(2) == 0 {
					_, _ = hm.DeleteHail(h.Id, resource.WithAllowMissing(true))
				}
			case 7:
				for _, h := range hm.ListHails() {
					readMsg(h)
				}
			case 8:
				drain(ctx, hm.PullHails(ctx), 8, func(c hailpb.HailsChange) { readMsg(c.NewValue); readMsg(c.OldValue) })
			default:
				// an ordinary quick write next to the slow ones (the slow write on the same value then ends Aborted)
				m := demand(float32(i), 13, 230)
				res, _ := vals[rng.Intn(len(vals))].Set(m, resource.WithUpdatePaths("current", "rating"), resource.InterceptBefore(reader(false)))
				readMsg(res)
				m.Current++
			}
			cancel()
			time.Sleep(time.Duration(rng.Intn(3)+1) * time.Millisecond)
		}
	})
	select {
	case <-done:
	case <-time.After(20 * time.Second):
		fmt.Println("WORKLOAD-TIMEOUT")
	}
	if b, err := os.ReadFile(hold.path); err == nil {
		// for the reader of the child's output: how many lines the library logged while the writes were held open
		fmt.Printf("SLOW-WRITES cases=%d expected-alarms=%d logged-lines=%d\n", len(cases), hold.expect, bytes.Count(b, []byte("\n")))
		if os.Getenv("C11_DEBUG_PANIC") != "" {
			fmt.Print(string(b))
		}
	}
}
