package main

// Lent arguments read on a goroutine the callee starts (`arg:` rows, round 7).
//
// A message, mask or slice a caller hands to the library stays the caller's: it may rewrite it as soon as the
// call returns, its interceptors are documented to modify the update while the call runs, and the library itself
// filters the update in place (masks.FieldUpdater.Merge) on the calling goroutine.  So any goroutine the callee
// starts — a `go` literal, or a literal handed to time.AfterFunc / context.AfterFunc — that uses such an
// argument reads memory it shares with its owner with nothing to order the two.  For every exported function
// F with a lendable parameter p that reaches such a goroutine the table gets the pair
//
//     R arg:<F>.<p> in <spawning function>/go under {} live
//     W arg:<F>.<p> in caller:owner         under {} live, single-goroutine role (the owner is one goroutine)
//
// which conflicts and is unordered: the discipline fails until the goroutine is given a copy (proto.Clone,
// a formatted string, a cloned slice) made on the calling goroutine.
//
// What is seen (syntactic, per package):
//
//   * lendable parameter types: proto.Message, any / interface{}, a pointer to a type of a package outside
//     this module (generated messages, field masks), []string, []byte, and slices / variadics of those.
//     Contexts, channels, function values, option types and pointers to this module's own types (objects with
//     a locking discipline of their own, rows of their own) are not lendable.
//   * "reaches a goroutine": the parameter is mentioned inside a spawned literal of the function's own body,
//     or an expression rooted at it (selectors, indices, dereferences, slices, type assertions, `xs...`) is an
//     argument of a package-local callee at a position that reaches a goroutine (fixpoint).
//   * not seen: hand-over through a struct field, a channel or a returned closure; a goroutine that is joined
//     before the function returns while nothing writes the argument is still reported (none on the unchanged
//     tree).  On the unchanged tree no lendable parameter reaches a goroutine: there is no such row.

import (
	"go/ast"
	"go/types"
	"sort"
	"strings"
)

func (pa *pkgAn) lendableType(e ast.Expr) bool {
	switch x := e.(type) {
	case *ast.Ellipsis:
		return pa.lendableType(x.Elt)
	case *ast.ArrayType:
		if x.Len != nil {
			return false
		}
		if id, ok := x.Elt.(*ast.Ident); ok && (id.Name == "string" || id.Name == "byte") {
			return true
		}
		return pa.lendableType(x.Elt)
	case *ast.InterfaceType:
		return x.Methods == nil || len(x.Methods.List) == 0
	case *ast.Ident:
		return x.Name == "any"
	case *ast.SelectorExpr:
		id, ok := x.X.(*ast.Ident)
		if !ok {
			return false
		}
		pn, ok := pa.info.Uses[id].(*types.PkgName)
		return ok && strings.HasSuffix(pn.Imported().Path(), "/protobuf/proto") && x.Sel.Name == "Message"
	case *ast.StarExpr:
		se, ok := x.X.(*ast.SelectorExpr)
		if !ok {
			return false
		}
		id, ok := se.X.(*ast.Ident)
		if !ok {
			return false
		}
		pn, ok := pa.info.Uses[id].(*types.PkgName)
		if !ok {
			return false
		}
		p := pn.Imported().Path()
		return !strings.HasPrefix(p, modPrefix) && strings.Contains(p, ".") // a module path, not the standard library
	}
	return false
}

type lentParam struct {
	obj      types.Object
	name     string
	idx      int
	variadic bool
}

func (pa *pkgAn) lentParams(fd *ast.FuncDecl) []lentParam {
	var out []lentParam
	if fd.Type.Params == nil {
		return nil
	}
	i := 0
	for _, fl := range fd.Type.Params.List {
		_, variadic := fl.Type.(*ast.Ellipsis)
		names := fl.Names
		if len(names) == 0 {
			i++
			continue
		}
		for _, n := range names {
			if o := pa.info.Defs[n]; o != nil && n.Name != "_" && pa.lendableType(fl.Type) {
				out = append(out, lentParam{o, n.Name, i, variadic})
			}
			i++
		}
	}
	return out
}

// rootOf: the identifier an argument expression is rooted at
func rootOf(e ast.Expr) *ast.Ident {
	for {
		switch x := e.(type) {
		case *ast.Ident:
			return x
		case *ast.ParenExpr:
			e = x.X
		case *ast.SelectorExpr:
			e = x.X
		case *ast.IndexExpr:
			e = x.X
		case *ast.SliceExpr:
			e = x.X
		case *ast.StarExpr:
			e = x.X
		case *ast.TypeAssertExpr:
			e = x.X
		case *ast.UnaryExpr:
			e = x.X
		default:
			return nil
		}
	}
}

type lentHit struct {
	spawner string // label of the function whose goroutine reads the argument
	pos     string // where the goroutine mentions it
}

func (pa *pkgAn) lentRows() (rows []*Row, notes []string) {
	type key struct {
		fn  *types.Func
		idx int
	}
	reach := map[key]lentHit{}
	var fns []*types.Func
	for fn := range pa.decls {
		fns = append(fns, fn)
	}
	sort.Slice(fns, func(i, j int) bool { return pa.decls[fns[i]].Pos() < pa.decls[fns[j]].Pos() })
	params := map[*types.Func][]lentParam{}
	for _, fn := range fns {
		if fd := pa.decls[fn]; fd.Body != nil {
			params[fn] = pa.lentParams(fd)
		}
	}
	// direct: the parameter is mentioned in a literal the function spawns
	for _, fn := range fns {
		fd := pa.decls[fn]
		if fd.Body == nil || len(params[fn]) == 0 {
			continue
		}
		var lits []*ast.FuncLit
		ast.Inspect(fd.Body, func(n ast.Node) bool {
			switch x := n.(type) {
			case *ast.GoStmt:
				if fl, ok := x.Call.Fun.(*ast.FuncLit); ok {
					lits = append(lits, fl)
				}
			case *ast.CallExpr:
				if f := pa.timerSpawn(x); f != nil {
					if fl, ok := f.(*ast.FuncLit); ok {
						lits = append(lits, fl)
					}
				}
			}
			return true
		})
		for _, fl := range lits {
			ast.Inspect(fl.Body, func(n ast.Node) bool {
				id, ok := n.(*ast.Ident)
				if !ok {
					return true
				}
				o := pa.info.Uses[id]
				for _, p := range params[fn] {
					if p.obj == o {
						if _, done := reach[key{fn, p.idx}]; !done {
							reach[key{fn, p.idx}] = lentHit{pa.label(fn), pa.pos(id)}
						}
					}
				}
				return true
			})
		}
	}
	// transitive: an expression rooted at the parameter is handed to a callee position that reaches a goroutine
	for changed := true; changed; {
		changed = false
		for _, fn := range fns {
			fd := pa.decls[fn]
			if fd.Body == nil || len(params[fn]) == 0 {
				continue
			}
			ast.Inspect(fd.Body, func(n ast.Node) bool {
				call, ok := n.(*ast.CallExpr)
				if !ok {
					return true
				}
				callee := pa.calleeOf(call)
				if callee == nil {
					return true
				}
				sig, _ := callee.Type().(*types.Signature)
				if sig == nil {
					return true
				}
				for ai, a := range call.Args {
					pi := ai
					if sig.Variadic() && pi >= sig.Params().Len()-1 {
						pi = sig.Params().Len() - 1
					}
					hit, ok := reach[key{callee, pi}]
					if !ok {
						continue
					}
					id := rootOf(a)
					if id == nil {
						continue
					}
					o := pa.info.Uses[id]
					for _, p := range params[fn] {
						if p.obj == o {
							if _, done := reach[key{fn, p.idx}]; !done {
								reach[key{fn, p.idx}] = hit
								changed = true
							}
						}
					}
				}
				return true
			})
		}
	}
	ownerRole := 2000 // the owner of one argument is one goroutine: its writes are ordered with each other
	for _, fn := range fns {
		if !fn.Exported() {
			continue
		}
		for _, p := range params[fn] {
			hit, ok := reach[key{fn, p.idx}]
			if !ok {
				continue
			}
			field := "arg:" + pa.label(fn) + "." + p.name
			rows = append(rows,
				&Row{Field: field, Kind: "R", Fn: hit.spawner + "/go", Phase: "live", Pos: []string{hit.pos}},
				&Row{Field: field, Kind: "W", Fn: "caller:owner", Phase: "live", Role: ownerRole, Pos: []string{pa.pos(pa.decls[fn].Name)}})
			ownerRole++
			notes = append(notes, "caller-owned argument read on a goroutine the callee starts: "+field+" @ "+hit.pos)
		}
	}
	return rows, notes
}
