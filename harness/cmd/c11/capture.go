package main

// Captured local variables shared between goroutines.
//
// For every function that starts goroutines with `go func(){…}()`, the local variables (and parameters)
// of the function that a goroutine literal mentions are shared between the spawning goroutine and the
// spawned ones.  This pass classifies every mention:
//
//   - in the spawner, textually before the `go` statement (and, when the `go` sits in a loop that does
//     not declare the variable, before that loop): ordered by the `go` statement  -> phase init;
//   - in the spawner, after a join: `wg.Wait()` on a WaitGroup the literal calls Done on, a receive
//     from / the end of a `for range` over a channel the literal closes                -> phase init;
//   - everything else is live: rows `local:<pkg.Func>.<var>` with the local mutexes held at that point
//     (`mu.Lock()` … `mu.Unlock()` / `defer mu.Unlock()` on a local sync.Mutex/RWMutex);
//   - a goroutine literal that is started once (not in a loop relative to the variable) is one
//     goroutine: its rows carry a role of their own, so they do not conflict with themselves;
//   - `v[i] = x` in a literal where `i` is the literal's own variable / parameter or a per-iteration copy
//     is a write to a distinct element per goroutine: noted, not a row of `v`.
//
// Rows are emitted only for variables that have a live write; for the others a note says what is
// shared and why it needs no ordering (read-only after the spawn, or only synchronisation objects).

import (
	"fmt"
	"go/ast"
	"go/token"
	"go/types"
	"sort"
	"strings"
)

type capAccess struct {
	v     *types.Var
	kind  string // R | W | Widx (distinct element)
	where int    // -1 spawner, k>=0 literal index
	pos   token.Pos
	held  []HeldLock
	node  ast.Node
}

func (pa *pkgAn) captureRows() (rows []*Row, notes []string) {
	var fns []*types.Func
	for fn := range pa.decls {
		fns = append(fns, fn)
	}
	sort.Slice(fns, func(i, j int) bool { return pa.decls[fns[i]].Pos() < pa.decls[fns[j]].Pos() })
	roleSeq := 1000
	for _, fn := range fns {
		fd := pa.decls[fn]
		var gos []*ast.GoStmt
		ast.Inspect(fd.Body, func(n ast.Node) bool {
			if g, ok := n.(*ast.GoStmt); ok {
				if _, isLit := g.Call.Fun.(*ast.FuncLit); isLit {
					gos = append(gos, g)
				}
			}
			// a literal handed to time.AfterFunc / context.AfterFunc runs on a goroutine of its own
			if ce, ok := n.(*ast.CallExpr); ok {
				if f := pa.timerSpawn(ce); f != nil {
					if _, isLit := f.(*ast.FuncLit); isLit {
						gos = append(gos, timerGo(ce, f))
					}
				}
			}
			return true
		})
		if len(gos) == 0 {
			continue
		}
		lits := make([]*ast.FuncLit, len(gos))
		for i, g := range gos {
			lits[i] = g.Call.Fun.(*ast.FuncLit)
		}
		inLit := func(p token.Pos) int {
			best := -1
			for i, l := range lits {
				if p >= l.Pos() && p < l.End() {
					if best < 0 || l.Pos() > lits[best].Pos() {
						best = i
					}
				}
			}
			return best
		}
		// loops of the function, to decide whether a literal is started more than once
		var loops []ast.Node
		ast.Inspect(fd.Body, func(n ast.Node) bool {
			switch n.(type) {
			case *ast.ForStmt, *ast.RangeStmt:
				loops = append(loops, n)
			}
			return true
		})
		// loop relevant for variable v and go statement g: the outermost loop containing g that does not contain v's declaration
		loopFor := func(g *ast.GoStmt, v *types.Var) ast.Node {
			var out ast.Node
			for _, l := range loops {
				if g.Pos() >= l.Pos() && g.End() <= l.End() && !(v.Pos() >= l.Pos() && v.Pos() < l.End()) {
					if out == nil || l.Pos() < out.Pos() {
						out = l
					}
				}
			}
			return out
		}
		isLocalMutex := func(o types.Object) bool {
			v, ok := o.(*types.Var)
			if !ok || v.Pos() < fd.Pos() || v.Pos() >= fd.End() {
				return false
			}
			found := false
			ast.Inspect(fd, func(n ast.Node) bool {
				if vs, ok := n.(*ast.ValueSpec); ok {
					for _, nm := range vs.Names {
						if pa.info.Defs[nm] == v && vs.Type != nil {
							if m, _ := isSyncMutex(vs.Type); m {
								found = true
							}
						}
					}
				}
				return !found
			})
			return found
		}
		var accs []capAccess
		// in-order walk tracking local mutexes
		var walkStmts func(list []ast.Stmt, held map[string]string)
		var walkNode func(n ast.Node, held map[string]string)
		cp := func(h map[string]string) map[string]string {
			n := map[string]string{}
			for k, v := range h {
				n[k] = v
			}
			return n
		}
		mention := func(id *ast.Ident, kind string, held map[string]string, node ast.Node) {
			v, ok := pa.info.Uses[id].(*types.Var)
			if !ok || v.IsField() || v.Pos() < fd.Pos() || v.Pos() >= fd.End() {
				return
			}
			var hl []HeldLock
			for k, m := range held {
				hl = append(hl, HeldLock{"local:" + pa.label(fn) + "." + k, m})
			}
			sort.Slice(hl, func(i, j int) bool { return hl[i].Lock < hl[j].Lock })
			accs = append(accs, capAccess{v: v, kind: kind, where: inLit(id.Pos()), pos: id.Pos(), held: hl, node: node})
		}
		var walkExprC func(e ast.Expr, held map[string]string)
		walkExprC = func(e ast.Expr, held map[string]string) {
			ast.Inspect(e, func(n ast.Node) bool {
				switch x := n.(type) {
				case *ast.FuncLit:
					// a literal starts with the locks of its definition point only if called synchronously; a `go`
					// literal starts with none
					h := cp(held)
					for i, l := range lits {
						if l == x {
							_ = i
							h = map[string]string{}
						}
					}
					walkStmts(x.Body.List, h)
					return false
				case *ast.SelectorExpr:
					walkExprC(x.X, held)
					return false
				case *ast.KeyValueExpr:
					walkExprC(x.Value, held)
					return false
				case *ast.Ident:
					mention(x, "R", held, x)
				}
				return true
			})
		}
		lockOp := func(s ast.Stmt) (name, op string) {
			es, ok := s.(*ast.ExprStmt)
			if !ok {
				return "", ""
			}
			ce, ok := es.X.(*ast.CallExpr)
			if !ok || len(ce.Args) != 0 {
				return "", ""
			}
			se, ok := ce.Fun.(*ast.SelectorExpr)
			if !ok {
				return "", ""
			}
			id, ok := se.X.(*ast.Ident)
			if !ok || !isLocalMutex(pa.info.Uses[id]) {
				return "", ""
			}
			switch se.Sel.Name {
			case "Lock", "RLock", "Unlock", "RUnlock":
				return id.Name, se.Sel.Name
			}
			return "", ""
		}
		walkLHS := func(l ast.Expr, held map[string]string, opAssign bool, node ast.Node) {
			switch x := l.(type) {
			case *ast.Ident:
				mention(x, "W", held, node)
				if opAssign {
					mention(x, "R", held, node)
				}
			case *ast.IndexExpr:
				walkExprC(x.Index, held)
				if id, ok := x.X.(*ast.Ident); ok {
					kind := "W"
					if ii, ok := x.Index.(*ast.Ident); ok {
						if iv, ok := pa.info.Uses[ii].(*types.Var); ok {
							k := inLit(id.Pos())
							// the index is the literal's own variable/parameter, or declared in the loop body that spawns it
							if k >= 0 && iv.Pos() >= lits[k].Pos() && iv.Pos() < lits[k].End() {
								kind = "Widx"
							} else if k >= 0 {
								if l := loopFor(gos[k], iv); l == nil {
									for _, lp := range loops {
										if gos[k].Pos() >= lp.Pos() && gos[k].End() <= lp.End() && iv.Pos() >= lp.Pos() && iv.Pos() < lp.End() {
											kind = "Widx"
										}
									}
								}
							}
						}
					}
					mention(id, kind, held, node)
				} else {
					walkExprC(x.X, held)
				}
			default:
				walkExprC(l, held)
			}
		}
		walkNode = func(n ast.Node, held map[string]string) {
			switch x := n.(type) {
			case nil:
			case *ast.BlockStmt:
				walkStmts(x.List, cp(held))
			case *ast.AssignStmt:
				for _, r := range x.Rhs {
					walkExprC(r, held)
				}
				for _, l := range x.Lhs {
					if x.Tok == token.DEFINE {
						if id, ok := l.(*ast.Ident); ok && pa.info.Defs[id] != nil {
							continue
						}
					}
					walkLHS(l, held, x.Tok != token.ASSIGN && x.Tok != token.DEFINE, x)
				}
			case *ast.IncDecStmt:
				walkLHS(x.X, held, true, x)
			case *ast.ExprStmt:
				walkExprC(x.X, held)
			case *ast.SendStmt:
				walkExprC(x.Chan, held)
				walkExprC(x.Value, held)
			case *ast.GoStmt:
				for _, a := range x.Call.Args {
					walkExprC(a, held)
				}
				if fl, ok := x.Call.Fun.(*ast.FuncLit); ok {
					walkStmts(fl.Body.List, map[string]string{})
				} else {
					walkExprC(x.Call.Fun, held)
				}
			case *ast.DeferStmt:
				if fl, ok := x.Call.Fun.(*ast.FuncLit); ok {
					walkStmts(fl.Body.List, cp(held))
				} else {
					walkExprC(x.Call, held)
				}
			case *ast.ReturnStmt:
				for _, r := range x.Results {
					walkExprC(r, held)
				}
			case *ast.IfStmt:
				h := cp(held)
				if x.Init != nil {
					walkNode(x.Init, h)
				}
				walkExprC(x.Cond, h)
				walkNode(x.Body, h)
				if x.Else != nil {
					walkNode(x.Else, h)
				}
			case *ast.ForStmt:
				h := cp(held)
				if x.Init != nil {
					walkNode(x.Init, h)
				}
				if x.Cond != nil {
					walkExprC(x.Cond, h)
				}
				if x.Post != nil {
					walkNode(x.Post, h)
				}
				walkNode(x.Body, h)
			case *ast.RangeStmt:
				walkExprC(x.X, held)
				if x.Tok == token.ASSIGN {
					if x.Key != nil {
						walkLHS(x.Key, held, false, x)
					}
					if x.Value != nil {
						walkLHS(x.Value, held, false, x)
					}
				}
				walkNode(x.Body, held)
			case *ast.SwitchStmt:
				h := cp(held)
				if x.Init != nil {
					walkNode(x.Init, h)
				}
				if x.Tag != nil {
					walkExprC(x.Tag, h)
				}
				walkNode(x.Body, h)
			case *ast.TypeSwitchStmt:
				h := cp(held)
				if x.Init != nil {
					walkNode(x.Init, h)
				}
				walkNode(x.Assign, h)
				walkNode(x.Body, h)
			case *ast.SelectStmt:
				walkNode(x.Body, held)
			case *ast.CaseClause:
				for _, e := range x.List {
					walkExprC(e, held)
				}
				walkStmts(x.Body, cp(held))
			case *ast.CommClause:
				h := cp(held)
				if x.Comm != nil {
					walkNode(x.Comm, h)
				}
				walkStmts(x.Body, h)
			case *ast.LabeledStmt:
				walkNode(x.Stmt, held)
			case *ast.DeclStmt:
				if gd, ok := x.Decl.(*ast.GenDecl); ok {
					for _, sp := range gd.Specs {
						if vs, ok := sp.(*ast.ValueSpec); ok {
							for _, v := range vs.Values {
								walkExprC(v, held)
							}
						}
					}
				}
			}
		}
		walkStmts = func(list []ast.Stmt, held map[string]string) {
			for _, s := range list {
				if name, op := lockOp(s); name != "" {
					switch op {
					case "Lock":
						held[name] = "X"
					case "RLock":
						held[name] = "R"
					default:
						delete(held, name)
					}
					continue
				}
				if ds, ok := s.(*ast.DeferStmt); ok {
					if n, _ := lockOp(&ast.ExprStmt{X: ds.Call}); n != "" {
						continue
					}
				}
				walkNode(s, held)
			}
		}
		walkStmts(fd.Body.List, map[string]string{})

		// which variables do the literals mention
		captured := map[*types.Var]map[int]bool{}
		for _, a := range accs {
			if a.where >= 0 && !(a.v.Pos() >= lits[a.where].Pos() && a.v.Pos() < lits[a.where].End()) {
				if captured[a.v] == nil {
					captured[a.v] = map[int]bool{}
				}
				captured[a.v][a.where] = true
			}
		}
		if len(captured) == 0 {
			continue
		}
		// joins: wg.Wait() / channel completion, per literal
		joinPos := func(k int) token.Pos {
			lit := lits[k]
			done := map[types.Object]bool{}   // WaitGroups the literal calls Done on
			closed := map[types.Object]bool{} // channels the literal closes
			ast.Inspect(lit, func(n ast.Node) bool {
				if ce, ok := n.(*ast.CallExpr); ok {
					if se, ok := ce.Fun.(*ast.SelectorExpr); ok && se.Sel.Name == "Done" {
						if id, ok := se.X.(*ast.Ident); ok {
							done[pa.info.Uses[id]] = true
						}
					}
					if id, ok := ce.Fun.(*ast.Ident); ok && id.Name == "close" && len(ce.Args) == 1 {
						if a, ok := ce.Args[0].(*ast.Ident); ok {
							closed[pa.info.Uses[a]] = true
						}
					}
				}
				return true
			})
			best := token.NoPos
			ast.Inspect(fd.Body, func(n ast.Node) bool {
				if n == nil || (n.Pos() >= lit.Pos() && n.Pos() < lit.End()) {
					return n != nil && n != ast.Node(lit)
				}
				if inLit(n.Pos()) >= 0 || n.Pos() < gos[k].End() {
					return true
				}
				var p token.Pos
				switch x := n.(type) {
				case *ast.CallExpr:
					if se, ok := x.Fun.(*ast.SelectorExpr); ok && se.Sel.Name == "Wait" {
						if id, ok := se.X.(*ast.Ident); ok && done[pa.info.Uses[id]] {
							p = x.End()
						}
					}
				case *ast.RangeStmt:
					if id, ok := x.X.(*ast.Ident); ok && closed[pa.info.Uses[id]] {
						p = x.End()
					}
				}
				if p != token.NoPos && (best == token.NoPos || p < best) {
					best = p
				}
				return true
			})
			return best
		}
		joins := make([]token.Pos, len(lits))
		for k := range lits {
			joins[k] = joinPos(k)
		}
		var names []string
		var vars []*types.Var
		for v := range captured {
			vars = append(vars, v)
		}
		sort.Slice(vars, func(i, j int) bool { return vars[i].Pos() < vars[j].Pos() })
		fnLabel := pa.label(fn)
		litRole := map[int]int{}
		for _, v := range vars {
			ks := captured[v]
			var mine []capAccess
			for _, a := range accs {
				if a.v == v {
					mine = append(mine, a)
				}
			}
			phaseOf := func(a capAccess) string {
				if a.where >= 0 {
					return "live"
				}
				// spawner: before every spawn that captures v, or after the joins of all of them
				before, after := true, true
				for k := range ks {
					start := gos[k].Pos()
					if l := loopFor(gos[k], v); l != nil {
						start = l.Pos()
					}
					if a.pos >= start {
						before = false
					}
					if joins[k] == token.NoPos || a.pos < joins[k] {
						after = false
					}
				}
				if before || after {
					return "init"
				}
				return "live"
			}
			liveW := false
			var widx []string
			for _, a := range mine {
				if a.kind == "Widx" {
					widx = append(widx, pa.pos(a.node))
				}
				if a.kind == "W" && phaseOf(a) == "live" {
					liveW = true
				}
			}
			desc := v.Name()
			if len(widx) > 0 {
				desc += " (elements written at per-goroutine indices: " + strings.Join(widx, ",") + ")"
			}
			if !liveW {
				names = append(names, desc)
				continue
			}
			names = append(names, desc+" [rows]")
			for _, a := range mine {
				if a.kind == "Widx" {
					continue
				}
				r := &Row{Field: "local:" + fnLabel + "." + v.Name(), Kind: a.kind, Fn: fnLabel, Held: a.held, Phase: phaseOf(a), Pos: []string{pa.pos(a.node)}}
				if a.where >= 0 {
					r.Fn = fmt.Sprintf("%s/go#%d", fnLabel, a.where+1)
					if loopFor(gos[a.where], v) == nil {
						// started once with respect to v: one goroutine
						if litRole[a.where] == 0 {
							roleSeq++
							litRole[a.where] = roleSeq
						}
						r.Role = litRole[a.where]
					}
				}
				rows = append(rows, r)
			}
		}
		notes = append(notes, fmt.Sprintf("goroutines of %s share the locals {%s}; those not marked [rows] are not written after the spawn (read-only copies, channels, WaitGroups, contexts)", fnLabel, strings.Join(names, ", ")))
	}
	// merge identical rows
	seen := map[string]*Row{}
	var out []*Row
	for _, r := range rows {
		k := r.semKey()
		if o, ok := seen[k]; ok {
			o.Pos = appendUniq(o.Pos, r.Pos[0])
			continue
		}
		seen[k] = r
		out = append(out, r)
	}
	return out, notes
}
