package main

// `published:` locations — the CONTENTS of the proto messages a resource stores and hands out by
// pointer.  An unmasked Get/List and every Pull event return the stored message itself (FilterClone is
// the identity without a mask), interceptors get the stored message as `old`: all those callers, and
// every consumer of an event, read it with no lock.  That is safe exactly as long as nobody writes
// into such a message once it is stored (C07).  This pass makes that part of the table:
//
//   - sources ("may point to a live stored/published message"): `X.Get(…)`, an element of `X.List(…)`,
//     the Value/NewValue/OldValue of an event received from `X.Pull(…)`/`X.PullID(…)`, where X is a struct
//     field of type *resource.Value / *resource.Collection; a struct field of type proto.Message of a
//     tracked type (Value.value, item.body); the first parameter of a function shaped like
//     resource.UpdateInterceptor / resource.ChangeFn (two proto.Message parameters: `old` is the stored
//     message); the result of a package-local function that returns one of these;
//   - it flows through local variables, type assertions, selectors (a sub-message of a published
//     message is published), indexing and ranging; proto.Clone and every other call yield a fresh value;
//   - sinks (writes into the message): assignment / inc-dec through a selector or index whose container
//     is such a message, proto.Merge / proto.Reset / x.Reset() / a callee named Filter|Merge|Reset with
//     the message as first argument, sort.* on one of its fields, and a package-local function that does
//     one of these to the parameter the message is passed in (parameter summaries, to a fixpoint).
//
// Every sink is a row `W published:<source> … under {} live`; every source location gets one synthetic
// reader row `R published:<source> in caller:consumer under {} live` (the caller that reads what it was
// given).  On a library that keeps C07 the write rows do not exist and the locations are frozen
// (Lean: `frozenIn`, `C11_published_readers_free`); a write row is unordered with the consumer row
// (`C11_published_write_refutes`) and is reported by the lockset monitor with both code sites.
//
// The pass is flow-insensitive per function (a variable that ever holds a published message is one),
// which errs on the side of reporting; it does not see writes through reflection, through a message
// stored in a struct field and fetched elsewhere, or in other repositories' code.

import (
	"go/ast"
	"go/token"
	"go/types"
	"sort"
	"strconv"
	"strings"
)

type pubKind int

const (
	pkNone pubKind = iota
	pkChan
	pkEvent
	pkSlice
	pkMsg
)

type pubTaint struct {
	kind  pubKind
	label string // "published:<pkg.Type.field>" or "param:<i>"
}

func (t pubTaint) ok() bool { return t.kind != pkNone }

type pubSummary struct {
	ret    pubTaint       // what result 0 may be
	writes map[int]string // parameter index -> position of a write through it
}

type pubAn struct {
	pa       *pkgAn
	resField map[*types.Var]string // struct fields of type *resource.Value / *resource.Collection / resource-local Value/Collection
	msgField map[*types.Var]string // struct fields of type proto.Message
	sums     map[*types.Func]*pubSummary
	rows     map[string]*Row
	sources  map[string]string // label -> position of the declaration / first use
	changed  bool
	oldParam map[*types.Func]string // package-local functions used as interceptors: label of their first parameter
}

func isSel(e ast.Expr, pkg, name string) bool {
	if st, ok := e.(*ast.StarExpr); ok {
		e = st.X
	}
	se, ok := e.(*ast.SelectorExpr)
	if !ok {
		return false
	}
	id, ok := se.X.(*ast.Ident)
	return ok && id.Name == pkg && se.Sel.Name == name
}

func isProtoMessage(e ast.Expr) bool { return isSel(e, "proto", "Message") }

func (pa *pkgAn) publishedRows() (rows []*Row, notes []string) {
	pu := &pubAn{pa: pa, resField: map[*types.Var]string{}, msgField: map[*types.Var]string{}, sums: map[*types.Func]*pubSummary{}, rows: map[string]*Row{}, sources: map[string]string{}, oldParam: map[*types.Func]string{}}
	// struct fields that hold resources / messages
	for _, f := range pa.files {
		for _, d := range f.Decls {
			gd, ok := d.(*ast.GenDecl)
			if !ok || gd.Tok != token.TYPE {
				continue
			}
			for _, sp := range gd.Specs {
				ts := sp.(*ast.TypeSpec)
				st, ok := ts.Type.(*ast.StructType)
				if !ok {
					continue
				}
				for _, fl := range st.Fields.List {
					res := isSel(fl.Type, "resource", "Value") || isSel(fl.Type, "resource", "Collection")
					msg := isProtoMessage(fl.Type)
					if !res && !msg {
						continue
					}
					for _, n := range fl.Names {
						v, ok := pa.info.Defs[n].(*types.Var)
						if !ok {
							continue
						}
						full := pa.short + "." + ts.Name.Name + "." + n.Name
						if res {
							pu.resField[v] = full
						} else {
							pu.msgField[v] = full
						}
						pu.sources["published:"+full] = pa.pos(n)
					}
				}
			}
		}
	}
	var fns []*types.Func
	for fn := range pa.decls {
		fns = append(fns, fn)
	}
	sort.Slice(fns, func(i, j int) bool { return pa.decls[fns[i]].Pos() < pa.decls[fns[j]].Pos() })
	for round := 0; round < 6; round++ {
		pu.changed = false
		pu.rows = map[string]*Row{}
		for _, fn := range fns {
			pu.function(fn)
		}
		if !pu.changed {
			break
		}
	}
	var ks []string
	for k := range pu.rows {
		ks = append(ks, k)
	}
	sort.Strings(ks)
	written := map[string]bool{}
	for _, k := range ks {
		rows = append(rows, pu.rows[k])
		written[pu.rows[k].Field] = true
	}
	var ls []string
	for l := range pu.sources {
		ls = append(ls, l)
	}
	sort.Strings(ls)
	for _, l := range ls {
		rows = append(rows, &Row{Field: l, Kind: "R", Fn: "caller:consumer", Phase: "live", Pos: []string{pu.sources[l]}})
		if written[l] {
			notes = append(notes, l+": the library writes into messages of this location after they are stored/published")
		}
	}
	return rows, notes
}

// firstParam: the first named parameter of a function type
func firstParam(ft *ast.FuncType) *ast.Ident {
	if ft.Params == nil {
		return nil
	}
	for _, fl := range ft.Params.List {
		for _, n := range fl.Names {
			if n.Name == "_" {
				return nil
			}
			return n
		}
		return nil
	}
	return nil
}

type pubEnv map[types.Object]pubTaint

func (e pubEnv) clone() pubEnv {
	n := pubEnv{}
	for k, v := range e {
		n[k] = v
	}
	return n
}

// join: tainted on either path
func (e pubEnv) join(o pubEnv) {
	for k, v := range o {
		if _, ok := e[k]; !ok {
			e[k] = v
		}
	}
}

// pubWalk is the walk of one function declaration
type pubWalk struct {
	pu     *pubAn
	fn     *types.Func
	label  string
	sum    *pubSummary
	curRes string // label of the resource whose write call's arguments are being scanned
}

// interceptorSlot: the call hands its function argument(s) the stored message as first parameter
func interceptorSlot(call *ast.CallExpr) []int {
	name := ""
	switch f := call.Fun.(type) {
	case *ast.SelectorExpr:
		name = f.Sel.Name
	case *ast.Ident:
		name = f.Name
	}
	switch name {
	case "InterceptBefore", "InterceptAfter":
		return []int{0}
	case "GetAndUpdate":
		return []int{2}
	}
	return nil
}

func (pu *pubAn) function(fn *types.Func) {
	pa := pu.pa
	fd := pa.decls[fn]
	if fd == nil || fd.Body == nil {
		return
	}
	sum := pu.sums[fn]
	if sum == nil {
		sum = &pubSummary{writes: map[int]string{}}
		pu.sums[fn] = sum
	}
	w := &pubWalk{pu: pu, fn: fn, label: pa.label(fn), sum: sum}
	env := pubEnv{}
	i := 0
	if fd.Type.Params != nil {
		for _, fl := range fd.Type.Params.List {
			if len(fl.Names) == 0 {
				i++
				continue
			}
			for _, n := range fl.Names {
				if o := pa.info.Defs[n]; o != nil {
					env[o] = pubTaint{pkMsg, "param:" + itoa(i)}
				}
				i++
			}
		}
	}
	if l, ok := pu.oldParam[fn]; ok {
		if id := firstParam(fd.Type); id != nil {
			if o := pa.info.Defs[id]; o != nil {
				env[o] = pubTaint{pkMsg, l}
			}
		}
	}
	w.stmts(fd.Body.List, env)
}

func (w *pubWalk) taintOf(e ast.Expr, env pubEnv) pubTaint {
	pa, pu := w.pu.pa, w.pu
	switch x := e.(type) {
	case *ast.Ident:
		o := pa.info.Uses[x]
		if o == nil {
			o = pa.info.Defs[x]
		}
		if o == nil {
			return pubTaint{}
		}
		return env[o]
	case *ast.ParenExpr:
		return w.taintOf(x.X, env)
	case *ast.StarExpr:
		return w.taintOf(x.X, env)
	case *ast.TypeAssertExpr:
		return w.taintOf(x.X, env)
	case *ast.UnaryExpr:
		if x.Op == token.ARROW {
			if t := w.taintOf(x.X, env); t.kind == pkChan {
				return pubTaint{pkEvent, t.label}
			}
			return pubTaint{}
		}
		if x.Op == token.AND {
			if _, lit := x.X.(*ast.CompositeLit); lit {
				return pubTaint{}
			}
			return w.taintOf(x.X, env)
		}
	case *ast.IndexExpr:
		t := w.taintOf(x.X, env)
		if t.kind == pkSlice {
			return pubTaint{pkMsg, t.label}
		}
		if t.kind == pkMsg {
			return t
		}
	case *ast.SliceExpr:
		return w.taintOf(x.X, env)
	case *ast.SelectorExpr:
		if sel := pa.info.Selections[x]; sel != nil && sel.Kind() == types.FieldVal {
			if v, ok := sel.Obj().(*types.Var); ok {
				if full, ok := pu.msgField[v]; ok {
					return pubTaint{pkMsg, "published:" + full}
				}
			}
		}
		t := w.taintOf(x.X, env)
		switch t.kind {
		case pkEvent:
			switch x.Sel.Name {
			case "Value", "NewValue", "OldValue":
				return pubTaint{pkMsg, t.label}
			}
		case pkMsg:
			return t
		}
	case *ast.CompositeLit:
		// a slice / array / map literal that holds a published message: its elements are published
		if _, isStruct := x.Type.(*ast.Ident); !isStruct && x.Type != nil {
			if _, isSel := x.Type.(*ast.SelectorExpr); !isSel {
				for _, el := range x.Elts {
					if kv, ok := el.(*ast.KeyValueExpr); ok {
						el = kv.Value
					}
					if t := w.taintOf(el, env); t.kind == pkMsg {
						return pubTaint{pkSlice, t.label}
					}
				}
			}
		}
	case *ast.CallExpr:
		if id, ok := x.Fun.(*ast.Ident); ok && id.Name == "append" && len(x.Args) >= 1 {
			if t := w.taintOf(x.Args[0], env); t.ok() {
				return t
			}
			for _, el := range x.Args[1:] {
				if t := w.taintOf(el, env); t.kind == pkMsg {
					return pubTaint{pkSlice, t.label}
				}
			}
			return pubTaint{}
		}
		if se, ok := x.Fun.(*ast.SelectorExpr); ok {
			if full := w.resOf(se.X); full != "" {
				switch se.Sel.Name {
				case "Get":
					return pubTaint{pkMsg, "published:" + full}
				case "List":
					return pubTaint{pkSlice, "published:" + full}
				case "Pull", "PullID":
					return pubTaint{pkChan, "published:" + full}
				}
			}
		}
		if callee := pa.calleeOf(x); callee != nil {
			if s := pu.sums[callee]; s != nil && s.ret.ok() {
				if strings.HasPrefix(s.ret.label, "param:") {
					idx := atoi(strings.TrimPrefix(s.ret.label, "param:"))
					if idx < len(x.Args) {
						t := w.taintOf(x.Args[idx], env)
						if t.ok() {
							return pubTaint{s.ret.kind, t.label}
						}
					}
					return pubTaint{}
				}
				return s.ret
			}
		}
	}
	return pubTaint{}
}

// resOf: e selects a struct field that holds a *resource.Value / *resource.Collection
func (w *pubWalk) resOf(e ast.Expr) string {
	se := seOf(e)
	if se == nil {
		return ""
	}
	if rs := w.pu.pa.info.Selections[se]; rs != nil && rs.Kind() == types.FieldVal {
		if v, ok := rs.Obj().(*types.Var); ok {
			return w.pu.resField[v]
		}
	}
	return ""
}

func (w *pubWalk) sink(at ast.Node, container ast.Expr, env pubEnv) {
	pa, pu := w.pu.pa, w.pu
	t := w.taintOf(container, env)
	if t.kind != pkMsg {
		return
	}
	if strings.HasPrefix(t.label, "param:") {
		idx := atoi(strings.TrimPrefix(t.label, "param:"))
		if _, ok := w.sum.writes[idx]; !ok {
			w.sum.writes[idx] = pa.pos(at)
			pu.changed = true
		}
		return
	}
	r := &Row{Field: t.label, Kind: "W", Fn: w.label, Phase: "live", Pos: []string{pa.pos(at)}}
	k := r.semKey()
	if old, ok := pu.rows[k]; ok {
		for _, p := range old.Pos {
			if p == r.Pos[0] {
				return
			}
		}
		old.Pos = append(old.Pos, r.Pos[0])
		sort.Strings(old.Pos)
		return
	}
	pu.rows[k] = r
}

func (w *pubWalk) lhsSink(at ast.Node, lhs ast.Expr, env pubEnv) {
	switch x := lhs.(type) {
	case *ast.SelectorExpr:
		w.sink(at, x.X, env)
	case *ast.IndexExpr:
		if t := w.taintOf(x.X, env); t.kind == pkMsg {
			w.sink(at, x.X, env)
		}
	case *ast.StarExpr:
		w.sink(at, x.X, env)
	case *ast.ParenExpr:
		w.lhsSink(at, x.X, env)
	}
}

func (w *pubWalk) assign(lhs ast.Expr, t pubTaint, env pubEnv) {
	id, ok := lhs.(*ast.Ident)
	if !ok || id.Name == "_" {
		return
	}
	o := w.pu.pa.objOf(id)
	if o == nil {
		return
	}
	if v, isVar := o.(*types.Var); !isVar || v.Parent() == v.Pkg().Scope() {
		return
	}
	if t.ok() {
		env[o] = t
	} else {
		delete(env, o) // strong update: the variable now holds a fresh / unrelated value on this path
	}
}

var pubMutators = map[string]bool{"Merge": true, "Reset": true, "Filter": true}

// expr scans an expression for calls that write into a published message and for function literals
func (w *pubWalk) expr(e ast.Expr, env pubEnv) {
	if e == nil {
		return
	}
	pa, pu := w.pu.pa, w.pu
	ast.Inspect(e, func(n ast.Node) bool {
		switch x := n.(type) {
		case *ast.FuncLit:
			inner := env.clone()
			w.stmts(x.Body.List, inner)
			env.join(inner)
			return false
		case *ast.CallExpr:
			name := ""
			var recv ast.Expr
			switch f := x.Fun.(type) {
			case *ast.SelectorExpr:
				name, recv = f.Sel.Name, f.X
			case *ast.Ident:
				name = f.Name
			}
			callee := pa.calleeOf(x)
			if recv != nil && name == "Reset" && len(x.Args) == 0 {
				w.sink(x, recv, env)
			}
			if pubMutators[name] && len(x.Args) >= 1 && callee == nil {
				w.sink(x, x.Args[0], env)
			}
			if recv == nil && name == "copy" && len(x.Args) == 2 {
				w.sink(x, x.Args[0], env)
			}
			if id, ok := recv.(*ast.Ident); ok && (id.Name == "sort" || id.Name == "slices") && len(x.Args) >= 1 && strings.HasPrefix(name, "S") {
				w.sink(x, x.Args[0], env)
			}
			if callee != nil {
				if s := pu.sums[callee]; s != nil {
					for idx := range s.writes {
						if idx < len(x.Args) {
							w.sink(x, x.Args[idx], env)
						}
					}
				}
			}
			// a write call on a resource: its interceptors get that resource's stored message
			saved := w.curRes
			if recv != nil {
				if full := w.resOf(recv); full != "" {
					w.curRes = "published:" + full
				}
			}
			if slots := interceptorSlot(x); slots != nil {
				label := w.curRes
				if label == "" {
					label = "published:" + pa.short + ".<interceptor>.old"
				}
				for _, sl := range slots {
					if sl >= len(x.Args) {
						continue
					}
					if _, ok := pu.sources[label]; !ok {
						pu.sources[label] = pa.pos(x)
					}
					switch a := x.Args[sl].(type) {
					case *ast.FuncLit:
						inner := env.clone()
						if id := firstParam(a.Type); id != nil {
							if o := pa.info.Defs[id]; o != nil {
								inner[o] = pubTaint{pkMsg, label}
							}
						}
						w.stmts(a.Body.List, inner)
						env.join(inner)
					default:
						if b := pa.resolveFn(&fctx{b: newBindings()}, a); b != nil && b.fn != nil {
							if _, ok := pu.oldParam[b.fn]; !ok {
								pu.oldParam[b.fn] = label
								pu.changed = true
							}
						}
					}
				}
				// the other arguments
				for i, a := range x.Args {
					isSlot := false
					for _, sl := range slots {
						if sl == i {
							isSlot = true
						}
					}
					if _, lit := a.(*ast.FuncLit); lit && isSlot {
						continue
					}
					w.expr(a, env)
				}
				w.curRes = saved
				return false
			}
			for _, a := range x.Args {
				w.expr(a, env)
			}
			w.expr(x.Fun, env)
			w.curRes = saved
			return false
		}
		return true
	})
}

func (w *pubWalk) stmts(list []ast.Stmt, env pubEnv) {
	for _, s := range list {
		w.stmt(s, env)
	}
}

func (w *pubWalk) branch(env pubEnv, f func(inner pubEnv)) pubEnv {
	inner := env.clone()
	f(inner)
	return inner
}

func (w *pubWalk) stmt(s ast.Stmt, env pubEnv) {
	if s == nil {
		return
	}
	switch x := s.(type) {
	case *ast.AssignStmt:
		for _, r := range x.Rhs {
			w.expr(r, env)
		}
		for _, l := range x.Lhs {
			w.lhsSink(x, l, env)
			if _, isId := l.(*ast.Ident); !isId {
				w.expr(l, env)
			}
		}
		if len(x.Lhs) == len(x.Rhs) {
			ts := make([]pubTaint, len(x.Rhs))
			for i := range x.Rhs {
				ts[i] = w.taintOf(x.Rhs[i], env)
			}
			for i := range x.Lhs {
				if x.Tok == token.ASSIGN || x.Tok == token.DEFINE {
					w.assign(x.Lhs[i], ts[i], env)
				}
			}
		} else if len(x.Rhs) == 1 {
			t := w.taintOf(x.Rhs[0], env)
			w.assign(x.Lhs[0], t, env)
			for _, l := range x.Lhs[1:] {
				w.assign(l, pubTaint{}, env)
			}
		}
	case *ast.DeclStmt:
		if gd, ok := x.Decl.(*ast.GenDecl); ok {
			for _, sp := range gd.Specs {
				if vs, ok := sp.(*ast.ValueSpec); ok {
					for _, v := range vs.Values {
						w.expr(v, env)
					}
					for i, n := range vs.Names {
						if i < len(vs.Values) {
							w.assign(n, w.taintOf(vs.Values[i], env), env)
						}
					}
				}
			}
		}
	case *ast.IncDecStmt:
		w.lhsSink(x, x.X, env)
	case *ast.ExprStmt:
		w.expr(x.X, env)
	case *ast.SendStmt:
		w.expr(x.Chan, env)
		w.expr(x.Value, env)
	case *ast.GoStmt:
		w.expr(x.Call, env)
	case *ast.DeferStmt:
		w.expr(x.Call, env)
	case *ast.ReturnStmt:
		for _, r := range x.Results {
			w.expr(r, env)
		}
		if len(x.Results) > 0 {
			if t := w.taintOf(x.Results[0], env); t.ok() && !w.sum.ret.ok() {
				w.sum.ret = t
				w.pu.changed = true
			}
		}
	case *ast.BlockStmt:
		w.stmts(x.List, env)
	case *ast.LabeledStmt:
		w.stmt(x.Stmt, env)
	case *ast.IfStmt:
		w.stmt(x.Init, env)
		w.expr(x.Cond, env)
		a := w.branch(env, func(in pubEnv) { w.stmts(x.Body.List, in) })
		b := env.clone()
		if x.Else != nil {
			b = w.branch(env, func(in pubEnv) { w.stmt(x.Else, in) })
		}
		for k := range env {
			delete(env, k)
		}
		env.join(a)
		env.join(b)
	case *ast.ForStmt:
		w.stmt(x.Init, env)
		w.expr(x.Cond, env)
		for round := 0; round < 2; round++ {
			in := w.branch(env, func(in pubEnv) { w.stmts(x.Body.List, in); w.stmt(x.Post, in) })
			env.join(in)
		}
	case *ast.RangeStmt:
		w.expr(x.X, env)
		t := w.taintOf(x.X, env)
		for round := 0; round < 2; round++ {
			in := w.branch(env, func(in pubEnv) {
				if x.Key != nil {
					kt := pubTaint{}
					if t.kind == pkChan {
						kt = pubTaint{pkEvent, t.label}
					}
					w.assign(x.Key, kt, in)
				}
				if x.Value != nil {
					vt := pubTaint{}
					switch t.kind {
					case pkSlice:
						vt = pubTaint{pkMsg, t.label}
					case pkMsg:
						vt = t // elements of a repeated field / map of a published message are part of it
					}
					w.assign(x.Value, vt, in)
				}
				w.stmts(x.Body.List, in)
			})
			env.join(in)
		}
	case *ast.SwitchStmt:
		w.stmt(x.Init, env)
		w.expr(x.Tag, env)
		w.clauses(x.Body, env)
	case *ast.TypeSwitchStmt:
		w.stmt(x.Init, env)
		w.stmt(x.Assign, env)
		w.clauses(x.Body, env)
	case *ast.SelectStmt:
		w.clauses(x.Body, env)
	}
}

func (w *pubWalk) clauses(body *ast.BlockStmt, env pubEnv) {
	var outs []pubEnv
	for _, c := range body.List {
		switch cc := c.(type) {
		case *ast.CaseClause:
			for _, e := range cc.List {
				w.expr(e, env)
			}
			outs = append(outs, w.branch(env, func(in pubEnv) { w.stmts(cc.Body, in) }))
		case *ast.CommClause:
			outs = append(outs, w.branch(env, func(in pubEnv) { w.stmt(cc.Comm, in); w.stmts(cc.Body, in) }))
		}
	}
	for _, o := range outs {
		env.join(o)
	}
}

func seOf(e ast.Expr) *ast.SelectorExpr {
	for {
		switch x := e.(type) {
		case *ast.ParenExpr:
			e = x.X
		case *ast.SelectorExpr:
			return x
		default:
			return nil
		}
	}
}

func itoa(i int) string { return strconv.Itoa(i) }

func atoi(s string) int {
	n := 0
	for _, c := range s {
		if c < '0' || c > '9' {
			return 0
		}
		n = n*10 + int(c-'0')
	}
	return n
}
