package main

import (
	"bufio"
	"fmt"
	"os"
	"os/exec"
	"path/filepath"
	"regexp"
	"sort"
	"strconv"
	"strings"
	"time"

	"github.com/smart-core-os/sc-golang/verifharness/lib"
)

type frame struct {
	Func string `json:"func"`
	File string `json:"file"`
	Line int    `json:"line"`
}

type stack struct {
	Op     string  `json:"op"` // Read | Write | Previous read | Previous write
	Frames []frame `json:"frames"`
}

type report struct {
	Stacks [2]stack `json:"stacks"`
	Raw    string   `json:"raw"`
}

var accessHdr = regexp.MustCompile(`^(Read|Write|Previous read|Previous write|Atomic read|Atomic write|Previous atomic read|Previous atomic write) at 0x[0-9a-f]+ by (main )?goroutine`)
var fileLine = regexp.MustCompile(`^\s+(\S+\.go):(\d+)( \+0x[0-9a-f]+)?$`)

// parseReports parses the race detector's log files.
func parseReports(paths []string) []report {
	var res []report
	for _, p := range paths {
		f, err := os.Open(p)
		if err != nil {
			continue
		}
		sc := bufio.NewScanner(f)
		sc.Buffer(make([]byte, 1<<20), 1<<24)
		var block []string
		in := false
		for sc.Scan() {
			l := sc.Text()
			if strings.HasPrefix(l, "==================") {
				if in && len(block) > 0 {
					if r, ok := parseBlock(block); ok {
						res = append(res, r)
					}
				}
				in = !in
				block = nil
				continue
			}
			if in {
				block = append(block, l)
			}
		}
		f.Close()
	}
	return res
}

func parseBlock(lines []string) (report, bool) {
	var r report
	r.Raw = strings.Join(lines, "\n")
	if len(r.Raw) > 6000 {
		r.Raw = r.Raw[:6000]
	}
	n := 0
	for i := 0; i < len(lines) && n < 2; i++ {
		m := accessHdr.FindStringSubmatch(lines[i])
		if m == nil {
			continue
		}
		st := stack{Op: m[1]}
		j := i + 1
		for ; j+1 < len(lines) && strings.TrimSpace(lines[j]) != ""; j += 2 {
			fn := strings.TrimSpace(lines[j])
			fm := fileLine.FindStringSubmatch(lines[j+1])
			if fm == nil {
				break
			}
			ln, _ := strconv.Atoi(fm[2])
			if k := strings.LastIndex(fn, "("); k > 0 && strings.HasSuffix(fn, ")") {
				fn = fn[:k]
			}
			st.Frames = append(st.Frames, frame{fn, fm[1], ln})
		}
		r.Stacks[n] = st
		n++
		i = j
	}
	return r, n == 2
}

func shortFunc(fn string) string {
	if k := strings.LastIndex(fn, "/"); k >= 0 {
		return fn[k+1:]
	}
	return fn
}

const modPrefix = "github.com/smart-core-os/sc-golang/"

// site: the innermost frame of the stack that belongs to the repository or to the workload (not to a
// library); short function name, repo-relative file.
func site(st stack, root string) (fn, rel string, line int) {
	for _, f := range st.Frames {
		if strings.HasPrefix(f.File, root+"/") {
			rel, _ = filepath.Rel(root, f.File)
			return shortFunc(f.Func), rel, f.Line
		}
		if strings.Contains(f.File, "/harness/cmd/c11/") {
			return "workload:" + strings.TrimPrefix(f.Func, "main."), filepath.Base(f.File), f.Line
		}
	}
	if len(st.Frames) > 0 {
		// only library frames were recorded (truncated history): name the library package
		f := st.Frames[0]
		pkg := f.Func
		if k := strings.LastIndex(pkg, "/"); k >= 0 {
			if d := strings.Index(pkg[k:], "."); d >= 0 {
				pkg = pkg[:k+d]
			}
		} else if d := strings.Index(pkg, "."); d >= 0 {
			pkg = pkg[:d]
		}
		return "lib:" + pkg, f.File, f.Line
	}
	return "?", "?", 0
}

// rowsOf: the table rows at the access site of the stack: the innermost repository frame, or — when
// that frame is a helper without a row of its own (GenerateUniqueId reading the rng it was handed) —
// the nearest enclosing frame of the same package that has one.
func rowsOf(st stack, root string, tbl *Table) []int {
	pkgDir := ""
	for _, f := range st.Frames {
		if !strings.HasPrefix(f.File, root+"/") {
			if pkgDir != "" {
				return nil
			}
			continue
		}
		rel, _ := filepath.Rel(root, f.File)
		if pkgDir == "" {
			pkgDir = filepath.Dir(rel)
		} else if filepath.Dir(rel) != pkgDir {
			return nil
		}
		if rows := tbl.bySite[fmt.Sprintf("%s:%d", rel, f.Line)]; len(rows) > 0 {
			return rows
		}
	}
	return nil
}

type childResult struct {
	Scenario string
	G, Iters int
	Seed     int64
	Reports  []report
	Err      string
	Slow     string // the scenario did not run to completion in its budget: its reports so far still count
	Fatal    string // "fatal error: concurrent map …" + goroutine dump head
	Wall     time.Duration
}

func runChild(self string, sc scenario, seed int64, g, iters int, dir string, budget time.Duration) childResult {
	// the soft deadline bounds the work (a loaded machine runs fewer operations); the budget is only a
	// backstop far beyond it
	softMs := int(budget/time.Millisecond) / 20
	t0 := time.Now()
	res := childResult{Scenario: sc.Name, G: g, Iters: iters, Seed: seed}
	logp := filepath.Join(dir, "race-"+sc.Name)
	old, _ := filepath.Glob(logp + ".*")
	for _, o := range old {
		os.Remove(o)
	}
	cmd := exec.Command(self)
	cmd.Env = append(os.Environ(),
		"C11_CHILD="+sc.Name, fmt.Sprintf("C11_SEED=%d", seed), fmt.Sprintf("C11_G=%d", g), fmt.Sprintf("C11_ITERS=%d", iters), fmt.Sprintf("C11_SOFT_MS=%d", softMs),
		"GORACE=halt_on_error=0 exitcode=0 history_size=3 atexit_sleep_ms=0 log_path="+logp)
	out := &strings.Builder{}
	cmd.Stdout, cmd.Stderr = out, out
	if err := cmd.Start(); err != nil {
		res.Err = err.Error()
		return res
	}
	done := make(chan error, 1)
	go func() { done <- cmd.Wait() }()
	select {
	case err := <-done:
		if err != nil && strings.Contains(out.String(), "fatal error: concurrent map") {
			// the runtime's own detector: an unrecoverable data race on a map
			res.Fatal = firstLines(out.String()[strings.Index(out.String(), "fatal error: concurrent map"):], 40)
		} else if err != nil {
			res.Err = fmt.Sprintf("child failed: %v: %s", err, tail(out.String(), 1500))
		} else if !strings.Contains(out.String(), "WORKLOAD-DONE") {
			res.Err = "child ended without completing: " + tail(out.String(), 1500)
		} else if strings.Contains(out.String(), "WORKLOAD-TIMEOUT") {
			res.Slow = "workers still busy 45 s after the soft deadline: " + tail(out.String(), 300)
		}
	case <-time.After(budget):
		_ = cmd.Process.Kill()
		<-done
		res.Slow = fmt.Sprintf("stopped at its budget of %v: %s", budget, tail(out.String(), 300))
	}
	logs, _ := filepath.Glob(logp + ".*")
	sort.Strings(logs)
	res.Reports = parseReports(logs)
	res.Wall = time.Since(t0)
	return res
}

func firstLines(s string, n int) string {
	l := strings.SplitN(s, "\n", n+1)
	if len(l) > n {
		l = l[:n]
	}
	return strings.Join(l, "\n")
}

func tail(s string, n int) string {
	if len(s) > n {
		return s[len(s)-n:]
	}
	return s
}

func childMain(name string) {
	seed, _ := strconv.ParseInt(os.Getenv("C11_SEED"), 10, 64)
	g, _ := strconv.Atoi(os.Getenv("C11_G"))
	iters, _ := strconv.Atoi(os.Getenv("C11_ITERS"))
	if !raceEnabled {
		fmt.Println("child not built with -race")
		os.Exit(4)
	}
	for _, sc := range scenarios {
		if sc.Name == name {
			// library code logs (timeoutAlarm, WARN lines) are not interesting here
			panicked, msg := lib.Catch(func() {
				soft, _ := strconv.Atoi(os.Getenv("C11_SOFT_MS"))
				if soft <= 0 {
					soft = 5000
				}
				sc.Run(&wl{seed: seed, g: g, iters: iters, deadline: time.Now().Add(time.Duration(soft) * time.Millisecond)})
			})
			if panicked {
				fmt.Println("WORKLOAD-PANIC", msg)
			}
			fmt.Println("WORKLOAD-DONE", sink.Load(), "panics", panics.Load())
			return
		}
	}
	fmt.Println("unknown scenario", name)
	os.Exit(4)
}
