// Harness for C11 (data-race freedom; claim level partial: the lock discipline is proved in Lean over
// a table of accesses extracted from the sources on every run; race-detector workloads validate the
// extraction and search for witnesses).
//
//	-facts <file>   K3 translator: write ScVerif/Generated/C11Facts.lean and exit
//	(default)       ties: lockset-eval (K2, every same-field pair of the table through the Lean driver
//	                vs an independent Go evaluation), lockset-random (K1), table-vs-detector (K4);
//	                monitors: lockset (unordered conflicting pairs of the table, static witness),
//	                race-detector (child processes of this -race binary, GORACE log parsing)
//	-replay <file>  re-run the scenario / re-extract the pair named in the replay file
package main

import (
	"encoding/json"
	"fmt"
	"os"
	"path/filepath"
	"sort"
	"strings"
	"sync"
	"time"

	"github.com/smart-core-os/sc-golang/verifharness/lib"
)

func main() {
	if n := os.Getenv("C11_CHILD"); n != "" {
		childMain(n)
		return
	}
	f := lib.ParseFlags()
	if f.Facts != "" {
		tbl, err := Extract(lib.RepoRoot())
		if err != nil {
			lib.Fatal(err)
		}
		if err := tbl.WriteLean(f.Facts); err != nil {
			lib.Fatal(err)
		}
		fmt.Printf("C11 facts: %d rows, %d fields, %d locks, %d tracked types -> %s\n", len(tbl.Rows), len(tbl.Fields), len(tbl.Locks), len(tbl.Types), f.Facts)
		return
	}
	if f.Replay != "" {
		os.Exit(replay(f))
	}
	res := lib.NewResult("C11", f)
	tbl, err := Extract(lib.RepoRoot())
	if err != nil {
		t := res.Tie("lockset-eval", "K2", "extraction")
		t.Fail(err)
		_ = res.Write(f.Out)
		return
	}
	res.Extra["table"] = map[string]any{"rows": len(tbl.Rows), "fields": len(tbl.Fields), "locks": tbl.Locks, "tracked_types": tbl.Types, "chans": tbl.Chans, "shared_globals": tbl.Notes, "goroutine_captures": tbl.Captured}
	drv, err := lib.StartDriver(f.Driver)
	if err != nil {
		lib.Fatal(err)
	}
	runLockset(f, res, drv, tbl)
	runAppendTie(f, res, drv)
	runSyncTie(f, res, drv)
	runRacyTie(f, res, drv, tbl)
	runOwnTie(f, res, drv)
	runManyTie(f, res, drv)
	drv.Close()
	runRace(f, res, tbl)
	if err := res.Write(f.Out); err != nil {
		lib.Fatal(err)
	}
}

// ---- independent Go evaluation of the discipline ------------------------------------------------

func goConflict(a, b *Row) bool { return a.Field == b.Field && (a.Kind == "W" || b.Kind == "W") }

func goCloseEdge(a, b *Row) bool {
	for _, c := range a.RelAfter {
		for _, d := range b.AcqBefore {
			if c == d {
				return true
			}
		}
	}
	return false
}

func goOrdered(a, b *Row) bool {
	if a.Phase == "init" || b.Phase == "init" {
		return true
	}
	if a.Role != 0 && a.Role == b.Role {
		return true
	}
	for _, h := range a.Held {
		for _, k := range b.Held {
			if h.Lock == k.Lock && (h.Mode == "X" || k.Mode == "X") {
				return true
			}
		}
	}
	return goCloseEdge(a, b) || goCloseEdge(b, a)
}

func bit(b bool) string {
	if b {
		return "1"
	}
	return "0"
}

func goPair(a, b *Row) string {
	c, o := goConflict(a, b), goOrdered(a, b)
	return fmt.Sprintf("conflict=%s ordered=%s ok=%s", bit(c), bit(o), bit(!c || o))
}

func locksetSig(a, b *Row) string {
	fa, fb := a.Fn, b.Fn
	if fb < fa {
		fa, fb = fb, fa
	}
	return fmt.Sprintf("C11/lockset/%s/%s|%s", a.Field, fa, fb)
}

type badPair struct{ I, J int }

func goBadPairs(tbl *Table) []badPair {
	var bad []badPair
	for i, a := range tbl.Rows {
		for j := i; j < len(tbl.Rows); j++ {
			b := tbl.Rows[j]
			if (goConflict(a, b) && !goOrdered(a, b)) || (goConflict(b, a) && !goOrdered(b, a)) {
				bad = append(bad, badPair{i, j})
			}
		}
	}
	return bad
}

func runLockset(f lib.Flags, res *lib.Result, drv *lib.Driver, tbl *Table) {
	tie := res.Tie("lockset-eval", "K2",
		"every pair (i<=j) of rows of the extracted table that share a field, plus every row against 3 rows of other fields, evaluated by the Lean definitions (driver `pair`) and by an independent Go evaluation; plus the whole table through `racefree`; non-trivial = conflicting pair; distinct by (field, fnA, fnB, locks)")
	tie.Exhaustive = true
	mon := res.Monitor("lockset",
		"the discipline itself on the table extracted from the current sources: every conflicting pair must be ordered (independent Go evaluation); a violation names the two code sites; distinct = conflicting pairs")
	type pr struct{ i, j int }
	var pairs []pr
	for i, a := range tbl.Rows {
		for j := i; j < len(tbl.Rows); j++ {
			if tbl.Rows[j].Field == a.Field {
				pairs = append(pairs, pr{i, j})
			}
		}
		for k := 1; k <= 3; k++ {
			j := (i + k*37) % len(tbl.Rows)
			if tbl.Rows[j].Field != a.Field {
				pairs = append(pairs, pr{i, j})
			}
		}
	}
	lines := make([]string, 0, len(pairs)+1)
	for _, p := range pairs {
		lines = append(lines, "pair "+tbl.rowWire(tbl.Rows[p.i])+" "+tbl.rowWire(tbl.Rows[p.j]))
	}
	var all []string
	for _, r := range tbl.Rows {
		all = append(all, tbl.rowWire(r))
	}
	lines = append(lines, "racefree "+strings.Join(all, " "))
	ans, err := drv.Batch(lines)
	if err != nil {
		tie.Fail(err)
		return
	}
	for k, p := range pairs {
		a, b := tbl.Rows[p.i], tbl.Rows[p.j]
		code := goPair(a, b)
		conf := goConflict(a, b)
		key := fmt.Sprintf("%s|%s|%s|%v|%v", a.Field, a.Fn, b.Fn, a.Held, b.Held)
		tie.Record(key, conf, map[string]any{"a": tbl.describe(a), "b": tbl.describe(b)}, ans[k], code)
		if conf {
			tie.Count("conflict/" + map[bool]string{true: "ordered", false: "UNORDERED"}[goOrdered(a, b)])
			mon.Eval(key, true, nil)
			mon.Count(a.Field)
		} else {
			tie.Count("no-conflict")
		}
	}
	bad := goBadPairs(tbl)
	want := "true"
	if len(bad) > 0 {
		var s []string
		for _, b := range bad {
			s = append(s, fmt.Sprintf("%d:%d", b.I, b.J))
		}
		want = "false " + strings.Join(s, ",")
	}
	tie.Record("racefree", true, map[string]any{"rows": len(tbl.Rows)}, ans[len(ans)-1], want)
	for _, bp := range bad {
		a, b := tbl.Rows[bp.I], tbl.Rows[bp.J]
		mon.Violate(locksetSig(a, b),
			"two accesses to the same location, at least one a write, that may run on different goroutines are not ordered by a common exclusive mutex, construction, a single-goroutine role or a channel-close edge",
			map[string]any{"kind": "lockset", "field": a.Field, "fn_a": a.Fn, "fn_b": b.Fn, "a": tbl.describe(a), "b": tbl.describe(b)},
			"ordered(a,b)", "no ordering: "+tbl.describe(a)+"  ||  "+tbl.describe(b))
	}
	mon.Eval("whole-table", true, map[string]any{"rows": len(tbl.Rows), "unordered_pairs": len(bad)})

	// K1: random synthetic rows, to exercise every clause of `ordered` (roles, init, close edges)
	rt := res.Tie("lockset-random", "K1",
		"random pairs of synthetic rows (fields 0..2, locks 0..2 in both modes, phases, roles 0..2, close/observe events on channels 0..2) from the run's PRNG: Lean `pair` vs the Go evaluation; non-trivial = conflicting; distinct by the pair of encodings")
	rng := lib.NewRand(f.Seed)
	n := f.N(3000, 40000)
	st := &Table{Locks: []string{"0", "1", "2"}, Fields: []string{"0", "1", "2"}, Chans: []string{"0", "1", "2"}}
	gen := func() *Row {
		r := &Row{Field: fmt.Sprint(rng.Intn(3)), Kind: []string{"R", "W"}[rng.Intn(2)], Phase: "live", Role: 0}
		if rng.Intn(6) == 0 {
			r.Phase = "init"
		}
		if rng.Intn(3) == 0 {
			r.Role = rng.Intn(3)
		}
		for l := 0; l < 3; l++ {
			if rng.Intn(3) == 0 {
				r.Held = append(r.Held, HeldLock{fmt.Sprint(l), []string{"R", "X"}[rng.Intn(2)]})
			}
		}
		for c := 0; c < 3; c++ {
			if rng.Intn(5) == 0 {
				r.RelAfter = append(r.RelAfter, fmt.Sprint(c))
			}
			if rng.Intn(5) == 0 {
				r.AcqBefore = append(r.AcqBefore, fmt.Sprint(c))
			}
		}
		return r
	}
	var rl []string
	var rp [][2]*Row
	for i := 0; i < n; i++ {
		a, b := gen(), gen()
		rp = append(rp, [2]*Row{a, b})
		rl = append(rl, "pair "+st.rowWire(a)+" "+st.rowWire(b))
	}
	rl = append(rl, "pair 0,Q,live,0,-,-,- 0,R,live,0,-,-,-")
	ra, err := drv.Batch(rl)
	if err != nil {
		rt.Fail(err)
		return
	}
	for i, p := range rp {
		code := goPair(p[0], p[1])
		rt.Record(rl[i], goConflict(p[0], p[1]), map[string]any{"line": rl[i]}, ra[i], code)
		rt.Count(code)
	}
	rt.Record("malformed", true, map[string]any{"line": rl[len(rl)-1]}, ra[len(ra)-1], "!bad-op")

	// K1: whole synthetic tables through the decision the kernel runs on the extracted table (`raceFreeG`,
	// one pass over runs of equal field) and through `frozenInB`, against the Go evaluation: grouped must be
	// exactly "sorted by field and no unordered conflicting pair"
	tt := res.Tie("lockset-tables", "K1",
		"random synthetic tables of 0-9 rows (same row generator; sorted by field in 3 of 4 cases, as the extractor emits them) plus the extracted table itself: Lean `grouped` (raceFreeG, sortedByFieldB, raceFreeB) and `frozen` (frozenInB per field) vs the Go evaluation; non-trivial = the table has a conflicting pair; distinct by the encoded table")
	nt := f.N(1500, 20000)
	var tl []string
	var twant []string
	var nontriv []bool
	goGrouped := func(t *Table) (string, bool) {
		sorted := true
		for i := 1; i < len(t.Rows); i++ {
			if idx(t.Fields, t.Rows[i-1].Field) > idx(t.Fields, t.Rows[i].Field) {
				sorted = false
			}
		}
		free := len(goBadPairs(t)) == 0
		conf := false
		for i, a := range t.Rows {
			for _, b := range t.Rows[i:] {
				if goConflict(a, b) {
					conf = true
				}
			}
		}
		return fmt.Sprintf("grouped=%s sorted=%s racefree=%s", bit(sorted && free), bit(sorted), bit(free)), conf
	}
	goFrozen := func(t *Table, field string) string {
		for _, r := range t.Rows {
			if r.Field == field && r.Kind == "W" && r.Phase != "init" {
				return "0"
			}
		}
		return "1"
	}
	wire := func(t *Table) string {
		var all []string
		for _, r := range t.Rows {
			all = append(all, st.rowWire(r))
		}
		return strings.Join(all, " ")
	}
	for i := 0; i < nt; i++ {
		t := &Table{Fields: st.Fields, Locks: st.Locks, Chans: st.Chans}
		for k := rng.Intn(10); k > 0; k-- {
			t.Rows = append(t.Rows, gen())
		}
		if rng.Intn(4) != 0 {
			sort.SliceStable(t.Rows, func(a, b int) bool { return t.Rows[a].Field < t.Rows[b].Field })
		}
		w, conf := goGrouped(t)
		tl = append(tl, strings.TrimSpace("grouped "+wire(t)))
		twant = append(twant, w)
		nontriv = append(nontriv, conf)
		fld := fmt.Sprint(rng.Intn(3))
		tl = append(tl, strings.TrimSpace("frozen "+fld+" "+wire(t)))
		twant = append(twant, goFrozen(t, fld))
		nontriv = append(nontriv, conf)
	}
	// the extracted table itself (in the extractor's order, and reversed = not sorted)
	{
		var all, rev []string
		for _, r := range tbl.Rows {
			all = append(all, tbl.rowWire(r))
		}
		for i := len(all) - 1; i >= 0; i-- {
			rev = append(rev, all[i])
		}
		free := bit(len(bad) == 0)
		tl = append(tl, "grouped "+strings.Join(all, " "))
		twant = append(twant, fmt.Sprintf("grouped=%s sorted=1 racefree=%s", free, free))
		nontriv = append(nontriv, true)
		tl = append(tl, "grouped "+strings.Join(rev, " "))
		twant = append(twant, fmt.Sprintf("grouped=0 sorted=0 racefree=%s", free))
		nontriv = append(nontriv, true)
		for _, fld := range tbl.Fields {
			if strings.HasPrefix(fld, "published:") {
				tl = append(tl, fmt.Sprintf("frozen %d %s", idx(tbl.Fields, fld), strings.Join(all, " ")))
				twant = append(twant, goFrozen(tbl, fld))
				nontriv = append(nontriv, true)
				if goFrozen(tbl, fld) == "1" {
					tt.Count("published location frozen")
				} else {
					tt.Count("published location WRITTEN")
				}
			}
		}
	}
	tl = append(tl, "frozen x 0,R,live,0,-,-,-")
	twant = append(twant, "!bad-op")
	nontriv = append(nontriv, true)
	ta, err := drv.Batch(tl)
	if err != nil {
		tt.Fail(err)
		return
	}
	for i := range tl {
		key := tl[i]
		if len(key) > 300 {
			key = fmt.Sprintf("%s…(%d bytes)#%d", key[:60], len(key), i)
		}
		tt.Record(key, nontriv[i], map[string]any{"line": key}, ta[i], twant[i])
		if i < 2*nt {
			tt.Count(twant[i])
		}
	}
}

// ---- race detector -------------------------------------------------------------------------------

func scopeVerdict(tbl *Table, sc scenario) (int, []string) {
	var sigs []string
	n := 0
	for _, bp := range goBadPairs(tbl) {
		a := tbl.Rows[bp.I]
		for _, p := range sc.Scope {
			// the contents of the messages a resource publishes are in scope wherever the resource is
			// …and the package-level variables of a package wherever one of its types is
			if g := strings.TrimPrefix(a.Field, "global:"); g != a.Field {
				if i := strings.Index(g, "."); i >= 0 && strings.HasPrefix(p, g[:i+1]) {
					n++
					sigs = append(sigs, locksetSig(a, tbl.Rows[bp.J]))
					break
				}
				continue
			}
			if strings.HasPrefix(a.Field, p) || strings.HasPrefix(strings.TrimPrefix(a.Field, "published:"), p) {
				n++
				sigs = append(sigs, locksetSig(a, tbl.Rows[bp.J]))
				break
			}
		}
	}
	return n, sigs
}

func raceSig(r report, root string) (sig, what string) {
	fa, fileA, la := site(r.Stacks[0], root)
	fb, fileB, lb := site(r.Stacks[1], root)
	what = fmt.Sprintf("%s in %s (%s:%d) vs %s in %s (%s:%d)", r.Stacks[0].Op, fa, fileA, la, r.Stacks[1].Op, fb, fileB, lb)
	if fb < fa {
		fa, fb = fb, fa
	}
	return "C11/race/" + fa + "|" + fb, what
}

// consumerSide: if `mine` is empty (or holds no row of a location `other` writes as published), return
// the caller:consumer rows of the published locations written by `other`.
func consumerSide(tbl *Table, other, mine []int) []int {
	var add []int
	for _, x := range other {
		w := tbl.Rows[x]
		if w.Kind != "W" || !strings.HasPrefix(w.Field, "published:") {
			continue
		}
		have := false
		for _, y := range mine {
			if tbl.Rows[y].Field == w.Field {
				have = true
			}
		}
		if have {
			continue
		}
		for i, r := range tbl.Rows {
			if r.Field == w.Field && r.Fn == "caller:consumer" {
				add = append(add, i)
			}
		}
	}
	if len(add) == 0 {
		return mine
	}
	return append(append([]int{}, mine...), add...)
}

// ownerSide: if `mine` holds no row of a lent-argument location `other` reads on a goroutine of its own,
// return the caller:owner rows of those locations.
func ownerSide(tbl *Table, other, mine []int) []int {
	var add []int
	for _, x := range other {
		r := tbl.Rows[x]
		if r.Kind != "R" || !strings.HasPrefix(r.Field, "arg:") {
			continue
		}
		have := false
		for _, y := range mine {
			if tbl.Rows[y].Field == r.Field {
				have = true
			}
		}
		if have {
			continue
		}
		for i, w := range tbl.Rows {
			if w.Field == r.Field && w.Fn == "caller:owner" {
				add = append(add, i)
			}
		}
	}
	if len(add) == 0 {
		return mine
	}
	return append(append([]int{}, mine...), add...)
}

func trimStacks(r report) any {
	out := []any{}
	for _, s := range r.Stacks {
		fr := s.Frames
		if len(fr) > 10 {
			fr = fr[:10]
		}
		out = append(out, map[string]any{"op": s.Op, "frames": fr})
	}
	return out
}

func runRace(f lib.Flags, res *lib.Result, tbl *Table) {
	mon := res.Monitor("race-detector",
		"each scenario (value, value-equiv, collection, collection-genid, collection-models, bus, router, router-stack, wrap-unary, wrap-stream, stream-bidi, group, electric, electric-activate, parent, metadata, waste-hail, default-models, memory-devices, caller-args, caller-args-wrap, remaining-models, slow-writes, slow-writes-busy) runs in a child process of this -race binary with 4-16 goroutines (from the seed) of seeded random reads/writes/subscribes/cancels, interceptors and consumers that read what they are given, and (caller-args*) argument objects shared between the goroutines or rewritten right after each call returns, and (slow-writes*) write calls whose callbacks hold them open until the library's own one-second timers have fired, so that timer-started goroutines run while the write is in progress; every report of the detector is a violation whose replay is the scenario + the two stacks; distinct = scenario x goroutine count")
	tie := res.Tie("table-vs-detector", "K4",
		"per scenario: the table's verdict on the fields the scenario exercises (an unordered pair in scope allows a race, none forbids it) against what the detector saw; per detector report: the two stacks are mapped to table rows by their innermost repository frame and the table must call that pair unordered (a race between rows the table orders, or at a site missing from the table, is a disagreement); non-trivial = scenario executed to completion under the detector")
	if !raceEnabled {
		mon.Error = "the harness binary was not built with -race (props/C11.json \"race\": true needs cgo + gcc)"
		return
	}
	self, err := os.Executable()
	if err != nil {
		mon.Error = err.Error()
		return
	}
	dir := f.Out
	if dir == "" {
		dir = os.TempDir()
	}
	dir = filepath.Join(dir, "race")
	_ = os.MkdirAll(dir, 0o755)
	rng := lib.NewRand(f.Seed)
	type job struct {
		sc    scenario
		g, it int
		seed  int64
	}
	var jobs []job
	rounds := f.N(1, 6)
	for r := 0; r < rounds; r++ {
		for _, sc := range scenarios {
			jobs = append(jobs, job{sc, 4 + rng.Intn(13), f.N(1000, 2500) * sc.Scale, f.Seed*100 + int64(r)})
		}
	}
	results := make([]childResult, len(jobs))
	sem := make(chan struct{}, 5)
	var wg sync.WaitGroup
	t0 := time.Now()
	for i, j := range jobs {
		wg.Add(1)
		go func(i int, j job) {
			defer wg.Done()
			sem <- struct{}{}
			defer func() { <-sem }()
			results[i] = runChild(self, j.sc, j.seed, j.g, j.it, dir, time.Duration(f.N(60, 180))*time.Second)
		}(i, j)
	}
	wg.Wait()
	res.Extra["race_wall_s"] = time.Since(t0).Seconds()
	root := lib.RepoRoot()
	var errs, slow []string
	walls := map[string]float64{}
	for i, cr := range results {
		j := jobs[i]
		walls[cr.Scenario] += cr.Wall.Seconds()
		in := map[string]any{"kind": "race", "scenario": cr.Scenario, "seed": cr.Seed, "goroutines": cr.G, "iters": cr.Iters}
		if cr.Err != "" {
			errs = append(errs, cr.Scenario+": "+cr.Err)
			continue
		}
		if cr.Slow != "" {
			// a machine too loaded to finish the scenario in time is not a property failure: what the
			// detector reported so far is used, the scenario is listed as incomplete
			slow = append(slow, cr.Scenario+": "+cr.Slow)
			mon.Count(cr.Scenario + " incomplete")
		}
		if cr.Fatal != "" {
			kind := strings.SplitN(cr.Fatal, "\n", 2)[0]
			fin := map[string]any{}
			for k, v := range in {
				fin[k] = v
			}
			fin["runtime_report"] = cr.Fatal
			mon.Violate("C11/race/"+cr.Scenario+"/"+strings.ReplaceAll(strings.TrimPrefix(kind, "fatal error: "), " ", "-"),
				"the Go runtime aborted the workload: "+kind, fin, "no data race", kind)
		}
		mon.Eval(fmt.Sprintf("%s/g=%d", cr.Scenario, cr.G), true, map[string]any{"scenario": cr.Scenario, "goroutines": cr.G, "iters": cr.Iters, "reports": len(cr.Reports)})
		mon.Count(fmt.Sprintf("%s reports=%d", cr.Scenario, len(cr.Reports)))
		allowed, sigs := scopeVerdict(tbl, j.sc)
		model := "forbids-race"
		if allowed > 0 {
			model = "allows-race"
		}
		code := model
		if len(cr.Reports) > 0 && allowed == 0 {
			code = "race-seen"
		}
		tie.Record(fmt.Sprintf("%s/g=%d", cr.Scenario, cr.G), true, map[string]any{"scenario": cr.Scenario, "goroutines": cr.G, "seed": cr.Seed, "unordered_in_scope": sigs, "reports": len(cr.Reports)}, model, code)
		tie.Count(cr.Scenario + "/" + model)
		seen := map[string]bool{}
		for _, r := range cr.Reports {
			sig, what := raceSig(r, root)
			rin := map[string]any{}
			for k, v := range in {
				rin[k] = v
			}
			rin["stacks"] = trimStacks(r)
			mon.Violate(sig, "the race detector reported a data race: "+what, rin, "no data race", what)
			if seen[sig] {
				continue
			}
			seen[sig] = true
			ra, rb := rowsOf(r.Stacks[0], root, tbl), rowsOf(r.Stacks[1], root, tbl)
			// one side writes into a published message, the other side is a caller that reads what it was
			// given (no repository frame of its own, or a library read of the message): the caller's row
			// is the synthetic `caller:consumer` reader of the same location
			ra, rb = consumerSide(tbl, rb, ra), consumerSide(tbl, ra, rb)
			// one side is a goroutine the library started reading a lent argument, the other side is whoever
			// writes the argument on the owner's behalf (the caller, its interceptor, the library's in-place
			// filter on the calling goroutine): the synthetic `caller:owner` writer of the same location
			ra, rb = ownerSide(tbl, rb, ra), ownerSide(tbl, ra, rb)
			verdict := "unordered"
			switch {
			case len(ra) == 0 || len(rb) == 0:
				verdict = "site-missing-from-table"
			default:
				any := false
				for _, x := range ra {
					for _, y := range rb {
						a, b := tbl.Rows[x], tbl.Rows[y]
						if goConflict(a, b) && !goOrdered(a, b) {
							any = true
						}
					}
				}
				if !any {
					verdict = "ordered"
				}
			}
			tie.Record("report/"+sig, true, map[string]any{"signature": sig, "what": what}, verdict, "unordered")
			tie.Count("report/" + verdict)
		}
	}
	res.Extra["race_scenario_wall_s"] = walls
	res.Extra["race_incomplete"] = slow
	if len(errs) > 0 {
		sort.Strings(errs)
		mon.Error = strings.Join(errs, " ;; ")
	} else if len(slow)*2 > len(results) {
		mon.Error = "more than half of the scenarios did not complete: " + strings.Join(slow, " ;; ")
	}
}

// ---- replay ----------------------------------------------------------------------------------

func replay(f lib.Flags) int {
	rp, err := lib.ReadReplay(f.Replay)
	if err != nil {
		lib.Fatal(err)
	}
	in, ok := rp.Input.(map[string]any)
	if !ok {
		fmt.Println("replay: no concrete input in file (", rp.Kind, rp.Broken, ")")
		return 2
	}
	switch fmt.Sprint(in["kind"]) {
	case "lockset":
		tbl, err := Extract(lib.RepoRoot())
		if err != nil {
			lib.Fatal(err)
		}
		still := 0
		for _, bp := range goBadPairs(tbl) {
			a, b := tbl.Rows[bp.I], tbl.Rows[bp.J]
			if locksetSig(a, b) == rp.Signature {
				fmt.Printf("STILL FAILS %s:\n  %s\n  %s\n", rp.Signature, tbl.describe(a), tbl.describe(b))
				still++
			}
		}
		if still > 0 {
			return 1
		}
		fmt.Println("replay: the pair is ordered (or gone) in the table extracted from the current sources")
		return 0
	case "race":
		if !raceEnabled {
			fmt.Println("replay needs the -race build of the harness")
			return 2
		}
		self, _ := os.Executable()
		name := fmt.Sprint(in["scenario"])
		seed := int64(num(in["seed"]))
		g, iters := int(num(in["goroutines"])), int(num(in["iters"]))
		dir, _ := os.MkdirTemp("", "c11-replay")
		defer os.RemoveAll(dir)
		for _, sc := range scenarios {
			if sc.Name != name {
				continue
			}
			// data races are schedule dependent: the scenario is repeated (same program, same seed,
			// then neighbouring seeds) until the same pair of sites is reported again
			for attempt := 0; attempt < 6; attempt++ {
				cr := runChild(self, sc, seed+int64(attempt), g, iters*(1+attempt/2), dir, 60*time.Second)
				for _, r := range cr.Reports {
					sig, what := raceSig(r, lib.RepoRoot())
					if sig == rp.Signature {
						fmt.Printf("STILL FAILS %s (attempt %d): %s\n%s\n", sig, attempt+1, what, r.Raw)
						return 1
					}
				}
			}
			fmt.Println("replay: the detector no longer reports this pair (6 attempts)")
			return 0
		}
		fmt.Println("replay: unknown scenario", name)
		return 2
	case "sync":
		r := newRealSync()
		for _, tok := range strings.Fields(fmt.Sprint(in["events"])) {
			e, ok := parseSyncEv(tok)
			if !ok {
				fmt.Println("replay: malformed event", tok)
				return 2
			}
			if !r.step(e) {
				break
			}
		}
		if r.broken != "" {
			fmt.Println("STILL FAILS C11/sync/rwmutex-exclusion:", r.broken)
			return 1
		}
		fmt.Println("replay: mutual exclusion holds along the sequence")
		return 0
	case "many":
		seq, ok := parseManyLine(fmt.Sprint(in["events"]))
		if !ok {
			fmt.Println("replay: malformed event list")
			return 2
		}
		if d := manyIndependence(seq); d != "" {
			fmt.Println("STILL FAILS C11/sync/instance-independence:", d)
			return 1
		}
		fmt.Println("replay: every object accepts alone what it accepts in the interleaving")
		return 0
	}
	b, _ := json.Marshal(in)
	fmt.Println("replay: unknown input kind", string(b))
	return 2
}

func num(v any) float64 {
	switch x := v.(type) {
	case float64:
		return x
	case int:
		return float64(x)
	case int64:
		return float64(x)
	}
	return 0
}
