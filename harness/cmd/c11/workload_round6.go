package main

// Scenario "remaining-models" (round 6): the value-backed trait models no other scenario reaches — access
// (last attempt), meter (RecordReading / Reset, whose interceptor stamps the message it is given), mode
// (DefaultModes is ONE package-level message shared by every default model: two models, absolute and
// relative updates through the server, AvailableValues / Modes readers that marshal what they get) and
// press — through the Model API, the ModelServers and their in-process wrappers, with subscribers that
// read every event they receive; plus pkg/server's InfoServer (device registry under an RWMutex; listers
// marshal every device they are given).  With it every package under pkg/trait that has a model, and every
// type of pkg/** with a mutex, is driven by at least one scenario.

import (
	"context"
	"fmt"
	"math/rand"
	"time"

	"github.com/smart-core-os/sc-api/go/info"
	"github.com/smart-core-os/sc-api/go/traits"
	"github.com/smart-core-os/sc-golang/pkg/resource"
	"github.com/smart-core-os/sc-golang/pkg/server"
	"github.com/smart-core-os/sc-golang/pkg/trait/accesspb"
	"github.com/smart-core-os/sc-golang/pkg/trait/meterpb"
	"github.com/smart-core-os/sc-golang/pkg/trait/modepb"
	"github.com/smart-core-os/sc-golang/pkg/trait/presspb"
	"go.uber.org/zap"
	"google.golang.org/protobuf/proto"
	"google.golang.org/protobuf/types/known/fieldmaskpb"
)

func init() {
	scenarios = append(scenarios, scenario{"remaining-models", 1, []string{"accesspb.", "meterpb.", "modepb.", "presspb.", "server.", "shared:", "resource.", "minibus.", "wrap.", "bus-shared:", "local:"}, wlRemainingModels})
}

func wlRemainingModels(w *wl) {
	access := accesspb.NewModel()
	meter := meterpb.NewModel()
	modeA, modeB := modepb.NewModel(), modepb.NewModel() // both hold modepb.DefaultModes
	press := presspb.NewModel(traits.PressedState_UNPRESSED)
	accessC := accesspb.WrapApi(accesspb.NewModelServer(access))
	meterC := meterpb.WrapApi(meterpb.NewModelServer(meter))
	modeSrvA, modeSrvB := modepb.NewModelServer(modeA), modepb.NewModelServer(modeB)
	modeC := modepb.WrapApi(modeSrvA)
	pressSrv := presspb.NewModelServer(press)
	pressC := presspb.WrapApi(pressSrv)
	infoSrv := server.NewInfoServer(zap.NewNop())
	bg := context.Background()
	temps, spins := []string{"delicates", "medium", "whites"}, []string{"auto", "slow", "fast"}
	recvSome := func(cancel context.CancelFunc, recv func() (proto.Message, error)) {
		for k := 0; k < 5; k++ {
			msg, err := recv()
			if err != nil {
				break
			}
			readMsg(msg)
		}
		cancel()
		for {
			if _, err := recv(); err != nil {
				break
			}
		}
	}
	w.par(func(id int, rng *rand.Rand) {
		for i := 0; w.more(i); i++ {
			ctx, cancel := context.WithTimeout(bg, time.Duration(rng.Intn(5)+1)*time.Millisecond)
			switch rng.Intn(18) {
			case 0: // access
				res, _ := access.UpdateLastAccessAttempt(&traits.AccessAttempt{Grant: traits.AccessAttempt_Grant(rng.Intn(4)), Reason: fmt.Sprint(id, i),
					Actor: &traits.AccessAttempt_Actor{Name: fmt.Sprint("a", id)}})
				readMsg(res)
			case 1:
				res, _ := access.GetLastAccessAttempt(resource.WithReadMask(&fieldmaskpb.FieldMask{Paths: []string{"reason", "actor"}}))
				readMsg(res)
				res, _ = accessC.GetLastAccessAttempt(ctx, &traits.GetLastAccessAttemptRequest{Name: "a"})
				readMsg(res)
			case 2:
				if rng.Intn(2) == 0 {
					drain(ctx, access.PullAccessAttempts(ctx, resource.WithUpdatesOnly(rng.Intn(2) == 0)), 20, func(c accesspb.PullAccessAttemptsChange) { readMsg(c.Value) })
				} else if stream, err := accessC.PullAccessAttempts(ctx, &traits.PullAccessAttemptsRequest{Name: "a", UpdatesOnly: rng.Intn(2) == 0}); err == nil {
					recvSome(cancel, func() (proto.Message, error) { return stream.Recv() })
				}
			case 3: // meter
				res, _ := meter.RecordReading(float32(rng.Intn(1000)))
				readMsg(res)
			case 4:
				if rng.Intn(4) == 0 {
					res, _ := meter.Reset()
					readMsg(res)
				} else {
					res, _ := meter.UpdateMeterReading(&traits.MeterReading{Usage: float32(i)}, resource.WithUpdatePaths("usage"),
						resource.InterceptBefore(func(old, change proto.Message) { readMsg(old); readMsg(change) }))
					readMsg(res)
				}
			case 5:
				res, _ := meter.GetMeterReading()
				readMsg(res)
				res, _ = meterC.GetMeterReading(ctx, &traits.GetMeterReadingRequest{Name: "m", ReadMask: &fieldmaskpb.FieldMask{Paths: []string{"usage"}}})
				readMsg(res)
			case 6:
				if rng.Intn(2) == 0 {
					slowDrain(ctx, meter.PullMeterReadings(ctx), 20, func(c meterpb.PullMeterReadingChange) { readMsg(c.Value) })
				} else if stream, err := meterC.PullMeterReadings(ctx, &traits.PullMeterReadingsRequest{Name: "m", UpdatesOnly: rng.Intn(2) == 0}); err == nil {
					recvSome(cancel, func() (proto.Message, error) { return stream.Recv() })
				}
			case 7: // mode: absolute update on one of the two default models
				m := []*modepb.Model{modeA, modeB}[rng.Intn(2)]
				res, _ := m.UpdateModeValues(&traits.ModeValues{Values: map[string]string{"temperature": temps[rng.Intn(3)], "spin": spins[rng.Intn(3)]}})
				readMsg(res)
			case 8: // relative update through the server (walks the shared Modes message)
				s := []*modepb.ModelServer{modeSrvA, modeSrvB}[rng.Intn(2)]
				res, _ := s.UpdateModeValues(bg, &traits.UpdateModeValuesRequest{Name: "m", Relative: &traits.ModeValuesRelative{Values: map[string]int32{"temperature": int32(rng.Intn(3) - 1)}}})
				readMsg(res)
				res, _ = modeC.UpdateModeValues(ctx, &traits.UpdateModeValuesRequest{Name: "m", ModeValues: &traits.ModeValues{Values: map[string]string{"spin": spins[rng.Intn(3)]}},
					UpdateMask: &fieldmaskpb.FieldMask{Paths: []string{"values"}}})
				readMsg(res)
			case 9:
				m := []*modepb.Model{modeA, modeB}[rng.Intn(2)]
				readMsg(m.ModeValues())
				readMsg(m.Modes())
				for _, v := range m.AvailableValues([]string{"temperature", "spin", "none"}[rng.Intn(3)]) {
					readMsg(v)
				}
				res, _ := modeC.GetModeValues(ctx, &traits.GetModeValuesRequest{Name: "m"})
				readMsg(res)
			case 10:
				if rng.Intn(2) == 0 {
					drain(ctx, modeB.PullModeValues(ctx, resource.WithUpdatesOnly(rng.Intn(2) == 0)), 20, func(c modepb.ModeValuesChange) { readMsg(c.Value) })
				} else if stream, err := modeC.PullModeValues(ctx, &traits.PullModeValuesRequest{Name: "m", UpdatesOnly: rng.Intn(2) == 0}); err == nil {
					recvSome(cancel, func() (proto.Message, error) { return stream.Recv() })
				}
			case 11: // press
				res, _ := press.UpdatePressedState(&traits.PressedState{State: traits.PressedState_Press(1 + rng.Intn(2))}, resource.WithUpdatePaths("state"))
				readMsg(res)
			case 12:
				res, _ := pressSrv.UpdatePressedState(bg, &traits.UpdatePressedStateRequest{Name: "p", PressedState: &traits.PressedState{State: traits.PressedState_Press(1 + rng.Intn(2)),
					MostRecentGesture: &traits.PressedState_Gesture{Id: fmt.Sprint(id, i), Count: int32(i)}}})
				readMsg(res)
			case 13:
				readMsg(press.GetPressedState())
				res, _ := pressC.GetPressedState(ctx, &traits.GetPressedStateRequest{Name: "p", ReadMask: &fieldmaskpb.FieldMask{Paths: []string{"state"}}})
				readMsg(res)
			case 14: // the device registry
				// half of the registrations are repeats of a few names, half are new names (the registry keeps
				// being written while others look names up and list)
				d := &info.Device{Name: fmt.Sprint("dev/", rng.Intn(6)), Traits: []*info.Trait{{Name: "t"}}}
				if rng.Intn(2) == 0 {
					d.Name = fmt.Sprint("dev/", id, "/", i)
				}
				if rng.Intn(3) == 0 {
					infoSrv.RemoveDevice(d)
				} else {
					infoSrv.AddDevice(d)
				}
			case 15:
				if res, err := infoSrv.ListDevices(ctx, &info.ListDevicesRequest{}); err == nil {
					readMsg(res)
				}
			default:
				if rng.Intn(2) == 0 {
					drain(ctx, press.PullPressedState(ctx, resource.WithUpdatesOnly(rng.Intn(2) == 0)), 20, func(c presspb.PullPressedStateChange) { readMsg(c.Value) })
				} else if stream, err := pressC.PullPressedState(ctx, &traits.PullPressedStateRequest{Name: "p", UpdatesOnly: rng.Intn(2) == 0}); err == nil {
					recvSome(cancel, func() (proto.Message, error) { return stream.Recv() })
				}
			}
			cancel()
		}
	})
}
