// K3 translator for C11: extracts, from /repo's current sources, the table of accesses to the fields
// of the concurrently usable types together with the mutexes held at each access.
//
// Technique: go/parser + go/types (std lib only; imports of other packages are replaced by empty
// packages and type errors are ignored, so only package-local struct fields are resolved, which is all
// that is needed) and an in-order walk of every function body that tracks the lock set:
//
//   - X.mu.Lock/RLock/Unlock/RUnlock on a mutex field of a tracked struct (keyed by the root
//     identifier X); `defer X.mu.Unlock()` keeps the lock to the end of the function;
//
//   - branches are walked on a copy of the state, a branch that ends in return/continue/break does not
//     flow out, the others are merged by intersection (a lock counts only if held on every path);
//
//   - calls of package-local functions/methods are followed with the caller's locks on the receiver
//     expression as the callee's entry lock set (context-sensitive, memoised);
//
//   - a function that takes a *sync.(RW)Mutex parameter and calls its func-typed parameters (the
//     shape of resource.GetAndUpdate) is summarised from its own body: "parameter i is called with
//     the mutex parameter held in mode m"; func literals passed at such a call are walked once per
//     summarised lock set (so `get` is walked under RLock and under Lock, `change` under no lock and
//     `save` under Lock — derived from GetAndUpdate's body, not declared);
//
//   - `go func(){…}()` starts with the empty lock set; other func literals are assumed to be called
//     synchronously by the callee they are passed to and inherit the current lock set;
//
//   - a function value bound to a local (`get := func(){…}`, `f := r.save`, `g := f`) is walked where it
//     is used, not where it is written: at its call (locks held there), at the argument slot it is passed
//     in (so a GetAndUpdate callback passed through a local gets the slot's locks), at `go f()` (no
//     locks); one that is only returned/stored is walked with the locks held at its definition;
//
//   - the locks a caller keeps holding while a callee runs travel into the callee: renamed to the
//     callee's receiver for a direct receiver call X.m(), otherwise as ambient locks that are matched to
//     accesses by the owner's type (the callee may reach the same object through another path);
//
//   - constructor-phase code (functions named New*/With*/compute*/calc*, composite literals) yields
//     phase=init rows;
//
//   - channel fields: `close(X.c)` at the top level of a function, where it is the only close site of
//     that channel in the package, is a release event for the plain top-level accesses before it;
//     a receive from a channel that has no send site, or the `!ok` branch of `v, ok := <-X.c`, is an
//     "observed closed" acquire event for the accesses after it on that path.
//
//   - tracked types: every struct with a sync.(RW)Mutex field, every type named Model, every struct
//     with at least one pointer-receiver method (servers, groups, memory devices, wrappers — objects that
//     are shared by pointer between the goroutines calling their methods), and the structs embedded in
//     those; since round 8 also the plain helper structs of the package that hang off such an object (the type,
//     pointee, element or map value of one of its named fields: `item` records of a Collection, preset tables
//     of models) — they are reached by whoever reaches the object, and only a lock matched through the root of
//     the selector chain guards them, so a record that is rewritten in place while readers hold it is an
//     unordered pair; event types sent on a bus keep their `bus-shared:` treatment;
//
//   - single-assignment local aliases (`cc := c`) are resolved to the variable they copy before locks
//     are matched to accesses (aliasesOf);
//
//   - functional options `func(o *T){…}` are constructor-phase (isOptionLit); accesses through a local
//     that holds an object the function itself created, before the function's first go / send / close,
//     are constructor-phase (fresh.go);
//
//   - `published:` rows for the contents of stored / published messages come from published.go.
//
//   - `global:` rows for package-level variables written outside `init` come from globals.go (round 8): they
//     hold package-level mutexes only — no lock of an instance guards a variable every instance shares.
//
// Declared (hand-justified) inputs are at the top of this file: pointee effects, single-goroutine
// roles, constructor name patterns.
package main

import (
	"fmt"
	"go/ast"
	"go/parser"
	"go/token"
	"go/types"
	"os"
	"path/filepath"
	"regexp"
	"sort"
	"strings"
)

// ---- declared inputs -------------------------------------------------------------------------

// pointeeEffects: using the field's value (as a call argument or method receiver) mutates the
// object it designates.  math/rand.Rand (the default rng, an io.Reader) is documented as not safe
// for concurrent use: Read advances the generator state.
var pointeeEffects = map[string]string{
	"resource.config.rng": "io.Reader.Read on the default *math/rand.Rand advances the generator state (not goroutine safe)",
}

// roles: functions that, by the contract of the type, run on one goroutine (value = role id, >0).
// grpc.ServerStream: the handler goroutine calls SetHeader/SendHeader/SetTrailer/SendMsg; the
// wrapper calls Close after the handler has returned, on the same goroutine (pkg/wrap/wrap.go).
var roles = []struct {
	Prefix string
	Role   int
	Why    string
}{
	{"wrap.serverStream.", 1, "grpc.ServerStream header/trailer/send methods are called by the handler goroutine"},
	{"wrap.ClientServerStream.Close", 1, "wrap.go calls Close on the handler goroutine after the handler returned"},
}

var ctorName = regexp.MustCompile(`^(New|With|new|compute|calc|default|Default)`)

// packages that are never concurrently-usable library code
var skipDir = regexp.MustCompile(`(^|/)(testproto|verifhook|cmd|examples?)(/|$)`)

// ---- table -----------------------------------------------------------------------------------

type HeldLock struct {
	Lock string `json:"lock"`
	Mode string `json:"mode"` // "R" shared | "X" exclusive
}

type Row struct {
	Field     string     `json:"field"`
	Kind      string     `json:"kind"` // R | W
	Fn        string     `json:"fn"`
	Held      []HeldLock `json:"held"`
	Phase     string     `json:"phase"` // init | live
	Role      int        `json:"role"`
	RelAfter  []string   `json:"rel_after"`
	AcqBefore []string   `json:"acq_before"`
	Pos       []string   `json:"pos"` // file:line of every syntactic site merged into this row
}

func (r *Row) semKey() string {
	return fmt.Sprintf("%s|%s|%s|%v|%s|%d|%v|%v", r.Field, r.Kind, r.Fn, r.Held, r.Phase, r.Role, r.RelAfter, r.AcqBefore)
}

type Table struct {
	Rows     []*Row   `json:"rows"`
	Fields   []string `json:"fields"`
	Locks    []string `json:"locks"`
	Fns      []string `json:"fns"`
	Chans    []string `json:"chans"`
	Types    []string `json:"types"` // tracked struct types
	Notes    []string `json:"notes"`
	Captured []string `json:"captured"` // what the goroutines of each function share (capture.go)
	bySite   map[string][]int
}

// ---- per-package analysis --------------------------------------------------------------------

type fieldInfo struct {
	busShared bool   // field of an event type whose pointers are sent on a minibus.Bus (shared by all listeners)
	owner     string // pkg.Type
	name      string
	isMutex   bool
	rw        bool // RWMutex
	isChan    bool
}

func (f *fieldInfo) full() string { return f.owner + "." + f.name }

type lockKey struct {
	base string
	lock string
}

type state struct {
	held  map[lockKey]string // "R" | "X"
	acq   map[string]bool    // channels observed closed
	okVar map[string]string  // ok identifier -> channel field (from `v, ok := <-X.c`)
}

func newState() *state {
	return &state{held: map[lockKey]string{}, acq: map[string]bool{}, okVar: map[string]string{}}
}

func (s *state) clone() *state {
	n := newState()
	for k, v := range s.held {
		n.held[k] = v
	}
	for k := range s.acq {
		n.acq[k] = true
	}
	for k, v := range s.okVar {
		n.okVar[k] = v
	}
	return n
}

// meet: a lock/observation counts after a join only if it holds on every incoming path
func meet(states []*state) *state {
	if len(states) == 0 {
		return nil
	}
	res := states[0].clone()
	for _, s := range states[1:] {
		for k, m := range res.held {
			m2, ok := s.held[k]
			if !ok {
				delete(res.held, k)
			} else if m2 == "R" || m == "R" {
				res.held[k] = "R"
			}
		}
		for k := range res.acq {
			if !s.acq[k] {
				delete(res.acq, k)
			}
		}
		for k, v := range res.okVar {
			if s.okVar[k] != v {
				delete(res.okVar, k)
			}
		}
	}
	return res
}

type pkgAn struct {
	busTypes    map[string]*types.Struct // event struct types sent on a bus, by name
	freshMemo   map[*ast.FuncDecl]map[types.Object]bool
	aliasMemo   map[*ast.FuncDecl]map[string]string
	freshLocals map[*ast.FuncDecl]*freshInfo
	files       []*ast.File
	path        string // import path
	short       string
	rel         string // directory relative to the repo root
	fset        *token.FileSet
	info        *types.Info
	fields      map[*types.Var]*fieldInfo
	innerMutex  map[*fieldInfo]*fieldInfo
	tracked     map[string]bool // pkg.Type
	confined    map[string]bool // pkg.Type: goroutine-confined helper types (confined.go)
	confNotes   []string
	decls       map[*types.Func]*ast.FuncDecl
	sends       map[string]int
	closes      map[string]int
	rows        map[string]*Row
	rowOrder    []string
	memo        map[string]bool
	called      map[*types.Func]bool
	// summaries[F][paramIndex] = list of lock sets (param name -> mode) under which F calls that parameter
	summaries map[*types.Func]map[int][]map[string]string
	newSumm   map[*types.Func]map[int][]map[string]string
}

type fctx struct {
	fn      string // label
	decl    *types.Func
	phase   string
	role    int
	params  map[*types.Var]int // parameters of decl (index), for summaries
	top     bool               // walking a top-level plain statement of the function body
	topRows []*Row             // rows recorded by top-level plain statements (candidates for relAfter)
	b       *bindings          // function values bound to local variables, shared by all contexts of one function
}

// A function value bound to a local variable (`get := func() {…}`, `f := r.save`, `g := f`) is not
// walked where it is written down but where it is used: called (`get()`: the locks held at the call),
// passed to a callee (exactly like an inline literal at that argument position, so a GetAndUpdate
// callback passed through a local gets the slot's locks), started with `go` (no locks).  A binding
// that is never used in one of these ways (returned, stored, …) is walked once with the locks held
// where it was defined, which is what an inline literal at that place would get.
type binding struct {
	lit  *ast.FuncLit
	fn   *types.Func // method value or function value (package-local)
	recv ast.Expr    // receiver expression of a method value
	name string
	def  *state
	ctx  *fctx
	used bool
}

type bindings struct {
	m     map[types.Object]*binding
	order []*binding
	busy  map[*ast.FuncLit]bool
}

func newBindings() *bindings {
	return &bindings{m: map[types.Object]*binding{}, busy: map[*ast.FuncLit]bool{}}
}

func (c *fctx) child(suffix string) *fctx {
	return &fctx{fn: c.fn + suffix, decl: c.decl, phase: c.phase, role: c.role, params: c.params, b: c.b}
}

func (pa *pkgAn) objOf(id *ast.Ident) types.Object {
	if o := pa.info.Defs[id]; o != nil {
		return o
	}
	return pa.info.Uses[id]
}

// resolveFn: e denotes a function value the extractor can follow
func (pa *pkgAn) resolveFn(c *fctx, e ast.Expr) *binding {
	for {
		if p, ok := e.(*ast.ParenExpr); ok {
			e = p.X
			continue
		}
		break
	}
	switch x := e.(type) {
	case *ast.FuncLit:
		return &binding{lit: x, name: "func"}
	case *ast.Ident:
		o := pa.info.Uses[x]
		if o == nil {
			return nil
		}
		if b := c.b.m[o]; b != nil {
			return b
		}
		if fn, ok := o.(*types.Func); ok && pa.decls[fn] != nil {
			return &binding{fn: fn, name: fn.Name()}
		}
	case *ast.SelectorExpr:
		if sel := pa.info.Selections[x]; sel != nil && sel.Kind() == types.MethodVal {
			if fn, ok := sel.Obj().(*types.Func); ok && pa.decls[fn] != nil {
				return &binding{fn: fn, recv: x.X, name: fn.Name()}
			}
		}
	}
	return nil
}

// bind records `name := <function value>`; reports whether it did
func (pa *pkgAn) bind(c *fctx, st *state, lhs ast.Expr, rhs ast.Expr) bool {
	id, ok := lhs.(*ast.Ident)
	if !ok || id.Name == "_" {
		return false
	}
	o := pa.objOf(id)
	if o == nil {
		return false
	}
	if v, isVar := o.(*types.Var); !isVar || v.Parent() == v.Pkg().Scope() {
		return false // only local variables
	}
	src := pa.resolveFn(c, rhs)
	if src == nil {
		return false
	}
	src.used = true
	if old := c.b.m[o]; old != nil && !old.used {
		old.used = true
		pa.invoke(old.ctx, old.def, old, "/"+old.name)
	}
	nb := &binding{lit: src.lit, fn: src.fn, recv: src.recv, name: id.Name, def: st.clone(), ctx: c}
	c.b.m[o] = nb
	c.b.order = append(c.b.order, nb)
	if src.recv != nil {
		pa.walkExpr(c, st, src.recv)
	}
	return true
}

// invoke walks the function value with the given lock state
func (pa *pkgAn) invoke(c *fctx, st *state, b *binding, suffix string) {
	if b.lit != nil {
		if c.b.busy[b.lit] {
			return
		}
		c.b.busy[b.lit] = true
		fc := c.child(suffix)
		pa.walkBody(fc, st.clone(), b.lit.Body)
		pa.flush(fc)
		delete(c.b.busy, b.lit)
		return
	}
	if b.fn != nil {
		pa.invokeFunc(c, st, b.fn, b.recv)
	}
}

// invokeFunc follows a call of a package-local function/method: the caller's locks on the receiver
// expression (a direct receiver X.m, not X.other.m) become the callee's entry lock set
func (pa *pkgAn) invokeFunc(c *fctx, st *state, callee *types.Func, recvX ast.Expr) {
	pa.called[callee] = true
	entry := map[string]string{}
	direct := ""
	if recvX != nil {
		if _, ok := recvX.(*ast.Ident); ok {
			direct = rootIdent(recvX)
		}
	}
	for k, m := range st.held {
		if k.lock == "$param" {
			continue
		}
		if direct != "" && k.base == direct {
			entry[k.lock] = m
			continue
		}
		// The caller keeps holding its other locks while the callee runs.  Which object they belong to is
		// not known inside the callee (it may reach the same object through another path, `w.r.store()`),
		// so they travel as ambient locks and are matched to accesses by the owner's type (see record).
		if old, ok := entry["*"+k.lock]; !ok || old == "R" {
			entry["*"+k.lock] = m
		}
	}
	phase := c.phase
	if pa.rootPhase(callee) == "init" {
		phase = "init"
	}
	role := c.role
	if r := pa.rootRole(callee); r != 0 {
		role = r
	}
	var acq []string
	for ch := range st.acq {
		acq = append(acq, ch)
	}
	pa.analyse(callee, entry, role, phase, acq...)
}

type fakeImporter struct{ pkgs map[string]*types.Package }

func (f *fakeImporter) Import(path string) (*types.Package, error) {
	if p, ok := f.pkgs[path]; ok {
		return p, nil
	}
	name := path[strings.LastIndex(path, "/")+1:]
	if m := regexp.MustCompile(`^v[0-9]+$`); m.MatchString(name) {
		parts := strings.Split(path, "/")
		if len(parts) > 1 {
			name = parts[len(parts)-2]
		}
	}
	p := types.NewPackage(path, name)
	p.MarkComplete()
	f.pkgs[path] = p
	return p, nil
}

func isSyncMutex(e ast.Expr) (isMutex, rw bool) {
	if se, ok := e.(*ast.SelectorExpr); ok {
		if id, ok := se.X.(*ast.Ident); ok && id.Name == "sync" {
			switch se.Sel.Name {
			case "Mutex":
				return true, false
			case "RWMutex":
				return true, true
			}
		}
	}
	return false, false
}

// Extract builds the table from the repository rooted at root.
func Extract(root string) (*Table, error) {
	ambientUsed = map[string]bool{}
	var dirs []string
	for _, top := range []string{"pkg", "internal"} {
		_ = filepath.Walk(filepath.Join(root, top), func(p string, fi os.FileInfo, err error) error {
			if err != nil {
				return nil
			}
			if fi.IsDir() {
				rel, _ := filepath.Rel(root, p)
				if skipDir.MatchString(rel) {
					return filepath.SkipDir
				}
				dirs = append(dirs, p)
			}
			return nil
		})
	}
	sort.Strings(dirs)
	tbl := &Table{}
	all := map[string]*Row{}
	var order []string
	var pas []*pkgAn
	var capNotes, pubNotes []string
	for _, d := range dirs {
		pa, err := analysePackage(root, d)
		if err != nil {
			return nil, err
		}
		if pa == nil {
			continue
		}
		pas = append(pas, pa)
		crow, cnotes := pa.captureRows()
		for _, r := range crow {
			k := r.semKey()
			if _, ok := all[k]; !ok {
				all[k] = r
				order = append(order, k)
			}
		}
		capNotes = append(capNotes, cnotes...)
		prow, pnotes := pa.publishedRows()
		for _, r := range prow {
			k := r.semKey()
			if _, ok := all[k]; !ok {
				all[k] = r
				order = append(order, k)
			}
		}
		pubNotes = append(pubNotes, pnotes...)
		pubNotes = append(pubNotes, pa.confNotes...)
		arow, anotes := pa.argRows()
		for _, r := range arow {
			k := r.semKey()
			if _, ok := all[k]; !ok {
				all[k] = r
				order = append(order, k)
			}
		}
		pubNotes = append(pubNotes, anotes...)
		lrow, lnotes := pa.lentRows()
		for _, r := range lrow {
			k := r.semKey()
			if _, ok := all[k]; !ok {
				all[k] = r
				order = append(order, k)
			}
		}
		pubNotes = append(pubNotes, lnotes...)
		grow, gnotes := pa.globalRows()
		for _, r := range grow {
			k := r.semKey()
			if old, ok := all[k]; ok {
				old.Pos = appendUniq(old.Pos, r.Pos[0])
			} else {
				all[k] = r
				order = append(order, k)
			}
		}
		pubNotes = append(pubNotes, gnotes...)
		for t := range pa.tracked {
			tbl.Types = append(tbl.Types, t)
		}
		for _, k := range pa.rowOrder {
			if _, ok := all[k]; !ok {
				all[k] = pa.rows[k]
				order = append(order, k)
			}
		}
	}
	sort.Strings(tbl.Types)
	for _, k := range order {
		tbl.Rows = append(tbl.Rows, all[k])
	}
	addSharedGlobals(tbl, pas)
	tbl.Captured = capNotes
	tbl.Notes = append(tbl.Notes, pubNotes...)
	for _, k := range keys(ambientUsed) {
		tbl.Notes = append(tbl.Notes, "ambient lock matched by owner type: "+k)
	}
	sort.SliceStable(tbl.Rows, func(i, j int) bool {
		a, b := tbl.Rows[i], tbl.Rows[j]
		if a.Field != b.Field {
			return a.Field < b.Field
		}
		if a.Fn != b.Fn {
			return a.Fn < b.Fn
		}
		return a.semKey() < b.semKey()
	})
	tbl.index()
	if len(tbl.Rows) == 0 {
		return nil, fmt.Errorf("no accesses extracted from %s", root)
	}
	return tbl, nil
}

func (t *Table) index() {
	fs, ls, fns, cs := map[string]bool{}, map[string]bool{}, map[string]bool{}, map[string]bool{}
	t.bySite = map[string][]int{}
	for i, r := range t.Rows {
		fs[r.Field] = true
		fns[r.Fn] = true
		for _, h := range r.Held {
			ls[h.Lock] = true
		}
		for _, c := range r.RelAfter {
			cs[c] = true
		}
		for _, c := range r.AcqBefore {
			cs[c] = true
		}
		for _, p := range r.Pos {
			t.bySite[p] = append(t.bySite[p], i)
		}
	}
	t.Fields, t.Locks, t.Fns, t.Chans = keys(fs), keys(ls), keys(fns), keys(cs)
}

func keys(m map[string]bool) []string {
	var r []string
	for k := range m {
		r = append(r, k)
	}
	sort.Strings(r)
	return r
}

func analysePackage(root, dir string) (*pkgAn, error) {
	fset := token.NewFileSet()
	ents, err := os.ReadDir(dir)
	if err != nil {
		return nil, err
	}
	var files []*ast.File
	for _, e := range ents {
		n := e.Name()
		if e.IsDir() || !strings.HasSuffix(n, ".go") || strings.HasSuffix(n, "_test.go") || strings.HasSuffix(n, ".pb.go") {
			continue
		}
		src, err := os.ReadFile(filepath.Join(dir, n))
		if err != nil {
			return nil, err
		}
		if regexp.MustCompile(`(?m)^//go:build .*\bverif\b`).Match(src) {
			continue // verification-only exports
		}
		f, err := parser.ParseFile(fset, filepath.Join(dir, n), src, parser.SkipObjectResolution)
		if err != nil {
			return nil, fmt.Errorf("parse %s: %v", n, err)
		}
		files = append(files, f)
	}
	if len(files) == 0 {
		return nil, nil
	}
	info := &types.Info{
		Defs:       map[*ast.Ident]types.Object{},
		Uses:       map[*ast.Ident]types.Object{},
		Selections: map[*ast.SelectorExpr]*types.Selection{},
		Types:      map[ast.Expr]types.TypeAndValue{},
	}
	conf := types.Config{Importer: &fakeImporter{pkgs: map[string]*types.Package{}}, Error: func(error) {}, DisableUnusedImportCheck: true}
	pkg, _ := conf.Check(files[0].Name.Name, fset, files, info)
	if pkg == nil {
		return nil, nil
	}
	rel, _ := filepath.Rel(root, dir)
	pa := &pkgAn{files: files, path: modulePath(root) + "/" + filepath.ToSlash(rel), short: pkg.Name(), rel: rel, fset: fset, info: info, fields: map[*types.Var]*fieldInfo{}, innerMutex: map[*fieldInfo]*fieldInfo{}, busTypes: map[string]*types.Struct{}, freshMemo: map[*ast.FuncDecl]map[types.Object]bool{}, aliasMemo: map[*ast.FuncDecl]map[string]string{}, freshLocals: map[*ast.FuncDecl]*freshInfo{},
		tracked: map[string]bool{}, confined: map[string]bool{}, decls: map[*types.Func]*ast.FuncDecl{}, sends: map[string]int{}, closes: map[string]int{},
		rows: map[string]*Row{}, memo: map[string]bool{}, called: map[*types.Func]bool{},
		summaries: map[*types.Func]map[int][]map[string]string{}, newSumm: map[*types.Func]map[int][]map[string]string{}}

	// struct declarations
	type sdecl struct {
		name string
		st   *ast.StructType
		obj  *types.TypeName
	}
	var structs []sdecl
	for _, f := range files {
		for _, d := range f.Decls {
			gd, ok := d.(*ast.GenDecl)
			if !ok || gd.Tok != token.TYPE {
				continue
			}
			for _, sp := range gd.Specs {
				ts := sp.(*ast.TypeSpec)
				st, ok := ts.Type.(*ast.StructType)
				if !ok {
					continue
				}
				if tn, ok := info.Defs[ts.Name].(*types.TypeName); ok {
					structs = append(structs, sdecl{ts.Name.Name, st, tn})
				}
			}
		}
	}
	hasMutex := func(st *ast.StructType) bool {
		for _, fl := range st.Fields.List {
			if m, _ := isSyncMutex(fl.Type); m {
				return true
			}
			if inner, ok := fl.Type.(*ast.StructType); ok {
				for _, f2 := range inner.Fields.List {
					if m, _ := isSyncMutex(f2.Type); m {
						return true
					}
				}
			}
		}
		return false
	}
	// "objects": struct types with at least one pointer-receiver method are shared by pointer between
	// the goroutines that call those methods (servers, groups, devices, wrappers), mutex or not
	ptrRecv := map[string]bool{}
	for _, f := range files {
		for _, d := range f.Decls {
			fd, ok := d.(*ast.FuncDecl)
			if !ok || fd.Recv == nil || len(fd.Recv.List) != 1 {
				continue
			}
			if st, ok := fd.Recv.List[0].Type.(*ast.StarExpr); ok {
				if id, ok := st.X.(*ast.Ident); ok {
					ptrRecv[id.Name] = true
				}
			}
		}
	}
	trackedNames := map[string]bool{}
	for _, s := range structs {
		if hasMutex(s.st) || s.name == "Model" {
			trackedNames[s.name] = true
		}
	}
	// structs embedded (by value or pointer) in a tracked struct are part of the same object
	for changed := true; changed; {
		changed = false
		for _, s := range structs {
			if !trackedNames[s.name] {
				continue
			}
			for _, fl := range s.st.Fields.List {
				if len(fl.Names) != 0 {
					continue
				}
				t := fl.Type
				if se, ok := t.(*ast.StarExpr); ok {
					t = se.X
				}
				if id, ok := t.(*ast.Ident); ok && !trackedNames[id.Name] {
					for _, s2 := range structs {
						if s2.name == id.Name {
							trackedNames[id.Name] = true
							changed = true
						}
					}
				}
			}
		}
	}
	// Event types: structs whose pointers are handed to a minibus.Bus (`x.bus.Send(ctx, &T{…})`) or
	// taken back out of one (`event.(*T)`).  Every listener receives the SAME pointer, so an event is an
	// object shared between the sender and all consumers; the library must not write to it after Send.
	busFields := map[string]bool{}
	for _, sd := range structs {
		for _, fl := range sd.st.Fields.List {
			if se, ok := fl.Type.(*ast.SelectorExpr); ok && se.Sel.Name == "Bus" {
				if id, ok := se.X.(*ast.Ident); ok && id.Name == "minibus" {
					for _, n := range fl.Names {
						busFields[n.Name] = true
					}
				}
			}
		}
	}
	busShared := map[string]bool{}
	if len(busFields) > 0 {
		isStruct := map[string]bool{}
		for _, sd := range structs {
			isStruct[sd.name] = true
		}
		for _, f := range files {
			ast.Inspect(f, func(n ast.Node) bool {
				switch x := n.(type) {
				case *ast.CallExpr:
					se, ok := x.Fun.(*ast.SelectorExpr)
					if !ok || se.Sel.Name != "Send" || len(x.Args) < 2 {
						return true
					}
					if bs, ok := se.X.(*ast.SelectorExpr); !ok || !busFields[bs.Sel.Name] {
						return true
					}
					if ue, ok := x.Args[1].(*ast.UnaryExpr); ok && ue.Op == token.AND {
						if cl, ok := ue.X.(*ast.CompositeLit); ok {
							if id, ok := cl.Type.(*ast.Ident); ok && isStruct[id.Name] {
								busShared[id.Name] = true
							}
						}
					}
				case *ast.TypeAssertExpr:
					if st, ok := x.Type.(*ast.StarExpr); ok {
						if id, ok := st.X.(*ast.Ident); ok && isStruct[id.Name] && strings.HasSuffix(id.Name, "Change") {
							busShared[id.Name] = true
						}
					}
				}
				return true
			})
		}
	}
	for n := range busShared {
		if !trackedNames[n] {
			trackedNames[n] = true
		} else {
			delete(busShared, n)
		}
	}
	// the remaining objects (event types keep their bus-shared treatment); among them the unexported helper
	// types whose instances never leave the goroutine that created them (confined.go)
	confCands := map[string]*types.TypeName{}
	for _, s := range structs {
		if ptrRecv[s.name] && !trackedNames[s.name] {
			trackedNames[s.name] = true
			if !ast.IsExported(s.name) {
				confCands[s.name] = s.obj
			}
		}
	}
	// round 8: plain helper structs (no mutex, no pointer-receiver method) that hang off a tracked object — the
	// type, pointee, element or map value of one of its named fields — are part of that object: whoever reaches
	// the object reaches them, and the object's lock (matched by the root identifier of the selector chain) is
	// what guards them
	if os.Getenv("C11_NO_PARTS") == "" {
		var partOf func(t ast.Expr) string
		partOf = func(t ast.Expr) string {
			switch x := t.(type) {
			case *ast.StarExpr:
				return partOf(x.X)
			case *ast.ArrayType:
				return partOf(x.Elt)
			case *ast.MapType:
				return partOf(x.Value)
			case *ast.Ident:
				return x.Name
			}
			return ""
		}
		isStructName := map[string]bool{}
		for _, s := range structs {
			isStructName[s.name] = true
		}
		for changed := true; changed; {
			changed = false
			for _, s := range structs {
				if !trackedNames[s.name] || busShared[s.name] {
					continue
				}
				for _, fl := range s.st.Fields.List {
					if len(fl.Names) == 0 {
						continue
					}
					if n := partOf(fl.Type); n != "" && isStructName[n] && !trackedNames[n] {
						trackedNames[n] = true
						changed = true
					}
				}
			}
		}
	}
	confRes := pa.confinedTypes(confCands)
	for _, n := range sortedKeys(confRes) {
		if os.Getenv("C11_DEBUG_CONFINED") != "" {
			fmt.Fprintf(os.Stderr, "confined? %s.%s: %q\n", pa.short, n, confRes[n])
		}
		if confRes[n] == "" {
			pa.confined[pa.short+"."+n] = true
			pa.confNotes = append(pa.confNotes, "goroutine-confined type "+pa.short+"."+n+": every instance is created in a function and only reached through locals, receivers, parameters and results of that type on the creating goroutine (never stored, sent, converted or captured by a go statement); its rows are constructor-phase")
		}
	}
	for _, s := range structs {
		if !trackedNames[s.name] {
			continue
		}
		owner := pa.short + "." + s.name
		if busShared[s.name] {
			owner = "bus-shared:" + owner
			if stt, ok := s.obj.Type().Underlying().(*types.Struct); ok {
				pa.busTypes[s.name] = stt
			}
		}
		pa.tracked[owner] = true
		st, ok := s.obj.Type().Underlying().(*types.Struct)
		if !ok {
			continue
		}
		// field i of the types.Struct corresponds to the i-th name in the AST field list
		i := 0
		for _, fl := range s.st.Fields.List {
			n := len(fl.Names)
			if n == 0 {
				n = 1
			}
			for k := 0; k < n; k++ {
				if i >= st.NumFields() {
					break
				}
				v := st.Field(i)
				i++
				fi := &fieldInfo{owner: owner, name: v.Name(), busShared: strings.HasPrefix(owner, "bus-shared:")}
				fi.isMutex, fi.rw = isSyncMutex(fl.Type)
				if _, ok := fl.Type.(*ast.ChanType); ok {
					fi.isChan = true
				}
				pa.fields[v] = fi
				// anonymous struct field holding a mutex and data (server.InfoServer.deviceMapSync)
				if inner, ok := fl.Type.(*ast.StructType); ok {
					if ist, ok := v.Type().Underlying().(*types.Struct); ok {
						j := 0
						for _, f2 := range inner.Fields.List {
							m := len(f2.Names)
							if m == 0 {
								m = 1
							}
							for q := 0; q < m; q++ {
								if j >= ist.NumFields() {
									break
								}
								v2 := ist.Field(j)
								j++
								fi2 := &fieldInfo{owner: owner, name: v.Name() + "." + v2.Name()}
								fi2.isMutex, fi2.rw = isSyncMutex(f2.Type)
								pa.fields[v2] = fi2
								if fi2.isMutex {
									pa.innerMutex[fi] = fi2
								}
							}
						}
					}
				}
			}
		}
	}
	for _, f := range files {
		for _, d := range f.Decls {
			if fd, ok := d.(*ast.FuncDecl); ok && fd.Body != nil {
				if fn, ok := info.Defs[fd.Name].(*types.Func); ok {
					pa.decls[fn] = fd
				}
			}
		}
	}
	// channel send / close sites
	for _, f := range files {
		ast.Inspect(f, func(n ast.Node) bool {
			switch x := n.(type) {
			case *ast.SendStmt:
				if fi := pa.fieldOf(x.Chan); fi != nil {
					pa.sends[fi.full()]++
				}
			case *ast.CallExpr:
				if id, ok := x.Fun.(*ast.Ident); ok && id.Name == "close" && len(x.Args) == 1 {
					if fi := pa.fieldOf(x.Args[0]); fi != nil {
						pa.closes[fi.full()]++
					}
				}
			}
			return true
		})
	}
	// two rounds: the first computes the callback summaries, the second uses them
	for round := 0; round < 2; round++ {
		pa.rows = map[string]*Row{}
		pa.rowOrder = nil
		pa.memo = map[string]bool{}
		pa.called = map[*types.Func]bool{}
		pa.summaries = pa.newSumm
		pa.newSumm = map[*types.Func]map[int][]map[string]string{}
		var fns []*types.Func
		for fn := range pa.decls {
			fns = append(fns, fn)
		}
		sort.Slice(fns, func(i, j int) bool { return pa.decls[fns[i]].Pos() < pa.decls[fns[j]].Pos() })
		for _, fn := range fns {
			if fn.Exported() || pa.recvExportedIface(fn) {
				pa.analyse(fn, nil, pa.rootRole(fn), pa.rootPhase(fn))
			}
		}
		for _, fn := range fns {
			if !pa.called[fn] && !fn.Exported() {
				pa.analyse(fn, nil, pa.rootRole(fn), pa.rootPhase(fn))
			}
		}
	}
	return pa, nil
}

// methods of unexported types that implement exported interfaces (router.router, wrap.clientStream)
// are entry points as well: treat every exported-named method as a root.
func (pa *pkgAn) recvExportedIface(fn *types.Func) bool {
	return ast.IsExported(fn.Name())
}

func (pa *pkgAn) label(fn *types.Func) string {
	sig, _ := fn.Type().(*types.Signature)
	if sig != nil && sig.Recv() != nil {
		t := sig.Recv().Type()
		if p, ok := t.(*types.Pointer); ok {
			t = p.Elem()
		}
		if n, ok := t.(*types.Named); ok {
			return pa.short + "." + n.Obj().Name() + "." + fn.Name()
		}
	}
	return pa.short + "." + fn.Name()
}

func (pa *pkgAn) rootRole(fn *types.Func) int {
	l := pa.label(fn)
	for _, r := range roles {
		if l == r.Prefix || (strings.HasSuffix(r.Prefix, ".") && strings.HasPrefix(l, r.Prefix)) {
			return r.Role
		}
	}
	return 0
}

func (pa *pkgAn) rootPhase(fn *types.Func) string {
	sig, _ := fn.Type().(*types.Signature)
	if sig != nil && sig.Recv() == nil && ctorName.MatchString(fn.Name()) {
		return "init"
	}
	return "live"
}

// curAlias: local aliases of the function being walked (`cc := c`: cc designates the object c does);
// set by analyse, see aliasesOf.  Locks and accesses are keyed by the canonical name.
var curAlias map[string]string

func canonName(n string) string {
	for i := 0; i < 8; i++ {
		m, ok := curAlias[n]
		if !ok {
			return n
		}
		n = m
	}
	return n
}

func rootIdent(e ast.Expr) string {
	for {
		switch x := e.(type) {
		case *ast.Ident:
			return canonName(x.Name)
		case *ast.SelectorExpr:
			e = x.X
		case *ast.StarExpr:
			e = x.X
		case *ast.ParenExpr:
			e = x.X
		case *ast.IndexExpr:
			e = x.X
		case *ast.UnaryExpr:
			e = x.X
		default:
			return "?"
		}
	}
}

// fieldOf: e is a selection of a tracked struct field
func (pa *pkgAn) fieldOf(e ast.Expr) *fieldInfo {
	for {
		if p, ok := e.(*ast.ParenExpr); ok {
			e = p.X
			continue
		}
		break
	}
	se, ok := e.(*ast.SelectorExpr)
	if !ok {
		return nil
	}
	sel := pa.info.Selections[se]
	if sel == nil || sel.Kind() != types.FieldVal {
		return nil
	}
	v, ok := sel.Obj().(*types.Var)
	if !ok {
		return nil
	}
	return pa.fields[v]
}

func (pa *pkgAn) pos(n ast.Node) string {
	p := pa.fset.Position(n.Pos())
	return fmt.Sprintf("%s/%s:%d", pa.rel, filepath.Base(p.Filename), p.Line)
}

func (pa *pkgAn) record(c *fctx, st *state, fi *fieldInfo, kind string, at ast.Expr) {
	if fi == nil || fi.isMutex {
		return
	}
	base := rootIdent(at)
	r := &Row{Field: fi.full(), Kind: kind, Fn: c.fn, Phase: c.phase, Role: c.role, Pos: []string{pa.pos(at)}}
	if fi.busShared && pa.privateEvent(c, at) {
		r.Phase = "init" // a private copy (struct value) or an event this function has just created
	}
	if pa.confined[fi.owner] {
		r.Phase = "init" // the object never leaves the goroutine that created it (confined.go)
	}
	if !fi.busShared && r.Phase == "live" && pa.freshLocalAccess(c, at) {
		r.Phase = "init" // an object this function has created and not yet handed to another goroutine (fresh.go)
	}
	got := map[string]string{}
	for k, m := range st.held {
		if k.base == base {
			got[k.lock] = m
		}
	}
	rootType := pa.rootType(at)
	for k, m := range st.held {
		if k.base != "*" {
			continue
		}
		owner := k.lock
		if f := pa.lockOwner(k.lock); f != "" {
			owner = f
		}
		if owner != fi.owner && owner != rootType {
			continue
		}
		if old, ok := got[k.lock]; !ok || (old == "R" && m == "X") {
			got[k.lock] = m
			ambientUsed[fi.full()+" in "+c.fn+" ("+k.lock+")"] = true
		}
	}
	for l, m := range got {
		r.Held = append(r.Held, HeldLock{l, m})
	}
	sort.Slice(r.Held, func(i, j int) bool { return r.Held[i].Lock < r.Held[j].Lock })
	for ch := range st.acq {
		r.AcqBefore = append(r.AcqBefore, ch)
	}
	sort.Strings(r.AcqBefore)
	if c.top {
		c.topRows = append(c.topRows, r)
	}
	pa.pending(c, r)
}

// rows are finalised (deduplicated) when the enclosing function walk ends, because relAfter is
// filled in by a later close(); keep them in a per-walk list
func (pa *pkgAn) pending(c *fctx, r *Row) {
	cur := pendingRows[c]
	pendingRows[c] = append(cur, r)
}

var pendingRows = map[*fctx][]*Row{}

// rows whose lock set relies on an ambient lock matched by type (reported in the table's notes)
var ambientUsed = map[string]bool{}

// privateEvent: the event object reached through `at` is not (yet) shared: the root variable holds a
// struct VALUE (a copy), or a pointer that every assignment in the enclosing function takes from a
// composite literal / new / a method call on the variable itself (x = x.filter(…) returns x or a fresh one).
func (pa *pkgAn) privateEvent(c *fctx, at ast.Expr) bool {
	id := rootIdentNode(at)
	if id == nil {
		return false
	}
	o := pa.info.Uses[id]
	if o == nil {
		o = pa.info.Defs[id]
	}
	if o == nil || o.Type() == nil {
		return false
	}
	if _, isPtr := o.Type().(*types.Pointer); !isPtr {
		if _, isNamed := o.Type().(*types.Named); isNamed {
			return true
		}
		return false
	}
	if c.decl == nil {
		return false
	}
	fd := pa.decls[c.decl]
	if fd == nil {
		return false
	}
	fresh, ok := pa.freshMemo[fd]
	if !ok {
		fresh = map[types.Object]bool{}
		seen := map[types.Object]bool{}
		note := func(lhs ast.Expr, rhs ast.Expr) {
			lid, ok := lhs.(*ast.Ident)
			if !ok {
				return
			}
			lo := pa.objOf(lid)
			if lo == nil {
				return
			}
			ok = false
			switch y := rhs.(type) {
			case *ast.UnaryExpr:
				_, isLit := y.X.(*ast.CompositeLit)
				ok = y.Op == token.AND && isLit
			case *ast.CallExpr:
				if fid, isId := y.Fun.(*ast.Ident); isId && fid.Name == "new" {
					ok = true
				} else if se, isSel := y.Fun.(*ast.SelectorExpr); isSel {
					if rid := rootIdentNode(se.X); rid != nil && pa.info.Uses[rid] == lo {
						ok = true
					}
				}
			}
			if !seen[lo] {
				seen[lo] = true
				fresh[lo] = ok
			} else if !ok {
				fresh[lo] = false
			}
		}
		ast.Inspect(fd.Body, func(n ast.Node) bool {
			switch x := n.(type) {
			case *ast.AssignStmt:
				if len(x.Lhs) == len(x.Rhs) {
					for i := range x.Lhs {
						note(x.Lhs[i], x.Rhs[i])
					}
				} else {
					for _, l := range x.Lhs {
						note(l, nil)
					}
				}
			case *ast.ValueSpec:
				for i, nme := range x.Names {
					if i < len(x.Values) {
						note(nme, x.Values[i])
					}
				}
			case *ast.RangeStmt:
				if x.Key != nil {
					note(x.Key, nil)
				}
				if x.Value != nil {
					note(x.Value, nil)
				}
			}
			return true
		})
		pa.freshMemo[fd] = fresh
	}
	return fresh[o]
}

func rootIdentNode(e ast.Expr) *ast.Ident {
	for {
		switch x := e.(type) {
		case *ast.Ident:
			return x
		case *ast.SelectorExpr:
			e = x.X
		case *ast.StarExpr:
			e = x.X
		case *ast.ParenExpr:
			e = x.X
		case *ast.IndexExpr:
			e = x.X
		case *ast.UnaryExpr:
			e = x.X
		case *ast.CallExpr:
			return nil
		case *ast.TypeAssertExpr:
			return nil
		default:
			return nil
		}
	}
}

// lockOwner: the struct type a mutex field belongs to ("resource.Collection" for "resource.Collection.mu")
func (pa *pkgAn) lockOwner(lock string) string {
	for _, fi := range pa.fields {
		if fi.isMutex && fi.full() == lock {
			return fi.owner
		}
	}
	return ""
}

// rootType: the (pointer-stripped) named type of the variable at the root of a selector chain
func (pa *pkgAn) rootType(e ast.Expr) string {
	for {
		switch x := e.(type) {
		case *ast.Ident:
			o := pa.info.Uses[x]
			if o == nil {
				o = pa.info.Defs[x]
			}
			if o == nil || o.Type() == nil {
				return ""
			}
			t := o.Type()
			if p, ok := t.(*types.Pointer); ok {
				t = p.Elem()
			}
			if n, ok := t.(*types.Named); ok {
				return pa.short + "." + n.Obj().Name()
			}
			return ""
		case *ast.SelectorExpr:
			e = x.X
		case *ast.StarExpr:
			e = x.X
		case *ast.ParenExpr:
			e = x.X
		case *ast.IndexExpr:
			e = x.X
		case *ast.UnaryExpr:
			e = x.X
		default:
			return ""
		}
	}
}

func (pa *pkgAn) flush(c *fctx) {
	for _, r := range pendingRows[c] {
		sort.Strings(r.RelAfter)
		k := r.semKey()
		if old, ok := pa.rows[k]; ok {
			dup := false
			for _, p := range old.Pos {
				if p == r.Pos[0] {
					dup = true
				}
			}
			if !dup {
				old.Pos = append(old.Pos, r.Pos[0])
			}
			continue
		}
		pa.rows[k] = r
		pa.rowOrder = append(pa.rowOrder, k)
	}
	delete(pendingRows, c)
}

func entryKey(e map[string]string) string {
	var ks []string
	for k, v := range e {
		ks = append(ks, k+":"+v)
	}
	sort.Strings(ks)
	return strings.Join(ks, ",")
}

// analyse walks fn with the given entry lock set (lock name -> mode, on the receiver).
func (pa *pkgAn) analyse(fn *types.Func, entry map[string]string, role int, phase string, acq ...string) {
	fd := pa.decls[fn]
	if fd == nil {
		return
	}
	sort.Strings(acq)
	key := fmt.Sprintf("%p|%s|%d|%s|%v", fn, entryKey(entry), role, phase, acq)
	if pa.memo[key] {
		return
	}
	pa.memo[key] = true
	prevAlias := curAlias
	curAlias = pa.aliasesOf(fd)
	defer func() { curAlias = prevAlias }()
	st := newState()
	recv := ""
	if fd.Recv != nil && len(fd.Recv.List) == 1 && len(fd.Recv.List[0].Names) == 1 {
		recv = fd.Recv.List[0].Names[0].Name
	}
	for l, m := range entry {
		if strings.HasPrefix(l, "*") {
			st.held[lockKey{"*", l[1:]}] = m // ambient: held by a caller further up, on whatever object it locked
		} else {
			st.held[lockKey{recv, l}] = m
		}
	}
	for _, ch := range acq {
		st.acq[ch] = true // observed by the caller before the call
	}
	c := &fctx{fn: pa.label(fn), decl: fn, phase: phase, role: role, params: map[*types.Var]int{}, b: newBindings()}
	if sig, ok := fn.Type().(*types.Signature); ok {
		for i := 0; i < sig.Params().Len(); i++ {
			c.params[sig.Params().At(i)] = i
		}
	}
	pa.walkBody(c, st, fd.Body)
	pa.flush(c)
	// function values bound to locals that were never called / passed / started: as an inline literal
	for i := 0; i < len(c.b.order); i++ {
		if b := c.b.order[i]; !b.used {
			b.used = true
			pa.invoke(b.ctx, b.def, b, "/"+b.name)
		}
	}
}

// aliasesOf: the single-assignment local aliases of a function, `x := y` where x is defined exactly
// once and never assigned again, y is the receiver, a parameter or a local that is itself never
// reassigned, and neither name is shadowed inside the function.  x then designates the same object
// as y for the whole function, so `cc := c; cc.mu.Lock(); c.byId[k] = v` is an access under c's lock.
func (pa *pkgAn) aliasesOf(fd *ast.FuncDecl) map[string]string {
	if m, ok := pa.aliasMemo[fd]; ok {
		return m
	}
	res := map[string]string{}
	pa.aliasMemo[fd] = res
	if fd.Body == nil {
		return res
	}
	writes := map[types.Object]int{}
	objsOfName := map[string]map[types.Object]bool{}
	noteName := func(id *ast.Ident) {
		if o := pa.objOf(id); o != nil {
			if objsOfName[id.Name] == nil {
				objsOfName[id.Name] = map[types.Object]bool{}
			}
			objsOfName[id.Name][o] = true
		}
	}
	noteWrite := func(e ast.Expr) {
		if id, ok := e.(*ast.Ident); ok {
			if o := pa.objOf(id); o != nil {
				writes[o]++
			}
		}
	}
	type cand struct{ x, y *ast.Ident }
	var cands []cand
	ast.Inspect(fd, func(n ast.Node) bool {
		switch x := n.(type) {
		case *ast.Ident:
			noteName(x)
		case *ast.AssignStmt:
			for _, l := range x.Lhs {
				noteWrite(l)
			}
			if x.Tok == token.DEFINE && len(x.Lhs) == 1 && len(x.Rhs) == 1 {
				lx, ok1 := x.Lhs[0].(*ast.Ident)
				ry, ok2 := x.Rhs[0].(*ast.Ident)
				if ok1 && ok2 && lx.Name != "_" {
					cands = append(cands, cand{lx, ry})
				}
			}
		case *ast.IncDecStmt:
			noteWrite(x.X)
		case *ast.RangeStmt:
			if x.Key != nil {
				noteWrite(x.Key)
			}
			if x.Value != nil {
				noteWrite(x.Value)
			}
		case *ast.UnaryExpr:
			if x.Op == token.AND {
				noteWrite(x.X) // address taken: may be written through the pointer
			}
		}
		return true
	})
	for _, c := range cands {
		ox, oy := pa.objOf(c.x), pa.objOf(c.y)
		if ox == nil || oy == nil {
			continue
		}
		vy, ok := oy.(*types.Var)
		if !ok || vy.Pkg() == nil || vy.Parent() == vy.Pkg().Scope() {
			continue
		}
		if _, isPtr := vy.Type().(*types.Pointer); !isPtr {
			continue // a struct value is a copy, not an alias
		}
		if writes[ox] != 1 || writes[oy] > 1 || len(objsOfName[c.x.Name]) != 1 || len(objsOfName[c.y.Name]) != 1 {
			continue
		}
		res[c.x.Name] = c.y.Name
	}
	return res
}

// walkBody walks the statements of a function body; plain top-level statements are candidates for
// release edges by a later top-level close().
func (pa *pkgAn) walkBody(c *fctx, st *state, body *ast.BlockStmt) {
	cur := st
	for _, s := range body.List {
		if cur == nil {
			break
		}
		switch x := s.(type) {
		case *ast.AssignStmt, *ast.IncDecStmt, *ast.DeclStmt:
			c.top = true
			cur, _ = pa.walkStmt(c, cur, s)
			c.top = false
		case *ast.ExprStmt:
			if ch := pa.closeOf(x.X); ch != "" && pa.closes[ch] == 1 {
				for _, r := range c.topRows {
					r.RelAfter = appendUniq(r.RelAfter, ch)
				}
			}
			c.top = true
			cur, _ = pa.walkStmt(c, cur, s)
			c.top = false
		default:
			var term bool
			cur, term = pa.walkStmt(c, cur, s)
			if term {
				cur = nil
			}
		}
	}
}

func appendUniq(l []string, s string) []string {
	for _, x := range l {
		if x == s {
			return l
		}
	}
	return append(l, s)
}

func (pa *pkgAn) closeOf(e ast.Expr) string {
	if ce, ok := e.(*ast.CallExpr); ok {
		if id, ok := ce.Fun.(*ast.Ident); ok && id.Name == "close" && len(ce.Args) == 1 {
			if fi := pa.fieldOf(ce.Args[0]); fi != nil {
				return fi.full()
			}
		}
	}
	return ""
}

func (pa *pkgAn) walkBlock(c *fctx, st *state, list []ast.Stmt) (*state, bool) {
	cur := st
	for _, s := range list {
		var term bool
		cur, term = pa.walkStmt(c, cur, s)
		if term {
			return cur, true
		}
	}
	return cur, false
}

// walkStmt returns the state after the statement and whether control cannot flow past it.
func (pa *pkgAn) walkStmt(c *fctx, st *state, s ast.Stmt) (*state, bool) {
	wasTop := c.top
	switch s.(type) {
	case *ast.AssignStmt, *ast.IncDecStmt, *ast.DeclStmt, *ast.ExprStmt:
	default:
		c.top = false
		defer func() { c.top = wasTop }()
	}
	switch x := s.(type) {
	case nil:
		return st, false
	case *ast.BlockStmt:
		return pa.walkBlock(c, st, x.List)
	case *ast.LabeledStmt:
		return pa.walkStmt(c, st, x.Stmt)
	case *ast.ExprStmt:
		pa.walkExpr(c, st, x.X)
		if ce, ok := x.X.(*ast.CallExpr); ok {
			if id, ok := ce.Fun.(*ast.Ident); ok && id.Name == "panic" {
				return st, true
			}
		}
		return st, false
	case *ast.SendStmt:
		pa.walkExpr(c, st, x.Chan)
		pa.walkExpr(c, st, x.Value)
		return st, false
	case *ast.IncDecStmt:
		pa.walkLHS(c, st, x.X, true)
		return st, false
	case *ast.AssignStmt:
		bound := map[int]bool{}
		for i, r := range x.Rhs {
			if len(x.Lhs) == len(x.Rhs) && (x.Tok == token.DEFINE || x.Tok == token.ASSIGN) && pa.bind(c, st, x.Lhs[i], r) {
				bound[i] = true
				continue
			}
			pa.walkExpr(c, st, r)
		}
		for i, l := range x.Lhs {
			if bound[i] {
				continue
			}
			if x.Tok == token.DEFINE {
				if _, ok := l.(*ast.Ident); ok {
					continue
				}
			}
			pa.walkLHS(c, st, l, x.Tok != token.ASSIGN && x.Tok != token.DEFINE)
		}
		// v, ok := <-X.c
		if len(x.Lhs) == 2 && len(x.Rhs) == 1 {
			if ue, ok := x.Rhs[0].(*ast.UnaryExpr); ok && ue.Op == token.ARROW {
				if fi := pa.fieldOf(ue.X); fi != nil {
					if id, ok := x.Lhs[1].(*ast.Ident); ok && id.Name != "_" {
						st.okVar[id.Name] = fi.full()
					}
				}
			}
		} else if len(x.Lhs) == 1 && len(x.Rhs) == 1 {
			pa.noteRecv(st, x.Rhs[0])
		}
		return st, false
	case *ast.DeclStmt:
		if gd, ok := x.Decl.(*ast.GenDecl); ok {
			for _, sp := range gd.Specs {
				if vs, ok := sp.(*ast.ValueSpec); ok {
					for i, v := range vs.Values {
						if len(vs.Names) == len(vs.Values) && pa.bind(c, st, vs.Names[i], v) {
							continue
						}
						pa.walkExpr(c, st, v)
					}
				}
			}
		}
		return st, false
	case *ast.ReturnStmt:
		for _, r := range x.Results {
			pa.walkExpr(c, st, r)
		}
		return st, true
	case *ast.BranchStmt:
		return st, true
	case *ast.GoStmt:
		pa.walkGo(c, st, x.Call)
		return st, false
	case *ast.DeferStmt:
		if pa.lockOp(x.Call) != "" {
			return st, false // deferred unlock: the lock stays held to the end of the function
		}
		pa.walkExpr(c, st, x.Call)
		return st, false
	case *ast.IfStmt:
		cur := st
		if x.Init != nil {
			cur, _ = pa.walkStmt(c, cur, x.Init)
		}
		pa.walkExpr(c, cur, x.Cond)
		thenSt := cur.clone()
		// `if !ok` after `v, ok := <-X.c`: the channel has been observed closed
		if ue, ok := x.Cond.(*ast.UnaryExpr); ok && ue.Op == token.NOT {
			if id, ok := ue.X.(*ast.Ident); ok {
				if ch, ok := cur.okVar[id.Name]; ok {
					thenSt.acq[ch] = true
				}
			}
		}
		var outs []*state
		s1, t1 := pa.walkBlock(c, thenSt, x.Body.List)
		if !t1 {
			outs = append(outs, s1)
		}
		if x.Else != nil {
			s2, t2 := pa.walkStmt(c, cur.clone(), x.Else)
			if !t2 {
				outs = append(outs, s2)
			}
		} else {
			outs = append(outs, cur)
		}
		if len(outs) == 0 {
			return cur, true
		}
		return meet(outs), false
	case *ast.ForStmt:
		cur := st
		if x.Init != nil {
			cur, _ = pa.walkStmt(c, cur, x.Init)
		}
		if x.Cond != nil {
			pa.walkExpr(c, cur, x.Cond)
		}
		body, _ := pa.walkBlock(c, cur.clone(), x.Body.List)
		if x.Post != nil {
			pa.walkStmt(c, body.clone(), x.Post)
		}
		// a second pass with the meet of entry and back-edge states (locks taken in one iteration and
		// still held at the back edge are not counted)
		m := meet([]*state{cur, body})
		pa.walkBlock(c, m.clone(), x.Body.List)
		return m, x.Cond == nil && !hasBreak(x.Body)
	case *ast.RangeStmt:
		pa.walkExpr(c, st, x.X)
		body, _ := pa.walkBlock(c, st.clone(), x.Body.List)
		m := meet([]*state{st, body})
		return m, false
	case *ast.SwitchStmt:
		cur := st
		if x.Init != nil {
			cur, _ = pa.walkStmt(c, cur, x.Init)
		}
		if x.Tag != nil {
			pa.walkExpr(c, cur, x.Tag)
		}
		return pa.walkClauses(c, cur, x.Body.List, false)
	case *ast.TypeSwitchStmt:
		cur := st
		if x.Init != nil {
			cur, _ = pa.walkStmt(c, cur, x.Init)
		}
		cur, _ = pa.walkStmt(c, cur, x.Assign)
		return pa.walkClauses(c, cur, x.Body.List, false)
	case *ast.SelectStmt:
		return pa.walkClauses(c, st, x.Body.List, true)
	}
	return st, false
}

func hasBreak(b *ast.BlockStmt) bool {
	found := false
	ast.Inspect(b, func(n ast.Node) bool {
		switch x := n.(type) {
		case *ast.BranchStmt:
			if x.Tok == token.BREAK {
				found = true
			}
		case *ast.FuncLit:
			return false
		}
		return true
	})
	return found
}

func (pa *pkgAn) walkClauses(c *fctx, st *state, clauses []ast.Stmt, isSelect bool) (*state, bool) {
	var outs []*state
	hasDefault := false
	for _, cl := range clauses {
		cs := st.clone()
		var body []ast.Stmt
		switch y := cl.(type) {
		case *ast.CaseClause:
			if y.List == nil {
				hasDefault = true
			}
			for _, e := range y.List {
				pa.walkExpr(c, cs, e)
			}
			body = y.Body
		case *ast.CommClause:
			if y.Comm == nil {
				hasDefault = true
			} else {
				cs, _ = pa.walkStmt(c, cs, y.Comm)
				if es, ok := y.Comm.(*ast.ExprStmt); ok {
					pa.noteRecv(cs, es.X)
				}
			}
			body = y.Body
		}
		out, term := pa.walkBlock(c, cs, body)
		if !term {
			outs = append(outs, out)
		}
	}
	if !isSelect && !hasDefault {
		outs = append(outs, st)
	}
	if len(outs) == 0 {
		return st, true
	}
	return meet(outs), false
}

// noteRecv: `<-X.c` on a channel that nobody sends on can only complete because it was closed
func (pa *pkgAn) noteRecv(st *state, e ast.Expr) {
	if ue, ok := e.(*ast.UnaryExpr); ok && ue.Op == token.ARROW {
		if fi := pa.fieldOf(ue.X); fi != nil && fi.isChan && pa.sends[fi.full()] == 0 {
			st.acq[fi.full()] = true
		}
	}
}

// lockOp: X.mu.Lock() etc on a tracked mutex field; returns the op name
func (pa *pkgAn) lockOp(ce *ast.CallExpr) string {
	se, ok := ce.Fun.(*ast.SelectorExpr)
	if !ok || len(ce.Args) != 0 {
		return ""
	}
	switch se.Sel.Name {
	case "Lock", "RLock", "Unlock", "RUnlock":
	default:
		return ""
	}
	if fi := pa.mutexOf(se.X); fi != nil {
		return se.Sel.Name
	}
	// a *sync.(RW)Mutex parameter (GetAndUpdate)
	if id, ok := se.X.(*ast.Ident); ok {
		if v, ok := pa.info.Uses[id].(*types.Var); ok && pa.isMutexParam(v) {
			return se.Sel.Name
		}
	}
	return ""
}

// mutexOf: e designates a mutex field of a tracked struct, or a struct-typed field that embeds one
// (`i.deviceMapSync.Lock()`)
func (pa *pkgAn) mutexOf(e ast.Expr) *fieldInfo {
	fi := pa.fieldOf(e)
	if fi == nil {
		return nil
	}
	if fi.isMutex {
		return fi
	}
	return pa.innerMutex[fi]
}

func (pa *pkgAn) isMutexParam(v *types.Var) bool {
	// the declared type is *sync.Mutex / *sync.RWMutex: with the fake importer the type is invalid, so
	// look at the declaration
	for _, fd := range pa.decls {
		for _, fl := range fd.Type.Params.List {
			for _, n := range fl.Names {
				if pa.info.Defs[n] == v {
					if se, ok := fl.Type.(*ast.StarExpr); ok {
						m, _ := isSyncMutex(se.X)
						return m
					}
				}
			}
		}
	}
	return false
}

func (pa *pkgAn) applyLock(st *state, ce *ast.CallExpr, op string) {
	se := ce.Fun.(*ast.SelectorExpr)
	var k lockKey
	if fi := pa.mutexOf(se.X); fi != nil {
		k = lockKey{rootIdent(se.X), fi.full()}
	} else {
		id := se.X.(*ast.Ident)
		k = lockKey{id.Name, "$param"}
	}
	switch op {
	case "Lock":
		st.held[k] = "X"
	case "RLock":
		st.held[k] = "R"
	case "Unlock", "RUnlock":
		delete(st.held, k)
	}
}

func (pa *pkgAn) walkLHS(c *fctx, st *state, e ast.Expr, alsoRead bool) {
	switch x := e.(type) {
	case *ast.ParenExpr:
		pa.walkLHS(c, st, x.X, alsoRead)
	case *ast.SelectorExpr:
		if fi := pa.fieldOf(x); fi != nil {
			pa.walkExpr(c, st, x.X)
			pa.record(c, st, fi, "W", x)
			if alsoRead {
				pa.record(c, st, fi, "R", x)
			}
			return
		}
		pa.walkExpr(c, st, x.X)
	case *ast.IndexExpr:
		pa.walkExpr(c, st, x.Index)
		if fi := pa.fieldOf(x.X); fi != nil {
			// element write of the map/slice the field designates
			pa.walkExpr(c, st, x.X.(*ast.SelectorExpr).X)
			pa.record(c, st, fi, "W", x.X)
			return
		}
		pa.walkExpr(c, st, x.X)
	case *ast.StarExpr:
		pa.walkExpr(c, st, x.X)
	default:
		pa.walkExpr(c, st, e)
	}
}

func (pa *pkgAn) walkGo(c *fctx, st *state, call *ast.CallExpr) { pa.walkGoAs(c, st, call, "/go") }

func (pa *pkgAn) walkGoAs(c *fctx, st *state, call *ast.CallExpr, tag string) {
	for _, a := range call.Args {
		pa.walkExpr(c, st, a)
	}
	if fl, ok := call.Fun.(*ast.FuncLit); ok {
		// a new goroutine: no locks of the spawner, no role; the `go` statement itself orders what
		// happened before it, which the phase captures for constructors only
		gc := c.child(tag)
		gc.role = 0
		gc.params = map[*types.Var]int{}
		gs := newState()
		pa.walkBody(gc, gs, fl.Body)
		pa.flush(gc)
		return
	}
	// go f(...) with f a function value bound to a local: its body runs on the new goroutine
	if id, ok := call.Fun.(*ast.Ident); ok {
		if b := c.b.m[pa.info.Uses[id]]; b != nil {
			b.used = true
			gc := c.child(tag)
			gc.role = 0
			gc.fn = c.fn
			pa.invoke(gc, newState(), b, tag+":"+b.name)
			return
		}
	}
	// go X.m(...): analysed as a root of its own
	if callee := pa.calleeOf(call); callee != nil {
		pa.called[callee] = true
		pa.analyse(callee, nil, 0, c.phase)
	} else {
		pa.walkExpr(c, st, call.Fun)
	}
}

func (pa *pkgAn) calleeOf(call *ast.CallExpr) *types.Func {
	var id *ast.Ident
	switch f := call.Fun.(type) {
	case *ast.Ident:
		id = f
	case *ast.SelectorExpr:
		id = f.Sel
	default:
		return nil
	}
	fn, ok := pa.info.Uses[id].(*types.Func)
	if !ok || pa.decls[fn] == nil {
		return nil
	}
	return fn
}

func (pa *pkgAn) walkExpr(c *fctx, st *state, e ast.Expr) {
	switch x := e.(type) {
	case nil:
	case *ast.BasicLit:
	case *ast.Ident:
		// a bound function value mentioned anywhere else (returned, stored, compared): like a literal here
		if b := c.b.m[pa.info.Uses[x]]; b != nil && !b.used {
			b.used = true
			pa.invoke(c, st, b, "/"+b.name)
		}
	case *ast.ParenExpr:
		pa.walkExpr(c, st, x.X)
	case *ast.SelectorExpr:
		if fi := pa.fieldOf(x); fi != nil {
			pa.walkExpr(c, st, x.X)
			pa.record(c, st, fi, "R", x)
			return
		}
		pa.walkExpr(c, st, x.X)
	case *ast.StarExpr:
		// *p with p a pointer to an event type copies the whole event: a read of every field
		if tv, ok := pa.info.Types[x.X]; ok && tv.Type != nil {
			if pt, ok := tv.Type.(*types.Pointer); ok {
				if nt, ok := pt.Elem().(*types.Named); ok {
					if stt := pa.busTypes[nt.Obj().Name()]; stt != nil {
						for i := 0; i < stt.NumFields(); i++ {
							if fi := pa.fields[stt.Field(i)]; fi != nil {
								pa.record(c, st, fi, "R", x)
							}
						}
					}
				}
			}
		}
		pa.walkExpr(c, st, x.X)
	case *ast.UnaryExpr:
		if x.Op == token.AND {
			// &X.f of a mutex is not an access; &T{...} is a constructor literal
			if fi := pa.fieldOf(x.X); fi != nil && fi.isMutex {
				return
			}
		}
		pa.walkExpr(c, st, x.X)
	case *ast.BinaryExpr:
		pa.walkExpr(c, st, x.X)
		pa.walkExpr(c, st, x.Y)
	case *ast.IndexExpr:
		pa.walkExpr(c, st, x.X)
		pa.walkExpr(c, st, x.Index)
	case *ast.SliceExpr:
		pa.walkExpr(c, st, x.X)
		pa.walkExpr(c, st, x.Low)
		pa.walkExpr(c, st, x.High)
		pa.walkExpr(c, st, x.Max)
	case *ast.TypeAssertExpr:
		pa.walkExpr(c, st, x.X)
	case *ast.KeyValueExpr:
		pa.walkExpr(c, st, x.Value)
	case *ast.CompositeLit:
		pa.walkComposite(c, st, x)
	case *ast.FuncLit:
		if pa.isOptionLit(x) {
			// a functional option `func(o *T) { o.f = v }`: applied by T's constructor before the object is published
			oc := *c
			oc.phase = "init"
			pa.invoke(&oc, st, &binding{lit: x}, "/option")
			return
		}
		// assumed to be invoked synchronously by whoever receives it: inherits the current locks
		pa.invoke(c, st, &binding{lit: x}, "/func")
	case *ast.CallExpr:
		pa.walkCall(c, st, x)
	}
}

// isOptionLit: `func(o *T) {…}` with T a tracked struct of this package, no results
func (pa *pkgAn) isOptionLit(x *ast.FuncLit) bool {
	ft := x.Type
	if ft.Results != nil && len(ft.Results.List) > 0 {
		return false
	}
	if ft.Params == nil || len(ft.Params.List) != 1 || len(ft.Params.List[0].Names) != 1 {
		return false
	}
	st, ok := ft.Params.List[0].Type.(*ast.StarExpr)
	if !ok {
		return false
	}
	id, ok := st.X.(*ast.Ident)
	return ok && pa.tracked[pa.short+"."+id.Name]
}

func (pa *pkgAn) walkComposite(c *fctx, st *state, x *ast.CompositeLit) {
	tv, ok := pa.info.Types[x]
	var stt *types.Struct
	if ok && tv.Type != nil {
		stt, _ = tv.Type.Underlying().(*types.Struct)
	}
	for _, el := range x.Elts {
		if kv, ok := el.(*ast.KeyValueExpr); ok {
			pa.walkExpr(c, st, kv.Value)
			if stt != nil {
				if id, ok := kv.Key.(*ast.Ident); ok {
					for i := 0; i < stt.NumFields(); i++ {
						if stt.Field(i).Name() == id.Name {
							if fi := pa.fields[stt.Field(i)]; fi != nil && !fi.isMutex {
								ic := *c
								ic.phase = "init"
								ic.top = false
								r := &Row{Field: fi.full(), Kind: "W", Fn: c.fn + "/literal", Phase: "init", Role: c.role, Pos: []string{pa.pos(kv)}}
								pa.pending(c, r)
							}
						}
					}
				}
			}
			continue
		}
		pa.walkExpr(c, st, el)
	}
}

// timerSpawn: `time.AfterFunc(d, f)` and `context.AfterFunc(ctx, f)` run f on a goroutine of its own, started
// by the runtime when the timer fires / the context ends — never on the calling goroutine, never under the
// caller's locks.  For every pass of the extractor such a call is a `go f()` statement (round 7).  Returns f.
func (pa *pkgAn) timerSpawn(call *ast.CallExpr) ast.Expr {
	se, ok := call.Fun.(*ast.SelectorExpr)
	if !ok || se.Sel.Name != "AfterFunc" || len(call.Args) != 2 {
		return nil
	}
	// (std lib packages are empty for the extractor's importer: the package is recognised by its import path)
	id, ok := se.X.(*ast.Ident)
	if !ok {
		return nil
	}
	pn, ok := pa.info.Uses[id].(*types.PkgName)
	if !ok || (pn.Imported().Path() != "time" && pn.Imported().Path() != "context") {
		return nil
	}
	return call.Args[1]
}

// timerGo: the synthetic `go f()` statement a timer call stands for (positions of the original call)
func timerGo(call *ast.CallExpr, f ast.Expr) *ast.GoStmt {
	return &ast.GoStmt{Go: call.Pos(), Call: &ast.CallExpr{Fun: f, Lparen: f.End(), Rparen: call.Rparen}}
}

func (pa *pkgAn) walkCall(c *fctx, st *state, call *ast.CallExpr) {
	// a timer-started goroutine
	if f := pa.timerSpawn(call); f != nil {
		pa.walkExpr(c, st, call.Args[0])
		pa.walkGoAs(c, st, timerGo(call, f).Call, "/timer")
		return
	}
	// lock operations
	if op := pa.lockOp(call); op != "" {
		pa.applyLock(st, call, op)
		return
	}
	// builtins with effects on their first argument
	if id, ok := call.Fun.(*ast.Ident); ok {
		if _, isBuiltin := pa.info.Uses[id].(*types.Builtin); isBuiltin || pa.info.Uses[id] == nil {
			switch id.Name {
			case "delete", "copy", "clear":
				if len(call.Args) > 0 {
					if fi := pa.fieldOf(call.Args[0]); fi != nil {
						pa.walkExpr(c, st, call.Args[0].(*ast.SelectorExpr).X)
						pa.record(c, st, fi, "W", call.Args[0])
						for _, a := range call.Args[1:] {
							pa.walkExpr(c, st, a)
						}
						return
					}
				}
			}
		}
		// call of a func-typed parameter: contributes to this function's callback summary
		if v, ok := pa.info.Uses[id].(*types.Var); ok {
			if idx, isParam := c.params[v]; isParam && c.decl != nil {
				ls := map[string]string{}
				for k, m := range st.held {
					if k.lock == "$param" {
						ls[k.base] = m
					}
				}
				pa.addSummary(c.decl, idx, ls)
			}
		}
	}
	// pointee effects: the field's value used as a method receiver
	if se, ok := call.Fun.(*ast.SelectorExpr); ok {
		if fi := pa.fieldOf(se.X); fi != nil {
			if _, has := pointeeEffects[fi.full()]; has {
				pa.record(c, st, fi, "W", se.X)
			}
		}
	}
	callee := pa.calleeOf(call)
	// func literal arguments of a summarised callee are walked under the summarised lock sets
	handled := map[int]bool{}
	if callee != nil {
		if summ := pa.summaries[callee]; summ != nil {
			fd := pa.decls[callee]
			var pnames []string
			for _, fl := range fd.Type.Params.List {
				for _, n := range fl.Names {
					pnames = append(pnames, n.Name)
				}
			}
			for i, a := range call.Args {
				sets, ok := summ[i]
				if !ok {
					continue
				}
				fb := pa.resolveFn(c, a)
				if fb == nil {
					continue
				}
				fb.used = true
				handled[i] = true
				if fb.recv != nil {
					pa.walkExpr(c, st, fb.recv)
				}
				for _, ls := range sets {
					cs := st.clone()
					var tag []string
					for pname, mode := range ls {
						for j, pn := range pnames {
							if pn != pname || j >= len(call.Args) {
								continue
							}
							if ue, ok := call.Args[j].(*ast.UnaryExpr); ok && ue.Op == token.AND {
								if fi := pa.fieldOf(ue.X); fi != nil && fi.isMutex {
									cs.held[lockKey{rootIdent(ue.X), fi.full()}] = mode
									tag = append(tag, fi.name+":"+mode)
								}
							}
						}
					}
					sort.Strings(tag)
					name := "arg"
					if i < len(pnames) {
						name = pnames[i]
					}
					pa.invoke(c, cs, fb, fmt.Sprintf("/%s{%s}", name, strings.Join(tag, ",")))
				}
			}
		}
	}
	for i, a := range call.Args {
		if handled[i] {
			continue
		}
		// pointee effects: the field's value passed as an argument
		if fi := pa.fieldOf(a); fi != nil {
			if _, has := pointeeEffects[fi.full()]; has {
				pa.record(c, st, fi, "W", a)
			}
		}
		// a function value handed to a callee without a summary: assumed to be called synchronously
		if fb := pa.resolveFn(c, a); fb != nil && fb.lit == nil {
			fb.used = true
			if fb.recv != nil {
				pa.walkExpr(c, st, fb.recv)
			}
			pa.invoke(c, st, fb, "/"+fb.name)
			continue
		} else if fb != nil && fb.def != nil {
			fb.used = true
			pa.invoke(c, st, fb, "/"+fb.name)
			continue
		}
		pa.walkExpr(c, st, a)
	}
	switch f := call.Fun.(type) {
	case *ast.SelectorExpr:
		if callee == nil {
			pa.walkExpr(c, st, f) // X.f(...) where f is a func-typed field, or a foreign method: X (and f) are read
		} else {
			pa.walkExpr(c, st, f.X)
		}
	case *ast.FuncLit:
		pa.walkExpr(c, st, f)
	case *ast.Ident:
		// a call of a function value bound to a local: its body runs here, under the locks held here
		if b := c.b.m[pa.info.Uses[f]]; b != nil {
			b.used = true
			pa.invoke(c, st, b, "/"+b.name)
		}
	default:
		pa.walkExpr(c, st, call.Fun)
	}
	if callee != nil {
		var recvX ast.Expr
		if se, ok := call.Fun.(*ast.SelectorExpr); ok {
			recvX = se.X
		}
		pa.invokeFunc(c, st, callee, recvX)
	}
}

func (pa *pkgAn) addSummary(fn *types.Func, idx int, ls map[string]string) {
	m := pa.newSumm[fn]
	if m == nil {
		m = map[int][]map[string]string{}
		pa.newSumm[fn] = m
	}
	k := entryKey(ls)
	for _, old := range m[idx] {
		if entryKey(old) == k {
			return
		}
	}
	m[idx] = append(m[idx], ls)
}

// ---- objects shared through package-level variables -----------------------------------------------
//
// A mutex field guards the object it lives in.  When ONE object is handed to several owners — here: a
// package-level variable whose initialiser creates an object (rand.New(…)) and passes it to an option
// that ends up in a pointee-effect field (resource.config.rng) of every model built from those defaults
// — the owners' mutexes are different mutexes and order nothing between them.  For every such flow
// the table gets, for each live pointee write of that field, a row on the location
// "shared:<pkg.Var>-><field>" that holds NO per-object lock; such a row conflicts with itself and is
// unordered, so the discipline fails until the sharing is removed.
//
// The flow is found syntactically: sink summaries "parameter i of function F reaches pointee field f"
// (direct: `x.f = param` anywhere in F, including the closures it returns; transitive: F passes the
// parameter on to a function that has a summary, package-local or imported), iterated to a fixpoint
// over all packages; then the package-level `var` initialisers are searched for calls of summarised
// functions whose argument is an object created right there (a call, &T{…}, new/make) or another
// package-level variable.

var modPathCache = map[string]string{}

func modulePath(root string) string {
	if p, ok := modPathCache[root]; ok {
		return p
	}
	p := "github.com/smart-core-os/sc-golang"
	if b, err := os.ReadFile(filepath.Join(root, "go.mod")); err == nil {
		for _, l := range strings.Split(string(b), "\n") {
			if strings.HasPrefix(l, "module ") {
				p = strings.TrimSpace(strings.TrimPrefix(l, "module "))
				break
			}
		}
	}
	modPathCache[root] = p
	return p
}

type sinkMap map[string]map[int]string // "importpath.Func" -> param index -> pointee field

// calleeKey resolves the function a call names: package-local or pkgalias.Func of an import
func (pa *pkgAn) calleeKey(call *ast.CallExpr) string {
	switch f := call.Fun.(type) {
	case *ast.Ident:
		if fn, ok := pa.info.Uses[f].(*types.Func); ok && fn.Pkg() != nil {
			return pa.path + "." + fn.Name()
		}
	case *ast.SelectorExpr:
		if id, ok := f.X.(*ast.Ident); ok {
			if pn, ok := pa.info.Uses[id].(*types.PkgName); ok {
				return pn.Imported().Path() + "." + f.Sel.Name
			}
		}
	}
	return ""
}

func (pa *pkgAn) sinkRound(sinks sinkMap) bool {
	changed := false
	for fn, fd := range pa.decls {
		if fd.Recv != nil {
			continue
		}
		sig, ok := fn.Type().(*types.Signature)
		if !ok {
			continue
		}
		params := map[types.Object]int{}
		for i := 0; i < sig.Params().Len(); i++ {
			params[sig.Params().At(i)] = i
		}
		key := pa.path + "." + fn.Name()
		add := func(i int, field string) {
			if sinks[key] == nil {
				sinks[key] = map[int]string{}
			}
			if _, ok := sinks[key][i]; !ok {
				sinks[key][i] = field
				changed = true
			}
		}
		paramOf := func(e ast.Expr) (int, bool) {
			if id, ok := e.(*ast.Ident); ok {
				if i, ok := params[pa.info.Uses[id]]; ok {
					return i, true
				}
			}
			return 0, false
		}
		ast.Inspect(fd.Body, func(n ast.Node) bool {
			switch x := n.(type) {
			case *ast.AssignStmt:
				for k, l := range x.Lhs {
					if k >= len(x.Rhs) {
						break
					}
					if fi := pa.fieldOf(l); fi != nil {
						if _, has := pointeeEffects[fi.full()]; has {
							if i, ok := paramOf(x.Rhs[k]); ok {
								add(i, fi.full())
							}
						}
					}
				}
			case *ast.CallExpr:
				if m := sinks[pa.calleeKey(x)]; m != nil {
					for j, a := range x.Args {
						if field, ok := m[j]; ok {
							if i, ok := paramOf(a); ok {
								add(i, field)
							}
						}
					}
				}
			}
			return true
		})
	}
	return changed
}

type sharedGlobal struct {
	Var, Field, Pos, Expr string
}

func (pa *pkgAn) sharedGlobals(sinks sinkMap) []sharedGlobal {
	var res []sharedGlobal
	for _, f := range pa.files {
		for _, d := range f.Decls {
			gd, ok := d.(*ast.GenDecl)
			if !ok || gd.Tok != token.VAR {
				continue
			}
			for _, sp := range gd.Specs {
				vs, ok := sp.(*ast.ValueSpec)
				if !ok || len(vs.Names) == 0 {
					continue
				}
				for _, v := range vs.Values {
					ast.Inspect(v, func(n ast.Node) bool {
						if _, isLit := n.(*ast.FuncLit); isLit {
							return false // runs later, per call
						}
						call, ok := n.(*ast.CallExpr)
						if !ok {
							return true
						}
						m := sinks[pa.calleeKey(call)]
						for j, a := range call.Args {
							field, ok := m[j]
							if !ok {
								continue
							}
							created := false
							switch y := a.(type) {
							case *ast.CallExpr, *ast.CompositeLit:
								created = true
							case *ast.UnaryExpr:
								created = y.Op == token.AND
							case *ast.Ident:
								if o, ok := pa.info.Uses[y].(*types.Var); ok && o.Parent() == o.Pkg().Scope() {
									created = true // another package-level variable
								}
							}
							if created {
								res = append(res, sharedGlobal{Var: pa.short + "." + vs.Names[0].Name, Field: field, Pos: pa.pos(a), Expr: types.ExprString(a)})
							}
						}
						return true
					})
				}
			}
		}
	}
	return res
}

func addSharedGlobals(tbl *Table, pas []*pkgAn) {
	sinks := sinkMap{}
	for round := 0; round < 6; round++ {
		changed := false
		for _, pa := range pas {
			if pa.sinkRound(sinks) {
				changed = true
			}
		}
		if !changed {
			break
		}
	}
	for _, pa := range pas {
		for _, g := range pa.sharedGlobals(sinks) {
			loc := "shared:" + g.Var + "->" + g.Field
			tbl.Notes = append(tbl.Notes, fmt.Sprintf("%s: %s created once at package initialisation (%s) reaches %s of every object built from %s", loc, g.Expr, g.Pos, g.Field, g.Var))
			var add []*Row
			for _, r := range tbl.Rows {
				if r.Field == g.Field && r.Kind == "W" && r.Phase == "live" {
					add = append(add, &Row{Field: loc, Kind: "W", Fn: r.Fn, Held: nil, Phase: "live", Role: r.Role, Pos: append(append([]string{}, r.Pos...), g.Pos)})
				}
			}
			seen := map[string]bool{}
			for _, r := range add {
				if k := r.semKey(); !seen[k] {
					seen[k] = true
					tbl.Rows = append(tbl.Rows, r)
				}
			}
		}
	}
}
