package main

// Race-detector workloads: each scenario drives one family of concurrently usable types from 4–16
// goroutines with a seeded random mix of reads / writes / subscribes / cancels, generated ids,
// interceptors that read their arguments and consumers that read the events they receive.  They run
// in a child process of the harness (which is itself built with -race) under
// GORACE="halt_on_error=0 log_path=…"; the parent parses the detector's reports.

import (
	"context"
	"fmt"
	"io"
	"math/rand"
	"os"
	"runtime/debug"
	"strings"
	"sync"
	"sync/atomic"
	"time"

	"google.golang.org/grpc"
	"google.golang.org/grpc/metadata"
	"google.golang.org/protobuf/proto"
	"google.golang.org/protobuf/types/known/fieldmaskpb"

	"github.com/smart-core-os/sc-api/go/traits"
	"github.com/smart-core-os/sc-golang/internal/minibus"
	"github.com/smart-core-os/sc-golang/pkg/group"
	"github.com/smart-core-os/sc-golang/pkg/resource"
	"github.com/smart-core-os/sc-golang/pkg/router"
	"github.com/smart-core-os/sc-golang/pkg/trait"
	"github.com/smart-core-os/sc-golang/pkg/trait/electricpb"
	"github.com/smart-core-os/sc-golang/pkg/trait/hailpb"
	"github.com/smart-core-os/sc-golang/pkg/trait/metadatapb"
	"github.com/smart-core-os/sc-golang/pkg/trait/onoffpb"
	"github.com/smart-core-os/sc-golang/pkg/trait/parentpb"
	"github.com/smart-core-os/sc-golang/pkg/trait/wastepb"
	"github.com/smart-core-os/sc-golang/pkg/wrap"
)

type scenario struct {
	Name string
	// Scale multiplies the tier's base operation count (cheap operations get more of them)
	Scale int
	// Scope: prefixes of the table's field names this scenario exercises (tie table-vs-detector)
	Scope []string
	Run   func(w *wl)
}

type wl struct {
	seed  int64
	g     int // goroutines
	iters int // operations per goroutine
	// soft deadline: workers stop starting new operations after it (slow machines run fewer
	// operations instead of overrunning the budget); a worker that never returns is reported
	deadline time.Time
}

func (w *wl) more(i int) bool { return i < w.iters && time.Now().Before(w.deadline) }

// par runs f on w.g goroutines, each with its own PRNG derived from the seed.
func (w *wl) par(f func(id int, rng *rand.Rand)) {
	var wg sync.WaitGroup
	for i := 0; i < w.g; i++ {
		wg.Add(1)
		go func(i int) {
			defer wg.Done()
			// a panic of the code under test (e.g. a model's "shouldn't happen") ends this worker, not the scenario
			defer func() {
				if r := recover(); r != nil {
					panics.Add(1)
					if os.Getenv("C11_DEBUG_PANIC") != "" {
						fmt.Println("WORKER-PANIC", r, string(debug.Stack()))
					}
				}
			}()
			f(i, rand.New(rand.NewSource(w.seed*1000+int64(i))))
		}(i)
	}
	done := make(chan struct{})
	go func() { wg.Wait(); close(done) }()
	select {
	case <-done:
	case <-time.After(time.Until(w.deadline) + 45*time.Second):
		fmt.Println("WORKLOAD-TIMEOUT")
	}
}

var sink atomic.Int64
var panics atomic.Int64

// use consumes a result.  It must NOT synchronise the workers with each other: an atomic counter every goroutine
// adds to after every read is a release/acquire chain between all of them as far as the race detector is
// concerned (found in round 7: it ordered a write and a read one second apart through third goroutines), so
// the value is only compared; the calls that produced it (proto.Marshal, …) have effects and are not elided.
func use(n int) {
	if n == -1<<40 {
		sink.Add(1)
	}
}

func readMsg(m proto.Message) {
	if m == nil {
		return
	}
	// a reader of the message: serialise it (reads every field)
	b, _ := proto.Marshal(m)
	use(len(b))
}

func drain[T any](ctx context.Context, ch <-chan T, max int, read func(T)) {
	for n := 0; n < max; n++ {
		select {
		case v, ok := <-ch:
			if !ok {
				return
			}
			read(v)
		case <-ctx.Done():
			// keep receiving until the producer closes, bounded
			t := time.After(2 * time.Second)
			for {
				select {
				case _, ok := <-ch:
					if !ok {
						return
					}
				case <-t:
					return
				}
			}
		}
	}
}

var scenarios = []scenario{
	{"value", 2, []string{"resource.Value.", "resource.config.", "minibus.", "bus-shared:resource.ValueChange", "local:resource.", "local:minibus."}, wlValue},
	{"collection", 2, []string{"bus-shared:resource.", "local:resource.", "local:minibus.", "resource.Collection.", "resource.config.idInterceptor", "resource.config.clock", "resource.config.equivalence", "minibus."}, wlCollection},
	{"collection-genid", 3, []string{"resource.Collection.", "resource.config."}, wlGenID},
	{"bus", 2, []string{"minibus."}, wlBus},
	{"router", 20, []string{"router."}, wlRouter},
	{"wrap-unary", 2, []string{"wrap.", "resource.Value.", "minibus."}, wlWrapUnary},
	{"wrap-stream", 1, []string{"wrap.", "resource.Value.", "minibus."}, wlWrapStream},
	{"stream-bidi", 3, []string{"wrap."}, wlStreamBidi},
	{"group", 3, []string{"local:group.", "resource.Value.", "minibus."}, wlGroup},
	{"electric", 2, []string{"electricpb.", "resource.", "minibus."}, wlElectric},
	{"parent", 1, []string{"parentpb.", "resource.", "minibus."}, wlParent},
	{"metadata", 1, []string{"metadatapb.", "resource.", "minibus."}, wlMetadata},
	{"waste-hail", 1, []string{"wastepb.", "hailpb.", "resource.", "minibus."}, wlWasteHail},
}

// ---- resource.Value ---------------------------------------------------------------------------

func wlValue(w *wl) {
	v := resource.NewValue(resource.WithInitialValue(&traits.Metadata{Name: "n"}), resource.WithNoDuplicates())
	w.par(func(id int, rng *rand.Rand) {
		for i := 0; w.more(i); i++ {
			switch rng.Intn(6) {
			case 0, 1:
				msg := &traits.Metadata{Name: fmt.Sprint("n", id, i), Traits: []*traits.TraitMetadata{{Name: "t"}}, More: map[string]string{"k": fmt.Sprint(i)}}
				opts := []resource.WriteOption{}
				if rng.Intn(2) == 0 {
					opts = append(opts, resource.WithUpdatePaths("name"))
				}
				if rng.Intn(2) == 0 {
					opts = append(opts, resource.InterceptBefore(func(old, change proto.Message) { readMsg(old); readMsg(change) }))
				}
				if rng.Intn(2) == 0 {
					opts = append(opts, resource.InterceptAfter(func(old, change proto.Message) { readMsg(old); readMsg(change) }))
				}
				res, _ := v.Set(msg, opts...)
				readMsg(res)
			case 2, 3:
				if rng.Intn(2) == 0 {
					readMsg(v.Get())
				} else {
					readMsg(v.Get(resource.WithReadMask(&fieldmaskpb.FieldMask{Paths: []string{"name"}})))
				}
			case 4:
				_ = v.Clock().Now()
			case 5:
				ctx, cancel := context.WithTimeout(context.Background(), time.Duration(rng.Intn(5)+1)*time.Millisecond)
				popts := []resource.ReadOption{resource.WithBackpressure(rng.Intn(2) == 0), resource.WithUpdatesOnly(rng.Intn(2) == 0)}
				if rng.Intn(2) == 0 {
					popts = append(popts, resource.WithReadMask(&fieldmaskpb.FieldMask{Paths: []string{"name"}}))
				}
				ch := v.Pull(ctx, popts...)
				drain(ctx, ch, 20, func(c *resource.ValueChange) { readMsg(c.Value); _ = c.ChangeTime })
				cancel()
			}
		}
	})
}

// ---- resource.Collection ----------------------------------------------------------------------

func wlCollection(w *wl) {
	c := resource.NewCollection(resource.WithIDInterceptor(strings.ToLower),
		resource.WithInitialRecord("a", &traits.Child{Name: "a"}), resource.WithNoDuplicates())
	ids := []string{"a", "B", "c", "D", "e"}
	w.par(func(id int, rng *rand.Rand) {
		for i := 0; w.more(i); i++ {
			k := ids[rng.Intn(len(ids))]
			switch rng.Intn(9) {
			case 0:
				res, _ := c.Add(k, &traits.Child{Name: k, Traits: []*traits.Trait{{Name: "x"}}})
				readMsg(res)
			case 1, 2:
				res, _ := c.Update(k, &traits.Child{Name: k, Traits: []*traits.Trait{{Name: fmt.Sprint(i)}}}, resource.WithCreateIfAbsent(),
					resource.InterceptBefore(func(old, change proto.Message) { readMsg(old); readMsg(change) }),
					resource.WithCreatedCallback(func() {}))
				readMsg(res)
			case 3:
				res, _ := c.Delete(k, resource.WithAllowMissing(true), resource.WithExpectedCheck(func(m proto.Message) error { readMsg(m); return nil }))
				readMsg(res)
			case 4:
				m, _ := c.Get(k)
				readMsg(m)
			case 5:
				for _, m := range c.List(resource.WithInclude(func(id string, item proto.Message) bool { readMsg(item); return true })) {
					readMsg(m)
				}
			case 6:
				ctx, cancel := context.WithTimeout(context.Background(), time.Duration(rng.Intn(5)+1)*time.Millisecond)
				popts := []resource.ReadOption{resource.WithBackpressure(rng.Intn(2) == 0), resource.WithUpdatesOnly(rng.Intn(2) == 0),
					resource.WithInclude(func(id string, item proto.Message) bool { readMsg(item); return len(id) > 0 })}
				if rng.Intn(2) == 0 {
					popts = append(popts, resource.WithReadMask(&fieldmaskpb.FieldMask{Paths: []string{"name"}}))
				}
				ch := c.Pull(ctx, popts...)
				drain(ctx, ch, 20, func(c *resource.CollectionChange) { readMsg(c.OldValue); readMsg(c.NewValue) })
				cancel()
			case 7:
				ctx, cancel := context.WithTimeout(context.Background(), time.Duration(rng.Intn(5)+1)*time.Millisecond)
				ch := c.PullID(ctx, k)
				drain(ctx, ch, 20, func(c *resource.ValueChange) { readMsg(c.Value) })
				cancel()
			case 8:
				_ = c.Clock().Now()
			}
		}
	})
}

func wlGenID(w *wl) {
	c := resource.NewCollection()
	fixed := []string{"k1", "k2", "k3"}
	w.par(func(id int, rng *rand.Rand) {
		for i := 0; w.more(i); i++ {
			switch rng.Intn(7) {
			default:
				// generated ids, with an id callback that the caller uses right away
				var got string
				res, err := c.Add("", &traits.Child{Name: fmt.Sprint(id, "-", i)}, resource.WithGenIDIfAbsent(), resource.WithIDCallback(func(s string) {
					got = s
					if rng.Intn(8) == 0 {
						time.Sleep(50 * time.Microsecond) // a callback that takes its time
					}
				}))
				readMsg(res)
				if err == nil && rng.Intn(2) == 0 {
					m, _ := c.Get(got)
					readMsg(m)
				}
				if err == nil && rng.Intn(3) != 0 {
					_, _ = c.Delete(got, resource.WithAllowMissing(true))
				}
			case 3:
				// …next to writers that choose their ids themselves
				k := fixed[rng.Intn(len(fixed))]
				if rng.Intn(3) == 0 {
					_, _ = c.Delete(k, resource.WithAllowMissing(true))
				} else {
					res, _ := c.Update(k, &traits.Child{Name: k, Traits: []*traits.Trait{{Name: fmt.Sprint(i)}}}, resource.WithCreateIfAbsent(), resource.WithGenIDIfAbsent())
					readMsg(res)
				}
			case 4:
				for _, m := range c.List() {
					readMsg(m)
				}
			case 5:
				ctx, cancel := context.WithTimeout(context.Background(), time.Duration(rng.Intn(3)+1)*time.Millisecond)
				drain(ctx, c.Pull(ctx, resource.WithUpdatesOnly(rng.Intn(2) == 0)), 20, func(c *resource.CollectionChange) { readMsg(c.OldValue); readMsg(c.NewValue) })
				cancel()
			}
		}
	})
}

// ---- minibus ----------------------------------------------------------------------------------

func wlBus(w *wl) {
	var b minibus.Bus
	w.par(func(id int, rng *rand.Rand) {
		for i := 0; w.more(i); i++ {
			switch rng.Intn(3) {
			case 0, 1:
				ctx, cancel := context.WithTimeout(context.Background(), 5*time.Millisecond)
				b.Send(ctx, &traits.OnOff{State: traits.OnOff_ON})
				cancel()
			case 2:
				ctx, cancel := context.WithTimeout(context.Background(), time.Duration(rng.Intn(4)+1)*time.Millisecond)
				ch := b.Listen(ctx)
				if rng.Intn(2) == 0 {
					ch = minibus.DropExcess(ch)
				}
				drain(ctx, ch, 10, func(e any) { readMsg(e.(proto.Message)) })
				cancel()
			}
		}
	})
}

// ---- router -----------------------------------------------------------------------------------

func wlRouter(w *wl) {
	var changes sync.Map
	r := router.NewRouter(
		router.WithFactory(func(name string) (any, error) {
			if strings.HasPrefix(name, "f") {
				return &traits.OnOff{}, nil
			}
			return nil, nil
		}),
		router.WithFallback(func(name string) (any, error) {
			if name == "fallback" {
				return &traits.OnOff{}, nil
			}
			return nil, nil
		}),
		router.WithOnChange(func(c router.Change) { changes.Store(c.Name, c.New) }))
	names := []string{"a", "b", "f1", "f2", "fallback", "zz"}
	w.par(func(id int, rng *rand.Rand) {
		for i := 0; w.more(i); i++ {
			n := names[rng.Intn(len(names))]
			switch rng.Intn(4) {
			case 0:
				r.Add(n, &traits.OnOff{})
			case 1:
				r.Remove(n)
			case 2:
				r.Has(n)
			case 3:
				c, _ := r.Get(n)
				if m, ok := c.(proto.Message); ok {
					readMsg(m)
				}
			}
		}
	})
}

// ---- wrapped clients --------------------------------------------------------------------------

// hdrServer decorates the OnOff model server with handlers that use headers and trailers the way a
// gRPC handler may: grpc.SetHeader / grpc.SetTrailer on the context, stream.SetHeader/SendHeader/SetTrailer.
type hdrServer struct {
	*onoffpb.ModelServer
	linger time.Duration
}

func (s *hdrServer) GetOnOff(ctx context.Context, req *traits.GetOnOffRequest) (*traits.OnOff, error) {
	_ = grpc.SetHeader(ctx, metadata.Pairs("h", "1"))
	res, err := s.ModelServer.GetOnOff(ctx, req)
	_ = grpc.SetTrailer(ctx, metadata.Pairs("t", "1"))
	if req.Name == "slow" {
		// a handler that notices cancellation late and still records its trailer
		select {
		case <-ctx.Done():
		case <-time.After(s.linger):
		}
		_ = grpc.SetTrailer(ctx, metadata.Pairs("t", "2"))
	}
	return res, err
}

func (s *hdrServer) PullOnOff(req *traits.PullOnOffRequest, srv traits.OnOffApi_PullOnOffServer) error {
	_ = srv.SetHeader(metadata.Pairs("h", "1"))
	if req.Name == "sendheader" {
		_ = srv.SendHeader(metadata.Pairs("h", "2"))
	}
	srv.SetTrailer(metadata.Pairs("t", "1"))
	if req.Name == "lateheader" {
		// the wrapper accepts SetHeader after the headers went out (gRPC would reject it)
		_ = srv.Send(&traits.PullOnOffResponse{})
		_ = srv.SetHeader(metadata.Pairs("h", "3"))
	}
	err := s.ModelServer.PullOnOff(req, srv)
	srv.SetTrailer(metadata.Pairs("t", "2"))
	return err
}

func wlWrapUnary(w *wl) {
	model := onoffpb.NewModel()
	client := onoffpb.WrapApi(&hdrServer{ModelServer: onoffpb.NewModelServer(model), linger: 2 * time.Millisecond})
	w.par(func(id int, rng *rand.Rand) {
		for i := 0; w.more(i); i++ {
			var hdr, trl metadata.MD
			opts := []grpc.CallOption{}
			if rng.Intn(2) == 0 {
				opts = append(opts, grpc.Header(&hdr))
			}
			if rng.Intn(2) == 0 {
				opts = append(opts, grpc.Trailer(&trl))
			}
			ctx, cancel := context.WithCancel(context.Background())
			name := "x"
			if rng.Intn(2) == 0 {
				name = "slow"
				// the caller gives up while the handler is still running
				d := time.Duration(rng.Intn(3000)) * time.Microsecond
				go func() { time.Sleep(d); cancel() }()
			}
			if rng.Intn(2) == 0 {
				res, _ := client.GetOnOff(ctx, &traits.GetOnOffRequest{Name: name}, opts...)
				readMsg(res)
			} else {
				res, _ := client.UpdateOnOff(ctx, &traits.UpdateOnOffRequest{Name: name, OnOff: &traits.OnOff{State: traits.OnOff_State(rng.Intn(3))}}, opts...)
				readMsg(res)
			}
			use(len(hdr) + len(trl))
			for k, v := range trl {
				use(len(k) + len(v))
			}
			cancel()
		}
	})
}

func wlWrapStream(w *wl) {
	model := onoffpb.NewModel()
	client := onoffpb.WrapApi(&hdrServer{ModelServer: onoffpb.NewModelServer(model)})
	w.par(func(id int, rng *rand.Rand) {
		for i := 0; w.more(i); i++ {
			if id%2 == 0 {
				_, _ = model.UpdateOnOff(&traits.OnOff{State: traits.OnOff_State(rng.Intn(3))})
				continue
			}
			ctx, cancel := context.WithTimeout(context.Background(), time.Duration(rng.Intn(4)+1)*time.Millisecond)
			name := "x"
			switch rng.Intn(3) {
			case 0:
				name = "sendheader"
			case 1:
				name = "lateheader"
			}
			stream, err := client.PullOnOff(ctx, &traits.PullOnOffRequest{Name: name, UpdatesOnly: rng.Intn(2) == 0})
			if err != nil {
				cancel()
				continue
			}
			if rng.Intn(2) == 0 {
				h, _ := stream.Header()
				use(len(h))
			}
			for n := 0; n < 10; n++ {
				msg, err := stream.Recv()
				if err != nil {
					break
				}
				readMsg(msg)
			}
			// grpc.ClientStream: Trailer may be called once Recv has returned a non-nil error
			cancel()
			for {
				if _, err := stream.Recv(); err != nil {
					break
				}
			}
			use(len(stream.Trailer()))
			h, _ := stream.Header()
			use(len(h))
		}
	})
}

// wlStreamBidi uses ClientServerStream directly as a bidirectional stream: a handler goroutine that
// echoes, a client sender and a client receiver, with the caller's context cancelled at random.
func wlStreamBidi(w *wl) {
	w.par(func(id int, rng *rand.Rand) {
		for i := 0; w.more(i); i++ {
			parent, cancel := context.WithCancel(context.Background())
			s := wrap.NewClientServerStream(parent)
			ss, cs := s.Server(), s.Client()
			var wg sync.WaitGroup
			wg.Add(3)
			go func() { // handler + wrapper
				defer wg.Done()
				_ = ss.SetHeader(metadata.Pairs("h", "1"))
				var err error
				for {
					msg := &traits.OnOff{}
					if err = ss.RecvMsg(msg); err != nil {
						break
					}
					ss.SetTrailer(metadata.Pairs("t", "1"))
					if err = ss.SendMsg(msg); err != nil {
						break
					}
				}
				if err == io.EOF {
					err = nil
				}
				ss.SetTrailer(metadata.Pairs("t", "2"))
				s.Close(err)
			}()
			nsend := rng.Intn(6)
			cancelAt := -1
			if rng.Intn(2) == 0 {
				cancelAt = rng.Intn(6)
			}
			go func() { // client sender
				defer wg.Done()
				for n := 0; n < nsend; n++ {
					if n == cancelAt {
						cancel()
					}
					if err := cs.SendMsg(&traits.OnOff{State: traits.OnOff_ON}); err != nil {
						return
					}
				}
				_ = cs.CloseSend()
			}()
			go func() { // client receiver
				defer wg.Done()
				h, _ := cs.Header()
				use(len(h))
				for {
					msg := &traits.OnOff{}
					if err := cs.RecvMsg(msg); err != nil {
						break
					}
					readMsg(msg)
				}
				use(len(cs.Trailer()))
			}()
			done := make(chan struct{})
			go func() { wg.Wait(); close(done) }()
			select {
			case <-done:
			case <-time.After(2 * time.Second):
				cancel()
				<-done
			}
			cancel()
		}
	})
}

// ---- group ------------------------------------------------------------------------------------

func wlGroup(w *wl) {
	v := resource.NewValue(resource.WithInitialValue(&traits.OnOff{}))
	strategies := []group.ExecutionStrategy{group.ExecutionStrategyAll, group.ExecutionStrategyMost, group.ExecutionStrategyAny,
		group.ExecutionStrategyOne, group.ExecutionStrategyFast, group.ExecutionStrategyRace}
	w.par(func(id int, rng *rand.Rand) {
		for i := 0; w.more(i); i++ {
			n := rng.Intn(4) + 1
			members := make([]group.Member, n)
			for k := range members {
				fail := rng.Intn(3) == 0
				write := rng.Intn(2) == 0
				members[k] = func(ctx context.Context) (proto.Message, error) {
					if fail {
						return nil, fmt.Errorf("member failed")
					}
					if write {
						return v.Set(&traits.OnOff{State: traits.OnOff_ON})
					}
					return v.Get(), nil
				}
			}
			ctx, cancel := context.WithTimeout(context.Background(), 50*time.Millisecond)
			var res []proto.Message
			func() {
				defer func() { _ = recover() }()
				res, _ = group.Execute(ctx, strategies[rng.Intn(len(strategies))], members)
			}()
			for _, m := range res {
				if m != nil {
					readMsg(m)
				}
			}
			cancel()
		}
	})
}

// ---- trait models -----------------------------------------------------------------------------

func wlElectric(w *wl) {
	m := electricpb.NewModel()
	_ = m.AddMode(&traits.ElectricMode{Id: "base", Title: "base", Normal: true})
	w.par(func(id int, rng *rand.Rand) {
		var mine []string
		for i := 0; w.more(i); i++ {
			switch rng.Intn(11) {
			case 0:
				mode, err := m.CreateMode(&traits.ElectricMode{Title: fmt.Sprint(id, i)})
				if err == nil {
					mine = append(mine, mode.Id)
					readMsg(mode)
				}
			case 1:
				if len(mine) > 0 {
					_ = m.DeleteMode(mine[rng.Intn(len(mine))], resource.WithAllowMissing(true))
				}
			case 2:
				if len(mine) > 0 {
					res, _ := m.UpdateMode(&traits.ElectricMode{Id: mine[rng.Intn(len(mine))], Title: "u"})
					readMsg(res)
				}
			case 3:
				res, _ := m.ChangeActiveMode("base")
				readMsg(res)
			case 4:
				res, _ := m.ChangeToNormalMode()
				readMsg(res)
			case 5:
				for _, x := range m.Modes() {
					readMsg(x)
				}
			case 6:
				readMsg(m.ActiveMode())
				readMsg(m.Demand())
			case 7:
				res, _ := m.UpdateDemand(&traits.ElectricDemand{Current: float32(i)})
				readMsg(res)
			case 8:
				ctx, cancel := context.WithTimeout(context.Background(), time.Duration(rng.Intn(4)+1)*time.Millisecond)
				drain(ctx, m.PullModes(ctx), 20, func(c electricpb.PullModesChange) { readMsg(c.NewValue); readMsg(c.OldValue) })
				cancel()
			case 9:
				ctx, cancel := context.WithTimeout(context.Background(), time.Duration(rng.Intn(4)+1)*time.Millisecond)
				drain(ctx, m.PullActiveMode(ctx), 20, func(c electricpb.PullActiveModeChange) { readMsg(c.ActiveMode) })
				cancel()
			case 10:
				x, ok := m.NormalMode()
				if ok {
					readMsg(x)
				}
				if y, ok := m.FindMode("base"); ok {
					readMsg(y)
				}
			}
		}
	})
}

func wlParent(w *wl) {
	m := parentpb.NewModel()
	names := []string{"c1", "c2", "c3"}
	tn := []trait.Name{trait.OnOff, trait.Light, trait.Metadata, trait.Electric, trait.Parent}
	w.par(func(id int, rng *rand.Rand) {
		for i := 0; w.more(i); i++ {
			n := names[rng.Intn(len(names))]
			switch rng.Intn(6) {
			case 0, 1:
				func() {
					defer func() { _ = recover() }() // AddChildTrait panics when its update is aborted by a concurrent writer
					c, _ := m.AddChildTrait(n, tn[rng.Intn(len(tn))])
					readMsg(c)
				}()
			case 2:
				func() {
					defer func() { _ = recover() }() // same
					if c := m.RemoveChildTrait(n, tn[rng.Intn(len(tn))]); c != nil {
						readMsg(c)
					}
				}()
			case 3:
				for _, c := range m.ListChildren() {
					readMsg(c)
				}
			case 4:
				ctx, cancel := context.WithTimeout(context.Background(), time.Duration(rng.Intn(4)+1)*time.Millisecond)
				drain(ctx, m.PullChildren(ctx), 20, func(c *traits.PullChildrenResponse_Change) { readMsg(c) })
				cancel()
			case 5:
				if rng.Intn(4) == 0 {
					c, _ := m.RemoveChildByName(n, resource.WithAllowMissing(true))
					if c != nil {
						readMsg(c)
					}
				} else {
					func() {
						defer func() { _ = recover() }()
						m.AddChild(&traits.Child{Name: n})
					}()
				}
			}
		}
	})
}

func wlMetadata(w *wl) {
	m := metadatapb.NewModel()
	tn := []string{"a", "b", "c"}
	w.par(func(id int, rng *rand.Rand) {
		for i := 0; w.more(i); i++ {
			switch rng.Intn(5) {
			case 0:
				res, _ := m.UpdateTraitMetadata(&traits.TraitMetadata{Name: tn[rng.Intn(len(tn))], More: map[string]string{fmt.Sprint("k", rng.Intn(3)): fmt.Sprint(i)}})
				readMsg(res)
			case 1:
				res, _ := m.MergeMetadata(&traits.Metadata{Name: fmt.Sprint("n", i), Traits: []*traits.TraitMetadata{{Name: tn[rng.Intn(len(tn))]}}})
				readMsg(res)
			case 2:
				res, _ := m.UpdateMetadata(&traits.Metadata{Name: "x"}, resource.WithUpdatePaths("name"))
				readMsg(res)
			case 3:
				res, _ := m.GetMetadata()
				readMsg(res)
			case 4:
				ctx, cancel := context.WithTimeout(context.Background(), time.Duration(rng.Intn(4)+1)*time.Millisecond)
				drain(ctx, m.PullMetadata(ctx), 20, func(c *traits.PullMetadataResponse_Change) { readMsg(c) })
				cancel()
			}
		}
	})
}

func wlWasteHail(w *wl) {
	wm := wastepb.NewModel()
	hm := hailpb.NewModel()
	w.par(func(id int, rng *rand.Rand) {
		var mine []string
		for i := 0; w.more(i); i++ {
			switch rng.Intn(8) {
			case 0:
				res, _ := wm.GenerateWasteRecord(nil)
				readMsg(res)
			case 1:
				n := wm.GetWasteRecordCount()
				for _, r := range wm.ListWasteRecords(n, 5) {
					readMsg(r)
				}
			case 2:
				ctx, cancel := context.WithTimeout(context.Background(), time.Duration(rng.Intn(4)+1)*time.Millisecond)
				drain(ctx, wm.PullWasteRecords(ctx), 20, func(c *traits.PullWasteRecordsResponse_Change) { readMsg(c) })
				cancel()
			case 3:
				h, err := hm.CreateHail(&traits.Hail{Origin: &traits.Hail_Location{Name: "o"}})
				if err == nil {
					mine = append(mine, h.Id)
					readMsg(h)
				}
			case 4:
				if len(mine) > 0 {
					h, _ := hm.UpdateHail(&traits.Hail{Id: mine[rng.Intn(len(mine))], State: traits.Hail_State(rng.Intn(5))})
					if h != nil {
						readMsg(h)
					}
				}
			case 5:
				if len(mine) > 0 {
					_, _ = hm.DeleteHail(mine[rng.Intn(len(mine))], resource.WithAllowMissing(true))
				}
			case 6:
				for _, h := range hm.ListHails() {
					readMsg(h)
				}
			case 7:
				ctx, cancel := context.WithTimeout(context.Background(), time.Duration(rng.Intn(4)+1)*time.Millisecond)
				drain(ctx, hm.PullHails(ctx), 20, func(c hailpb.HailsChange) { readMsg(c.NewValue); readMsg(c.OldValue) })
				cancel()
			}
		}
	})
}
