package main

// Round-4 scenario families.
//
//   value-equiv        Values built with every equivalence option and an injected (goroutine-safe) clock,
//                      written with the full range of write options, read by updates-only / masked /
//                      backpressured subscribers that start while writers run (the duplicate filter of a
//                      subscription is the state under test)
//   router-stack       the generated onoff/light routers with client factories that build wrapped model
//                      servers on demand, onChange callbacks that re-enter the router, and the group
//                      adapters (onoffpb.Group, lightpb.Group = group.Execute over a router) with every
//                      execution strategy, all behind in-process wrappers
//   electric-activate  an electric model with an injected clock and rng, driven through its model API
//                      and through the wrapped ModelServer at the same time: goroutines switch the
//                      active mode between several modes (so every activation changes the id) while
//                      others hold, marshal and re-read the mode messages they got from unmasked
//                      Get/List/Pull (the live stored messages)

import (
	"context"
	"fmt"
	"math/rand"
	"strings"
	"sync"
	"sync/atomic"
	"time"

	"google.golang.org/protobuf/proto"
	"google.golang.org/protobuf/types/known/durationpb"
	"google.golang.org/protobuf/types/known/fieldmaskpb"

	"github.com/smart-core-os/sc-api/go/traits"
	"github.com/smart-core-os/sc-api/go/types"
	"github.com/smart-core-os/sc-golang/pkg/cmp"
	"github.com/smart-core-os/sc-golang/pkg/group"
	"github.com/smart-core-os/sc-golang/pkg/resource"
	"github.com/smart-core-os/sc-golang/pkg/router"
	"github.com/smart-core-os/sc-golang/pkg/time/clock"
	"github.com/smart-core-os/sc-golang/pkg/trait/airtemperaturepb"
	"github.com/smart-core-os/sc-golang/pkg/trait/countpb"
	"github.com/smart-core-os/sc-golang/pkg/trait/electricpb"
	"github.com/smart-core-os/sc-golang/pkg/trait/emergencypb"
	"github.com/smart-core-os/sc-golang/pkg/trait/lightpb"
	"github.com/smart-core-os/sc-golang/pkg/trait/onoffpb"
	"github.com/smart-core-os/sc-golang/pkg/trait/speakerpb"
)

func init() {
	scenarios = append(scenarios,
		scenario{"value-equiv", 2, []string{"resource.Value.", "resource.config.", "minibus.", "bus-shared:resource.ValueChange", "local:resource.", "local:minibus."}, wlValueEquiv},
		scenario{"router-stack", 1, []string{"router.", "wrap.", "local:group.", "onoffpb.", "lightpb.", "local:lightpb.", "local:onoffpb.", "resource.", "minibus."}, wlRouterStack},
		scenario{"electric-activate", 1, []string{"electricpb.", "resource.", "minibus.", "wrap.", "bus-shared:", "local:"}, wlElectricActivate},
	)
}

// tickClock is a caller-supplied clock that is itself goroutine safe (an atomic counter)
type tickClock struct{ n atomic.Int64 }

func (c *tickClock) Now() time.Time {
	return time.Unix(1_700_000_000, 0).Add(time.Duration(c.n.Add(1)) * time.Millisecond)
}

// modelClock: a clock.Clock whose Now is the atomic counter, the rest real time
type modelClock struct {
	clock.Clock
	t *tickClock
}

func (c modelClock) Now() time.Time { return c.t.Now() }

func wlValueEquiv(w *wl) {
	clk := &tickClock{}
	mk := func(opts ...resource.Option) *resource.Value {
		return resource.NewValue(append([]resource.Option{resource.WithInitialValue(&traits.ElectricDemand{Current: 1, Rating: 13}), resource.WithClock(clk)}, opts...)...)
	}
	approx := cmp.Equal(cmp.FloatValueApprox(0, 0.5))
	vals := []*resource.Value{
		mk(resource.WithNoDuplicates()),
		mk(resource.WithMessageEquivalence(approx)),
		mk(resource.WithEquivalence(resource.ComparerFunc(func(x, y proto.Message) bool { readMsg(x); readMsg(y); return proto.Equal(x, y) }))),
		mk(resource.WithNoDuplicates(), resource.WithWritablePaths(&traits.ElectricDemand{}, "current", "voltage")),
		mk(),
	}
	w.par(func(id int, rng *rand.Rand) {
		for i := 0; w.more(i); i++ {
			v := vals[rng.Intn(len(vals))]
			switch rng.Intn(8) {
			case 0, 1, 2:
				volt := float32(rng.Intn(3) + 238)
				msg := &traits.ElectricDemand{Current: float32(rng.Intn(4)), Voltage: &volt}
				var opts []resource.WriteOption
				switch rng.Intn(7) {
				case 0:
					opts = append(opts, resource.WithUpdatePaths("current"))
				case 1:
					opts = append(opts, resource.WithUpdateMask(&fieldmaskpb.FieldMask{Paths: []string{"voltage"}}), resource.WithMoreUpdatePaths("current"))
				case 2:
					opts = append(opts, resource.WithResetPaths("voltage"))
				case 3:
					opts = append(opts, resource.WithWriteTime(clk.Now()))
				case 4:
					opts = append(opts, resource.WithExpectedValue(v.Get()))
				case 5:
					opts = append(opts, resource.WithMoreWritablePaths("rating"), resource.InterceptAfter(func(old, new proto.Message) {
						readMsg(old)
						new.(*traits.ElectricDemand).Rating = 16
					}))
				}
				res, _ := v.Set(msg, opts...)
				readMsg(res)
			case 3:
				readMsg(v.Get())
				readMsg(v.Get(resource.WithReadPaths(&traits.ElectricDemand{}, "current")))
			default:
				// a subscriber that starts while writers are running
				ctx, cancel := context.WithTimeout(context.Background(), time.Duration(rng.Intn(4)+1)*time.Millisecond)
				popts := []resource.ReadOption{resource.WithUpdatesOnly(rng.Intn(3) != 0), resource.WithBackpressure(rng.Intn(2) == 0)}
				if rng.Intn(3) == 0 {
					popts = append(popts, resource.WithReadPaths(&traits.ElectricDemand{}, "current"))
				}
				ch := v.Pull(ctx, popts...)
				if rng.Intn(2) == 0 {
					// …and whose own caller writes right after Pull returned
					res, _ := v.Set(&traits.ElectricDemand{Current: float32(i % 5)})
					readMsg(res)
				}
				drain(ctx, ch, 10, func(c *resource.ValueChange) { readMsg(c.Value); _ = c.ChangeTime })
				cancel()
			}
		}
	})
}

func wlRouterStack(w *wl) {
	var onoffR *onoffpb.ApiRouter
	var lightR *lightpb.ApiRouter
	var changes sync.Map
	names := []string{"dev/1", "dev/2", "dev/3", "auto/1", "auto/2"}
	reenter := func(r router.Router) func(c router.Change) {
		return func(c router.Change) {
			changes.Store(c.Name, c.Auto)
			// callbacks run without the router's lock: they may call back into it
			r.Has(c.Name)
			if c.New == nil {
				_, _ = r.Get("auto/1")
			}
		}
	}
	var lateOnOff, lateLight func(c router.Change)
	onoffR = onoffpb.NewApiRouter(
		onoffpb.WithOnOffApiClientFactory(func(name string) (traits.OnOffApiClient, error) {
			if !strings.HasPrefix(name, "auto/") {
				return nil, fmt.Errorf("unknown %s", name)
			}
			return onoffpb.WrapApi(onoffpb.NewModelServer(onoffpb.NewModel())), nil
		}),
		router.WithOnChange(func(c router.Change) { lateOnOff(c) }))
	lightR = lightpb.NewApiRouter(
		lightpb.WithLightApiClientFactory(func(name string) (traits.LightApiClient, error) {
			if !strings.HasPrefix(name, "auto/") {
				return nil, fmt.Errorf("unknown %s", name)
			}
			return lightpb.WrapApi(lightpb.NewModelServer(lightpb.NewModel())), nil
		}),
		router.WithOnChange(func(c router.Change) { lateLight(c) }))
	lateOnOff, lateLight = reenter(onoffR), reenter(lightR)
	onoffC := onoffpb.WrapApi(onoffR)
	lightC := lightpb.WrapApi(lightR)
	strategies := []group.ExecutionStrategy{group.ExecutionStrategyAll, group.ExecutionStrategyMost, group.ExecutionStrategyAny,
		group.ExecutionStrategyOne, group.ExecutionStrategyFast, group.ExecutionStrategyRace}
	w.par(func(id int, rng *rand.Rand) {
		for i := 0; w.more(i); i++ {
			n := names[rng.Intn(len(names))]
			ctx, cancel := context.WithTimeout(context.Background(), time.Duration(rng.Intn(6)+2)*time.Millisecond)
			func() {
				defer func() { _ = recover() }() // strategy One/Fast/Race details are C17's business
				switch rng.Intn(9) {
				case 0:
					onoffR.AddOnOffApiClient(n, onoffpb.WrapApi(onoffpb.NewModelServer(onoffpb.NewModel())))
					lightR.AddLightApiClient(n, lightpb.WrapApi(lightpb.NewModelServer(lightpb.NewModel())))
				case 1:
					if rng.Intn(3) == 0 {
						onoffR.RemoveOnOffApiClient(n)
						lightR.RemoveLightApiClient(n)
					}
				case 2:
					res, _ := onoffC.GetOnOff(ctx, &traits.GetOnOffRequest{Name: n})
					readMsg(res)
					res2, _ := lightC.GetBrightness(ctx, &traits.GetBrightnessRequest{Name: n})
					readMsg(res2)
				case 3:
					res, _ := onoffC.UpdateOnOff(ctx, &traits.UpdateOnOffRequest{Name: n, OnOff: &traits.OnOff{State: traits.OnOff_State(rng.Intn(3))}})
					readMsg(res)
					res2, _ := lightC.UpdateBrightness(ctx, &traits.UpdateBrightnessRequest{Name: n, Brightness: &traits.Brightness{LevelPercent: float32(rng.Intn(100))}})
					readMsg(res2)
				case 4:
					if stream, err := onoffC.PullOnOff(ctx, &traits.PullOnOffRequest{Name: n, UpdatesOnly: rng.Intn(2) == 0}); err == nil {
						for k := 0; k < 5; k++ {
							msg, err := stream.Recv()
							if err != nil {
								break
							}
							readMsg(msg)
						}
						cancel()
						for {
							if _, err := stream.Recv(); err != nil {
								break
							}
						}
					}
				case 5, 6:
					// group adapters over the router: a fresh group per call (its fields are configuration)
					g := onoffpb.NewGroup(onoffC, names[:rng.Intn(len(names))+1]...)
					g.ReadExecution, g.WriteExecution = strategies[rng.Intn(len(strategies))], strategies[rng.Intn(len(strategies))]
					gc := onoffpb.WrapApi(g)
					if rng.Intn(2) == 0 {
						res, _ := gc.GetOnOff(ctx, &traits.GetOnOffRequest{Name: "group"})
						readMsg(res)
					} else {
						res, _ := gc.UpdateOnOff(ctx, &traits.UpdateOnOffRequest{Name: "group", OnOff: &traits.OnOff{State: traits.OnOff_ON}})
						readMsg(res)
					}
				case 7:
					g := lightpb.NewGroup(lightC, names[:rng.Intn(len(names))+1]...)
					g.ReadExecution, g.WriteExecution = strategies[rng.Intn(3)], strategies[rng.Intn(3)]
					gc := lightpb.WrapApi(g)
					res, _ := gc.UpdateBrightness(ctx, &traits.UpdateBrightnessRequest{Name: "group", Brightness: &traits.Brightness{LevelPercent: float32(rng.Intn(100))}})
					readMsg(res)
					res2, _ := gc.GetBrightness(ctx, &traits.GetBrightnessRequest{Name: "group"})
					readMsg(res2)
				case 8:
					g := onoffpb.NewGroup(onoffC, names[:rng.Intn(len(names))+1]...)
					g.ReadExecution = strategies[rng.Intn(3)]
					gc := onoffpb.WrapApi(g)
					if stream, err := gc.PullOnOff(ctx, &traits.PullOnOffRequest{Name: "group"}); err == nil {
						for k := 0; k < 3; k++ {
							msg, err := stream.Recv()
							if err != nil {
								break
							}
							readMsg(msg)
						}
						cancel()
						for {
							if _, err := stream.Recv(); err != nil {
								break
							}
						}
					}
				}
			}()
			cancel()
		}
	})
}

func wlElectricActivate(w *wl) {
	clk := &tickClock{}
	m := electricpb.NewModel(electricpb.WithClock(modelClock{clock.Real(), clk}), electricpb.WithRNG(rand.New(rand.NewSource(w.seed))),
		electricpb.WithInitialMode(&traits.ElectricMode{Id: "m0", Title: "zero", Normal: true}, &traits.ElectricMode{Id: "m1", Title: "one"}))
	ids := []string{"m0", "m1", "m2", "m3"}
	_ = m.AddMode(&traits.ElectricMode{Id: "m2", Title: "two", Segments: []*traits.ElectricMode_Segment{{Magnitude: 1}}})
	_ = m.AddMode(&traits.ElectricMode{Id: "m3", Title: "three"})
	client := electricpb.WrapApi(electricpb.NewModelServer(m))
	w.par(func(id int, rng *rand.Rand) {
		var held []*traits.ElectricMode // mode messages this goroutine was given and keeps reading
		hold := func(x *traits.ElectricMode) {
			if x == nil {
				return
			}
			readMsg(x)
			if len(held) < 8 {
				held = append(held, x)
			} else {
				held[rng.Intn(len(held))] = x
			}
		}
		for i := 0; w.more(i); i++ {
			k := ids[rng.Intn(len(ids))]
			ctx, cancel := context.WithTimeout(context.Background(), time.Duration(rng.Intn(5)+1)*time.Millisecond)
			switch rng.Intn(12) {
			case 0, 1:
				res, _ := m.ChangeActiveMode(k)
				hold(res)
			case 2:
				res, _ := client.UpdateActiveMode(ctx, &traits.UpdateActiveModeRequest{Name: "e", ActiveMode: &traits.ElectricMode{Id: k}})
				hold(res)
			case 3:
				if rng.Intn(2) == 0 {
					res, _ := m.ChangeToNormalMode()
					hold(res)
				} else {
					res, _ := client.ClearActiveMode(ctx, &traits.ClearActiveModeRequest{Name: "e"})
					hold(res)
				}
			case 4:
				for _, x := range m.Modes() {
					hold(x)
				}
			case 5:
				if x, ok := m.FindMode(k); ok {
					hold(x)
				}
				if x, ok := m.NormalMode(); ok {
					hold(x)
				}
				hold(m.ActiveMode())
			case 6:
				if res, err := client.ListModes(ctx, &traits.ListModesRequest{Name: "e", PageSize: int32(rng.Intn(3))}); err == nil {
					readMsg(res)
				}
				if res, err := client.GetActiveMode(ctx, &traits.GetActiveModeRequest{Name: "e"}); err == nil {
					readMsg(res)
				}
			case 7:
				drain(ctx, m.PullModes(ctx), 10, func(c electricpb.PullModesChange) { hold(c.NewValue); hold(c.OldValue) })
			case 8:
				drain(ctx, m.PullActiveMode(ctx, resource.WithUpdatesOnly(rng.Intn(2) == 0)), 10, func(c electricpb.PullActiveModeChange) { hold(c.ActiveMode) })
			case 9:
				if stream, err := client.PullModes(ctx, &traits.PullModesRequest{Name: "e", UpdatesOnly: rng.Intn(2) == 0}); err == nil {
					for n := 0; n < 5; n++ {
						msg, err := stream.Recv()
						if err != nil {
							break
						}
						readMsg(msg)
					}
					cancel()
					for {
						if _, err := stream.Recv(); err != nil {
							break
						}
					}
				}
			case 10:
				// edits of stored modes (also of the one that is active)
				res, _ := m.UpdateMode(&traits.ElectricMode{Id: k, Title: fmt.Sprint("t", i)}, resource.WithUpdatePaths("title"))
				hold(res)
			case 11:
				mode, err := m.CreateMode(&traits.ElectricMode{Title: fmt.Sprint(id, "-", i)})
				if err == nil {
					hold(mode)
					if rng.Intn(2) == 0 {
						res, _ := m.ChangeActiveMode(mode.Id)
						hold(res)
					}
					_ = m.DeleteMode(mode.Id, resource.WithAllowMissing(true))
				}
			}
			cancel()
			// keep reading what we were given earlier
			if len(held) > 0 {
				readMsg(held[rng.Intn(len(held))])
			}
		}
	})
}

// ---- memory devices -----------------------------------------------------------------------------

func init() {
	scenarios = append(scenarios, scenario{"memory-devices", 1, []string{"lightpb.", "local:lightpb.", "countpb.", "emergencypb.", "speakerpb.", "airtemperaturepb.", "resource.", "minibus.", "wrap."}, wlMemoryDevices})
}

// wlMemoryDevices drives the MemoryDevice servers (light incl. the tweening goroutine, count, emergency,
// speaker, air temperature): unary calls directly on the server (so that a handler panic stays in the
// worker), subscriptions through the in-process wrapper.
func wlMemoryDevices(w *wl) {
	light := lightpb.NewMemoryDevice()
	tweener := lightpb.NewMemoryDevice() // written only by goroutine 0, one tween at a time
	count := countpb.NewMemoryDevice()
	emergency := emergencypb.NewMemoryDevice()
	speaker := speakerpb.NewMemoryDevice(&types.AudioLevel{Gain: 10})
	air := airtemperaturepb.NewMemoryDevice()
	lightC, tweenC := lightpb.WrapApi(light), lightpb.WrapApi(tweener)
	countC, emergencyC, speakerC, airC := countpb.WrapApi(count), emergencypb.WrapApi(emergency), speakerpb.WrapApi(speaker), airtemperaturepb.WrapApi(air)
	bg := context.Background()
	safe := func(f func()) {
		defer func() { _ = recover() }() // rejected updates that a server turns into a nil assertion are C14's business
		f()
	}
	recvSome := func(cancel context.CancelFunc, recv func() (proto.Message, error)) {
		for k := 0; k < 5; k++ {
			msg, err := recv()
			if err != nil {
				break
			}
			readMsg(msg)
		}
		cancel()
		for {
			if _, err := recv(); err != nil {
				break
			}
		}
	}
	w.par(func(id int, rng *rand.Rand) {
		for i := 0; w.more(i); i++ {
			ctx, cancel := context.WithTimeout(bg, time.Duration(rng.Intn(5)+1)*time.Millisecond)
			if id == 0 && i%4 == 0 {
				// a tween: the device's own goroutine keeps writing while the others read and subscribe
				safe(func() {
					res, err := tweener.UpdateBrightness(bg, &traits.UpdateBrightnessRequest{Name: "t", Brightness: &traits.Brightness{
						LevelPercent: float32(rng.Intn(100)), BrightnessTween: &types.Tween{TotalDuration: durationpb.New(5 * time.Millisecond)}}})
					readMsg(res)
					if err == nil {
						// wait for the tween to finish before the next one (two tweens on one device abort each other)
						for k := 0; k < 400; k++ {
							b, _ := tweener.GetBrightness(bg, &traits.GetBrightnessRequest{Name: "t"})
							if b.GetBrightnessTween() == nil {
								break
							}
							time.Sleep(time.Millisecond)
						}
					}
				})
				cancel()
				continue
			}
			switch rng.Intn(12) {
			case 0:
				safe(func() {
					res, _ := light.UpdateBrightness(bg, &traits.UpdateBrightnessRequest{Name: "l", Delta: rng.Intn(2) == 0, Brightness: &traits.Brightness{LevelPercent: float32(rng.Intn(100))}})
					readMsg(res)
				})
			case 1:
				res, _ := light.GetBrightness(bg, &traits.GetBrightnessRequest{Name: "l"})
				readMsg(res)
				res, _ = tweener.GetBrightness(bg, &traits.GetBrightnessRequest{Name: "t", ReadMask: &fieldmaskpb.FieldMask{Paths: []string{"level_percent"}}})
				readMsg(res)
			case 2:
				c := lightC
				if rng.Intn(2) == 0 {
					c = tweenC
				}
				if stream, err := c.PullBrightness(ctx, &traits.PullBrightnessRequest{Name: "l", UpdatesOnly: rng.Intn(2) == 0}); err == nil {
					recvSome(cancel, func() (proto.Message, error) { return stream.Recv() })
				}
			case 3:
				safe(func() {
					res, _ := count.UpdateCount(bg, &traits.UpdateCountRequest{Name: "c", Delta: rng.Intn(2) == 0, Count: &traits.Count{Added: int32(rng.Intn(3)), Removed: int32(rng.Intn(2))}})
					readMsg(res)
				})
			case 4:
				safe(func() {
					if rng.Intn(4) == 0 {
						res, _ := count.ResetCount(bg, &traits.ResetCountRequest{Name: "c"})
						readMsg(res)
					}
					res, _ := count.GetCount(bg, &traits.GetCountRequest{Name: "c"})
					readMsg(res)
				})
			case 5:
				if stream, err := countC.PullCounts(ctx, &traits.PullCountsRequest{Name: "c", UpdatesOnly: rng.Intn(2) == 0}); err == nil {
					recvSome(cancel, func() (proto.Message, error) { return stream.Recv() })
				}
			case 6:
				safe(func() {
					res, _ := emergency.UpdateEmergency(bg, &traits.UpdateEmergencyRequest{Name: "e", Emergency: &traits.Emergency{Level: traits.Emergency_Level(rng.Intn(4)), Reason: fmt.Sprint(i)}})
					readMsg(res)
				})
			case 7:
				res, _ := emergency.GetEmergency(bg, &traits.GetEmergencyRequest{Name: "e"})
				readMsg(res)
				if stream, err := emergencyC.PullEmergency(ctx, &traits.PullEmergencyRequest{Name: "e"}); err == nil {
					recvSome(cancel, func() (proto.Message, error) { return stream.Recv() })
				}
			case 8:
				safe(func() {
					res, _ := speaker.UpdateVolume(bg, &traits.UpdateSpeakerVolumeRequest{Name: "s", Delta: rng.Intn(2) == 0, Volume: &types.AudioLevel{Gain: float32(rng.Intn(5))}})
					readMsg(res)
				})
			case 9:
				res, _ := speaker.GetVolume(bg, &traits.GetSpeakerVolumeRequest{Name: "s"})
				readMsg(res)
				if stream, err := speakerC.PullVolume(ctx, &traits.PullSpeakerVolumeRequest{Name: "s"}); err == nil {
					recvSome(cancel, func() (proto.Message, error) { return stream.Recv() })
				}
			case 10:
				safe(func() {
					h := float32(rng.Intn(100))
					res, _ := air.UpdateAirTemperature(bg, &traits.UpdateAirTemperatureRequest{Name: "a", State: &traits.AirTemperature{AmbientHumidity: &h}})
					readMsg(res)
				})
			case 11:
				res, _ := air.GetAirTemperature(bg, &traits.GetAirTemperatureRequest{Name: "a"})
				readMsg(res)
				if stream, err := airC.PullAirTemperature(ctx, &traits.PullAirTemperatureRequest{Name: "a", UpdatesOnly: rng.Intn(2) == 0}); err == nil {
					recvSome(cancel, func() (proto.Message, error) { return stream.Recv() })
				}
			}
			cancel()
		}
	})
}
