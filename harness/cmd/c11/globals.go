package main

// Package-level variables written at run time (`global:` rows, round 8).
//
// A package-level variable is one object shared by every goroutine of the process; no mutex of any resource
// or model instance guards it (two goroutines each holding "their" Value.mu hold two different locks — see
// `C11_lock_of_another_instance_does_not_order`).  For every package-level variable g of a package under
// pkg/** or internal/** that some function other than `init` writes, the table gets
//
//     W global:<pkg>.<g> in <function>   for every write site
//     R global:<pkg>.<g> in <function>   for every other mention in a function other than `init`
//
// live, holding only PACKAGE-LEVEL mutexes (`var mu sync.Mutex` / `sync.RWMutex` of the same package) that
// the enclosing function has locked, syntactically, before the site and not unlocked again before it; sites
// inside the literal handed to `<package-level sync.Once>.Do(...)` are constructor-phase (Once orders them
// with everything after any Do returned), and so are the sites of an unexported function that is only ever
// called — never mentioned otherwise — from `init`, from a package-level initialiser or from other such
// functions (it runs during package initialisation).  A variable nobody writes outside `init` gets no row (read-only
// after package initialisation, which happens before main starts any goroutine).
//
// Writes seen (syntactic): `g = …`, `g op= …`, `g++`, `g[k] = …` (also op= / ++), `delete(g, k)`,
// `g.f = …` / `g.f[k] = …` for a struct-valued g.  Not seen: writes through a pointer taken with &g, writes
// into the pointee of a pointer-valued g (those are field rows of the pointee's type, `shared:` rows for
// pointees created in initialisers), variables of sync / sync/atomic types (safe by construction).

import (
	"go/ast"
	"go/token"
	"go/types"
	"sort"
)

func isSyncType(e ast.Expr, names ...string) bool {
	se, ok := e.(*ast.SelectorExpr)
	if !ok {
		return false
	}
	id, ok := se.X.(*ast.Ident)
	if !ok {
		return false
	}
	if id.Name == "atomic" {
		return len(names) == 0
	}
	if id.Name != "sync" {
		return false
	}
	if len(names) == 0 {
		return true
	}
	for _, n := range names {
		if se.Sel.Name == n {
			return true
		}
	}
	return false
}

func (pa *pkgAn) globalRows() ([]*Row, []string) {
	vars := map[types.Object]string{}    // candidate data variables -> name
	mutexes := map[types.Object]string{} // package-level mutexes
	onces := map[types.Object]bool{}
	for _, f := range pa.files {
		for _, d := range f.Decls {
			gd, ok := d.(*ast.GenDecl)
			if !ok || gd.Tok != token.VAR {
				continue
			}
			for _, sp := range gd.Specs {
				vs := sp.(*ast.ValueSpec)
				for _, n := range vs.Names {
					o := pa.info.Defs[n]
					if o == nil || n.Name == "_" {
						continue
					}
					switch {
					case vs.Type != nil && isSyncType(vs.Type, "Mutex", "RWMutex"):
						mutexes[o] = n.Name
					case vs.Type != nil && isSyncType(vs.Type, "Once"):
						onces[o] = true
					case vs.Type != nil && isSyncType(vs.Type):
						// sync.Map, sync.Pool, sync.WaitGroup, atomic.*: safe by construction
					default:
						vars[o] = n.Name
					}
				}
			}
		}
	}
	if len(vars) == 0 {
		return nil, nil
	}
	type site struct {
		g     types.Object
		kind  string
		fn    string
		pos   string
		held  []HeldLock
		phase string
	}
	var sites []site
	written := map[types.Object]bool{}
	useOf := func(e ast.Expr) types.Object {
		for {
			switch x := e.(type) {
			case *ast.ParenExpr:
				e = x.X
				continue
			case *ast.Ident:
				if o := pa.info.Uses[x]; o != nil {
					if _, ok := vars[o]; ok {
						return o
					}
				}
			}
			return nil
		}
	}
	// the package-level variable an assignment target designates (nil: none, or not a write of the variable itself)
	target := func(e ast.Expr) (types.Object, *ast.Ident) {
		depth := 0
		for {
			switch x := e.(type) {
			case *ast.ParenExpr:
				e = x.X
			case *ast.IndexExpr:
				e = x.X
				depth++
			case *ast.SelectorExpr:
				// field of a struct VALUE only
				tv, ok := pa.info.Types[x.X]
				if !ok || tv.Type == nil {
					return nil, nil
				}
				if _, isStruct := tv.Type.Underlying().(*types.Struct); !isStruct {
					return nil, nil
				}
				e = x.X
				depth++
			case *ast.Ident:
				if o := useOf(x); o != nil {
					return o, x
				}
				return nil, nil
			default:
				return nil, nil
			}
		}
	}
	initOnly := pa.initOnlyFuncs()
	for _, f := range pa.files {
		for _, d := range f.Decls {
			fd, ok := d.(*ast.FuncDecl)
			if !ok || fd.Body == nil {
				continue
			}
			if fd.Recv == nil && fd.Name.Name == "init" {
				continue
			}
			fnObj, _ := pa.info.Defs[fd.Name].(*types.Func)
			label := pa.short + "." + fd.Name.Name
			if fnObj != nil {
				label = pa.label(fnObj)
			}
			// lock operations on package-level mutexes, in source order
			type lockOp struct {
				pos  token.Pos
				m    types.Object
				mode string // "X", "R", "" = unlock
			}
			var ops []lockOp
			deferred := map[*ast.CallExpr]bool{}
			var onceLits [][2]token.Pos
			ast.Inspect(fd.Body, func(n ast.Node) bool {
				switch x := n.(type) {
				case *ast.DeferStmt:
					deferred[x.Call] = true
				case *ast.CallExpr:
					se, ok := x.Fun.(*ast.SelectorExpr)
					if !ok {
						return true
					}
					id, ok := se.X.(*ast.Ident)
					if !ok {
						return true
					}
					o := pa.info.Uses[id]
					if o == nil {
						return true
					}
					if _, isM := mutexes[o]; isM {
						switch se.Sel.Name {
						case "Lock":
							ops = append(ops, lockOp{x.Pos(), o, "X"})
						case "RLock":
							ops = append(ops, lockOp{x.Pos(), o, "R"})
						case "Unlock", "RUnlock":
							if !deferred[x] {
								ops = append(ops, lockOp{x.Pos(), o, ""})
							}
						}
					}
					if onces[o] && se.Sel.Name == "Do" && len(x.Args) == 1 {
						if lit, ok := x.Args[0].(*ast.FuncLit); ok {
							onceLits = append(onceLits, [2]token.Pos{lit.Pos(), lit.End()})
						}
					}
				}
				return true
			})
			sort.Slice(ops, func(i, j int) bool { return ops[i].pos < ops[j].pos })
			heldAt := func(p token.Pos) []HeldLock {
				cur := map[types.Object]string{}
				for _, op := range ops {
					if op.pos >= p {
						break
					}
					if op.mode == "" {
						delete(cur, op.m)
					} else {
						cur[op.m] = op.mode
					}
				}
				var hs []HeldLock
				for m, mode := range cur {
					hs = append(hs, HeldLock{pa.short + "." + mutexes[m], mode})
				}
				sort.Slice(hs, func(i, j int) bool { return hs[i].Lock < hs[j].Lock })
				return hs
			}
			phaseAt := func(p token.Pos) string {
				if fnObj != nil && initOnly[fnObj] {
					return "init"
				}
				for _, l := range onceLits {
					if l[0] <= p && p < l[1] {
						return "init"
					}
				}
				return "live"
			}
			wrote := map[*ast.Ident]bool{}
			add := func(o types.Object, kind string, at ast.Node) {
				sites = append(sites, site{o, kind, label, pa.pos(at), heldAt(at.Pos()), phaseAt(at.Pos())})
				if kind == "W" {
					written[o] = true
				}
			}
			ast.Inspect(fd.Body, func(n ast.Node) bool {
				switch x := n.(type) {
				case *ast.AssignStmt:
					if x.Tok == token.DEFINE {
						return true
					}
					for _, l := range x.Lhs {
						if o, id := target(l); o != nil {
							wrote[id] = true
							add(o, "W", l)
							if x.Tok != token.ASSIGN || id != l {
								add(o, "R", l) // op-assign, or an element / field of the variable: the variable is read too
							}
						}
					}
				case *ast.IncDecStmt:
					if o, id := target(x.X); o != nil {
						wrote[id] = true
						add(o, "W", x.X)
						add(o, "R", x.X)
					}
				case *ast.CallExpr:
					if id, ok := x.Fun.(*ast.Ident); ok && id.Name == "delete" && len(x.Args) == 2 {
						if _, isBuiltin := pa.info.Uses[id].(*types.Builtin); !isBuiltin && pa.info.Uses[id] != nil {
							return true
						}
						if o, gid := target(x.Args[0]); o != nil {
							wrote[gid] = true
							add(o, "W", x.Args[0])
						}
					}
				}
				return true
			})
			ast.Inspect(fd.Body, func(n ast.Node) bool {
				if id, ok := n.(*ast.Ident); ok && !wrote[id] {
					if o := useOf(id); o != nil {
						add(o, "R", id)
					}
				}
				return true
			})
		}
	}
	var rows []*Row
	var notes []string
	seen := map[string]bool{}
	for _, s := range sites {
		if !written[s.g] {
			continue
		}
		field := "global:" + pa.short + "." + vars[s.g]
		r := &Row{Field: field, Kind: s.kind, Fn: s.fn, Held: s.held, Phase: s.phase, Pos: []string{s.pos}}
		rows = append(rows, r)
		if s.kind == "W" && !seen[field] {
			seen[field] = true
			notes = append(notes, "package-level variable written at run time: "+field+" @ "+s.pos)
		}
	}
	return rows, notes
}

// initOnlyFuncs: unexported package-level functions (no methods) every mention of which is a call made from
// `init`, from a package-level variable initialiser or from another such function.
func (pa *pkgAn) initOnlyFuncs() map[*types.Func]bool {
	type use struct {
		from   *types.Func // nil = init or a package-level initialiser
		isCall bool
	}
	uses := map[*types.Func][]use{}
	cand := map[*types.Func]bool{}
	scan := func(root ast.Node, from *types.Func) {
		calls := map[*ast.Ident]bool{}
		ast.Inspect(root, func(n ast.Node) bool {
			if c, ok := n.(*ast.CallExpr); ok {
				if id, ok := c.Fun.(*ast.Ident); ok {
					calls[id] = true
				}
			}
			return true
		})
		ast.Inspect(root, func(n ast.Node) bool {
			if id, ok := n.(*ast.Ident); ok {
				if fn, ok := pa.info.Uses[id].(*types.Func); ok && fn.Pkg() != nil && fn.Parent() == fn.Pkg().Scope() {
					uses[fn] = append(uses[fn], use{from, calls[id]})
				}
			}
			return true
		})
	}
	for _, f := range pa.files {
		for _, d := range f.Decls {
			switch x := d.(type) {
			case *ast.FuncDecl:
				if x.Body == nil {
					continue
				}
				fn, _ := pa.info.Defs[x.Name].(*types.Func)
				if x.Recv == nil && x.Name.Name == "init" {
					scan(x.Body, nil)
					continue
				}
				if x.Recv == nil && fn != nil && !ast.IsExported(x.Name.Name) && x.Name.Name != "main" {
					cand[fn] = true
				}
				if fn != nil {
					scan(x.Body, fn)
				}
			case *ast.GenDecl:
				if x.Tok == token.VAR {
					for _, sp := range x.Specs {
						for _, v := range sp.(*ast.ValueSpec).Values {
							// a function literal in an initialiser may run at any time: its calls are not init calls
							if _, isLit := v.(*ast.FuncLit); isLit {
								continue
							}
							scan(v, nil)
						}
					}
				}
			}
		}
	}
	res := map[*types.Func]bool{}
	for fn := range cand {
		if len(uses[fn]) > 0 {
			res[fn] = true
		}
	}
	for changed := true; changed; {
		changed = false
		for fn := range res {
			for _, u := range uses[fn] {
				if !u.isCall || (u.from != nil && !res[u.from]) {
					delete(res, fn)
					changed = true
					break
				}
			}
		}
	}
	return res
}
