package main

// Tie `append-aliasing` (K2): the Lean model of `append` on a slice header (ScVerif/C11/Slice.lean:
// in place iff len+n <= cap, writing the cells len..len+n-1 of the existing array) against the real
// `append` of the Go runtime this harness is built with, on every 0 <= len <= cap <= 7, 0 <= n <= 4 and
// three element types (strings as in a field mask's paths, func values as option lists, pointers).
// The independent observation: a backing array filled with sentinels, the slice arr[:len:cap], and after
// the append which cells of the ARRAY differ from their sentinel and whether the result starts at arr[0].

import (
	"fmt"
	"strings"

	"github.com/smart-core-os/sc-golang/verifharness/lib"
)

func observeAppend[T comparable](mk func(i int) T, l, c, n int) string {
	arr := make([]T, c)
	for i := range arr {
		arr[i] = mk(-1 - i)
	}
	s := arr[:l:c]
	add := make([]T, n)
	for i := range add {
		add[i] = mk(100 + i)
	}
	r := append(s, add...)
	var ws []string
	for i := range arr {
		if arr[i] != mk(-1-i) {
			ws = append(ws, fmt.Sprint(i))
		}
	}
	inplace := len(r) <= c && (c == 0 || len(r) == 0 || &r[:1][0] == &arr[:1][0])
	if c == 0 || len(r) == 0 {
		// nothing to compare addresses with: in place means nothing had to be allocated (n == 0 fits)
		inplace = l+n <= c
	}
	w := "-"
	if len(ws) > 0 {
		w = strings.Join(ws, ";")
	}
	return fmt.Sprintf("inplace=%s writes=%s", bit(inplace), w)
}

func runAppendTie(f lib.Flags, res *lib.Result, drv *lib.Driver) {
	tie := res.Tie("append-aliasing", "K2",
		"every (len, cap, n) with 0<=len<=cap<=7, 0<=n<=4: Lean `appendInPlace`/`appendWrites` (driver `append`) vs the real append on []string, []*int and []int64 views arr[:len:cap] of a sentinel-filled array (which cells of the existing array changed, does the result start at arr[0]); non-trivial = n>0; distinct by (len,cap,n)")
	tie.Exhaustive = true
	var lines []string
	type k struct{ l, c, n int }
	var ks []k
	for c := 0; c <= 7; c++ {
		for l := 0; l <= c; l++ {
			for n := 0; n <= 4; n++ {
				ks = append(ks, k{l, c, n})
				lines = append(lines, fmt.Sprintf("append %d %d %d", l, c, n))
			}
		}
	}
	lines = append(lines, "append 3 2 1")
	ans, err := drv.Batch(lines)
	if err != nil {
		tie.Fail(err)
		return
	}
	ptrs := map[int]*int{}
	for i, q := range ks {
		a := observeAppend(func(i int) string { return fmt.Sprint("p", i) }, q.l, q.c, q.n)
		b := observeAppend(func(i int) *int {
			if p, ok := ptrs[i]; ok {
				return p
			}
			v := i
			ptrs[i] = &v
			return &v
		}, q.l, q.c, q.n)
		c := observeAppend(func(i int) int64 { return int64(i) }, q.l, q.c, q.n)
		code := a
		if b != a || c != a {
			code = "types differ: " + a + " | " + b + " | " + c
		}
		tie.Record(lines[i], q.n > 0, map[string]any{"len": q.l, "cap": q.c, "n": q.n}, ans[i], code)
		tie.Count(strings.SplitN(code, " ", 2)[0])
	}
	tie.Record("malformed len>cap", true, map[string]any{"line": lines[len(lines)-1]}, ans[len(ans)-1], "!bad-op")
}
