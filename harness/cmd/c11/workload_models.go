package main

// Scenario "collection-models": the collection-backed trait models that the other scenarios do not
// reach (booking, publication, vending consumables + inventory, hail incl. PullHail, the metadata
// Collection behind a wrapped CollectionServer), with single-item subscriptions (PullID based) and
// slow, lossy consumers (no backpressure: the library merges/drops events on their behalf).

import (
	"context"
	"fmt"
	"math/rand"
	"time"

	"github.com/smart-core-os/sc-api/go/traits"
	"github.com/smart-core-os/sc-golang/pkg/resource"
	"github.com/smart-core-os/sc-golang/pkg/trait/bookingpb"
	"github.com/smart-core-os/sc-golang/pkg/trait/hailpb"
	"github.com/smart-core-os/sc-golang/pkg/trait/metadatapb"
	"github.com/smart-core-os/sc-golang/pkg/trait/publicationpb"
	"github.com/smart-core-os/sc-golang/pkg/trait/vendingpb"
)

func init() {
	scenarios = append(scenarios, scenario{"collection-models", 1, []string{"bookingpb.", "publicationpb.", "vendingpb.", "hailpb.", "metadatapb.", "resource.", "bus-shared:", "local:", "minibus."}, wlCollectionModels})
}

// slowDrain is a consumer that cannot keep up: it reads an event, dawdles, reads the next
func slowDrain[T any](ctx context.Context, ch <-chan T, max int, read func(T)) {
	for n := 0; n < max; n++ {
		select {
		case v, ok := <-ch:
			if !ok {
				return
			}
			read(v)
			time.Sleep(200 * time.Microsecond)
		case <-ctx.Done():
			drain(ctx, ch, 1000, func(T) {})
			return
		}
	}
	drain(ctx, ch, 1000, func(T) {})
}

func wlCollectionModels(w *wl) {
	bm := bookingpb.NewModel()
	pm := publicationpb.NewModel()
	vm := vendingpb.NewModel()
	hm := hailpb.NewModel()
	mc := metadatapb.NewCollection()
	mclient := metadatapb.WrapApi(metadatapb.NewCollectionServer(mc))
	names := []string{"dev/a", "dev/b", "dev/c"}
	short := func(rng *rand.Rand) (context.Context, context.CancelFunc) {
		return context.WithTimeout(context.Background(), time.Duration(rng.Intn(4)+1)*time.Millisecond)
	}
	w.par(func(id int, rng *rand.Rand) {
		var bookings, pubs, hails []string
		cons := []string{"coffee", "tea", "milk"}
		for i := 0; w.more(i); i++ {
			switch rng.Intn(16) {
			case 0: // booking
				b, err := bm.CreateBooking(&traits.Booking{Title: fmt.Sprint(id, i)})
				if err == nil {
					bookings = append(bookings, b.Id)
					readMsg(b)
				}
			case 1:
				if len(bookings) > 0 {
					b, _ := bm.UpdateBooking(&traits.Booking{Id: bookings[rng.Intn(len(bookings))], Title: "u"})
					if b != nil {
						readMsg(b)
					}
				}
				for _, b := range bm.ListBookings() {
					readMsg(b)
				}
			case 2:
				ctx, cancel := short(rng)
				slowDrain(ctx, bm.PullBookings(ctx), 20, func(c bookingpb.BookingChange) { readMsg(c.OldValue); readMsg(c.NewValue) })
				cancel()
			case 3: // publication
				p, err := pm.CreatePublication(&traits.Publication{Body: []byte{byte(i)}})
				if err == nil {
					pubs = append(pubs, p.Id)
					readMsg(p)
				}
			case 4:
				if len(pubs) > 0 {
					k := pubs[rng.Intn(len(pubs))]
					if rng.Intn(3) == 0 {
						_, _ = pm.DeletePublication(k, resource.WithAllowMissing(true))
					} else {
						p, _ := pm.UpdatePublication(k, &traits.Publication{Body: []byte{byte(i), 1}})
						if p != nil {
							readMsg(p)
						}
					}
					if p, ok := pm.GetPublication(k); ok {
						readMsg(p)
					}
				}
			case 5:
				ctx, cancel := short(rng)
				if len(pubs) > 0 && rng.Intn(2) == 0 {
					drain(ctx, pm.PullPublication(ctx, pubs[rng.Intn(len(pubs))]), 20, func(c publicationpb.PublicationChange) { readMsg(c.Value) })
				} else {
					slowDrain(ctx, pm.PullPublications(ctx), 20, func(c publicationpb.PublicationsChange) { readMsg(c.OldValue); readMsg(c.NewValue) })
				}
				cancel()
			case 6: // vending
				c := cons[rng.Intn(len(cons))]
				if rng.Intn(2) == 0 {
					res, _ := vm.CreateConsumable(&traits.Consumable{Name: c, DisplayName: c})
					if res != nil {
						readMsg(res)
					}
				} else {
					res, _ := vm.UpdateConsumable(&traits.Consumable{Name: c, DisplayName: fmt.Sprint(i)}, resource.WithCreateIfAbsent())
					if res != nil {
						readMsg(res)
					}
				}
			case 7:
				c := cons[rng.Intn(len(cons))]
				func() {
					defer func() { _ = recover() }() // stock arithmetic on absent quantities is C20's business
					res, _ := vm.UpdateStock(&traits.Consumable_Stock{Consumable: c, Remaining: &traits.Consumable_Quantity{Amount: float32(i % 50)}}, resource.WithCreateIfAbsent())
					if res != nil {
						readMsg(res)
					}
					if rng.Intn(4) == 0 {
						_, _ = vm.DeleteStock(c, resource.WithAllowMissing(true))
					}
				}()
				for _, s := range vm.ListInventory() {
					readMsg(s)
				}
			case 8:
				ctx, cancel := short(rng)
				c := cons[rng.Intn(len(cons))]
				switch rng.Intn(4) {
				case 0:
					drain(ctx, vm.PullConsumable(ctx, c), 20, func(ch vendingpb.ConsumableChange) { readMsg(ch.Value) })
				case 1:
					drain(ctx, vm.PullStock(ctx, c), 20, func(ch vendingpb.StockChange) { readMsg(ch.Value) })
				case 2:
					slowDrain(ctx, vm.PullInventory(ctx), 20, func(ch vendingpb.InventoryChange) { readMsg(ch.OldValue); readMsg(ch.NewValue) })
				case 3:
					slowDrain(ctx, vm.PullConsumables(ctx), 20, func(ch vendingpb.ConsumablesChange) { readMsg(ch.OldValue); readMsg(ch.NewValue) })
				}
				cancel()
			case 9: // hail
				h, err := hm.CreateHail(&traits.Hail{})
				if err == nil {
					hails = append(hails, h.Id)
					readMsg(h)
				}
			case 10:
				if len(hails) > 0 {
					k := hails[rng.Intn(len(hails))]
					h, _ := hm.UpdateHail(&traits.Hail{Id: k, State: traits.Hail_State(rng.Intn(5))})
					if h != nil {
						readMsg(h)
					}
					if rng.Intn(4) == 0 {
						_, _ = hm.DeleteHail(k, resource.WithAllowMissing(true))
					}
					if h, ok := hm.GetHail(k); ok {
						readMsg(h)
					}
				}
			case 11:
				ctx, cancel := short(rng)
				if len(hails) > 0 && rng.Intn(2) == 0 {
					drain(ctx, hm.PullHail(ctx, hails[rng.Intn(len(hails))]), 20, func(c hailpb.HailChange) { readMsg(c.Value) })
				} else {
					slowDrain(ctx, hm.PullHails(ctx), 20, func(c hailpb.HailsChange) { readMsg(c.OldValue); readMsg(c.NewValue) })
				}
				cancel()
			case 12: // metadata collection + wrapped CollectionServer
				n := names[rng.Intn(len(names))]
				if rng.Intn(2) == 0 {
					res, _ := mc.UpdateTraitMetadata(n, &traits.TraitMetadata{Name: fmt.Sprint("t", rng.Intn(3)), More: map[string]string{"k": fmt.Sprint(i)}}, resource.WithCreateIfAbsent())
					if res != nil {
						readMsg(res)
					}
				} else {
					res, _ := mc.MergeMetadata(n, &traits.Metadata{Name: n, Traits: []*traits.TraitMetadata{{Name: fmt.Sprint("t", rng.Intn(3))}}}, resource.WithCreateIfAbsent())
					if res != nil {
						readMsg(res)
					}
				}
			case 13:
				n := names[rng.Intn(len(names))]
				ctx, cancel := short(rng)
				if res, err := mclient.GetMetadata(ctx, &traits.GetMetadataRequest{Name: n}); err == nil {
					readMsg(res)
				}
				cancel()
				for _, m := range mc.ListMetadata() {
					readMsg(m)
				}
				if rng.Intn(6) == 0 {
					_, _ = mc.DeleteMetadata(n, resource.WithAllowMissing(true))
				}
			case 14:
				n := names[rng.Intn(len(names))]
				ctx, cancel := short(rng)
				if stream, err := mclient.PullMetadata(ctx, &traits.PullMetadataRequest{Name: n, UpdatesOnly: rng.Intn(2) == 0}); err == nil {
					for k := 0; k < 10; k++ {
						msg, err := stream.Recv()
						if err != nil {
							break
						}
						readMsg(msg)
					}
					cancel()
					for {
						if _, err := stream.Recv(); err != nil {
							break
						}
					}
				}
				cancel()
			case 15:
				ctx, cancel := short(rng)
				slowDrain(ctx, mc.PullAllMetadata(ctx), 20, func(c metadatapb.CollectionChange) { readMsg(c.OldValue); readMsg(c.NewValue) })
				cancel()
			}
		}
	})
}
