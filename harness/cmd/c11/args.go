package main

// Caller-owned slice arguments (`arg:` rows).
//
// An argument a caller only lends to the library — a variadic option list `opts ...T` (a call `f(xs...)`
// passes the caller's slice as it is), a slice parameter of an exported function, a slice reachable from a
// pointer parameter such as the paths of the caller's field mask — may be shared between concurrent calls:
// the callers only read it.  `append(a, …)` with such an `a` as its first argument writes the new elements
// into the CALLER's backing array whenever that has spare capacity (a mask decoded from the wire or assembled
// with append, an option slice built with append): a write, before any lock of the resource is taken, to
// memory every concurrent call with the same argument also writes.  For every such site the table gets a row
//
//     W arg:<function>.<expression> in <function> under {} live
//
// which conflicts with itself and is unordered: the discipline fails until the function appends to a copy
// (`append(a[:len(a):len(a)], …)`, `append([]T{}, a...)`, make+copy).
//
// What counts as caller-backed (syntactic, per function declaration or literal):
//
//   (1) an identifier naming a variadic parameter, or a slice parameter of an exported function / method,
//       at a position before the first top-level statement of the function that rebases it
//       (`p = append([]T{}, p...)`, `p = append(p[:n:n], …)`, `p = make(…)`, `p = slices.Clone(p)`);
//       unexported helpers that take an accumulator slice and return it (`func walk(acc []T) []T`) are
//       the package's own business and not flagged;
//   (2) a selector / getter chain rooted at a non-receiver pointer parameter (`req.UpdateMask.GetPaths()`,
//       `mask.Paths`) unless the result is stored back into the very same expression
//       (`x.items = append(x.items, v)`: the object's own field, tracked by its field rows).
//
// A full slice expression with a capacity bound, a composite literal, make, nil and a local variable are
// not caller-backed.

import (
	"go/ast"
	"go/token"
	"go/types"
	"sort"
)

func (pa *pkgAn) argRows() (rows []*Row, notes []string) {
	seen := map[string]bool{}
	for _, f := range pa.files {
		for _, d := range f.Decls {
			fd, ok := d.(*ast.FuncDecl)
			if !ok || fd.Body == nil {
				continue
			}
			fn, _ := pa.info.Defs[fd.Name].(*types.Func)
			if fn == nil {
				continue
			}
			label := pa.label(fn)
			exported := fn.Exported()
			var recv types.Object
			if fd.Recv != nil && len(fd.Recv.List) == 1 && len(fd.Recv.List[0].Names) == 1 {
				recv = pa.info.Defs[fd.Recv.List[0].Names[0]]
			}
			pa.argScan(label, exported, recv, fd.Type, fd.Body, func(r *Row) {
				if k := r.semKey(); !seen[k] {
					seen[k] = true
					rows = append(rows, r)
				}
			})
		}
	}
	sort.Slice(rows, func(i, j int) bool { return rows[i].semKey() < rows[j].semKey() })
	for _, r := range rows {
		notes = append(notes, "caller-owned argument appended in place: "+r.Field+" @ "+r.Pos[0])
	}
	return rows, notes
}

// argScan examines one function (declaration or literal) and recurses into the literals inside it
func (pa *pkgAn) argScan(label string, exported bool, recv types.Object, ft *ast.FuncType, body *ast.BlockStmt, emit func(*Row)) {
	sliceParam := map[types.Object]bool{} // case (1)
	ptrParam := map[types.Object]bool{}   // case (2) roots
	if ft.Params != nil {
		for _, fl := range ft.Params.List {
			_, variadic := fl.Type.(*ast.Ellipsis)
			at, isArr := fl.Type.(*ast.ArrayType)
			isSlice := isArr && at.Len == nil
			_, isPtr := fl.Type.(*ast.StarExpr)
			for _, n := range fl.Names {
				o := pa.info.Defs[n]
				if o == nil || o == recv {
					continue
				}
				if variadic || (isSlice && exported) {
					sliceParam[o] = true
				}
				if isPtr {
					ptrParam[o] = true
				}
			}
		}
	}
	// first top-level statement that rebases a slice parameter onto memory of this function
	rebased := map[types.Object]token.Pos{}
	for _, s := range body.List {
		as, ok := s.(*ast.AssignStmt)
		if !ok || len(as.Lhs) != len(as.Rhs) {
			continue
		}
		for i, l := range as.Lhs {
			id, ok := l.(*ast.Ident)
			if !ok {
				continue
			}
			o := pa.objOf(id)
			if !sliceParam[o] {
				continue
			}
			if _, done := rebased[o]; !done && pa.ownMemory(as.Rhs[i], sliceParam, ptrParam) {
				rebased[o] = as.End()
			}
		}
	}
	handled := map[ast.Expr]bool{}
	ast.Inspect(body, func(n ast.Node) bool {
		switch x := n.(type) {
		case *ast.FuncLit:
			// a literal sees the enclosing function's parameters as well as its own
			pa.argScanLit(label, x, sliceParam, ptrParam, rebased, emit)
			return false
		case *ast.AssignStmt:
			for i, r := range x.Rhs {
				var lhs ast.Expr
				if len(x.Lhs) == len(x.Rhs) {
					lhs = x.Lhs[i]
				}
				handled[r] = true
				pa.argAppend(label, r, lhs, sliceParam, ptrParam, rebased, emit)
			}
		case *ast.CallExpr:
			if !handled[x] {
				pa.argAppend(label, x, nil, sliceParam, ptrParam, rebased, emit)
			}
		}
		return true
	})
}

func (pa *pkgAn) argScanLit(label string, lit *ast.FuncLit, outerSlice, outerPtr map[types.Object]bool, outerRebased map[types.Object]token.Pos, emit func(*Row)) {
	sliceParam := map[types.Object]bool{}
	ptrParam := map[types.Object]bool{}
	for o := range outerSlice {
		sliceParam[o] = true
	}
	for o := range outerPtr {
		ptrParam[o] = true
	}
	if lit.Type.Params != nil {
		for _, fl := range lit.Type.Params.List {
			_, variadic := fl.Type.(*ast.Ellipsis)
			_, isPtr := fl.Type.(*ast.StarExpr)
			for _, n := range fl.Names {
				if o := pa.info.Defs[n]; o != nil {
					if variadic {
						sliceParam[o] = true
					}
					if isPtr {
						ptrParam[o] = true
					}
				}
			}
		}
	}
	rebased := map[types.Object]token.Pos{}
	for o, p := range outerRebased {
		rebased[o] = p
	}
	handled := map[ast.Expr]bool{}
	ast.Inspect(lit.Body, func(n ast.Node) bool {
		switch x := n.(type) {
		case *ast.FuncLit:
			pa.argScanLit(label, x, sliceParam, ptrParam, rebased, emit)
			return false
		case *ast.AssignStmt:
			for i, r := range x.Rhs {
				var lhs ast.Expr
				if len(x.Lhs) == len(x.Rhs) {
					lhs = x.Lhs[i]
				}
				handled[r] = true
				pa.argAppend(label, r, lhs, sliceParam, ptrParam, rebased, emit)
			}
		case *ast.CallExpr:
			if !handled[x] {
				pa.argAppend(label, x, nil, sliceParam, ptrParam, rebased, emit)
			}
		}
		return true
	})
}

func isBuiltinCall(pa *pkgAn, e ast.Expr, name string) (*ast.CallExpr, bool) {
	call, ok := e.(*ast.CallExpr)
	if !ok {
		return nil, false
	}
	id, ok := call.Fun.(*ast.Ident)
	if !ok || id.Name != name {
		return nil, false
	}
	if o := pa.info.Uses[id]; o != nil {
		if _, isBuiltin := o.(*types.Builtin); !isBuiltin {
			return nil, false
		}
	}
	return call, true
}

// callerBacked: e (the first argument of an append) designates memory lent by the caller
func (pa *pkgAn) callerBacked(e ast.Expr, sliceParam, ptrParam map[types.Object]bool, rebased map[types.Object]token.Pos) (string, bool) {
	for {
		if p, ok := e.(*ast.ParenExpr); ok {
			e = p.X
			continue
		}
		break
	}
	switch x := e.(type) {
	case *ast.Ident:
		o := pa.info.Uses[x]
		if o != nil && sliceParam[o] {
			if p, ok := rebased[o]; ok && x.Pos() >= p {
				return "", false
			}
			return x.Name, true
		}
	case *ast.SliceExpr:
		if x.Slice3 && x.Max != nil {
			return "", false // capacity bounded: append reallocates
		}
		return pa.callerBacked(x.X, sliceParam, ptrParam, rebased)
	case *ast.SelectorExpr, *ast.CallExpr:
		// a selector / getter chain rooted at a pointer parameter
		cur := e
		for {
			switch y := cur.(type) {
			case *ast.SelectorExpr:
				cur = y.X
				continue
			case *ast.CallExpr:
				se, ok := y.Fun.(*ast.SelectorExpr)
				if !ok || len(y.Args) != 0 {
					return "", false
				}
				cur = se.X
				continue
			case *ast.ParenExpr:
				cur = y.X
				continue
			case *ast.StarExpr:
				cur = y.X
				continue
			case *ast.Ident:
				if o := pa.info.Uses[y]; o != nil && ptrParam[o] {
					return types.ExprString(e), true
				}
			}
			return "", false
		}
	}
	return "", false
}

// ownMemory: the value of e is backed by memory this function has created
func (pa *pkgAn) ownMemory(e ast.Expr, sliceParam, ptrParam map[types.Object]bool) bool {
	switch x := e.(type) {
	case *ast.ParenExpr:
		return pa.ownMemory(x.X, sliceParam, ptrParam)
	case *ast.CompositeLit:
		return true
	case *ast.Ident:
		return x.Name == "nil"
	case *ast.CallExpr:
		if _, ok := isBuiltinCall(pa, x, "make"); ok {
			return true
		}
		if call, ok := isBuiltinCall(pa, x, "append"); ok && len(call.Args) > 0 {
			if _, lent := pa.callerBacked(call.Args[0], sliceParam, ptrParam, nil); lent {
				return false
			}
			first := call.Args[0]
			if se, ok := first.(*ast.SliceExpr); ok && se.Slice3 {
				return true
			}
			return pa.ownMemory(first, sliceParam, ptrParam)
		}
		if se, ok := x.Fun.(*ast.SelectorExpr); ok {
			if id, ok := se.X.(*ast.Ident); ok && id.Name == "slices" && se.Sel.Name == "Clone" {
				return true
			}
		}
	}
	return false
}

func (pa *pkgAn) argAppend(label string, e ast.Expr, lhs ast.Expr, sliceParam, ptrParam map[types.Object]bool, rebased map[types.Object]token.Pos, emit func(*Row)) {
	call, ok := isBuiltinCall(pa, e, "append")
	if !ok || len(call.Args) < 2 {
		return // append(a) alone writes nothing
	}
	what, lent := pa.callerBacked(call.Args[0], sliceParam, ptrParam, rebased)
	if !lent {
		return
	}
	if _, isIdent := call.Args[0].(*ast.Ident); !isIdent && lhs != nil && types.ExprString(lhs) == types.ExprString(call.Args[0]) {
		return // x.f = append(x.f, …): the object's own field
	}
	emit(&Row{Field: "arg:" + label + "." + what, Kind: "W", Fn: label, Phase: "live", Pos: []string{pa.pos(call)}})
}
