package main

// Tie `many-objects` (K1, round 8): the many-object semantics of lean/ScVerif/C11/Many.lean (`mstep` /
// `mrunCount`: an event steps the state of its own object only; `proj`: the events of one object) through
// the Lean driver (`many`) against REAL primitives — three objects, each with its own sync.RWMutex
// instances and its own channels (one `realSync` of the sync-semantics tie per object) — on random
// interleavings of acquire / release / close / observe events over the objects.  What is compared: how many
// events the whole list gets through, per object the number of its events among them, the shared and
// exclusive holders of every lock and the closed channels of every object, and `pv` — whether every
// object's events, run ALONE on fresh primitives, all go through (`C11_objects_independent`: that is the
// case exactly when the interleaving goes through).  Same domain as the sync-semantics tie (a goroutine
// does not re-acquire a lock it holds and releases only what it holds).

import (
	"fmt"
	"strings"

	"github.com/smart-core-os/sc-golang/verifharness/lib"
)

type manyEv struct {
	o int
	e syncEv
}

func runManyTie(f lib.Flags, res *lib.Result, drv *lib.Driver) {
	const nO, nT, nL, nC = 3, 3, 2, 2
	tie := res.Tie("many-objects", "K1",
		fmt.Sprintf("random interleavings (length 1-12, ending at the first refused event) of acquire shared / acquire exclusive / release what is held / close / observe closed over %d objects x %d goroutines x %d locks x %d channels from the run's PRNG: Lean `mrunCount` + `proj` + per-projection `xrunCount` (driver `many`) vs real sync.RWMutex / channel instances, one set per object, for the interleaving and for every object's events alone; non-trivial = a refusal, or one lock number held on two objects at once; distinct by the request line", nO, nT, nL, nC))
	mon := res.Monitor("instance-independence",
		"on the real primitives, along every interleaving of the many-objects tie: each object accepts in the interleaving exactly the events it accepts when its own events run alone on fresh primitives (up to the point where the interleaving stops)")
	rng := lib.NewRand(f.Seed + 11)
	n := f.N(2500, 25000)
	var lines, want []string
	var nontriv []bool
	var cats []string
	for k := 0; k < n; k++ {
		ln := 1 + rng.Intn(12)
		objs := [nO]*realSync{}
		for o := range objs {
			objs[o] = newRealSync()
		}
		var seq []manyEv
		accepted := 0
		per := [nO]int{}
		refused := false
		twoInst := false
		for p := 0; p < ln && !refused; p++ {
			// few objects and a favourite lock, so that instances really overlap
			o := rng.Intn(nO)
			if rng.Intn(3) == 0 {
				o = 0
			}
			t := 1 + rng.Intn(nT)
			var e syncEv
			if rng.Intn(10) < 7 {
				l := rng.Intn(nL)
				if rng.Intn(2) == 0 {
					l = 0
				}
				switch {
				case objs[o].shared[l][t]:
					e = syncEv{'U', t, l, false}
				case objs[o].excl[l][t]:
					e = syncEv{'U', t, l, true}
				default:
					e = syncEv{'A', t, l, rng.Intn(2) == 0}
				}
				// keep locks for a while: one release in three is replaced by an event on another lock/object
				if e.kind == 'U' && rng.Intn(3) != 0 {
					o2 := (o + 1 + rng.Intn(nO-1)) % nO
					if !objs[o2].shared[l][t] && !objs[o2].excl[l][t] {
						o, e = o2, syncEv{'A', t, l, rng.Intn(2) == 0}
					}
				}
			} else {
				c := rng.Intn(nC)
				// mostly what can go through (close an open channel, observe a closed one), sometimes the refused one
				if objs[o].closed(c) == (rng.Intn(4) == 0) {
					e = syncEv{'C', t, c, false}
				} else {
					e = syncEv{'O', t, c, false}
				}
			}
			seq = append(seq, manyEv{o, e})
			if objs[o].step(e) {
				accepted++
				per[o]++
			} else {
				refused = true
			}
			for l := 0; l < nL; l++ {
				holders := 0
				for o := range objs {
					if len(objs[o].shared[l])+len(objs[o].excl[l]) > 0 {
						holders++
					}
				}
				if holders > 1 {
					twoInst = true
				}
			}
		}
		// every object's events alone, on fresh primitives
		pv := true
		for o := 0; o < nO; o++ {
			alone := newRealSync()
			got, total, stopped := 0, 0, false
			for _, me := range seq {
				if me.o != o {
					continue
				}
				total++
				if !stopped && alone.step(me.e) {
					got++
				} else {
					stopped = true
				}
			}
			if got != total {
				pv = false
			}
			// the sequence ends at its first refusal, so object o's events are per[o] accepted ones plus possibly the
			// refused last one: alone, exactly per[o] of them must go through
			if got != per[o] {
				mon.Violate("C11/sync/instance-independence", "an object accepted different events alone and in the interleaving",
					map[string]any{"kind": "many", "events": manyLine(seq), "object": o}, "same events accepted", fmt.Sprintf("alone %d, interleaved %d", got, per[o]))
			}
		}
		line := "many " + manyLine(seq)
		var b strings.Builder
		fmt.Fprintf(&b, "ok=%d pv=%s", accepted, bit(pv))
		for o := 0; o < nO; o++ {
			b.WriteString(" | " + objs[o].summary(per[o]))
		}
		lines = append(lines, line)
		want = append(want, b.String())
		nontriv = append(nontriv, refused || twoInst)
		switch {
		case refused:
			cats = append(cats, fmt.Sprintf("refused %c", seq[len(seq)-1].e.kind))
		case twoInst:
			cats = append(cats, "one lock number held on two objects")
		default:
			cats = append(cats, "accepted")
		}
		mon.Eval(line, refused || twoInst, nil)
	}
	fixed := []struct{ line, want string }{
		{"many 0@A/1/0/X 1@A/2/0/X 0@A/2/0/R", "ok=2 pv=0 | ok=1 L0=0/1 L1=0/0 L2=0/0 C0=0 C1=0 C2=0 pub=0 got=0 | ok=1 L0=0/1 L1=0/0 L2=0/0 C0=0 C1=0 C2=0 pub=0 got=0 | ok=0 L0=0/0 L1=0/0 L2=0/0 C0=0 C1=0 C2=0 pub=0 got=0"},
		{"many 0@A/1/0", "!bad-op"},
		{"many 0A/1/0/X", "!bad-op"},
	}
	for _, fx := range fixed {
		lines = append(lines, fx.line)
		want = append(want, fx.want)
		nontriv = append(nontriv, true)
		cats = append(cats, "hand-declared")
	}
	ans, err := drv.Batch(lines)
	if err != nil {
		tie.Fail(err)
		return
	}
	for k := range lines {
		tie.Record(lines[k], nontriv[k], map[string]any{"kind": "many", "line": lines[k]}, ans[k], want[k])
		tie.Count(cats[k])
	}
}

func manyLine(seq []manyEv) string {
	toks := make([]string, len(seq))
	for i, me := range seq {
		toks[i] = fmt.Sprintf("%d@%s", me.o, me.e.String())
	}
	return strings.Join(toks, " ")
}

// manyIndependence runs an interleaving on one set of real primitives per object (stopping at the first refusal)
// and every object's events alone on fresh ones; it returns a description of the first object that accepted a
// different number of its events in the two runs, or "".
func manyIndependence(seq []manyEv) string {
	objs := map[int]*realSync{}
	per := map[int]int{}
	for _, me := range seq {
		if objs[me.o] == nil {
			objs[me.o] = newRealSync()
		}
		if !objs[me.o].step(me.e) {
			break
		}
		per[me.o]++
	}
	for o := range objs {
		alone := newRealSync()
		got := 0
		for _, me := range seq {
			if me.o != o {
				continue
			}
			if !alone.step(me.e) {
				break
			}
			got++
		}
		// alone, an object may get further than in an interleaving another object stopped
		if got < per[o] {
			return fmt.Sprintf("object %d: alone %d, interleaved %d", o, got, per[o])
		}
	}
	return ""
}

func parseManyLine(s string) ([]manyEv, bool) {
	var seq []manyEv
	for _, tok := range strings.Fields(s) {
		p := strings.SplitN(tok, "@", 2)
		if len(p) != 2 {
			return nil, false
		}
		var o int
		if _, err := fmt.Sscan(p[0], &o); err != nil {
			return nil, false
		}
		e, ok := parseSyncEv(p[1])
		if !ok {
			return nil, false
		}
		seq = append(seq, manyEv{o, e})
	}
	return seq, true
}
