package main

// Tie `sync-semantics` (K2): the execution semantics of lean/ScVerif/C11/Exec.lean (what a mutex, an
// RWMutex and a closed channel allow) against the real sync.RWMutex (TryLock / TryRLock / Unlock /
// RUnlock) and real channels (close, non-blocking receive), on every sequence of events up to a length
// bound over a small alphabet.  The theorems about executions (PropsExec.lean) quantify over the
// executions of that semantics; this tie is what says the semantics is the runtime's.
//
// Domain (the model's, stated in the rule): a goroutine does not acquire a lock it already holds (the
// model refuses it; a real recursive RLock succeeds but is a documented deadlock hazard) and releases only
// what it holds, in the mode it holds it (a real Unlock of an unlocked mutex is a fatal error that cannot
// be observed from inside the process; the model's refusal is compared with the constant "refused").

import (
	"fmt"
	"strings"
	"sync"

	"github.com/smart-core-os/sc-golang/verifharness/lib"
)

type syncEv struct {
	kind byte // 'A' acquire, 'U' release, 'C' close, 'O' observe closed
	t, x int
	excl bool
}

func (e syncEv) String() string {
	m := "R"
	if e.excl {
		m = "X"
	}
	switch e.kind {
	case 'A', 'U':
		return fmt.Sprintf("%c/%d/%d/%s", e.kind, e.t, e.x, m)
	default:
		return fmt.Sprintf("%c/%d/%d", e.kind, e.t, e.x)
	}
}

func parseSyncEv(tok string) (syncEv, bool) {
	p := strings.Split(tok, "/")
	if len(p) < 3 || len(p[0]) != 1 {
		return syncEv{}, false
	}
	var e syncEv
	e.kind = p[0][0]
	if _, err := fmt.Sscan(p[1], &e.t); err != nil {
		return e, false
	}
	if _, err := fmt.Sscan(p[2], &e.x); err != nil || e.x < 0 || e.x > 2 {
		return e, false
	}
	switch e.kind {
	case 'A', 'U':
		if len(p) != 4 || (p[3] != "R" && p[3] != "X") {
			return e, false
		}
		e.excl = p[3] == "X"
	case 'C', 'O':
		if len(p) != 3 {
			return e, false
		}
	default:
		return e, false
	}
	return e, true
}

// realSync runs the events on fresh real primitives as far as they are allowed and returns the summary
// in the driver's format plus, for the monitor, whether mutual exclusion was ever broken.
type realSync struct {
	mus    [3]sync.RWMutex
	chans  [3]chan struct{}
	shared [3]map[int]bool
	excl   [3]map[int]bool
	broken string
}

func newRealSync() *realSync {
	r := &realSync{}
	for i := range r.chans {
		r.chans[i] = make(chan struct{})
		r.shared[i] = map[int]bool{}
		r.excl[i] = map[int]bool{}
	}
	return r
}

func (r *realSync) closed(c int) bool {
	select {
	case _, ok := <-r.chans[c]:
		return !ok
	default:
		return false
	}
}

// step returns whether the real primitive allowed the event.
func (r *realSync) step(e syncEv) bool {
	switch e.kind {
	case 'A':
		if e.excl {
			if !r.mus[e.x].TryLock() {
				return false
			}
			r.excl[e.x][e.t] = true
		} else {
			if !r.mus[e.x].TryRLock() {
				return false
			}
			r.shared[e.x][e.t] = true
		}
		if len(r.excl[e.x]) > 1 || (len(r.excl[e.x]) == 1 && len(r.shared[e.x]) > 0) {
			r.broken = fmt.Sprintf("lock %d: %d exclusive and %d shared holders at once", e.x, len(r.excl[e.x]), len(r.shared[e.x]))
		}
		return true
	case 'U':
		if (e.excl && !r.excl[e.x][e.t]) || (!e.excl && !r.shared[e.x][e.t]) {
			return false // never handed to the runtime: a fatal error there
		}
		if e.excl {
			r.mus[e.x].Unlock()
			delete(r.excl[e.x], e.t)
		} else {
			r.mus[e.x].RUnlock()
			delete(r.shared[e.x], e.t)
		}
		return true
	case 'C':
		ok := true
		func() {
			defer func() {
				if recover() != nil {
					ok = false
				}
			}()
			close(r.chans[e.x])
		}()
		return ok
	case 'O':
		return r.closed(e.x)
	}
	return false
}

func (r *realSync) summary(n int) string {
	var b strings.Builder
	fmt.Fprintf(&b, "ok=%d", n)
	for l := 0; l < 3; l++ {
		fmt.Fprintf(&b, " L%d=%d/%d", l, len(r.shared[l]), len(r.excl[l]))
	}
	for c := 0; c < 3; c++ {
		fmt.Fprintf(&b, " C%d=%s", c, bit(r.closed(c)))
	}
	b.WriteString(" pub=0 got=0")
	return b.String()
}

func runSyncTie(f lib.Flags, res *lib.Result, drv *lib.Driver) {
	nT, nL, nC, maxLen := 3, 2, 1, 4
	if f.Thorough() {
		nT, nL, nC, maxLen = 3, 2, 2, 5
	}
	tie := res.Tie("sync-semantics", "K2",
		fmt.Sprintf("every sequence of at most %d events over %d goroutines x %d locks x {acquire shared, acquire exclusive, release what is held} and %d channels x {close, observe closed}, a sequence ending at the first refused event: Lean `xstep`/`xrunCount` (driver `exec`) vs real sync.RWMutex TryLock/TryRLock/Unlock/RUnlock and real close / non-blocking receive on fresh primitives (events accepted, shared and exclusive holders per lock, closed channels); domain: no goroutine re-acquires a lock it holds; plus hand-declared lines for what the runtime makes fatal (release of a lock not held / in the other mode: refused); non-trivial = a refusal or two holders of one lock; distinct by sequence", maxLen, nT, nL, nC))
	tie.Exhaustive = true
	mon := res.Monitor("rwmutex-exclusion",
		"on the real sync.RWMutex, along every sequence of the sync-semantics tie: never an exclusive holder together with any other holder (independent count of successful Try* calls not yet released)")

	var seqs [][]syncEv
	// depth-first enumeration; the harness's own bookkeeping of who holds what decides which releases and
	// acquisitions are inside the domain
	var rec func(seq []syncEv)
	rec = func(seq []syncEv) {
		if len(seq) > 0 {
			seqs = append(seqs, append([]syncEv(nil), seq...))
		}
		if len(seq) == maxLen {
			return
		}
		// replay to learn the state and whether the last event was refused
		r := newRealSync()
		for i, e := range seq {
			if !r.step(e) {
				if i != len(seq)-1 {
					panic("refused event inside a prefix")
				}
				return // a refused event ends the sequence
			}
		}
		for t := 1; t <= nT; t++ {
			for l := 0; l < nL; l++ {
				switch {
				case r.shared[l][t]:
					rec(append(seq, syncEv{'U', t, l, false}))
				case r.excl[l][t]:
					rec(append(seq, syncEv{'U', t, l, true}))
				default:
					rec(append(seq, syncEv{'A', t, l, false}))
					rec(append(seq, syncEv{'A', t, l, true}))
				}
			}
		}
		for c := 0; c < nC; c++ {
			rec(append(seq, syncEv{'C', 1 + c%nT, c, false}))
			rec(append(seq, syncEv{'O', 2, c, false}))
		}
	}
	rec(nil)

	lines := make([]string, len(seqs))
	for i, s := range seqs {
		toks := make([]string, len(s))
		for j, e := range s {
			toks[j] = e.String()
		}
		lines[i] = "exec 1 " + strings.Join(toks, " ")
	}
	// what the runtime turns into a fatal error or what is outside Go altogether: the model refuses
	fixed := []struct{ line, want, why string }{
		{"exec 1 U/1/0/X", "ok=0 L0=0/0 L1=0/0 L2=0/0 C0=0 C1=0 C2=0 pub=0 got=0", "Unlock of an unlocked mutex (fatal error in Go)"},
		{"exec 1 A/1/0/R U/1/0/X", "ok=1 L0=1/0 L1=0/0 L2=0/0 C0=0 C1=0 C2=0 pub=0 got=0", "Unlock by a reader (fatal error in Go)"},
		{"exec 1 A/1/0/X U/2/0/X", "ok=1 L0=0/1 L1=0/0 L2=0/0 C0=0 C1=0 C2=0 pub=0 got=0", "release by a goroutine that does not hold the lock (the code never hands a lock over)"},
		{"exec 1 A/1/0/R A/1/0/R", "ok=1 L0=1/0 L1=0/0 L2=0/0 C0=0 C1=0 C2=0 pub=0 got=0", "recursive RLock (allowed by the runtime, a documented deadlock hazard; outside the model's domain)"},
		{"exec 1 G/2", "ok=0 L0=0/0 L1=0/0 L2=0/0 C0=0 C1=0 C2=0 pub=0 got=0", "a reference obtained before the publication"},
		{"exec 1 P/2", "ok=0 L0=0/0 L1=0/0 L2=0/0 C0=0 C1=0 C2=0 pub=0 got=0", "publication by a goroutine that is not the creator"},
		{"exec 1 P/1 P/1", "ok=1 L0=0/0 L1=0/0 L2=0/0 C0=0 C1=0 C2=0 pub=1 got=0", "published once"},
		{"exec 1 P/1 G/2 G/3", "ok=3 L0=0/0 L1=0/0 L2=0/0 C0=0 C1=0 C2=0 pub=1 got=2", "any number of goroutines obtain the published object"},
		{"exec 1 P/1 G/2 J/1", "ok=2 L0=0/0 L1=0/0 L2=0/0 C0=0 C1=0 C2=0 pub=1 got=1", "no join while a goroutine that obtained the object has not left (wg.Wait blocks)"},
		{"exec 1 P/1 G/2 D/2 J/1 G/2", "ok=4 L0=0/0 L1=0/0 L2=0/0 C0=0 C1=0 C2=0 pub=0 got=0", "after the join the object is private again: nobody obtains it before the next publication"},
		{"exec 1 P/1 G/2 D/2 J/2", "ok=3 L0=0/0 L1=0/0 L2=0/0 C0=0 C1=0 C2=0 pub=1 got=0", "only the creator joins"},
		{"exec 1 P/1 G/2 D/2 J/1 P/1 G/3", "ok=6 L0=0/0 L1=0/0 L2=0/0 C0=0 C1=0 C2=0 pub=1 got=1", "publish, join, publish again (a spawner's loop)"},
		{"exec 1 A/1/0/Q", "!bad-op", "malformed mode"},
		{"exec x", "!bad-op", "malformed creator"},
	}
	for _, fx := range fixed {
		lines = append(lines, fx.line)
	}
	ans, err := drv.Batch(lines)
	if err != nil {
		tie.Fail(err)
		return
	}
	for i, s := range seqs {
		r := newRealSync()
		n := 0
		for _, e := range s {
			if !r.step(e) {
				break
			}
			n++
		}
		code := r.summary(n)
		two := false
		for l := 0; l < 3; l++ {
			if len(r.shared[l])+len(r.excl[l]) > 1 {
				two = true
			}
		}
		nontrivial := n < len(s) || two
		tie.Record(lines[i], nontrivial, map[string]any{"kind": "sync", "events": strings.TrimPrefix(lines[i], "exec 1 ")}, ans[i], code)
		switch {
		case n < len(s):
			tie.Count(fmt.Sprintf("refused %c", s[n].kind))
		case two:
			tie.Count("two holders")
		default:
			tie.Count("accepted")
		}
		mon.Eval(lines[i], two || n < len(s), nil)
		if r.broken != "" {
			mon.Violate("C11/sync/rwmutex-exclusion", "the real RWMutex admitted an exclusive holder together with another holder",
				map[string]any{"kind": "sync", "events": strings.TrimPrefix(lines[i], "exec 1 ")}, "mutual exclusion", r.broken)
		}
	}
	for k, fx := range fixed {
		i := len(seqs) + k
		tie.Record(fx.line, true, map[string]any{"kind": "sync-fixed", "line": fx.line, "why": fx.why}, ans[i], fx.want)
		tie.Count("hand-declared")
	}
}
