package main

// Construction before publication, seen locally: an access `v.f` through a LOCAL pointer variable v of
// the enclosing function is constructor-phase when
//
//   - every assignment to v in the function takes a freshly created object: `&T{…}`, `new(T)`, a call of a
//     package-local function whose name is a constructor name (New*, …), or a call of a package-local
//     function/method that returns a fresh object at that result position (summarised from its body:
//     every return statement returns, at that position, one of these or a local that is fresh);
//   - the access sits in the function's own body (not in a function literal, which may run later) and
//     textually before the function's first `go` statement, channel send or channel close — the points
//     where the function itself can hand the object to another goroutine; a `return` ends the
//     function, so everything the creating function does before it returns is before publication by
//     return.
//
// This is the shape `x := newThing(); x.flag = …; go use(x); return x` (wrap.wrapper.NewStream setting
// ClientServerStream.singleResponse, wrap.wrapper.startStream completing its serverTransportStream).
// Not seen (assumption, listed in props/C11.json): the object escaping earlier through a store into an
// object other goroutines already hold, or through a callee that starts goroutines with it.

import (
	"go/ast"
	"go/token"
	"go/types"
)

type freshInfo struct {
	fresh   map[types.Object]bool
	barrier token.Pos // first go / send / close in the body (outside literals); NoPos = none
	lits    [][2]token.Pos
}

func (pa *pkgAn) freshOf(fd *ast.FuncDecl) *freshInfo {
	if fi, ok := pa.freshLocals[fd]; ok {
		return fi
	}
	fi := &freshInfo{fresh: map[types.Object]bool{}}
	pa.freshLocals[fd] = fi // recursion guard: a cycle sees "nothing fresh"
	if fd.Body == nil {
		return fi
	}
	seen := map[types.Object]bool{}
	params := map[types.Object]bool{}
	mark := func(fl *ast.FieldList) {
		if fl == nil {
			return
		}
		for _, f := range fl.List {
			for _, n := range f.Names {
				if o := pa.info.Defs[n]; o != nil {
					params[o] = true
				}
			}
		}
	}
	mark(fd.Recv)
	mark(fd.Type.Params)
	mark(fd.Type.Results)
	note := func(lhs ast.Expr, ok bool) {
		id, isId := lhs.(*ast.Ident)
		if !isId || id.Name == "_" {
			return
		}
		o := pa.objOf(id)
		if o == nil || params[o] {
			return
		}
		if v, isVar := o.(*types.Var); !isVar || v.Pkg() == nil || v.Parent() == v.Pkg().Scope() {
			return
		}
		if !seen[o] {
			seen[o] = true
			fi.fresh[o] = ok
		} else if !ok {
			fi.fresh[o] = false
		}
	}
	var inspect func(n ast.Node, inLit bool)
	inspect = func(root ast.Node, inLit bool) {
		ast.Inspect(root, func(n ast.Node) bool {
			switch x := n.(type) {
			case *ast.FuncLit:
				if !inLit {
					fi.lits = append(fi.lits, [2]token.Pos{x.Pos(), x.End()})
				}
				inspect(x.Body, true)
				return false
			case *ast.GoStmt:
				if !inLit && (fi.barrier == token.NoPos || x.Pos() < fi.barrier) {
					fi.barrier = x.Pos()
				}
			case *ast.SendStmt:
				if !inLit && (fi.barrier == token.NoPos || x.Pos() < fi.barrier) {
					fi.barrier = x.Pos()
				}
			case *ast.CallExpr:
				if id, ok := x.Fun.(*ast.Ident); ok && id.Name == "close" && !inLit && (fi.barrier == token.NoPos || x.Pos() < fi.barrier) {
					fi.barrier = x.Pos()
				}
				// a timer call starts a goroutine like a go statement does
				if pa.timerSpawn(x) != nil && !inLit && (fi.barrier == token.NoPos || x.Pos() < fi.barrier) {
					fi.barrier = x.Pos()
				}
			case *ast.AssignStmt:
				if len(x.Lhs) == len(x.Rhs) {
					for i := range x.Lhs {
						note(x.Lhs[i], pa.freshExpr(x.Rhs[i], 0, fi))
					}
				} else if len(x.Rhs) == 1 {
					for i := range x.Lhs {
						note(x.Lhs[i], pa.freshExpr(x.Rhs[0], i, fi))
					}
				}
			case *ast.ValueSpec:
				for i, nme := range x.Names {
					if i < len(x.Values) {
						note(nme, pa.freshExpr(x.Values[i], 0, fi))
					}
					// `var v *T` alone assigns nothing (nil): the assignments that follow decide
				}
			case *ast.RangeStmt:
				if x.Key != nil {
					note(x.Key, false)
				}
				if x.Value != nil {
					note(x.Value, false)
				}
			case *ast.UnaryExpr:
				if x.Op == token.AND {
					if id, ok := x.X.(*ast.Ident); ok {
						note(id, false) // &v: v may be assigned through the pointer
					}
				}
			}
			return true
		})
	}
	inspect(fd.Body, false)
	return fi
}

// freshExpr: e (result position idx of a multi-value call) denotes an object created here
func (pa *pkgAn) freshExpr(e ast.Expr, idx int, fi *freshInfo) bool {
	switch x := e.(type) {
	case *ast.ParenExpr:
		return pa.freshExpr(x.X, idx, fi)
	case *ast.UnaryExpr:
		if x.Op == token.AND {
			_, lit := x.X.(*ast.CompositeLit)
			return lit && idx == 0
		}
	case *ast.Ident:
		if o := pa.info.Uses[x]; o != nil && idx == 0 {
			return fi.fresh[o]
		}
	case *ast.CallExpr:
		if id, ok := x.Fun.(*ast.Ident); ok && id.Name == "new" {
			if _, isBuiltin := pa.info.Uses[id].(*types.Builtin); isBuiltin || pa.info.Uses[id] == nil {
				return idx == 0
			}
		}
		callee := pa.calleeOf(x)
		if callee == nil {
			return false
		}
		if sig, ok := callee.Type().(*types.Signature); ok && sig.Recv() == nil && ctorName.MatchString(callee.Name()) && idx == 0 {
			return true
		}
		return pa.returnsFresh(callee, idx)
	}
	return false
}

// returnsFresh: every return statement of fn returns a fresh object at result position idx
func (pa *pkgAn) returnsFresh(fn *types.Func, idx int) bool {
	fd := pa.decls[fn]
	if fd == nil || fd.Body == nil {
		return false
	}
	fi := pa.freshOf(fd)
	n, all := 0, true
	var visit func(root ast.Node)
	visit = func(root ast.Node) {
		ast.Inspect(root, func(nd ast.Node) bool {
			switch x := nd.(type) {
			case *ast.FuncLit:
				return false
			case *ast.ReturnStmt:
				n++
				if idx >= len(x.Results) {
					if len(x.Results) == 1 {
						// return f(…) forwarding several results
						if !pa.freshExpr(x.Results[0], idx, fi) {
							all = false
						}
						return true
					}
					all = false
					return true
				}
				if !pa.freshExpr(x.Results[idx], 0, fi) {
					// an error path returning nil at this position creates nothing and shares nothing
					if id, ok := x.Results[idx].(*ast.Ident); !ok || id.Name != "nil" {
						all = false
					}
				}
			}
			return true
		})
	}
	visit(fd.Body)
	return n > 0 && all
}

// freshLocalAccess: the access through `at` is to an object the enclosing function has created and
// not yet handed to another goroutine (see the header of this file)
func (pa *pkgAn) freshLocalAccess(c *fctx, at ast.Expr) bool {
	if c.decl == nil {
		return false
	}
	fd := pa.decls[c.decl]
	if fd == nil || fd.Body == nil {
		return false
	}
	id := rootIdentNode(at)
	if id == nil {
		return false
	}
	o := pa.info.Uses[id]
	if o == nil {
		o = pa.info.Defs[id]
	}
	if o == nil || o.Type() == nil {
		return false
	}
	if _, isPtr := o.Type().(*types.Pointer); !isPtr {
		return false
	}
	p := at.Pos()
	if p < fd.Body.Pos() || p > fd.Body.End() {
		return false // walking a callee's body in another declaration
	}
	fi := pa.freshOf(fd)
	if !fi.fresh[o] {
		return false
	}
	if fi.barrier != token.NoPos && p >= fi.barrier {
		return false
	}
	for _, l := range fi.lits {
		if p >= l[0] && p <= l[1] {
			return false
		}
	}
	return true
}
