package main

// Round 5 scenario family: CALLER-OWNED ARGUMENTS.
//
// The earlier scenarios build every argument fresh for every call and never look at it again, so a
// library that keeps reading an argument after the call has returned, or that writes into an argument
// it only ought to read, was invisible to the detector.  Here every argument object is either
//
//   - SHARED between all goroutines and only ever read by the callers (field masks, option slices —
//     all with spare capacity, as a mask decoded from the wire or assembled with append has — and the
//     messages named in read options): the library must not write into them, in particular not with an
//     `append` that lands in the caller's backing array; or
//   - OWNED by one goroutine and REWRITTEN by it right after each call / Send returns (request
//     messages, the messages handed to Set / Update / Add): the library must be done reading them when
//     the call returns, also when the call ended early (deadline) while the handler is still running,
//     and must not have stored or published the caller's object itself (consumers on other goroutines
//     keep reading what the resource published).
//
// "caller-args" drives resources and trait models directly; "caller-args-wrap" drives in-process
// wrapped clients (unary calls ended by deadline under a slow handler, client and bidi streams with a
// request message reused between Sends).

import (
	"context"
	"fmt"
	"io"
	"math/rand"
	"time"

	"google.golang.org/grpc"
	"google.golang.org/protobuf/types/known/fieldmaskpb"

	"github.com/smart-core-os/sc-api/go/traits"
	"github.com/smart-core-os/sc-golang/internal/testproto"
	"github.com/smart-core-os/sc-golang/pkg/resource"
	"github.com/smart-core-os/sc-golang/pkg/trait/electricpb"
	"github.com/smart-core-os/sc-golang/pkg/trait/lightpb"
	"github.com/smart-core-os/sc-golang/pkg/trait/onoffpb"
	"github.com/smart-core-os/sc-golang/pkg/trait/openclosepb"
	"github.com/smart-core-os/sc-golang/pkg/wrap"
)

func init() {
	scenarios = append(scenarios,
		scenario{"caller-args", 1, []string{"resource.", "minibus.", "lightpb.", "electricpb.", "openclosepb.", "bus-shared:", "local:"}, wlCallerArgs},
		scenario{"caller-args-wrap", 1, []string{"wrap.", "resource.", "minibus.", "onoffpb.", "lightpb.", "local:"}, wlCallerArgsWrap},
	)
}

// spareMask: a field mask whose Paths slice has room behind its last element
func spareMask(paths ...string) *fieldmaskpb.FieldMask {
	return &fieldmaskpb.FieldMask{Paths: append(make([]string, 0, len(paths)+5), paths...)}
}

func spareWrite(opts ...resource.WriteOption) []resource.WriteOption {
	return append(make([]resource.WriteOption, 0, len(opts)+6), opts...)
}

func spareRead(opts ...resource.ReadOption) []resource.ReadOption {
	return append(make([]resource.ReadOption, 0, len(opts)+6), opts...)
}

func wlCallerArgs(w *wl) {
	// ---- shared by every goroutine, read-only for the callers --------------------------------------
	brightMask := spareMask("preset", "target_preset", "brightness_tween")
	levelMask := spareMask("level_percent")
	moreMask := spareMask("target_level_percent")
	resetMask := spareMask("brightness_tween")
	readMask := spareMask("level_percent", "preset")
	modeMask := spareMask("title", "description")
	posMask := spareMask("states")
	brightOpts := spareWrite(resource.WithUpdateMask(brightMask))
	brightOpts2 := spareWrite(resource.WithUpdateMask(levelMask), resource.WithMoreUpdateMask(moreMask))
	modeOpts := spareWrite(resource.WithUpdateMask(modeMask), resource.WithCreateIfAbsent())
	posOpts := spareWrite(resource.WithUpdateMask(posMask))
	readOpts := spareRead(resource.WithReadMask(readMask))
	pullOpts := spareRead(resource.WithReadMask(readMask), resource.WithUpdatesOnly(true))
	sharedPreset := &traits.LightPreset{Name: "p1"}

	val := resource.NewValue(resource.WithInitialValue(&traits.Brightness{LevelPercent: 1}))
	coll := resource.NewCollection()
	light := lightpb.NewModel(
		lightpb.WithPreset(10, &traits.LightPreset{Name: "p1", Title: "one"}),
		lightpb.WithPreset(60, &traits.LightPreset{Name: "p2", Title: "two"}))
	elec := electricpb.NewModel()
	for k := 0; k < 4; k++ {
		_ = elec.AddMode(&traits.ElectricMode{Id: fmt.Sprint("m", k), Title: "t"})
	}
	oc := openclosepb.NewModel(openclosepb.WithInitialPositions(&traits.OpenClosePosition{OpenPercent: 10}))

	w.par(func(id int, rng *rand.Rand) {
		// ---- owned by this goroutine, rewritten after every call ------------------------------------
		bmsg := &traits.Brightness{Preset: &traits.LightPreset{}}
		mode := &traits.ElectricMode{}
		pos := &traits.OpenClosePositions{States: []*traits.OpenClosePosition{{}}}
		scribble := func(i int) {
			// (a write under an update mask filters its source in place, on the calling goroutine: what it
			// removed is put back)
			if bmsg.Preset == nil {
				bmsg.Preset = &traits.LightPreset{}
			}
			if len(pos.States) == 0 || pos.States[0] == nil {
				pos.States = []*traits.OpenClosePosition{{}}
			}
			bmsg.LevelPercent = float32(i % 100)
			bmsg.TargetLevelPercent = float32((i + 7) % 100)
			bmsg.Preset.Name = []string{"p1", "p2", "none"}[i%3]
			bmsg.Preset.Title = fmt.Sprint("t", i)
			mode.Id = fmt.Sprint("m", i%5)
			mode.Title = fmt.Sprint("title", i)
			mode.Description = fmt.Sprint("d", id)
			pos.States[0].OpenPercent = float32(i % 100)
		}
		if id%4 == 3 {
			// consumers: keep reading what the resources publish while the writers rewrite their arguments
			for i := 0; w.more(i); i++ {
				ctx, cancel := context.WithTimeout(context.Background(), time.Duration(rng.Intn(3)+1)*time.Millisecond)
				switch rng.Intn(4) {
				case 0:
					drain(ctx, val.Pull(ctx, pullOpts...), 20, func(c *resource.ValueChange) { readMsg(c.Value) })
				case 1:
					drain(ctx, coll.Pull(ctx, readOpts...), 20, func(c *resource.CollectionChange) { readMsg(c.NewValue); readMsg(c.OldValue) })
				case 2:
					drain(ctx, light.PullBrightness(ctx, readOpts...), 20, func(c lightpb.PullBrightnessChange) { readMsg(c.Value) })
				default:
					drain(ctx, elec.PullModes(ctx), 20, func(c electricpb.PullModesChange) { readMsg(c.NewValue); readMsg(c.OldValue) })
				}
				cancel()
				readMsg(val.Get())
				readMsg(val.Get(readOpts...))
				for _, m := range coll.List(readOpts...) {
					readMsg(m)
				}
				for _, m := range coll.List() {
					readMsg(m)
				}
			}
			return
		}
		for i := 0; w.more(i); i++ {
			scribble(i)
			switch rng.Intn(12) {
			case 0:
				res, _ := val.Set(bmsg, resource.WithUpdateMask(brightMask), resource.WithMoreUpdatePaths("level_percent"))
				readMsg(res)
			case 1:
				res, _ := val.Set(bmsg, resource.WithUpdateMask(brightMask), resource.WithMoreUpdateMask(moreMask))
				readMsg(res)
			case 2:
				res, _ := val.Set(bmsg, brightOpts2...)
				readMsg(res)
			case 3:
				res, _ := val.Set(bmsg, resource.WithUpdateMask(levelMask), resource.WithResetMask(resetMask), resource.WithMoreWritableFields(moreMask))
				readMsg(res)
			case 4:
				// the whole message, then the caller goes on changing it
				res, _ := val.Set(bmsg)
				readMsg(res)
			case 5:
				k := fmt.Sprint("k", rng.Intn(5))
				res, _ := coll.Update(k, bmsg, resource.WithCreateIfAbsent(), resource.WithUpdateMask(brightMask), resource.WithMoreUpdatePaths("level_percent"))
				readMsg(res)
			case 6:
				k := fmt.Sprint("k", rng.Intn(5))
				if rng.Intn(3) == 0 {
					res, _ := coll.Delete(k, resource.WithAllowMissing(true))
					readMsg(res)
				} else {
					res, _ := coll.Update(k, bmsg, resource.WithCreateIfAbsent())
					readMsg(res)
				}
			case 7:
				// the model adds a path of its own when the brightness names a preset
				res, _ := light.UpdateBrightness(bmsg, brightOpts...)
				readMsg(res)
			case 8:
				res, _ := light.UpdateBrightness(bmsg, resource.WithUpdateMask(brightMask))
				readMsg(res)
				r2, _ := light.GetBrightness(readOpts...)
				readMsg(r2)
			case 9:
				// the model adds the id to the written paths
				res, _ := elec.UpdateMode(mode, modeOpts...)
				readMsg(res)
				for _, m := range elec.Modes(readOpts[:0]...) {
					readMsg(m)
				}
			case 10:
				res, _ := oc.UpdatePositions(pos, posOpts...)
				readMsg(res)
			default:
				b := &traits.Brightness{Preset: sharedPreset} // a nested message shared by all callers
				res, _ := light.UpdateBrightness(b, resource.WithUpdateMask(brightMask))
				readMsg(res)
			}
			scribble(i + 1) // the call is over: the arguments belong to the caller again
		}
	})
	// nothing the callers only lent may have changed
	use(len(brightMask.Paths) + len(levelMask.Paths) + len(moreMask.Paths) + len(readMask.Paths) + len(brightOpts) + len(modeOpts) + len(posOpts))
}

// slowTestServer: handlers that are still busy when the caller's deadline passes (Unary ignores its
// context, as a handler blocked in a driver call does) and that read every request they receive
type slowTestServer struct {
	testproto.UnimplementedTestApiServer
}

func (s *slowTestServer) Unary(_ context.Context, req *testproto.UnaryRequest) (*testproto.UnaryResponse, error) {
	if len(req.Msg) > 0 && req.Msg[0] == 's' {
		time.Sleep(2 * time.Millisecond)
	}
	readMsg(req)
	return &testproto.UnaryResponse{Msg: req.Msg}, nil
}

func (s *slowTestServer) ServerStream(req *testproto.ServerStreamRequest, stream grpc.ServerStreamingServer[testproto.ServerStreamResponse]) error {
	res := &testproto.ServerStreamResponse{} // one response object, changed between sends
	for i := int32(0); i < req.NumRes; i++ {
		res.Counter = i
		if err := stream.Send(res); err != nil {
			return err
		}
	}
	readMsg(req)
	return nil
}

func (s *slowTestServer) ClientStream(stream grpc.ClientStreamingServer[testproto.ClientStreamRequest, testproto.ClientStreamResponse]) error {
	n := 0
	for {
		req, err := stream.Recv()
		if err == io.EOF {
			break
		}
		if err != nil {
			return err
		}
		readMsg(req)
		n += len(req.Msg)
	}
	return stream.SendAndClose(&testproto.ClientStreamResponse{Msg: fmt.Sprint(n)})
}

func (s *slowTestServer) BidiStream(stream grpc.BidiStreamingServer[testproto.BidiStreamRequest, testproto.BidiStreamResponse]) error {
	res := &testproto.BidiStreamResponse{}
	for {
		req, err := stream.Recv()
		if err == io.EOF {
			return nil
		}
		if err != nil {
			return err
		}
		readMsg(req)
		res.Msg = req.Msg
		if err := stream.Send(res); err != nil {
			return err
		}
		res.Msg = "" // the handler reuses its response after Send returned
	}
}

func wlCallerArgsWrap(w *wl) {
	client := testproto.NewTestApiClient(wrap.ServerToClient(testproto.TestApi_ServiceDesc, &slowTestServer{}))
	onoff := onoffpb.WrapApi(&hdrServer{ModelServer: onoffpb.NewModelServer(onoffpb.NewModel()), linger: 2 * time.Millisecond})
	light := lightpb.WrapApi(lightpb.NewModelServer(lightpb.NewModel(lightpb.WithPreset(10, &traits.LightPreset{Name: "p1"}))))
	w.par(func(id int, rng *rand.Rand) {
		// one request object of every kind per goroutine, reused for every call
		ureq := &testproto.UnaryRequest{}
		sreq := &testproto.ServerStreamRequest{}
		creq := &testproto.ClientStreamRequest{}
		breq := &testproto.BidiStreamRequest{}
		oreq := &traits.UpdateOnOffRequest{OnOff: &traits.OnOff{}}
		greq := &traits.GetOnOffRequest{}
		lreq := &traits.UpdateBrightnessRequest{Name: "l", Brightness: &traits.Brightness{Preset: &traits.LightPreset{}}, UpdateMask: spareMask("preset")}
		for i := 0; w.more(i); i++ {
			timeout := 50 * time.Millisecond
			early := rng.Intn(2) == 0
			if early {
				// the caller's deadline passes while the handler is still running
				timeout = time.Duration(200+rng.Intn(1200)) * time.Microsecond
			}
			ctx, cancel := context.WithTimeout(context.Background(), timeout)
			switch rng.Intn(7) {
			case 0:
				ureq.Msg = "fast"
				if early {
					ureq.Msg = "slow"
				}
				res, _ := client.Unary(ctx, ureq)
				ureq.Msg = fmt.Sprint("next", i) // the call has returned: the request is the caller's again
				ureq.SimulateError = ""
				readMsg(res)
			case 1:
				oreq.Name = "x"
				if early {
					oreq.Name = "slow"
				}
				oreq.OnOff.State = traits.OnOff_State(rng.Intn(3))
				res, _ := onoff.UpdateOnOff(ctx, oreq)
				oreq.OnOff.State = traits.OnOff_STATE_UNSPECIFIED
				oreq.Name = "y"
				readMsg(res)
				greq.Name = "slow"
				res, _ = onoff.GetOnOff(ctx, greq)
				greq.Name = "z"
				readMsg(res)
			case 2:
				if lreq.Brightness == nil {
					lreq.Brightness = &traits.Brightness{}
				}
				if lreq.Brightness.Preset == nil {
					lreq.Brightness.Preset = &traits.LightPreset{}
				}
				lreq.Brightness.LevelPercent = float32(rng.Intn(100))
				lreq.Brightness.Preset.Name = []string{"p1", "zz"}[rng.Intn(2)]
				res, _ := light.UpdateBrightness(ctx, lreq)
				lreq.Brightness.LevelPercent = 0
				lreq.Brightness.Preset.Name = ""
				lreq.Brightness.Preset.Title = fmt.Sprint(i)
				readMsg(res)
			case 3:
				sreq.NumRes = int32(rng.Intn(4))
				if stream, err := client.ServerStream(ctx, sreq); err == nil {
					sreq.NumRes = 0
					for {
						res, err := stream.Recv()
						if err != nil {
							break
						}
						readMsg(res)
					}
				}
			case 4:
				if stream, err := client.ClientStream(ctx); err == nil {
					for n := rng.Intn(5); n > 0; n-- {
						creq.Msg = fmt.Sprint("m", n)
						if err := stream.Send(creq); err != nil {
							break
						}
						creq.Msg = "" // Send has returned: reuse the request for the next one
					}
					res, _ := stream.CloseAndRecv()
					readMsg(res)
				}
			default:
				if stream, err := client.BidiStream(ctx); err == nil {
					for n := rng.Intn(5); n > 0; n-- {
						breq.Msg = fmt.Sprint("b", n)
						if err := stream.Send(breq); err != nil {
							break
						}
						breq.Msg = ""
						res, err := stream.Recv()
						if err != nil {
							break
						}
						readMsg(res)
					}
					_ = stream.CloseSend()
					for k := 0; k < 8; k++ {
						if _, err := stream.Recv(); err != nil {
							break
						}
					}
				}
			}
			cancel()
		}
	})
}
