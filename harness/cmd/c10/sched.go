package main

import "github.com/smart-core-os/sc-golang/verifharness/lib"

const (
	tieSched     = "bus-schedules"
	tieSchedRule = "stub"
	tiePipe      = "pipeline-census"
	tiePipeRule  = "stub"
)

type SchedCase struct{}

func schedScenarios(f lib.Flags) []Scenario           { return nil }
func runSched(sc Scenario, drv *lib.Driver) Outcome { return Outcome{} }
func runPipe(sc Scenario, drv *lib.Driver) Outcome  { return Outcome{} }
