package main

// K4 tie: schedules executed on the real internal/minibus through the yield points, compared step by
// step with the Lean bus model (driverC10 works as an acceptor, see lean/ScVerif/C10/Drv.lean).

import (
	"context"
	"fmt"
	"math/rand"
	"regexp"
	"runtime"
	"sort"
	"strconv"
	"strings"
	"sync"
	"time"

	"github.com/smart-core-os/sc-golang/internal/minibus"
	"github.com/smart-core-os/sc-golang/internal/verifhook"
	"github.com/smart-core-os/sc-golang/verifharness/lib"
)

const (
	tieSched     = "bus-schedules"
	tieSchedRule = "K4: macro moves (start a Send, release a goroutine parked at bus.send.afterSnapshot / bus.send.beforeListener / listener.send.locked (holding the read lock) / bus.collect.scanned (inside collect, holding the bus write lock: a Listen or Send attempted meanwhile must be observed blocked) / bus.listen.beforeRegister / listener.stop.enter, cancel a listen context, cancel a send context, post one receive) chosen at random among those applicable, executed on the real minibus.Bus with 1-3 senders and 0-3 listeners; after every move the harness waits until every goroutine is parked at a yield point or blocked (wait reason from runtime.Stack: select / sync.RWMutex.RLock / sync.RWMutex.Lock / chan receive; no timeouts decide an outcome) and reports per sender {idle+results, parked where (a/b/k), blocked on RLock, blocked in select}, per listener {Listen parked/returned, watcher awaiting/parked/blocked on Lock/gone, events received, receive pending, close seen}; the Lean model must have a configuration reachable by the same macro move (all interleavings and select choices of the released goroutines) with exactly this observation. one evaluation = one schedule (all its steps agree); non-trivial = the schedule contains a cancel while some sender is inside Send; distinct = distinct op sequences"
)

type SchedCase struct {
	Seed  int64 `json:"seed"`
	NS    int   `json:"ns"`
	NL    int   `json:"nl"`
	Todo  []int `json:"todo"`
	Steps int   `json:"steps"`
}

func schedScenarios(f lib.Flags) []Scenario {
	r := lib.NewRand(f.Seed*104729 + 3)
	n := f.N(600, 5000)
	var res []Scenario
	for i := 0; i < n; i++ {
		sc := SchedCase{Seed: r.Int63(), NS: 1 + r.Intn(3), NL: r.Intn(4), Steps: 8 + r.Intn(30)}
		if i < 20 {
			sc.NS, sc.NL, sc.Steps = 1, 1+i%2, 6+i
		}
		for t := 0; t < sc.NS; t++ {
			sc.Todo = append(sc.Todo, 1+r.Intn(3))
		}
		res = append(res, Scenario{Mode: "sched", Class: "bus-schedule", Res: "bus", Sched: &sc, BoundMs: boundMs(f)})
	}
	return res
}

// ---------------------------------------------------------------------------------------------

type parkedG struct {
	point   string
	release chan struct{}
}

type busEv struct{ Sender, Seq int }

type senderT struct {
	gid     int64
	cmd     chan int // seq to send
	inCall  bool
	results []bool
	cancel  context.CancelFunc
	sent    int
	panicS  string
}

type listenerT struct {
	ctx       context.Context
	cancel    context.CancelFunc
	cancelled bool
	started   bool
	returned  bool
	gid       int64 // goroutine calling Listen
	wgid      int64 // watcher goroutine
	ch        <-chan any
	cgid      int64 // consumer goroutine
	ccmd      chan struct{}
	pending   bool
	got       []busEv
	sawClose  bool
}

type ctl struct {
	mu     sync.Mutex
	parked map[int64]*parkedG
	ss     []*senderT
	ls     []*listenerT
	bus    *minibus.Bus
}

var allHdrRe = regexp.MustCompile(`(?m)^goroutine (\d+) \[([^\],]+)(?:, [^\]]*)?\]:`)

func allStates() map[int64]string {
	res := map[int64]string{}
	for _, m := range allHdrRe.FindAllStringSubmatch(stackDump(), -1) {
		id, _ := strconv.ParseInt(m[1], 10, 64)
		res[id] = m[2]
	}
	return res
}

func (c *ctl) handler(point string) {
	switch point {
	case "bus.send.afterSnapshot", "bus.send.beforeListener", "bus.listen.beforeRegister", "listener.stop.enter", "listener.send.locked", "bus.collect.scanned":
	default:
		return
	}
	p := &parkedG{point: point, release: make(chan struct{})}
	gid := verifhook.GoID()
	c.mu.Lock()
	c.parked[gid] = p
	c.mu.Unlock()
	<-p.release
}

// lockWait: the goroutine waits for a mutex (any flavour; the wording of the wait reason is the runtime's)
func lockWait(state string) bool {
	return strings.Contains(state, "Mutex") || state == "semacquire" || state == "sync.Cond.Wait"
}

func (c *ctl) releaseG(gid int64) bool {
	c.mu.Lock()
	p := c.parked[gid]
	delete(c.parked, gid)
	c.mu.Unlock()
	if p == nil {
		return false
	}
	close(p.release)
	return true
}

// status computes the observation; stable=false if some goroutine is still on its way.
func (c *ctl) status() (obs string, stable bool) {
	states := allStates()
	// goroutines that are inside the code under test (frames matched on the package path only)
	inside := census()
	c.mu.Lock()
	defer c.mu.Unlock()
	stable = true
	var parts []string
	for t, s := range c.ss {
		st := "?"
		if p := c.parked[s.gid]; p != nil {
			switch p.point {
			case "bus.send.afterSnapshot":
				st = "a"
			case "listener.send.locked":
				st = "k"
			case "bus.collect.scanned":
				st = "c"
			default:
				st = "b"
			}
		} else if !s.inCall {
			st = "i"
		} else {
			switch ws := states[s.gid]; {
			case lockWait(ws):
				st = "r"
			case ws == "select" || ws == "chan send":
				st = "s"
			default:
				stable = false
			}
		}
		if s.panicS != "" {
			st = "P"
		}
		rs := ""
		for _, ok := range s.results {
			if ok {
				rs += "T"
			} else {
				rs += "F"
			}
		}
		parts = append(parts, fmt.Sprintf("S%d=%s:%s", t, st, rs))
	}
	// Internal goroutines of the bus are identified behaviourally, never by function name: a goroutine
	// that is inside the code under test (or parked at one of its yield points) and is none of the
	// goroutines the harness started itself is a listener's watcher; it belongs to the one listener that
	// is still waiting for its watcher (one macro move at a time makes this unique).  A listener whose
	// watcher goroutine does not exist (yet) is observationally "awaiting the cancel".
	known := map[int64]bool{}
	for _, s := range c.ss {
		known[s.gid] = true
	}
	for _, l := range c.ls {
		known[l.gid], known[l.cgid] = true, true
		if l.wgid != 0 {
			known[l.wgid] = true
		}
	}
	var unknown []int64
	seenU := map[int64]bool{}
	for _, g := range inside {
		if !known[g.ID] && !seenU[g.ID] {
			unknown = append(unknown, g.ID)
			seenU[g.ID] = true
		}
	}
	for gid := range c.parked {
		if !known[gid] && !seenU[gid] {
			unknown = append(unknown, gid)
			seenU[gid] = true
		}
	}
	var need, needCancelled []*listenerT
	for _, l := range c.ls {
		if l.started && l.wgid == 0 {
			need = append(need, l)
			if l.cancelled {
				needCancelled = append(needCancelled, l)
			}
		}
	}
	switch {
	case len(unknown) == 0:
		// a cancelled listener must get a goroutine that stops it; before the cancel none is needed
		if len(needCancelled) > 0 {
			stable = false
		}
	case len(unknown) == 1 && len(need) == 1:
		need[0].wgid = unknown[0]
	case len(unknown) == 1 && len(needCancelled) == 1:
		needCancelled[0].wgid = unknown[0]
	default:
		stable = false
	}
	for i, l := range c.ls {
		lp := "-"
		if l.started {
			if l.returned {
				lp = "+"
			} else if c.parked[l.gid] != nil {
				lp = "p"
			} else if lockWait(states[l.gid]) {
				lp = "B" // released, waiting for the bus lock (a collect is parked inside it)
			} else {
				lp = "?"
				stable = false
			}
		}
		wp := "n"
		if l.started {
			if l.wgid == 0 {
				wp = "a" // no goroutine (yet): nothing can happen to this listener before its cancel
				if l.cancelled {
					wp = "?"
				}
			} else if p := c.parked[l.wgid]; p != nil {
				wp = "e"
				if p.point != "listener.stop.enter" {
					wp = "?"
					stable = false
				}
			} else if st, alive := states[l.wgid]; !alive {
				wp = "d"
			} else if lockWait(st) {
				wp = "w"
			} else if st == "chan receive" || st == "select" {
				wp = "a"
			} else {
				wp = "?"
				stable = false
			}
		}
		var evs []string
		for _, e := range l.got {
			evs = append(evs, fmt.Sprintf("%d.%d", e.Sender, e.Seq))
		}
		pend := ""
		if l.pending {
			pend = "?"
			if states[l.cgid] != "chan receive" {
				stable = false
			}
		}
		cl := ""
		if l.sawClose {
			cl = "x"
		}
		parts = append(parts, fmt.Sprintf("L%d=%s%s[%s]%s%s", i, lp, wp, strings.Join(evs, ","), pend, cl))
	}
	return strings.Join(parts, ";"), stable
}

func (c *ctl) settle(bound time.Duration) (string, bool) {
	deadline := time.Now().Add(bound)
	last, n := "", 0
	for {
		runtime.Gosched()
		o, stable := c.status()
		if stable && o == last {
			n++
			if n >= 2 {
				return o, true
			}
		} else {
			n = 0
		}
		last = o
		if time.Now().After(deadline) {
			return o, false
		}
		time.Sleep(20 * time.Microsecond)
	}
}

// applicable macro moves given the last observation
func (c *ctl) applicable(obs string) []string {
	var ops []string
	parts := strings.Split(obs, ";")
	collecting := strings.Contains(obs, "=c:") // a sender is parked inside collect (holding the bus lock)
	c.mu.Lock()
	defer c.mu.Unlock()
	for t, s := range c.ss {
		st := parts[t][strings.Index(parts[t], "=")+1:]
		switch st[0] {
		case 'i':
			if s.sent < cap(s.cmd) {
				ops = append(ops, fmt.Sprintf("send %d", t), fmt.Sprintf("send %d", t))
			}
		case 'c':
			ops = append(ops, fmt.Sprintf("S %d", t))
		case 'a', 'b', 'k':
			ops = append(ops, fmt.Sprintf("S %d", t), fmt.Sprintf("S %d", t), fmt.Sprintf("S %d", t))
			if s.cancel != nil && !collecting {
				ops = append(ops, fmt.Sprintf("cancelSend %d", t))
			}
		case 'r', 's':
			if s.cancel != nil && !collecting {
				ops = append(ops, fmt.Sprintf("cancelSend %d", t))
			}
		}
	}
	for i, l := range c.ls {
		p := parts[len(c.ss)+i]
		st := p[strings.Index(p, "=")+1:]
		if !l.started {
			ops = append(ops, fmt.Sprintf("listen %d", i), fmt.Sprintf("listen %d", i))
		}
		if st[0] == 'p' {
			ops = append(ops, fmt.Sprintf("R %d", i), fmt.Sprintf("R %d", i))
		}
		if st[1] == 'e' {
			ops = append(ops, fmt.Sprintf("W %d", i), fmt.Sprintf("W %d", i))
		}
		if !l.cancelled {
			ops = append(ops, fmt.Sprintf("cancel %d", i))
		}
		if l.returned && !l.pending && !l.sawClose {
			ops = append(ops, fmt.Sprintf("recv %d", i), fmt.Sprintf("recv %d", i))
		}
	}
	sort.Strings(ops)
	return ops
}

func (c *ctl) apply(op string) {
	var k string
	var i int
	fmt.Sscanf(op, "%s %d", &k, &i)
	switch k {
	case "send":
		s := c.ss[i]
		c.mu.Lock()
		s.inCall = true
		s.sent++
		seq := s.sent
		c.mu.Unlock()
		s.cmd <- seq
	case "S":
		c.releaseG(c.ss[i].gid)
	case "cancelSend":
		c.mu.Lock()
		cf := c.ss[i].cancel
		c.ss[i].cancel = nil
		c.mu.Unlock()
		if cf != nil {
			cf()
		}
	case "cancel":
		c.mu.Lock()
		c.ls[i].cancelled = true
		c.mu.Unlock()
		c.ls[i].cancel()
	case "listen":
		l := c.ls[i]
		ready := make(chan struct{})
		go func() {
			c.mu.Lock()
			l.gid = verifhook.GoID()
			l.started = true
			c.mu.Unlock()
			close(ready)
			ch := c.bus.Listen(l.ctx)
			c.mu.Lock()
			l.ch = ch
			l.returned = true
			c.mu.Unlock()
		}()
		<-ready
	case "R":
		c.releaseG(c.ls[i].gid)
	case "W":
		c.releaseG(c.ls[i].wgid)
	case "recv":
		l := c.ls[i]
		c.mu.Lock()
		l.pending = true
		c.mu.Unlock()
		l.ccmd <- struct{}{}
	}
}

func runSched(sc Scenario, drv *lib.Driver) (out Outcome) {
	o := &out
	cs := sc.Sched
	bound := time.Duration(sc.BoundMs) * time.Millisecond
	waitBaseline(bound)
	c := &ctl{parked: map[int64]*parkedG{}, bus: &minibus.Bus{}}
	verifhook.Set(c.handler)
	defer verifhook.Set(nil)
	stop := make(chan struct{})
	defer close(stop)
	var started sync.WaitGroup
	for t := 0; t < cs.NS; t++ {
		s := &senderT{cmd: make(chan int, cs.Todo[t])}
		c.ss = append(c.ss, s)
		started.Add(1)
		go func() {
			s.gid = verifhook.GoID()
			started.Done()
			for {
				select {
				case <-stop:
					return
				case seq := <-s.cmd:
					ctx, cancel := context.WithCancel(context.Background())
					c.mu.Lock()
					s.cancel = cancel
					c.mu.Unlock()
					var ok bool
					panicked, msg := lib.Catch(func() { ok = c.bus.Send(ctx, busEv{t, seq}) })
					cancel()
					c.mu.Lock()
					s.cancel = nil
					if panicked {
						s.panicS = msg
					}
					s.results = append(s.results, ok)
					s.inCall = false
					c.mu.Unlock()
				}
			}
		}()
	}
	for i := 0; i < cs.NL; i++ {
		ctx, cancel := context.WithCancel(context.Background())
		l := &listenerT{ctx: ctx, cancel: cancel, ccmd: make(chan struct{})}
		c.ls = append(c.ls, l)
		started.Add(1)
		go func() {
			l.cgid = verifhook.GoID()
			started.Done()
			for {
				select {
				case <-stop:
					return
				case <-l.ccmd:
					c.mu.Lock()
					ch := l.ch
					c.mu.Unlock()
					v, ok := <-ch
					c.mu.Lock()
					if ok {
						l.got = append(l.got, v.(busEv))
					} else {
						l.sawClose = true
					}
					l.pending = false
					c.mu.Unlock()
				}
			}
		}()
	}
	started.Wait()

	var todo []string
	for _, n := range cs.Todo {
		todo = append(todo, fmt.Sprint(n))
	}
	if ans, err := drv.Ask(fmt.Sprintf("init %d %d %s", cs.NS, cs.NL, strings.Join(todo, ","))); err != nil || ans != "ok" {
		o.Ties = append(o.Ties, TieRec{Tie: tieSched, Err: fmt.Sprintf("driver init: %v %s", err, ans)})
		return
	}
	r := rand.New(rand.NewSource(cs.Seed))
	obs, _ := c.settle(bound)
	var done []string
	agree := true
	model, code := "", ""
	nontrivial := false
	step := func(op string) bool {
		if strings.HasPrefix(op, "cancel ") && strings.ContainsAny(strings.SplitN(obs, ";L", 2)[0], "abckrs") {
			nontrivial = true
		}
		if strings.HasPrefix(op, "cancel ") {
			c.mu.Lock()
			for _, p := range c.parked {
				o.count("tie:cancel-while-parked-at:" + p.point)
			}
			c.mu.Unlock()
		}
		c.apply(op)
		done = append(done, op)
		o.count("tie:op:" + strings.Fields(op)[0])
		var stable bool
		obs, stable = c.settle(bound)
		if !stable {
			agree, model, code = false, "a quiescent state", "not quiescent within "+bound.String()+" after "+strings.Join(done, " / ")+": "+obs+" || "+censusSummary(census())
			return false
		}
		ans, err := drv.Ask("op " + obs + " " + op)
		if err != nil {
			o.Ties = append(o.Ties, TieRec{Tie: tieSched, Err: "driver: " + err.Error()})
			agree = false
			return false
		}
		for _, part := range strings.Split(obs, ";") {
			v := part[strings.Index(part, "=")+1:]
			switch {
			case part[0] == 'S' && v[0] == 'r':
				o.count("tie:seen:sender-blocked-on-RLock")
			case part[0] == 'S' && v[0] == 's':
				o.count("tie:seen:sender-blocked-in-select")
			case part[0] == 'L' && v[0] == 'B':
				o.count("tie:seen:Listen-blocked-while-collect-parked")
			case part[0] == 'S' && v[0] == 'c':
				o.count("tie:seen:sender-parked-inside-collect")
			case part[0] == 'L' && v[1] == 'w':
				o.count("tie:seen:watcher-blocked-on-Lock")
			case part[0] == 'L' && strings.HasSuffix(v, "x"):
				o.count("tie:seen:consumer-saw-close")
			}
		}
		if ans != "ok "+obs {
			agree, model, code = false, ans+"  (after "+strings.Join(done, " / ")+")", obs
			return false
		}
		if strings.Contains(obs, "=P") {
			o.violate(monShutdown, "C10/bus/Send/panic", "Bus.Send panicked", "no panic", obs)
		}
		return true
	}
	for i := 0; i < cs.Steps && agree; i++ {
		ops := c.applicable(obs)
		if len(ops) == 0 {
			break
		}
		if !step(ops[r.Intn(len(ops))]) {
			break
		}
	}
	// wind down: cancel everything and release everybody until nothing is left to do
	for guard := 0; guard < 200 && agree; guard++ {
		var next string
		for _, op := range c.applicable(obs) {
			k := strings.Fields(op)[0]
			if k == "cancel" || k == "S" || k == "W" || k == "R" {
				next = op
				if k == "cancel" {
					break
				}
			}
		}
		if next == "" {
			break
		}
		if !step(next) {
			break
		}
	}
	if !agree && model != "" {
		// directed search for a failing input: the model no longer explains the code here, so finish this very
		// schedule without the model (cancel everything, release everybody) and evaluate the property directly:
		// every goroutine of the cancelled listeners must be gone
		for guard := 0; guard < 200; guard++ {
			var next string
			for _, op := range c.applicable(obs) {
				k := strings.Fields(op)[0]
				if k == "cancel" || k == "S" || k == "W" || k == "R" {
					next = op
					if k == "cancel" {
						break
					}
				}
			}
			if next == "" {
				break
			}
			c.apply(next)
			done = append(done, next)
			obs, _ = c.settle(200 * time.Millisecond)
		}
		o.eval(monShutdown, "goroutines-baseline/bus-schedule-after-disagreement", true)
		if ok, left, _ := waitBaseline(bound); !ok {
			o.violate(monShutdown, "C10/bus/goroutine-leak", "goroutines of cancelled listeners are still alive after every listener was cancelled and every goroutine released",
				"no goroutine inside internal/minibus", censusSummary(left)+" after "+strings.Join(done, " / "))
		}
		if strings.Contains(obs, "=P") {
			o.violate(monShutdown, "C10/bus/Send/panic", "Bus.Send panicked", "no panic", obs)
		}
	}
	if agree {
		model, code = "ok "+obs, "ok "+obs
		// the model ends with every watcher done and every sender idle: the census must be empty
		o.eval(monShutdown, "goroutines-baseline/bus-schedule", cs.NL > 0)
		// stop workers first so that only code-under-test goroutines could remain
		if ok, left, _ := waitBaseline(bound); !ok {
			o.violate(monShutdown, "C10/bus/goroutine-leak", "goroutines of cancelled listeners are still alive after the schedule wound down",
				"no goroutine inside internal/minibus", censusSummary(left)+" after "+strings.Join(done, " / "))
		}
	}
	o.Ties = append(o.Ties, TieRec{Tie: tieSched, Key: strings.Join(done, "/"), Nontrivial: nontrivial, Model: model, Code: code})
	// release anything still parked so the goroutines can end
	for _, l := range c.ls {
		l.cancel()
	}
	c.mu.Lock()
	for _, s := range c.ss {
		if s.cancel != nil {
			s.cancel()
		}
	}
	var gids []int64
	for g := range c.parked {
		gids = append(gids, g)
	}
	c.mu.Unlock()
	verifhook.Set(nil)
	for _, g := range gids {
		c.releaseG(g)
	}
	for i := 0; i < 50; i++ {
		c.mu.Lock()
		gids = gids[:0]
		for g := range c.parked {
			gids = append(gids, g)
		}
		c.mu.Unlock()
		for _, g := range gids {
			c.releaseG(g)
		}
		if ok, _, _ := waitBaseline(2 * time.Millisecond); ok {
			break
		}
	}
	return out
}
