package main

// Free-running stress on the real minibus.Bus: registrations racing with the tail of a Send that saw
// cancelled listeners (the only time Bus.collect runs).  No yield point is used: real parallelism only.
//
// Oracle (independent of the model): every subscriber whose Listen call returned before the sentinel
// Send began, and whose context is live until that Send returned, is "live for the whole send" and must
// have received the sentinel exactly once; no event may arrive twice.

import (
	"context"
	"fmt"
	"runtime"
	"sync"
	"sync/atomic"
	"time"

	"github.com/smart-core-os/sc-golang/internal/minibus"
	"github.com/smart-core-os/sc-golang/internal/verifhook"
	"github.com/smart-core-os/sc-golang/verifharness/lib"
)

type RaceCase struct {
	Seed        int64 `json:"seed"`
	Rounds      int   `json:"rounds"`
	Dead        int   `json:"dead"`        // already-cancelled listeners registered per round (stretches collect)
	Early       int   `json:"early"`       // live subscribers registered before the first Send
	Subscribers int   `json:"subscribers"` // goroutines that keep subscribing while the Send runs
	Senders     int   `json:"senders"`     // 1 or 2 concurrent senders in the racing phase
	PauseUs     int   `json:"pauseUs"`     // pause between two subscriptions of one goroutine
}

func raceScenarios(f lib.Flags) []Scenario {
	r := lib.NewRand(f.Seed*6151 + 17)
	n := f.N(12, 60)
	var res []Scenario
	for i := 0; i < n; i++ {
		rc := RaceCase{Seed: r.Int63(), Rounds: 3, Dead: []int{300, 2000, 6000, 12000}[i%4], Early: r.Intn(4),
			Subscribers: 4 + r.Intn(9), Senders: 1 + i%2, PauseUs: []int{0, 10, 40}[r.Intn(3)]}
		if i < 2 {
			rc.Rounds, rc.Dead, rc.Subscribers, rc.Senders, rc.Early = 2, 4000, 6, 1, 1 // smallest shape first
		}
		res = append(res, Scenario{Mode: "race", Class: "listen-races-collect", Res: "bus", Race: &rc, BoundMs: boundMs(f)})
	}
	return res
}

type raceSub struct {
	cancel   context.CancelFunc
	mu       sync.Mutex
	got      map[int]int // event id -> times received
	done     chan struct{}
	regRound int
}

const sentinelBase = 1_000_000

func runRace(sc Scenario) (out Outcome) {
	o := &out
	rc := sc.Race
	bound := time.Duration(sc.BoundMs) * time.Millisecond
	verifhook.Set(nil)
	waitBaseline(bound)
	if runtime.GOMAXPROCS(0) < 2 {
		o.count("race:single-P(no real parallelism)")
	}
	bus := &minibus.Bus{}
	var all []*raceSub
	var allMu sync.Mutex
	subscribe := func(round int) *raceSub {
		ctx, cancel := context.WithCancel(context.Background())
		s := &raceSub{cancel: cancel, got: map[int]int{}, done: make(chan struct{}), regRound: round}
		ch := bus.Listen(ctx)
		go func() {
			defer close(s.done)
			for v := range ch {
				s.mu.Lock()
				s.got[v.(int)]++
				s.mu.Unlock()
			}
		}()
		allMu.Lock()
		all = append(all, s)
		allMu.Unlock()
		return s
	}
	lost, dup, checked := 0, 0, 0
	var firstLost string
	for round := 0; round < rc.Rounds; round++ {
		// many dead listeners: the next Send finds them cancelled and collects at its end
		dead, cancelDead := context.WithCancel(context.Background())
		cancelDead()
		for i := 0; i < rc.Dead; i++ {
			bus.Listen(dead)
		}
		for i := 0; i < rc.Early; i++ {
			subscribe(round)
		}
		var stop atomic.Bool
		var wg sync.WaitGroup
		for g := 0; g < rc.Subscribers; g++ {
			wg.Add(1)
			go func() {
				defer wg.Done()
				for !stop.Load() {
					subscribe(round)
					if rc.PauseUs > 0 {
						time.Sleep(time.Duration(rc.PauseUs) * time.Microsecond)
					} else {
						runtime.Gosched()
					}
				}
			}()
		}
		var sw sync.WaitGroup
		for s := 0; s < rc.Senders; s++ {
			sw.Add(1)
			go func() {
				defer sw.Done()
				bus.Send(context.Background(), round*10+s+1) // sees the dead listeners -> collect
			}()
		}
		sw.Wait()
		stop.Store(true)
		wg.Wait()
		// everybody registered so far is live; the sentinel send starts now and nobody is cancelled until it returned
		allMu.Lock()
		live := append([]*raceSub(nil), all...)
		allMu.Unlock()
		sentinel := sentinelBase + round
		okc := make(chan bool, 1)
		go func() { okc <- bus.Send(context.Background(), sentinel) }()
		select {
		case <-okc:
		case <-time.After(bound):
			o.violate(monShutdown, "C10/bus/writer-blocked-after-cancel", "Send does not return although every listener is draining or cancelled",
				"returns within "+bound.String(), censusSummary(census()))
			return out
		}
		// the receive of the last rendezvous may not be recorded yet
		deadline := time.Now().Add(bound)
		for _, s := range live {
			for {
				s.mu.Lock()
				n := s.got[sentinel]
				s.mu.Unlock()
				if n > 0 || time.Now().After(deadline) {
					break
				}
				time.Sleep(50 * time.Microsecond)
			}
		}
		for i, s := range live {
			checked++
			s.mu.Lock()
			n := s.got[sentinel]
			for id, k := range s.got {
				if k > 1 {
					dup++
					_ = id
				}
			}
			s.mu.Unlock()
			if n == 0 {
				lost++
				if firstLost == "" {
					firstLost = fmt.Sprintf("round %d: subscriber #%d of %d (registered in round %d) got %v", round, i, len(live), s.regRound, s.got)
				}
			}
		}
		o.eval(monDelivery, fmt.Sprintf("registered-before-send/dead=%d/senders=%d", rc.Dead, rc.Senders), len(live) > 0)
	}
	o.count(fmt.Sprintf("race:subscribers-checked<%d", bucketMs(time.Duration(checked)*time.Millisecond)))
	if lost > 0 {
		o.violate(monDelivery, "C10/bus/delivery/registered-listener-lost",
			"a listener whose Listen returned before a Send began, live for the whole send, never received its event (registration lost)",
			"every registered live listener receives the sentinel exactly once", fmt.Sprintf("%d of %d lost; %s", lost, checked, firstLost))
	}
	if dup > 0 {
		o.violate(monDelivery, "C10/bus/delivery/duplicate-or-extra", "an event arrived twice on one listener", "each event at most once", fmt.Sprintf("%d duplicates", dup))
	}
	for _, s := range all {
		s.cancel()
	}
	for _, s := range all {
		select {
		case <-s.done:
		case <-time.After(bound):
			o.violate(monShutdown, "C10/bus/Listen/close-not-observed-after-cancel", "a bus listener channel was not closed after its cancel",
				"closed within "+bound.String(), censusSummary(census()))
			return out
		}
	}
	o.eval(monShutdown, "goroutines-baseline/listen-races-collect", true)
	if ok, left, _ := waitBaseline(bound); !ok {
		o.violate(monShutdown, "C10/bus/goroutine-leak", "goroutines of cancelled listeners are still alive", "no goroutine inside internal/minibus", censusSummary(left))
	}
	return out
}
