package main

import (
	"fmt"
	"math/rand"
	"sort"
	"strings"

	"github.com/smart-core-os/sc-golang/verifharness/lib"
)

func boundMs(f lib.Flags) int { return f.N(2000, 4000) }

func sets(n int) []Op {
	ops := make([]Op, n)
	for i := range ops {
		ops[i] = Op{Kind: "set"}
	}
	return ops
}

func collOps(w, n int, r *rand.Rand) []Op {
	ops := make([]Op, n)
	for i := range ops {
		id := fmt.Sprintf("w%d-%c", w, 'a'+rune(i%3))
		if r != nil {
			id = fmt.Sprintf("w%d-%c", w, 'a'+rune(r.Intn(3)))
		}
		k := "upd"
		if (r == nil && i%4 == 3) || (r != nil && r.Intn(4) == 0) {
			k = "del"
		}
		ops[i] = Op{Kind: k, ID: id}
	}
	return ops
}

// fixedScenarios: the smallest instance of each shape, in increasing size.
func fixedScenarios(f lib.Flags) []Scenario {
	b := boundMs(f)
	var res []Scenario
	add := func(sc Scenario) {
		sc.Mode = "stress"
		sc.BoundMs = b
		res = append(res, sc)
	}
	for _, r := range []string{"value", "collection"} {
		w1 := [][]Op{sets(3)}
		if r == "collection" {
			w1 = [][]Op{collOps(0, 4, nil)}
		}
		add(Scenario{Class: "no-subscribers", Res: r, Writers: w1})
		for _, bp := range []bool{true, false} {
			for _, uo := range []bool{false, true} {
				add(Scenario{Class: "one-drain", Res: r, Writers: w1,
					Subs: []SubSpec{{Kind: "pull", BP: bp, UpdatesOnly: uo, Consume: "drain", Cancel: "end"}}})
				add(Scenario{Class: "cancel-before-subscribe", Res: r, Writers: w1,
					Subs: []SubSpec{{Kind: "pull", BP: bp, UpdatesOnly: uo, Consume: "drain", Cancel: "before"}}})
				add(Scenario{Class: "abandon-then-cancel", Res: r, Writers: w1,
					Subs: []SubSpec{{Kind: "pull", BP: bp, UpdatesOnly: uo, Consume: "none", Cancel: "end"}}})
				add(Scenario{Class: "stop-then-cancel", Res: r, Writers: w1,
					Subs: []SubSpec{{Kind: "pull", BP: bp, UpdatesOnly: uo, Consume: "stop", StopAfter: 1, Cancel: "end"}}})
				add(Scenario{Class: "abandon-cancel-walk-away", Res: r, Writers: w1,
					Subs: []SubSpec{{Kind: "pull", BP: bp, UpdatesOnly: uo, Consume: "abandon", Cancel: "end"}}})
				add(Scenario{Class: "idle-writers", Res: r,
					Subs: []SubSpec{{Kind: "pull", BP: bp, UpdatesOnly: uo, Consume: "drain", Cancel: "end"}}})
				add(Scenario{Class: "two-subscribers-one-abandons", Res: r, Writers: w1,
					Subs: []SubSpec{{Kind: "pull", BP: bp, UpdatesOnly: uo, Consume: "none", Cancel: "timer", CancelUs: 300},
						{Kind: "pull", BP: true, Consume: "drain", Cancel: "end"}}})
			}
		}
	}
	// widen the window between close(l.ch) and l.ch = nil while writers keep sending
	for _, r := range []string{"value", "collection"} {
		for _, bp := range []bool{true, false} {
			for k := 0; k < 3; k++ {
				ws := [][]Op{sets(6), sets(6)}
				if r == "collection" {
					ws = [][]Op{collOps(0, 6, nil), collOps(1, 6, nil)}
				}
				add(Scenario{Class: "linger-in-stop", Res: r, Writers: ws, LingerAt: "listener.stop.closed", LingerUs: 400,
					Subs: []SubSpec{{Kind: "pull", BP: bp, Consume: "drain", Cancel: "point", Point: "bus.send.beforeListener", Occ: 1 + k},
						{Kind: "pull", BP: bp, Consume: "none", Cancel: "timer", CancelUs: 50 * k},
						{Kind: "pull", BP: true, Consume: "drain", Cancel: "end"}}})
			}
		}
	}
	// single-item subscriptions
	for _, bp := range []bool{true, false} {
		for _, uo := range []bool{false, true} {
			add(Scenario{Class: "pullid-removed", Res: "collection", Initial: []string{"x"},
				Writers: [][]Op{{{Kind: "upd", ID: "x"}, {Kind: "del", ID: "x"}}},
				Subs:    []SubSpec{{Kind: "pullid", ID: "x", BP: bp, UpdatesOnly: uo, Consume: "drain", Cancel: "never"}}})
			add(Scenario{Class: "pullid-removed+other-writer", Res: "collection", Initial: []string{"x"},
				Writers: [][]Op{{{Kind: "upd", ID: "x"}, {Kind: "del", ID: "x"}}, collOps(0, 6, nil)},
				Subs: []SubSpec{{Kind: "pullid", ID: "x", BP: bp, UpdatesOnly: uo, Consume: "drain", Cancel: "never"},
					{Kind: "pull", BP: true, Consume: "drain", Cancel: "end"}}})
			add(Scenario{Class: "pullid-cancelled", Res: "collection", Initial: []string{"x"},
				Writers: [][]Op{{{Kind: "upd", ID: "x"}, {Kind: "upd", ID: "x"}}, collOps(0, 4, nil)},
				Subs:    []SubSpec{{Kind: "pullid", ID: "x", BP: bp, UpdatesOnly: uo, Consume: "drain", Cancel: "end"}}})
			add(Scenario{Class: "pullid-walk-away", Res: "collection", Initial: []string{"x"},
				Writers: [][]Op{{{Kind: "upd", ID: "x"}, {Kind: "upd", ID: "x"}}},
				Subs:    []SubSpec{{Kind: "pullid", ID: "x", BP: bp, UpdatesOnly: uo, Consume: "abandon", Cancel: "end"}}})
			add(Scenario{Class: "pullid-abandoned", Res: "collection", Initial: []string{"x"},
				Writers: [][]Op{{{Kind: "upd", ID: "x"}, {Kind: "upd", ID: "x"}}},
				Subs:    []SubSpec{{Kind: "pullid", ID: "x", BP: bp, UpdatesOnly: uo, Consume: "none", Cancel: "end"}}})
		}
	}
	// collections constructed with an equivalence option (WithNoDuplicates / WithMessageEquivalence / WithEquivalence),
	// subscriptions with and without a read mask (one that selects the payload, one that selects only a field no item
	// sets: every view is the empty message), items that are the empty message when they are removed or not: the
	// removal still ends a PullID and is still told to a Pull subscriber
	k := 0
	for _, eq := range []string{"nodup", "msgeq", "equiv"} {
		for _, mm := range [][2]string{{"", ""}, {"dur", ""}, {"dur", "nanos"}, {"dur", "seconds"}} {
			for _, bp := range []bool{true, false} {
				for _, ws := range [][]Op{{{Kind: "del", ID: "x"}}, {{Kind: "upd", ID: "x"}, {Kind: "del", ID: "x"}}, {{Kind: "upd", ID: "x"}, {Kind: "upd", ID: "w0-a"}, {Kind: "del", ID: "x"}, {Kind: "del", ID: "w0-a"}}} {
					k++
					add(Scenario{Class: "equivalence/pullid-removed", Res: "collection", Initial: []string{"x"}, Eq: eq, Msg: mm[0],
						Writers: [][]Op{ws},
						Subs:    []SubSpec{{Kind: "pullid", ID: "x", BP: bp, UpdatesOnly: k%3 == 0, Mask: mm[1], Consume: "drain", Cancel: "never"}}})
					add(Scenario{Class: "equivalence/pull-told-of-remove", Res: "collection", Initial: []string{"x"}, Eq: eq, Msg: mm[0],
						Writers: [][]Op{ws},
						Subs:    []SubSpec{{Kind: "pull", BP: bp, UpdatesOnly: k%3 == 1, Mask: mm[1], Consume: "drain", Cancel: "end"}}})
				}
			}
		}
	}
	// a consumer that stays away while the same item is deleted, re-added, deleted ... behind it, then goes on receiving
	// without cancelling: with k changes of the item already parked in the stages of the subscription (none .. more than
	// the stages hold) the tail of deletes / re-adds piles up in the lossy stage (mergeChanges: REMOVE+ADD = REPLACE,
	// REPLACE+REMOVE = REMOVE, ADD+REMOVE = nothing ...) or - with backpressure - behind the blocked writer; whenever the
	// item is gone in the end the PullID ends and the Pull subscriber has been told
	tails := [][]string{{"del"}, {"del", "upd"}, {"del", "upd", "del"}, {"del", "upd", "upd", "del"}, {"del", "upd", "del", "upd"}, {"del", "upd", "del", "upd", "del"}}
	for fill := 0; fill <= 3; fill++ {
		for ti, tail := range tails {
			for vi, v := range []struct {
				kind string
				bp   bool
			}{{"pullid", false}, {"pull", false}, {"pullid", true}, {"pull", true}} {
				if v.bp && (fill+ti)%2 == 1 {
					continue // with backpressure nothing is merged: half the cases
				}
				var ops []Op
				for i := 0; i < fill; i++ {
					ops = append(ops, Op{Kind: "upd", ID: "x"})
				}
				ops = append(ops, Op{Kind: "nap"})
				for _, t := range tail {
					ops = append(ops, Op{Kind: t, ID: "x"})
				}
				uo := (fill+ti+vi)%4 == 3
				sp := SubSpec{Kind: v.kind, BP: v.bp, UpdatesOnly: uo, Consume: "pause", StopAfter: 1, Cancel: "end"}
				if uo {
					sp.StopAfter = 0
				}
				if v.kind == "pullid" {
					sp.ID = "x"
					if tail[len(tail)-1] == "del" {
						sp.Cancel = "never"
					}
				}
				sc := Scenario{Class: "stalled-consumer-churn", Res: "collection", Initial: []string{"x"}, Writers: [][]Op{ops}, Subs: []SubSpec{sp}}
				if (fill+ti)%3 == 2 {
					sc.Writers = append(sc.Writers, collOps(1, 4, nil))
				}
				add(sc)
			}
		}
	}
	// subscriptions made WithInclude (a filter that includes every item / every item but one writer's / items by their
	// payload, so that updates move an item out of and back into the filter): the removal of an item the subscriber
	// had been shown still ends a PullID and is still told to a Pull subscriber; with backpressure the subscriber
	// receives exactly the ADD / UPDATE / REMOVE sequence the filter makes of the writes
	for _, inc := range []string{"all", "id", "val"} {
		for _, bp := range []bool{true, false} {
			for wi, ws := range [][]Op{{{Kind: "del", ID: "x"}}, {{Kind: "upd", ID: "x"}, {Kind: "del", ID: "x"}},
				{{Kind: "upd", ID: "x"}, {Kind: "upd", ID: "x"}, {Kind: "upd", ID: "x"}, {Kind: "del", ID: "x"}},
				{{Kind: "upd", ID: "x"}, {Kind: "upd", ID: "w1-a"}, {Kind: "upd", ID: "w0-a"}, {Kind: "del", ID: "x"}, {Kind: "del", ID: "w1-a"}, {Kind: "del", ID: "w0-a"}}} {
				add(Scenario{Class: "include/pullid-removed", Res: "collection", Initial: []string{"x"},
					Writers: [][]Op{ws},
					Subs:    []SubSpec{{Kind: "pullid", ID: "x", BP: bp, UpdatesOnly: wi%3 == 2, Include: inc, Consume: "drain", Cancel: "never"}}})
				add(Scenario{Class: "include/pull-told-of-remove", Res: "collection", Initial: []string{"x"},
					Writers: [][]Op{ws},
					Subs:    []SubSpec{{Kind: "pull", BP: bp, UpdatesOnly: wi%3 == 1, Include: inc, Consume: "drain", Cancel: "end"}}})
			}
		}
	}
	// ... and the consumer that stays away while the item is deleted / re-added behind it, with a filter
	for i, sc := range res {
		if sc.Class != "stalled-consumer-churn" || i%3 != 0 {
			continue
		}
		sc.Class = "include/stalled-consumer-churn"
		sc.Subs = append([]SubSpec(nil), sc.Subs...)
		sc.Subs[0].Include = []string{"all", "val", "id"}[(i/3)%3]
		add(sc)
	}
	// collections with an id interceptor; subscriber and writers spell the ids differently (respell alternates
	// canonical / non-canonical spellings): every single-item shape above, and the plain Pull shapes
	n0 := len(res)
	for _, icpt := range icptNames {
		for _, sc := range res[:n0] {
			if sc.Res != "collection" || len(sc.Subs) == 0 {
				continue
			}
			pullid := sc.Subs[0].Kind == "pullid"
			if strings.HasPrefix(sc.Class, "equivalence/") || strings.HasPrefix(sc.Class, "include/") || sc.Class == "stalled-consumer-churn" {
				// one in five, rotating over the interceptors
				if (len(res)+len(icpt))%5 == 0 {
					res = append(res, respell(sc, icpt, nil))
				}
				continue
			}
			if pullid || (sc.Class == "one-drain" || sc.Class == "stop-then-cancel") && !sc.Subs[0].UpdatesOnly {
				res = append(res, respell(sc, icpt, nil))
			}
		}
	}
	return res
}

// stallScenarios: a backpressure subscriber stops receiving WITHOUT cancelling and stays away for longer than any
// patience a writer might have (Value.Set gives up after 5 s; a collection write has no deadline): the writers parked
// on it stay parked for the whole time, and once the slow subscriber cancels (or resumes) every event still reaches
// every other subscriber, registered before or after the slow one — a healthy PullID subscriber behind it sees the
// REMOVE and ends, a healthy Pull subscriber sees each event exactly once.  Each scenario takes a little over
// StallMs of wall-clock: they run in worker processes of their own, concurrently with everything else.
func stallScenarios(f lib.Flags) []Scenario {
	b := boundMs(f)
	stall := 5600
	slow := func(consume string, uo bool) SubSpec {
		return SubSpec{Kind: "pull", BP: true, UpdatesOnly: uo, Consume: consume, StopAfter: 1, Cancel: "end"}
	}
	res := []Scenario{
		{Class: "long-stall/pullid-behind", Res: "collection", Initial: []string{"x"},
			Writers: [][]Op{{{Kind: "upd", ID: "w0-a"}, {Kind: "del", ID: "x"}}},
			Subs: []SubSpec{slow("none", true),
				{Kind: "pullid", ID: "x", BP: true, Consume: "drain", Cancel: "never"}}},
		{Class: "long-stall/pull-behind+before", Res: "collection", Initial: []string{"x"},
			Writers: [][]Op{{{Kind: "upd", ID: "w0-a"}, {Kind: "upd", ID: "w0-b"}, {Kind: "del", ID: "w0-a"}, {Kind: "upd", ID: "x"}, {Kind: "del", ID: "x"}}},
			Subs: []SubSpec{{Kind: "pull", BP: true, Consume: "drain", Cancel: "end"}, slow("stop", false),
				{Kind: "pull", BP: true, UpdatesOnly: true, Consume: "drain", Cancel: "end"},
				{Kind: "pullid", ID: "x", BP: false, Consume: "drain", Cancel: "never"}}},
	}
	if f.Thorough() {
		res = append(res, Scenario{Class: "long-stall/two-slow", Res: "collection", Initial: []string{"x"},
			Writers: [][]Op{{{Kind: "upd", ID: "x"}, {Kind: "upd", ID: "x"}, {Kind: "del", ID: "x"}}, collOps(0, 3, nil)},
			Subs: []SubSpec{slow("none", false), {Kind: "pullid", ID: "x", BP: true, UpdatesOnly: true, Consume: "drain", Cancel: "never"},
				slow("stop", true), {Kind: "pull", BP: true, Consume: "drain", Cancel: "end"}}})
	}
	for i := range res {
		res[i].Mode = "stress"
		res[i].BoundMs = b
		res[i].StallMs = stall
	}
	return res
}

// pointScenarios: for every yield point reached in phase 1 and every occurrence up to a cap, a
// scenario in which the subscription's context is cancelled INSIDE that yield (optionally lingering
// there so that the watcher goroutine runs while the other goroutine sits in the window).
func pointScenarios(f lib.Flags, points map[string]int) []Scenario {
	var names []string
	for p := range points {
		names = append(names, p)
	}
	sort.Strings(names)
	capOcc := f.N(5, 12)
	var res []Scenario
	for _, p := range names {
		n := points[p]
		if n > capOcc {
			n = capOcc
		}
		for occ := 1; occ <= n; occ++ {
			for _, r := range []string{"value", "collection"} {
				for vi, variant := range []struct {
					bp      bool
					consume string
					linger  int
				}{{true, "drain", 0}, {true, "drain", 300}, {false, "drain", 300}, {true, "stop", 300}, {true, "none", 0}, {false, "abandon", 0}} {
					if !f.Thorough() && (occ+vi)%2 == 1 && occ > 2 {
						continue
					}
					ws := [][]Op{sets(3), sets(2)}
					subs := []SubSpec{
						{Kind: "pull", BP: variant.bp, Consume: variant.consume, StopAfter: 1, Cancel: "point", Point: p, Occ: occ, LingerUs: variant.linger},
						{Kind: "pull", BP: true, Consume: "drain", Cancel: "end"},
					}
					var initial []string
					if r == "collection" {
						ws = [][]Op{collOps(0, 3, nil), {{Kind: "upd", ID: "x"}, {Kind: "upd", ID: "x"}}}
						initial = []string{"x"}
						subs = append(subs, SubSpec{Kind: "pullid", ID: "x", BP: variant.bp, Consume: "drain", Cancel: "point", Point: p, Occ: occ + 1, LingerUs: variant.linger})
					}
					sc := Scenario{Mode: "stress", Class: "cancel-at/" + p, Res: r, Initial: initial,
						Subs: subs, Writers: ws, BoundMs: boundMs(f)}
					if (occ+vi)%3 == 0 {
						sc = respell(sc, icptNames[(occ/3+vi)%len(icptNames)], nil)
					}
					res = append(res, sc)
				}
			}
		}
	}
	return res
}

// randomScenarios: 0-8 subscribers with mixed options, 0-3 writers, cancels at random instants.
func randomScenarios(f lib.Flags) []Scenario {
	r := lib.NewRand(f.Seed*7919 + 10)
	r2 := lib.NewRand(f.Seed*7919 + 11) // (a source of its own: the scenarios of a seed stay what they were)
	n := f.N(480, 4000)
	var res []Scenario
	for i := 0; i < n; i++ {
		sc := Scenario{Mode: "stress", Class: "random", BoundMs: boundMs(f)}
		if r.Intn(2) == 0 {
			sc.Res = "value"
		} else {
			sc.Res = "collection"
			sc.Initial = []string{"x"}
			if r.Intn(3) == 0 {
				sc.Initial = append(sc.Initial, "w0-a", "w1-b")
			}
			if r.Intn(4) == 0 {
				sc.Eq = []string{"nodup", "msgeq", "equiv"}[r.Intn(3)]
				if r.Intn(2) == 0 {
					sc.Msg = "dur"
				}
			}
		}
		nsub := r.Intn(9)
		if i < n/3 {
			nsub = r.Intn(4) // keep a share of small cases
		}
		nw := r.Intn(4)
		xRemoved := false
		for w := 0; w < nw; w++ {
			k := 1 + r.Intn(8)
			if sc.Res == "value" {
				sc.Writers = append(sc.Writers, sets(k))
			} else {
				sc.Writers = append(sc.Writers, collOps(w, k, r))
			}
		}
		if sc.Res == "collection" && r.Intn(2) == 0 {
			var ops []Op
			for j := r.Intn(4); j > 0; j-- {
				ops = append(ops, Op{Kind: "upd", ID: "x"})
			}
			if r.Intn(2) == 0 {
				if r.Intn(3) == 0 {
					ops = append(ops, Op{Kind: "nap"})
				}
				ops = append(ops, Op{Kind: "del", ID: "x"})
				// delete / re-add / delete ...: x is gone in the end
				for j := r.Intn(3); j > 0 && r.Intn(2) == 0; j-- {
					ops = append(ops, Op{Kind: "upd", ID: "x"}, Op{Kind: "del", ID: "x"})
				}
				xRemoved = true
			}
			if len(ops) > 0 {
				sc.Writers = append(sc.Writers, ops)
			}
		}
		for s := 0; s < nsub; s++ {
			sp := SubSpec{Kind: "pull", BP: r.Intn(2) == 0, UpdatesOnly: r.Intn(3) == 0}
			if sc.Res == "collection" && r.Intn(3) == 0 {
				sp.Kind = "pullid"
				sp.ID = "x"
			}
			if sc.Msg == "dur" && r.Intn(2) == 0 {
				sp.Mask = []string{"nanos", "seconds"}[r.Intn(2)]
			}
			if sc.Res == "collection" && sc.Eq == "" && sp.Mask == "" && r2.Intn(5) == 0 {
				sp.Include = []string{"all", "id", "val"}[r2.Intn(3)]
			}
			switch r.Intn(6) {
			case 5:
				sp.Consume = "pause"
				sp.StopAfter = r.Intn(3)
			case 4:
				sp.Consume = "abandon"
			case 0:
				sp.Consume = "none"
			case 1:
				sp.Consume = "stop"
				sp.StopAfter = r.Intn(4)
			default:
				sp.Consume = "drain"
			}
			switch r.Intn(6) {
			case 0:
				sp.Cancel = "before"
			case 1, 2:
				sp.Cancel = "timer"
				sp.CancelUs = r.Intn(2000)
			case 3:
				sp.Cancel = "point"
				sp.Point = []string{"bus.send.afterSnapshot", "bus.send.beforeListener", "bus.listen.beforeRegister", "listener.stop.enter", "listener.send.locked"}[r.Intn(5)]
				sp.Occ = 1 + r.Intn(10)
				sp.LingerUs = r.Intn(2) * 200
			default:
				sp.Cancel = "end"
				if sp.Kind == "pullid" && xRemoved && (sp.Consume == "drain" || sp.Consume == "pause") && r.Intn(2) == 0 {
					sp.Cancel = "never"
				}
			}
			sc.Subs = append(sc.Subs, sp)
		}
		if r.Intn(4) == 0 {
			sc.LingerAt = []string{"listener.stop.closed", "listener.send.locked", "listener.stop.enter", "bus.listen.beforeRegister"}[r.Intn(4)]
			sc.LingerUs = 100 + r.Intn(300)
		}
		if sc.Res == "collection" && r.Intn(3) == 0 {
			sc = respell(sc, icptNames[r.Intn(len(icptNames))], r)
		}
		res = append(res, sc)
	}
	return res
}
