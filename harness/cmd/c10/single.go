package main

// Single-item subscriptions at trait level: "a single-item subscription also ends when the item is removed".
//
// The adapters built on resource.Collection.PullID (metadatapb.Collection.PullMetadata, hailpb.Model.PullHail,
// publicationpb.Model.PullPublication, vendingpb.Model.PullConsumable / PullStock), the raw PullID itself, and the
// gRPC handlers on top of them.  What is exercised is the window right after the subscribing call has RETURNED: the
// caller holds a channel, the item exists, and the very next thing that happens is an update / a delete of the item
// (or the cancel).  From then on the subscription must behave as a subscription: the delete ends it (the channel
// closes without any cancel), every goroutine started for it returns.
//
// The window is pinned without sleeping: whatever the subscribing call leaves behind to be done by another goroutine
// (the harness knows nothing about which goroutines exist) is parked at its first step through the collection —
//   park=icpt : the collection's id interceptor (resource.WithIDInterceptor, which every trait model passes through to
//               its collections): the first thing PullID / Update / Delete do;
//   park=yield: the yield point coll.onUpdate.beforeListen (updates-only subscriptions only: otherwise the collection's
//               read lock is held there and the delete could not start);
// calls made by the scenario's own goroutine (the subscribing call itself, its writes) are never parked.  The parked
// goroutines are released after the delete has returned.  park="" is the same scenario free-running (a race), and
// when=after-seed the plain sequential use (receive the seed, then delete).

import (
	"context"
	"fmt"
	"sync"
	"sync/atomic"
	"time"

	"github.com/smart-core-os/sc-api/go/traits"
	"google.golang.org/protobuf/proto"
	"google.golang.org/protobuf/types/known/wrapperspb"

	"github.com/smart-core-os/sc-golang/internal/verifhook"
	"github.com/smart-core-os/sc-golang/pkg/resource"
	"github.com/smart-core-os/sc-golang/pkg/trait/hailpb"
	"github.com/smart-core-os/sc-golang/pkg/trait/metadatapb"
	"github.com/smart-core-os/sc-golang/pkg/trait/publicationpb"
	"github.com/smart-core-os/sc-golang/pkg/trait/vendingpb"
	"github.com/smart-core-os/sc-golang/verifharness/lib"
)

type SingleCase struct {
	Adapter string `json:"adapter"` // pullid | metadata | hail | publication | consumable | stock
	Level   string `json:"level"`   // model | server
	Park    string `json:"park"`    // "" | icpt | yield | listen (window.go: the subscribing call itself, between snapshot and Listen)
	When    string `json:"when"`    // at-return | after-seed | in-call (park=listen)
	Action  string `json:"action"`  // del | cancel
	Pre     int    `json:"pre"`     // updates of the item before the action, inside the window
	BP      bool   `json:"bp"`
	UO      bool   `json:"uo"`
	Inc     bool   `json:"inc,omitempty"` // the subscription is made WithInclude(a filter that includes every item)
}

// one single-item subscription API: create makes the item (returns its id), open is the subscribing call (recv reports
// one received change, false = closed), serve is the gRPC handler on a fake stream (nil when the trait has none)
type singleAPI struct {
	create func() string
	open   func(ctx context.Context, id string, opts ...resource.ReadOption) (recv func() bool)
	serve  func(ctx context.Context, id string, uo bool, notify func(n int))
	update func(id string, i int) error
	delete func(id string) error
	call   string // the name of the subscribing call, for signatures
}

const (
	tieLate     = "single-item-adapter"
	tieLateRule = "K4-style acceptor: every single-item scenario (adapter x level x park mode x at-return / after-seed x del / cancel x 0-2 updates in the window x backpressure x updates-only) is run on the real code and its end state — the subscriber's channel closed or still open when the delete has returned and the bound has passed, number of changes received — is given to the Lean late-subscription model (Late.lean with sync = true: the adapter subscribes before it returns; PullID pipeline with or without mergeCollectionExcess), which explores every interleaving of subscribing call, subscription step, writes, pipeline goroutines and an always-receiving subscriber and must have a quiescent end state with exactly this outcome; window scenarios (park=listen: the subscribing call of raw PullID and of the 5 adapters is itself parked at the yield point between Collection.onUpdate's snapshot and bus.Listen, 0-2 updates and the delete are started there; observed through = the writes finished inside the window / the writer sat in a lock wait) go to the window model (Window.lean with locked = true, driver op `window`). non-trivial = the scenario deletes the item; distinct = distinct (adapter, level, park, when, action, pre, bp, uo)"
)

var singleNames = []string{"pullid", "metadata", "hail", "publication", "consumable", "stock"}

func notifyStream[R any](ctx context.Context, notify func(n int)) *fakeStream[R] {
	s := newFake[R](ctx, 1<<20)
	s.notify = notify
	return s
}

func openSingle(name string, ropts ...resource.Option) *singleAPI {
	switch name {
	case "pullid":
		c := resource.NewCollection(ropts...)
		return &singleAPI{call: "PullID",
			create: func() string { c.Add("x", wrapperspb.Int64(0)); return "x" },
			open: func(ctx context.Context, id string, opts ...resource.ReadOption) func() bool {
				ch := c.PullID(ctx, id, opts...)
				return func() bool { _, ok := <-ch; return ok }
			},
			update: func(id string, i int) error { _, err := c.Update(id, wrapperspb.Int64(int64(1+i))); return err },
			delete: func(id string) error { _, err := c.Delete(id); return err },
		}
	case "metadata":
		m := metadatapb.NewCollection(ropts...)
		srv := metadatapb.NewCollectionServer(m)
		return &singleAPI{call: "PullMetadata",
			create: func() string {
				m.UpdateMetadata("x", &traits.Metadata{Name: "x"}, resource.WithCreateIfAbsent())
				return "x"
			},
			open: func(ctx context.Context, id string, opts ...resource.ReadOption) func() bool {
				ch := m.PullMetadata(ctx, id, opts...)
				return func() bool { _, ok := <-ch; return ok }
			},
			serve: func(ctx context.Context, id string, uo bool, notify func(int)) {
				srv.PullMetadata(&traits.PullMetadataRequest{Name: id, UpdatesOnly: uo}, notifyStream[traits.PullMetadataResponse](ctx, notify))
			},
			update: func(id string, i int) error {
				_, err := m.UpdateMetadata(id, &traits.Metadata{Name: id, Appearance: &traits.Metadata_Appearance{Title: fmt.Sprint("t", i)}})
				return err
			},
			delete: func(id string) error { _, err := m.DeleteMetadata(id); return err },
		}
	case "hail":
		m := hailpb.NewModel(ropts...)
		srv := hailpb.NewModelServer(m)
		return &singleAPI{call: "PullHail",
			create: func() string {
				h, err := m.CreateHail(&traits.Hail{State: traits.Hail_CALLED})
				if err != nil {
					return ""
				}
				return h.Id
			},
			open: func(ctx context.Context, id string, opts ...resource.ReadOption) func() bool {
				ch := m.PullHail(ctx, id, opts...)
				return func() bool { _, ok := <-ch; return ok }
			},
			serve: func(ctx context.Context, id string, uo bool, notify func(int)) {
				srv.PullHail(&traits.PullHailRequest{Id: id, UpdatesOnly: uo}, notifyStream[traits.PullHailResponse](ctx, notify))
			},
			update: func(id string, i int) error {
				_, err := m.UpdateHail(&traits.Hail{Id: id, State: traits.Hail_State(1 + i%4)})
				return err
			},
			delete: func(id string) error { _, err := m.DeleteHail(id); return err },
		}
	case "publication":
		m := publicationpb.NewModel(ropts...)
		srv := publicationpb.NewModelServer(m)
		return &singleAPI{call: "PullPublication",
			create: func() string {
				m.CreatePublication(&traits.Publication{Id: "x", Body: []byte{0}})
				return "x"
			},
			open: func(ctx context.Context, id string, opts ...resource.ReadOption) func() bool {
				ch := m.PullPublication(ctx, id, opts...)
				return func() bool { _, ok := <-ch; return ok }
			},
			serve: func(ctx context.Context, id string, uo bool, notify func(int)) {
				srv.PullPublication(&traits.PullPublicationRequest{Id: id, UpdatesOnly: uo}, notifyStream[traits.PullPublicationResponse](ctx, notify))
			},
			update: func(id string, i int) error {
				_, err := m.UpdatePublication(id, &traits.Publication{Id: id, Body: []byte{byte(1 + i%200)}})
				return err
			},
			delete: func(id string) error { _, err := m.DeletePublication(id); return err },
		}
	case "consumable":
		m := vendingpb.NewModel(ropts...)
		return &singleAPI{call: "PullConsumable",
			create: func() string {
				m.CreateConsumable(&traits.Consumable{Name: "x", DisplayName: "d"})
				return "x"
			},
			open: func(ctx context.Context, id string, opts ...resource.ReadOption) func() bool {
				ch := m.PullConsumable(ctx, id, opts...)
				return func() bool { _, ok := <-ch; return ok }
			},
			update: func(id string, i int) error {
				_, err := m.UpdateConsumable(&traits.Consumable{Name: id, DisplayName: fmt.Sprint("d", i)})
				return err
			},
			delete: func(id string) error { _, err := m.DeleteConsumable(id); return err },
		}
	case "stock":
		m := vendingpb.NewModel(ropts...)
		srv := vendingpb.NewModelServer(m)
		return &singleAPI{call: "PullStock",
			create: func() string {
				m.CreateStock(&traits.Consumable_Stock{Consumable: "x", Used: &traits.Consumable_Quantity{Amount: 0}})
				return "x"
			},
			open: func(ctx context.Context, id string, opts ...resource.ReadOption) func() bool {
				ch := m.PullStock(ctx, id, opts...)
				return func() bool { _, ok := <-ch; return ok }
			},
			serve: func(ctx context.Context, id string, uo bool, notify func(int)) {
				srv.PullStock(&traits.PullStockRequest{Consumable: id, UpdatesOnly: uo}, notifyStream[traits.PullStockResponse](ctx, notify))
			},
			update: func(id string, i int) error {
				_, err := m.UpdateStock(&traits.Consumable_Stock{Consumable: id, Used: &traits.Consumable_Quantity{Amount: float32(1 + i)}})
				return err
			},
			delete: func(id string) error { _, err := m.DeleteStock(id); return err },
		}
	}
	return nil
}

func singleScenarios(boundMs int, thorough bool) []Scenario {
	var res []Scenario
	add := func(c SingleCase) {
		cls := "single-item/" + c.Level + "/" + c.When + "/" + c.Action
		if c.Park != "" {
			cls += "/park-" + c.Park
		}
		res = append(res, Scenario{Mode: "single", Class: cls, Res: "trait", Single: &c, BoundMs: boundMs})
	}
	for i, name := range singleNames {
		// smallest first: the delete is the very next thing after the subscribing call returned
		add(SingleCase{Adapter: name, Level: "model", Park: "icpt", When: "at-return", Action: "del", BP: true})
		add(SingleCase{Adapter: name, Level: "model", Park: "icpt", When: "at-return", Action: "del", BP: false, UO: true})
		add(SingleCase{Adapter: name, Level: "model", Park: "yield", When: "at-return", Action: "del", BP: i%2 == 0, UO: true})
		add(SingleCase{Adapter: name, Level: "model", Park: "icpt", When: "at-return", Action: "del", Pre: 1 + i%2, BP: i%2 == 1, UO: i%3 == 0})
		add(SingleCase{Adapter: name, Level: "model", Park: "icpt", When: "at-return", Action: "cancel", Pre: i % 2, BP: i%2 == 0, UO: i%3 == 1})
		add(SingleCase{Adapter: name, Level: "model", Park: "yield", When: "at-return", Action: "cancel", BP: i%2 == 1, UO: true})
		for _, bp := range []bool{true, false} {
			add(SingleCase{Adapter: name, Level: "model", When: "at-return", Action: "del", BP: bp, UO: bp})
			add(SingleCase{Adapter: name, Level: "model", When: "after-seed", Action: "del", Pre: 1, BP: bp})
		}
		add(SingleCase{Adapter: name, Level: "model", Park: "icpt", When: "at-return", Action: "del", Pre: i % 3, BP: i%2 == 0, UO: i%3 == 2, Inc: true})
		add(SingleCase{Adapter: name, Level: "model", When: "after-seed", Action: "del", Pre: 1 - i%2, BP: i%2 == 1, Inc: true})
		add(SingleCase{Adapter: name, Level: "server", When: "after-seed", Action: "del", Pre: i % 2})
		add(SingleCase{Adapter: name, Level: "server", When: "after-seed", Action: "cancel", Pre: 1})
	}
	if thorough {
		// the whole product at model level
		for _, name := range singleNames {
			for _, park := range []string{"icpt", "yield", ""} {
				for _, action := range []string{"del", "cancel"} {
					for pre := 0; pre <= 3; pre++ {
						for _, bp := range []bool{true, false} {
							for _, uo := range []bool{false, true} {
								if park == "yield" && !uo {
									continue
								}
								add(SingleCase{Adapter: name, Level: "model", Park: park, When: "at-return", Action: action, Pre: pre, BP: bp, UO: uo})
							}
						}
					}
				}
			}
		}
	}
	return res
}

func runSingle(sc Scenario, drv *lib.Driver) (out Outcome) {
	if sc.Single.Park == "listen" {
		return runListen(sc, drv)
	}
	o := &out
	c := sc.Single
	bound := time.Duration(sc.BoundMs) * time.Millisecond
	if ok, left, _ := waitBaseline(bound); !ok {
		o.count("dirty-baseline:" + censusSummary(left))
	}

	// the gate: while armed, any goroutine other than the scenario's own is held at its first step through the collection
	var own sync.Map // goroutine ids of the scenario itself (the subscribing caller, its writers)
	own.Store(verifhook.GoID(), true)
	var armed atomic.Bool
	release := make(chan struct{})
	var parked atomic.Int64
	gate := func() {
		if !armed.Load() {
			return
		}
		if _, mine := own.Load(verifhook.GoID()); mine {
			return
		}
		parked.Add(1)
		select {
		case <-release:
		case <-time.After(bound + time.Second): // never leave a goroutine of the code under test parked for good
		}
	}
	var ropts []resource.Option
	switch c.Park {
	case "icpt":
		ropts = append(ropts, resource.WithIDInterceptor(func(id string) string { gate(); return id }))
	case "yield":
		verifhook.Set(func(point string) {
			if point == "coll.onUpdate.beforeListen" {
				gate()
			}
		})
		defer verifhook.Set(nil)
	}
	api := openSingle(c.Adapter, ropts...)
	if api == nil || c.Level == "server" && api.serve == nil {
		o.count("single:no-such-api:" + c.Adapter + "/" + c.Level)
		return
	}
	id := api.create()
	sigBase := "C10/trait/" + c.Adapter + "/" + api.call
	if c.Adapter == "pullid" {
		sigBase = "C10/PullID"
	}
	key := fmt.Sprintf("%s/%s/%s/%s/park=%s", c.Adapter, c.Level, c.When, c.Action, c.Park)

	ctx, cancel := context.WithCancel(context.Background())
	defer cancel()
	opts := []resource.ReadOption{resource.WithBackpressure(c.BP), resource.WithUpdatesOnly(c.UO)}
	if c.Inc {
		// a filter that includes every item: the subscription goes through CollectionChange.include and behaves as without
		opts = append(opts, resource.WithInclude(func(string, proto.Message) bool { return true }))
	}
	closed := make(chan struct{})
	seeded := make(chan struct{})
	var seedOnce sync.Once
	var nRecv atomic.Int64

	armed.Store(true)
	switch c.Level {
	case "model":
		recv := api.open(ctx, id, opts...)
		// ---- the subscribing call has returned: from here on the item is being watched
		go func() {
			defer close(closed)
			for recv() {
				nRecv.Add(1)
				seedOnce.Do(func() { close(seeded) })
			}
		}()
	case "server":
		go func() {
			defer close(closed)
			api.serve(ctx, id, c.UO, func(n int) {
				nRecv.Add(1)
				seedOnce.Do(func() { close(seeded) })
			})
		}()
	}
	if c.When == "after-seed" {
		select {
		case <-seeded:
		case <-time.After(bound):
			o.violate(monShutdown, sigBase+"/no-seed", "a single-item subscription on an existing item (not updates-only) did not deliver the current value",
				"one seed value within "+bound.String(), "nothing received; goroutines: "+censusSummary(census()))
			armed.Store(false)
			close(release)
			return
		}
	}
	write := func(what string, f func() error) bool {
		done := make(chan error, 1)
		// the write is the scenario's own step (the gate lets it pass); it runs in a goroutine only to be bounded
		go func() {
			own.Store(verifhook.GoID(), true)
			defer func() {
				if r := recover(); r != nil {
					done <- fmt.Errorf("panic: %v", r)
				}
			}()
			done <- f()
		}()
		select {
		case err := <-done:
			if err != nil {
				o.count("single:write-error:" + what)
				return false
			}
			return true
		case <-time.After(bound):
			o.violate(monShutdown, sigBase+"/writer-blocked", "a write on the item right after the subscribing call returned does not return although the subscriber is receiving",
				what+" returns within "+bound.String(), "blocked; goroutines: "+censusSummary(census()))
			return false
		}
	}
	okSoFar := true
	for i := 0; i < c.Pre && okSoFar; i++ {
		okSoFar = write("update", func() error { return api.update(id, i) })
	}
	removed := false
	if okSoFar {
		switch c.Action {
		case "del":
			removed = write("delete", func() error { return api.delete(id) })
		case "cancel":
			cancel()
		}
	}
	nParked := parked.Load()
	armed.Store(false)
	close(release)
	o.count(fmt.Sprintf("single:parked=%d", nParked))

	tie := func(observed string) {
		if drv == nil {
			return
		}
		b2i := func(b bool) int {
			if b {
				return 1
			}
			return 0
		}
		ans, err := drv.Ask(fmt.Sprintf("late 1 %d %d %d %s %s", b2i(c.UO), b2i(c.BP), c.Pre, c.Action, observed))
		t := TieRec{Tie: tieLate, Key: fmt.Sprintf("%s/pre=%d/bp=%v/uo=%v%s", key, c.Pre, c.BP, c.UO, map[bool]string{true: "/include"}[c.Inc]), Nontrivial: c.Action == "del", Code: observed}
		switch {
		case err != nil:
			t.Err = "driver: " + err.Error()
		case ans == "ok "+observed:
			t.Model = observed
		default:
			t.Model = ans
		}
		o.Ties = append(o.Ties, t)
		o.count("late:" + c.Action + "/" + c.Level)
	}
	if c.Action == "del" && removed {
		o.eval(monShutdown, "single-item-ends/"+key, true)
		select {
		case <-closed:
		case <-time.After(bound):
		}
		isClosed := false
		select {
		case <-closed:
			isClosed = true
		default:
		}
		tie(fmt.Sprintf("closed=%v,n=%d", isClosed, nRecv.Load()))
		select {
		case <-closed:
			o.eval(monShutdown, "single-item-goroutines-gone-after-remove/"+key, true)
			if ok, left, _ := waitBaseline(bound); !ok {
				o.violate(monShutdown, sigBase+"/goroutine-leak-after-remove",
					"goroutines of a single-item subscription are still alive after its item was removed and its channel closed (context not cancelled)",
					"no goroutine inside pkg/trait/*, pkg/resource or internal/minibus", censusSummary(left))
			}
		default:
			o.violate(monShutdown, sigBase+"/not-closed-after-remove",
				"a single-item subscription is still open although its item was removed after the subscribing call had returned (the delete was the next thing to happen)",
				"closed within "+bound.String()+" of the delete returning", fmt.Sprintf("still open, %d change(s) received; goroutines: %s", nRecv.Load(), censusSummary(census())))
		}
	}
	cancel()
	o.eval(monShutdown, "closed-after-cancel/single/"+key, true)
	select {
	case <-closed:
		if c.Action == "cancel" {
			tie("closed=true")
		}
	case <-time.After(bound):
		if c.Action == "cancel" {
			tie("closed=false")
		}
		o.violate(monShutdown, sigBase+"/close-not-observed-after-cancel",
			"the consumer of a single-item subscription did not see its channel closed (the handler did not return) after the cancel",
			"closed within "+bound.String(), "still open; goroutines: "+censusSummary(census()))
	}
	o.eval(monShutdown, "goroutines-baseline/single/"+key, true)
	if ok, left, _ := waitBaseline(bound); !ok {
		o.violate(monShutdown, sigBase+"/goroutine-leak",
			"goroutines started for a single-item subscription are still alive after its context was cancelled",
			"no goroutine inside pkg/trait/*, pkg/resource or internal/minibus", censusSummary(left))
	}
	return out
}
