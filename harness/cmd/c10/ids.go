package main

// Id interceptors and differently-spelled ids.
//
// A Collection created WithIDInterceptor(f) identifies an item by f(id): every method runs the caller's id
// through f first, and the events it publishes carry the intercepted id.  "A single-item subscription also
// ends when the item is removed" therefore means: PullID(ctx, a) ends on Delete(b) whenever f(a) == f(b),
// however a and b are spelled.  The harness uses a small closed family of named interceptors (shared with
// the Lean driver, where ids are numbers: see idCode()) and, per item, its canonical spelling plus three
// other spellings with the same image under the interceptor.

import (
	"math/rand"
	"strings"
)

var icptNames = []string{"lower", "upper", "trim"}

func icptFunc(name string) func(string) string {
	switch name {
	case "lower":
		return strings.ToLower
	case "upper":
		return strings.ToUpper
	case "trim":
		return strings.TrimSpace
	}
	return nil
}

// canon: the id under which the collection stores / reports the item a caller calls `id` (the oracle's own
// reading of the interceptor: identity when none is configured).
func canon(icpt, id string) string {
	if f := icptFunc(icpt); f != nil {
		return f(id)
	}
	return id
}

// base: the harness's own name of the item, whatever the spelling and the interceptor (only used to
// attribute an event to the writer that owns the item).
func base(id string) string { return strings.ToLower(strings.TrimSpace(id)) }

// spellings returns four spellings of the item with base name b (lower case, no blanks); [0] is the
// canonical one under icpt, and all four have the same image under icpt.  Without an interceptor (or
// one that is not in the family) there is only the base name itself.
func spellings(icpt, b string) []string {
	flip := func(s string, mask int) string {
		rs := []rune(s)
		k := 0
		for i, c := range rs {
			if c >= 'a' && c <= 'z' {
				if mask&(1<<(k%2)) != 0 {
					rs[i] = c - 'a' + 'A'
				}
				k++
			}
		}
		return string(rs)
	}
	switch icpt {
	case "lower":
		return []string{b, flip(b, 1), flip(b, 2), flip(b, 3)}
	case "upper":
		return []string{flip(b, 3), flip(b, 1), flip(b, 2), b}
	case "trim":
		return []string{b, " " + b, b + " ", "\t" + b + " \n"}
	}
	return []string{b}
}

// spell picks one spelling (r == nil: a fixed non-canonical one when variant is true, else the canonical one)
func spell(icpt, b string, r *rand.Rand, variant bool) string {
	sp := spellings(icpt, b)
	if r != nil {
		return sp[r.Intn(len(sp))]
	}
	if variant && len(sp) > 1 {
		return sp[len(sp)-1]
	}
	return sp[0]
}

// respell rewrites a scenario written with base names for a collection with the given id interceptor:
// the initial records get their canonical ids (NewCollection stores initial records as given), every id a
// subscriber or writer passes in gets some spelling of it (random, or alternating canonical / non-canonical
// when r is nil, so that subscriber and writer usually disagree).
func respell(sc Scenario, icpt string, r *rand.Rand) Scenario {
	if sc.Res != "collection" || icptFunc(icpt) == nil {
		return sc
	}
	sc.Icpt = icpt
	sc.Class += "+icpt"
	ini := make([]string, len(sc.Initial))
	for i, id := range sc.Initial {
		ini[i] = spell(icpt, base(id), nil, false)
	}
	sc.Initial = ini
	n := 0
	subs := make([]SubSpec, len(sc.Subs))
	for i, sp := range sc.Subs {
		if sp.ID != "" {
			n++
			sp.ID = spell(icpt, base(sp.ID), r, n%2 == 1)
		}
		subs[i] = sp
	}
	sc.Subs = subs
	ws := make([][]Op, len(sc.Writers))
	for i, ops := range sc.Writers {
		ws[i] = make([]Op, len(ops))
		for j, op := range ops {
			if op.ID != "" {
				n++
				op.ID = spell(icpt, base(op.ID), r, n%2 == 1)
			}
			ws[i][j] = op
		}
	}
	sc.Writers = ws
	return sc
}

// idCode: the number that stands for a spelled id in the Lean driver: item index k (position in `items`), spelling
// index v in spellings(): 4k+v.  Under an interceptor of the family the model's interceptor is n ↦ n - n%4
// (the canonical spelling has v = 0), without one it is the identity: code commutes with the interceptors.
func idCode(icpt string, items []string, id string) (int, bool) {
	for k, b := range items {
		for v, s := range spellings4(icpt, b) {
			if s == id {
				return 4*k + v, true
			}
		}
	}
	return 0, false
}

// spellings4: four spellings also when no interceptor is configured (then they are four different items)
func spellings4(icpt, b string) []string {
	if icptFunc(icpt) == nil {
		return spellings("lower", b)
	}
	return spellings(icpt, b)
}
