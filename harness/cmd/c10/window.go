package main

// The seed-and-register window of a subscription (park=listen).
//
// Collection.onUpdate reads the seed values and registers the bus listener as ONE step with respect to writers: a
// subscription that is not updates-only holds the collection's read lock from the snapshot until bus.Listen has
// returned.  That is what the late-subscription model's atomic `sub` step (Late.lean) and the split model with the
// lock (Window.lean: snap / reg, writers excluded in between) say; it is why "the subscriber was shown the item" and
// "the item was deleted afterwards" together imply "the subscriber is told".
//
// Here the subscribing call ITSELF (raw PullID, raw Pull, the trait adapters built on PullID) is parked at the yield
// point between the two halves, coll.onUpdate.beforeListen, and the scenario's writes (0-2 updates of the item, then
// its delete) are started while it sits there.  Whether the writes get through inside the window is observed, not
// assumed (goroutine wait reason: a lock wait, or the write goroutine finished); then the subscription is released and
// the ordinary single-item oracle applies: the item is gone, the delete has returned, the subscriber is receiving and
// was not cancelled, so its channel must close (a plain Pull subscriber must be handed the REMOVE).  The end state goes
// to the Lean acceptor like every other single-item scenario.

import (
	"context"
	"fmt"
	"sync/atomic"
	"time"

	"github.com/smart-core-os/sc-api/go/types"
	"google.golang.org/protobuf/proto"
	"google.golang.org/protobuf/types/known/wrapperspb"

	"github.com/smart-core-os/sc-golang/internal/verifhook"
	"github.com/smart-core-os/sc-golang/pkg/resource"
	"github.com/smart-core-os/sc-golang/verifharness/lib"
)

// the raw Collection.Pull as a "single-item" API: the subscription counts as ended for item x once the subscriber has
// been handed the REMOVE of x
func openPullAPI(ropts ...resource.Option) *singleAPI {
	c := resource.NewCollection(ropts...)
	return &singleAPI{call: "Pull",
		create: func() string { c.Add("x", wrapperspb.Int64(0)); return "x" },
		open: func(ctx context.Context, id string, opts ...resource.ReadOption) func() bool {
			ch := c.Pull(ctx, opts...)
			return func() bool {
				ch, ok := <-ch
				return ok && !(ch.Id == id && ch.ChangeType == types.ChangeType_REMOVE)
			}
		},
		update: func(id string, i int) error { _, err := c.Update(id, wrapperspb.Int64(int64(1+i))); return err },
		delete: func(id string) error { _, err := c.Delete(id); return err },
	}
}

func listenScenarios(boundMs int, thorough bool) []Scenario {
	var res []Scenario
	add := func(c SingleCase) {
		c.Level, c.Park, c.When, c.Action = "model", "listen", "in-call", "del"
		res = append(res, Scenario{Mode: "single", Class: "single-item/model/in-call/del/park-listen", Res: "trait", Single: &c, BoundMs: boundMs})
	}
	names := append([]string{"pull"}, singleNames...)
	for i, name := range names {
		add(SingleCase{Adapter: name, BP: true})
		add(SingleCase{Adapter: name, BP: false, Pre: i % 3})
		// an updates-only subscription takes no snapshot and no lock: the writes go through inside its window, it is shown
		// nothing and, registered after the delete, goes on until it is cancelled
		add(SingleCase{Adapter: name, BP: i%2 == 0, UO: true, Pre: i % 2})
		add(SingleCase{Adapter: name, BP: i%2 == 1, Pre: (i + 1) % 3, Inc: true})
		if thorough || name == "pullid" || name == "pull" {
			for pre := 0; pre <= 2; pre++ {
				add(SingleCase{Adapter: name, BP: pre%2 == 0, Pre: pre})
				add(SingleCase{Adapter: name, BP: pre%2 == 1, Pre: pre})
			}
		}
	}
	return res
}

func runListen(sc Scenario, drv *lib.Driver) (out Outcome) {
	o := &out
	c := sc.Single
	bound := time.Duration(sc.BoundMs) * time.Millisecond
	if ok, left, _ := waitBaseline(bound); !ok {
		o.count("dirty-baseline:" + censusSummary(left))
	}
	// the first goroutine to reach the yield point is held there until released
	var armed atomic.Bool
	var nParked atomic.Int64
	parkedCh := make(chan struct{})
	release := make(chan struct{})
	verifhook.Set(func(point string) {
		if point != "coll.onUpdate.beforeListen" || !armed.Load() || nParked.Add(1) != 1 {
			return
		}
		close(parkedCh)
		select {
		case <-release:
		case <-time.After(bound + time.Second):
		}
	})
	defer verifhook.Set(nil)

	var api *singleAPI
	if c.Adapter == "pull" {
		api = openPullAPI()
	} else {
		api = openSingle(c.Adapter)
	}
	if api == nil {
		o.count("single:no-such-api:" + c.Adapter)
		return
	}
	id := api.create()
	sigBase := "C10/trait/" + c.Adapter + "/" + api.call
	switch c.Adapter {
	case "pullid":
		sigBase = "C10/PullID"
	case "pull":
		sigBase = "C10/collection/Pull"
	}
	key := fmt.Sprintf("%s/%s/%s/%s/park=%s", c.Adapter, c.Level, c.When, c.Action, c.Park)

	ctx, cancel := context.WithCancel(context.Background())
	defer cancel()
	opts := []resource.ReadOption{resource.WithBackpressure(c.BP), resource.WithUpdatesOnly(c.UO)}
	if c.Inc {
		// a filter that includes every item: the subscription goes through CollectionChange.include and behaves as without
		opts = append(opts, resource.WithInclude(func(string, proto.Message) bool { return true }))
	}
	closed := make(chan struct{})
	var nRecv atomic.Int64
	opened := make(chan struct{})

	armed.Store(true)
	go func() {
		defer close(closed)
		recv := api.open(ctx, id, opts...)
		close(opened)
		for recv() {
			nRecv.Add(1)
		}
	}()
	inWindow := false
	select {
	case <-parkedCh:
		inWindow = true
	case <-opened:
		// the call never came through the yield point: the scenario degenerates to the free-running one
		o.count("single:listen-window-not-reached")
	case <-time.After(bound):
		o.count("single:listen-window-not-reached")
	}

	// the scenario's writes, started while the subscription sits between its snapshot and its registration
	var wgid atomic.Int64
	wdone := make(chan error, 1)
	go func() {
		wgid.Store(verifhook.GoID())
		defer func() {
			if r := recover(); r != nil {
				wdone <- fmt.Errorf("panic: %v", r)
			}
		}()
		for i := 0; i < c.Pre; i++ {
			if err := api.update(id, i); err != nil {
				wdone <- err
				return
			}
		}
		wdone <- api.delete(id)
	}()
	// observe: did the writes get through inside the window?  Either the write goroutine finishes, or it is seen in a
	// lock wait twice in a row (it cannot leave that before the release).
	through, held, finished := false, 0, false
	var werr error
	if inWindow {
		deadline := time.Now().Add(bound / 4)
		for held < 2 && time.Now().Before(deadline) {
			select {
			case werr = <-wdone:
				through, finished = true, true
			default:
			}
			if through {
				break
			}
			if g := wgid.Load(); g != 0 && lockWait(allStates()[g]) {
				held++
			} else {
				held = 0
			}
			time.Sleep(100 * time.Microsecond)
		}
	}
	switch {
	case through:
		o.count("single:listen-window:writes-went-through")
	case held >= 2:
		o.count("single:listen-window:writer-waits-for-lock")
	default:
		o.count("single:listen-window:undetermined")
	}
	armed.Store(false)
	close(release)

	if !finished {
		select {
		case werr = <-wdone:
		case <-time.After(bound):
			o.violate(monShutdown, sigBase+"/writer-blocked", "the writes on an item whose subscription was being made do not return although the subscriber is receiving",
				"update(s) + delete return within "+bound.String()+" of the subscription's registration", "blocked; goroutines: "+censusSummary(census()))
			return
		}
	}
	if werr != nil {
		o.count("single:write-error:listen-window")
		return
	}
	o.eval(monShutdown, "single-item-ends/"+key, !c.UO)
	patience := bound
	if c.UO && through {
		patience = 30 * time.Millisecond // registered after the delete: expected to stay open
	}
	select {
	case <-closed:
	case <-time.After(patience):
	}
	isClosed := false
	select {
	case <-closed:
		isClosed = true
	default:
	}
	if drv != nil && c.Adapter != "pull" && inWindow && (through || held >= 2) {
		b2i := func(b bool) int {
			if b {
				return 1
			}
			return 0
		}
		observed := fmt.Sprintf("through=%v,closed=%v,n=%d", through, isClosed, nRecv.Load())
		ans, err := drv.Ask(fmt.Sprintf("window 1 %d %d %d %s", b2i(c.UO), b2i(c.BP), c.Pre, observed))
		t := TieRec{Tie: tieLate, Key: fmt.Sprintf("%s/pre=%d/bp=%v/uo=%v%s", key, c.Pre, c.BP, c.UO, map[bool]string{true: "/include"}[c.Inc]), Nontrivial: true, Code: observed}
		switch {
		case err != nil:
			t.Err = "driver: " + err.Error()
		case ans == "ok "+observed:
			t.Model = observed
		default:
			t.Model = ans
		}
		o.Ties = append(o.Ties, t)
		o.count("late:del/in-call")
	}
	// the oracle: a subscriber that was shown the item (a seed: not updates-only) and whose item has been deleted since
	if !isClosed && !c.UO {
		what := "a single-item subscription is still open although its item was removed: the delete was issued while the subscription was being made (between its snapshot of the item and the registration of its listener) and has returned"
		if c.Adapter == "pull" {
			what = "a Collection.Pull subscriber that was shown the item was never handed its REMOVE: the delete was issued while the subscription was being made (between its snapshot and the registration of its listener) and has returned"
		}
		sig := sigBase + "/not-closed-after-remove"
		if c.Adapter == "pull" {
			sig = sigBase + "/remove-not-delivered"
		}
		o.violate(monShutdown, sig, what,
			"ended within "+bound.String()+" of the delete returning",
			fmt.Sprintf("still open, %d change(s) received, writes went through inside the window: %v; goroutines: %s", nRecv.Load(), through, censusSummary(census())))
	}
	cancel()
	o.eval(monShutdown, "closed-after-cancel/single/"+key, true)
	select {
	case <-closed:
	case <-time.After(bound):
		o.violate(monShutdown, sigBase+"/close-not-observed-after-cancel",
			"the consumer of a subscription did not see its channel closed after the cancel",
			"closed within "+bound.String(), "still open; goroutines: "+censusSummary(census()))
	}
	o.eval(monShutdown, "goroutines-baseline/single/"+key, true)
	if ok, left, _ := waitBaseline(bound); !ok {
		o.violate(monShutdown, sigBase+"/goroutine-leak",
			"goroutines started for a subscription are still alive after its context was cancelled",
			"no goroutine inside pkg/trait/*, pkg/resource or internal/minibus", censusSummary(left))
	}
	return out
}
