// Harness for C10 (subscriptions and the event bus shut down cleanly under any timing).
//
// Parent process: generates scenarios, runs them in worker child processes (a panic in a goroutine
// started by the code under test kills the process; the parent turns that into a violation with the
// scenario as replay), aggregates ties and monitors into result.json.
// Worker (env C10_WORKER=1): reads scenarios (JSON lines) on stdin, prints "B <idx>" before and
// "E <idx> <outcome>" after each.
package main

import (
	"bufio"
	"bytes"
	"encoding/json"
	"fmt"
	"os"
	"os/exec"
	"regexp"
	"sort"
	"strings"
	"sync"
	"sync/atomic"
	"time"

	"github.com/smart-core-os/sc-golang/verifharness/lib"
)

func main() {
	f := lib.ParseFlags()
	if os.Getenv("C10_WORKER") == "1" {
		worker(f)
		return
	}
	if f.Replay != "" {
		os.Exit(replay(f))
	}
	res := lib.NewResult("C10", f)
	agg := newAgg(res)

	// long-stall scenarios (each a little over 5 s of wall-clock): in worker processes of their own, concurrently with
	// the two phases below
	stalls := stallScenarios(f)
	stallDone := make(chan []Outcome, 1)
	go func() { stallDone <- runAll(f, stalls, len(stalls)) }()

	// phase 1: fixed small scenarios (smallest first: the first failing input per signature is the replay)
	// + the K4 schedule tie cases
	first := fixedScenarios(f)
	first = append(first, schedScenarios(f)...)
	first = append(first, raceScenarios(f)...)
	first = append(first, adapterScenarios(boundMs(f))...)
	first = append(first, singleScenarios(boundMs(f), f.Thorough())...)
	first = append(first, listenScenarios(boundMs(f), f.Thorough())...)
	first = append(first, pipeScenarios(f)...)
	first = append(first, mergeScenarios(f.N(5, 7))...)
	// (tiny, and in front: a broken filter stage fails many scenarios, and the run stops early after 8 failing ones)
	first = append(includeScenarios(f.N(4, 6), boundMs(f)), first...)
	outs := runAll(f, first, f.N(4, 8))
	points := map[string]int{}
	for i, o := range outs {
		agg.add(first[i], o)
		for p, n := range o.Points {
			if n > points[p] {
				points[p] = n
			}
		}
	}
	// phase 2: cancel injected at every yield point that phase 1 reached (enumerated), then random stress
	second := pointScenarios(f, points)
	second = append(second, randomScenarios(f)...)
	outs = runAll(f, second, f.N(4, 8))
	for i, o := range outs {
		agg.add(second[i], o)
	}
	for i, o := range <-stallDone {
		agg.add(stalls[i], o)
	}
	var ps []string
	for p, n := range points {
		ps = append(ps, fmt.Sprintf("%s:%d", p, n))
	}
	sort.Strings(ps)
	res.Extra["yield_points_reached"] = ps
	res.Extra["scenarios"] = len(first) + len(second) + len(stalls)
	if n := skipped.Load(); n > 0 {
		res.Notes = append(res.Notes, fmt.Sprintf("stopped early after %d failing scenarios: %d scenarios not run", stopEarly.Load(), n))
	}
	if err := res.Write(f.Out); err != nil {
		lib.Fatal(err)
	}
}

// ---------------------------------------------------------------------------------------------

type agg struct {
	res  *lib.Result
	mons map[string]*lib.Monitor
	ties map[string]*lib.Tie
}

func newAgg(res *lib.Result) *agg {
	a := &agg{res: res, mons: map[string]*lib.Monitor{}, ties: map[string]*lib.Tie{}}
	a.ties[tieSched] = res.Tie(tieSched, "K4", tieSchedRule)
	a.ties[tiePipe] = res.Tie(tiePipe, "K4", tiePipeRule)
	a.ties[tieLate] = res.Tie(tieLate, "K4", tieLateRule)
	a.ties[tieMerge] = res.Tie(tieMerge, "K2", tieMergeRule)
	a.ties[tieMerge].Exhaustive = true
	a.ties[tieInclude] = res.Tie(tieInclude, "K2", tieIncludeRule)
	a.ties[tieInclude].Exhaustive = true
	a.mons[monShutdown] = res.Monitor(monShutdown,
		"real pkg/resource + minibus under scenarios (0-8 subscribers, backpressure on/off, updates-only, PullID; consumers drain / stop after k / never receive; cancel before subscribe, at the n-th occurrence of every yield point, at random instants, at the end; 0-3 writers): after the cancel the consumer sees close within the bound; writers return once every non-receiving subscriber is cancelled; a write issued after a subscription ended returns; PullID closes after its item is removed - with backpressure after the first removal, without once the item is gone for good - also for a consumer that stayed away while the item was deleted / re-added / deleted behind it and came back without cancelling, and on collections built WithNoDuplicates / WithMessageEquivalence / WithEquivalence (items of two message types, the empty message included; read masks that select the payload or only a never-set field) and for subscriptions made WithInclude (a filter that includes everything / every item but one writer's / items by payload) (collections with an id interceptor lower/upper/trim: subscriber and writers spell the ids differently, the oracle keys everything by the intercepted id); trait-level subscriptions (Pull adapters of 10 trait models; the ModelServer gRPC Pull handlers of the same 10 traits on a stream whose Send starts failing at message 1, 2 or 3, or never; the Group Pull handlers of lightpb / onoffpb over three member devices on the same streams: after a failed Send the handler returns and everything it started is gone while the stream's context is still live): drain or stop receiving, writes, then cancel, also with an already-cancelled context; the goroutine census (runtime.Stack filtered to pkg/resource + internal/minibus + pkg/trait/* frames) returns to empty; no panic (recovered or process-killing). non-trivial = at least one subscriber; distinct = distinct check x subscription class x consumer/cancel mode")
	a.mons[monDelivery] = res.Monitor(monDelivery,
		"oracle: per-writer list of the writes that succeeded. Bus level (free-running, no yield points): rounds with 300-12000 already-cancelled listeners so that the next Send collects, 4-12 goroutines subscribing while 1-2 Sends run, then a sentinel Send: every listener whose Listen returned before the sentinel Send began must receive it exactly once. Resource level: a backpressure subscriber subscribed before the writers start, receiving throughout and not cancelled until they finished must receive each writer's events exactly once in that writer's order; every other subscriber must see strictly increasing sequence numbers per writer (no duplicate, no reordering); net effect: mergeChanges folded over every valid sequence of 1-5 change types of one item from both start states (a receiver's view of the item as one bool: the held change is applicable and leads to the item's state, nothing held = up to date, newest value carried); what a receiving, uncancelled Collection.Pull subscriber (with or without backpressure) has received adds up, once the writers are done, to the items that exist (a removal or re-creation of an item it was shown is never lost, whatever the lossy stage merged); a subscriber whose read mask hides the payload is judged by item and change type. WithInclude subscribers: under backpressure exactly the ADD / UPDATE / REMOVE sequence the filter makes of the writes, otherwise the view adds up to 'exists and included'; include table: every change told is applicable to the subscriber's view and the view ends at 'exists and included'. non-trivial = at least one event expected/received")
	return a
}

func (a *agg) add(sc Scenario, o Outcome) {
	for _, e := range o.Evals {
		m := a.mons[e.Mon]
		var sample any
		if m.Evaluations < 3 {
			sample = map[string]any{"check": e.Key, "scenario": sc}
		}
		m.Eval(e.Key, e.Nontrivial, sample)
	}
	for _, v := range o.Viols {
		a.mons[v.Mon].Violate(v.Sig, v.What, sc, v.Expected, v.Observed)
	}
	for _, t := range o.Ties {
		tie := a.ties[t.Tie]
		if t.Err != "" {
			tie.Fail(fmt.Errorf("%s", t.Err))
			continue
		}
		tie.Record(t.Key, t.Nontrivial, sc, t.Model, t.Code)
	}
	for k, n := range o.Counts {
		dst := a.mons[monShutdown].Distribution
		if strings.HasPrefix(k, "tie:") {
			dst = a.ties[tieSched].Distribution
			k = strings.TrimPrefix(k, "tie:")
		} else if strings.HasPrefix(k, "pipe:") {
			dst = a.ties[tiePipe].Distribution
			k = strings.TrimPrefix(k, "pipe:")
		} else if strings.HasPrefix(k, "late:") {
			dst = a.ties[tieLate].Distribution
			k = strings.TrimPrefix(k, "late:")
		} else if strings.HasPrefix(k, "merge:") {
			dst = a.ties[tieMerge].Distribution
			k = strings.TrimPrefix(k, "merge:")
		} else if strings.HasPrefix(k, "include:") {
			dst = a.ties[tieInclude].Distribution
			k = strings.TrimPrefix(k, "include:")
		}
		dst[k] += n
	}
	a.mons[monShutdown].Count("class:" + sc.Class)
}

// ---------------------------------------------------------------------------------------------
// worker management

func worker(f lib.Flags) {
	in := bufio.NewReaderSize(os.Stdin, 1<<20)
	out := bufio.NewWriter(os.Stdout)
	defer out.Flush()
	var drv *lib.Driver
	tieBroken, pipeBroken := 0, 0
	defer func() {
		if drv != nil {
			drv.Close()
		}
	}()
	for {
		line, err := in.ReadBytes('\n')
		if len(bytes.TrimSpace(line)) > 0 {
			var req struct {
				Idx int      `json:"idx"`
				Sc  Scenario `json:"sc"`
			}
			if jerr := json.Unmarshal(line, &req); jerr != nil {
				fmt.Fprintln(os.Stderr, "worker: bad request:", jerr)
				os.Exit(3)
			}
			fmt.Fprintf(out, "B %d\n", req.Idx)
			out.Flush()
			var o Outcome
			t0 := time.Now()
			switch req.Sc.Mode {
			case "pipe":
				if drv == nil {
					d, derr := lib.StartDriver(f.Driver)
					if derr != nil {
						o.Ties = append(o.Ties, TieRec{Tie: tiePipe, Err: "driver: " + derr.Error()})
					}
					drv = d
				}
				if drv != nil && pipeBroken < 3 {
					o = runPipe(req.Sc, drv)
					if settleTimedOut(o) {
						// "not quiescent within the bound" is a wall-clock verdict: confirm it on a fresh instance before it
						// counts (a real hang reproduces: the schedule is scripted; a starved poller on a loaded machine does not)
						waitBaseline(time.Duration(req.Sc.BoundMs) * time.Millisecond)
						o = runPipe(req.Sc, drv)
						o.count("pipe:settle-timeout-rechecked")
					}
					for _, t := range o.Ties {
						if t.Err != "" || t.Model != t.Code {
							pipeBroken++
						}
					}
				} else if drv != nil {
					o.count("pipe:skipped-after-3-disagreements")
				}
			case "sched":
				if drv == nil {
					d, derr := lib.StartDriver(f.Driver)
					if derr != nil {
						o.Ties = append(o.Ties, TieRec{Tie: tieSched, Err: "driver: " + derr.Error()})
					}
					drv = d
				}
				if drv != nil && tieBroken < 3 {
					o = runSched(req.Sc, drv)
					if settleTimedOut(o) {
						waitBaseline(time.Duration(req.Sc.BoundMs) * time.Millisecond)
						o = runSched(req.Sc, drv)
						o.count("tie:settle-timeout-rechecked")
					}
					for _, t := range o.Ties {
						if t.Err != "" || t.Model != t.Code {
							tieBroken++
						}
					}
				} else if drv != nil {
					// the tie is already known to be broken: do not spend the budget on more schedules
					// (each disagreement can cost a full quiescence bound); the monitors keep running
					o.count("tie:skipped-after-3-disagreements")
				}
			case "merge":
				if drv == nil {
					d, derr := lib.StartDriver(f.Driver)
					if derr != nil {
						o.Ties = append(o.Ties, TieRec{Tie: tieMerge, Err: "driver: " + derr.Error()})
					}
					drv = d
				}
				o2 := runMerge(req.Sc, drv)
				o2.Ties = append(o.Ties, o2.Ties...)
				o = o2
			case "include":
				if drv == nil {
					d, derr := lib.StartDriver(f.Driver)
					if derr != nil {
						o.Ties = append(o.Ties, TieRec{Tie: tieInclude, Err: "driver: " + derr.Error()})
					}
					drv = d
				}
				o2 := runInclude(req.Sc, drv)
				o2.Ties = append(o.Ties, o2.Ties...)
				o = o2
			case "race":
				o = runRace(req.Sc)
			case "adapter":
				o = runAdapter(req.Sc)
			case "single":
				if drv == nil {
					d, derr := lib.StartDriver(f.Driver)
					if derr != nil {
						o.Ties = append(o.Ties, TieRec{Tie: tieLate, Err: "driver: " + derr.Error()})
					}
					drv = d
				}
				o2 := runSingle(req.Sc, drv)
				o2.Ties = append(o.Ties, o2.Ties...)
				o = o2
			default:
				o = runStress(req.Sc)
			}
			if d := time.Since(t0); d > 300*time.Millisecond && req.Sc.StallMs == 0 {
				o.count("slow>300ms:" + req.Sc.Mode + "/" + req.Sc.Class)
			}
			b, _ := json.Marshal(o)
			fmt.Fprintf(out, "E %d %s\n", req.Idx, b)
			out.Flush()
			if ok, _, _ := waitBaseline(50 * time.Millisecond); !ok {
				// goroutines of the code under test are stuck in this process: continue in a fresh one
				return
			}
		}
		if err != nil {
			return
		}
	}
}

// settleTimedOut: the only thing wrong with the outcome is a tie record saying the real code did not come to rest
// within the wall-clock bound
func settleTimedOut(o Outcome) bool {
	if len(o.Viols) > 0 {
		return false
	}
	timedOut := false
	for _, t := range o.Ties {
		if t.Err != "" {
			return false
		}
		if t.Model != t.Code {
			if t.Model != "a quiescent state" {
				return false
			}
			timedOut = true
		}
	}
	return timedOut
}

var stopEarly, skipped atomic.Int64

var panicRe = regexp.MustCompile(`(?m)^(panic|fatal error): (.*)$`)

// runShard runs scs[idxs...] in one child; on a crash the scenario in progress gets a crash outcome
// and a new child continues with the rest.
func runShard(f lib.Flags, scs []Scenario, idxs []int, outs []Outcome) {
	for len(idxs) > 0 {
		exe, _ := os.Executable()
		cmd := exec.Command(exe, "-tier", f.Tier, "-seed", fmt.Sprint(f.Seed), "-driver", f.Driver)
		cmd.Env = append(os.Environ(), "C10_WORKER=1")
		var stderr bytes.Buffer
		cmd.Stderr = &stderr
		stdin, _ := cmd.StdinPipe()
		stdout, _ := cmd.StdoutPipe()
		if err := cmd.Start(); err != nil {
			lib.Fatal(err)
		}
		go func(idxs []int) {
			w := bufio.NewWriter(stdin)
			for _, i := range idxs {
				b, _ := json.Marshal(map[string]any{"idx": i, "sc": scs[i]})
				w.Write(b)
				w.WriteByte('\n')
			}
			w.Flush()
			stdin.Close()
		}(idxs)
		rd := bufio.NewReaderSize(stdout, 1<<20)
		begun, pos := -1, 0
		for {
			line, err := rd.ReadString('\n')
			if strings.HasPrefix(line, "B ") {
				fmt.Sscanf(line, "B %d", &begun)
			} else if strings.HasPrefix(line, "E ") {
				var i int
				fmt.Sscanf(line, "E %d", &i)
				rest := strings.SplitN(strings.TrimSpace(line), " ", 3)
				var o Outcome
				if len(rest) == 3 && json.Unmarshal([]byte(rest[2]), &o) == nil {
					outs[i] = o
					if len(o.Viols) > 0 {
						// enough failing inputs: do not spend the whole budget waiting on blocked goroutines
						if stopEarly.Add(1) >= 8 {
							cmd.Process.Kill()
						}
					}
				}
				begun = -1
				pos++
			}
			if err != nil {
				break
			}
		}
		cmd.Wait()
		if pos >= len(idxs) {
			return
		}
		if stopEarly.Load() >= 8 {
			skipped.Add(int64(len(idxs) - pos))
			return
		}
		if begun == -1 {
			// the child left on purpose (stuck goroutines after a failing scenario) or was stopped: go on in a new one
			idxs = idxs[pos:]
			continue
		}
		// the child died inside scenario idxs[pos]
		i := idxs[pos]
		msg := stderr.String()
		what := "process ended unexpectedly"
		if m := panicRe.FindStringSubmatch(msg); m != nil {
			what = m[1] + ": " + m[2]
		}
		slug := strings.NewReplacer(" ", "-", ":", "").Replace(strings.ToLower(what))
		if len(msg) > 1500 {
			msg = msg[:1500]
		}
		var o Outcome
		o.violate(monShutdown, "C10/"+scs[i].Res+"/process-crash/"+slug,
			"the process died while running this scenario (a panic in a goroutine started by the code under test)", "no panic", msg)
		outs[i] = o
		_ = begun
		idxs = idxs[pos+1:]
		if stopEarly.Add(1) >= 8 {
			skipped.Add(int64(len(idxs)))
			return
		}
	}
}

func runAll(f lib.Flags, scs []Scenario, shards int) []Outcome {
	outs := make([]Outcome, len(scs))
	if len(scs) == 0 {
		return outs
	}
	if shards > len(scs) {
		shards = len(scs)
	}
	parts := make([][]int, shards)
	for i := range scs {
		parts[i%shards] = append(parts[i%shards], i)
	}
	var wg sync.WaitGroup
	for _, p := range parts {
		wg.Add(1)
		go func() {
			defer wg.Done()
			runShard(f, scs, p, outs)
		}()
	}
	wg.Wait()
	return outs
}

// ---------------------------------------------------------------------------------------------

func replay(f lib.Flags) int {
	rp, err := lib.ReadReplay(f.Replay)
	if err != nil {
		lib.Fatal(err)
	}
	b, _ := json.Marshal(rp.Input)
	var sc Scenario
	if rp.Input == nil || json.Unmarshal(b, &sc) != nil || sc.Res == "" && sc.Sched == nil && sc.Race == nil && sc.Pipe == nil && sc.Adapter == nil && sc.Single == nil && sc.Merge == nil && sc.Incl == nil {
		fmt.Println("replay: no concrete input in file (", rp.Kind, rp.Broken, ")")
		return 2
	}
	outs := runAll(f, []Scenario{sc}, 1)
	fmt.Printf("replay scenario %s\n", b)
	bad := 0
	for _, v := range outs[0].Viols {
		fmt.Printf("STILL FAILS %s: %s (expected %s, observed %s)\n", v.Sig, v.What, v.Expected, v.Observed)
		bad++
	}
	for _, t := range outs[0].Ties {
		if t.Model != t.Code || t.Err != "" {
			fmt.Printf("STILL DISAGREES %s: model=%s code=%s %s\n", t.Tie, t.Model, t.Code, t.Err)
			bad++
		}
	}
	if bad > 0 {
		return 1
	}
	fmt.Println("replay: property holds on this input now")
	return 0
}
