package main

import (
	"fmt"
	"regexp"
	"runtime"
	"sort"
	"strconv"
	"strings"
	"time"
)

// A gor is one goroutine of the all-goroutines dump that has at least one frame in the code under
// test (pkg/resource or internal/minibus); harness goroutines that merely call into it count too
// (a writer blocked inside Bus.Send is exactly what we want to see).
type gor struct {
	ID    int64
	State string // wait reason from the header: "select", "chan send", "chan receive", "sync.RWMutex.Lock", "running", ...
	Fn    string // innermost frame inside the code under test, shortened: "minibus.(*listener).send"
	Fns   []string
}

var (
	hdrRe   = regexp.MustCompile(`^goroutine (\d+) \[([^\],]+)(?:, [^\]]*)?\]:`)
	underRe = regexp.MustCompile(`^github\.com/smart-core-os/sc-golang/(pkg/resource|internal/minibus|pkg/trait/\w+|pkg/group|pkg/wrap)\.`)
)

func stackDump() string {
	n := 1 << 18
	for {
		buf := make([]byte, n)
		m := runtime.Stack(buf, true)
		if m < n {
			return string(buf[:m])
		}
		n *= 2
	}
}

func shorten(fn string) string {
	fn = strings.TrimPrefix(fn, "github.com/smart-core-os/sc-golang/")
	fn = strings.TrimPrefix(fn, "pkg/")
	fn = strings.TrimPrefix(fn, "internal/")
	if i := strings.LastIndex(fn, "("); i > 0 && strings.HasSuffix(fn, ")") {
		// strip the argument list "(0x..., ...)" of a frame line
		depth := 0
		for j := len(fn) - 1; j >= 0; j-- {
			if fn[j] == ')' {
				depth++
			} else if fn[j] == '(' {
				depth--
				if depth == 0 {
					fn = fn[:j]
					break
				}
			}
		}
	}
	return fn
}

// census parses the dump and returns the goroutines that are inside the code under test.
func census() []gor {
	var res []gor
	for _, block := range strings.Split(stackDump(), "\n\n") {
		lines := strings.Split(block, "\n")
		if len(lines) == 0 {
			continue
		}
		m := hdrRe.FindStringSubmatch(lines[0])
		if m == nil {
			continue
		}
		id, _ := strconv.ParseInt(m[1], 10, 64)
		g := gor{ID: id, State: m[2]}
		for _, l := range lines[1:] {
			if strings.HasPrefix(l, "\t") || strings.HasPrefix(l, "created by ") {
				continue
			}
			if underRe.MatchString(l) {
				g.Fns = append(g.Fns, shorten(l))
			}
		}
		if len(g.Fns) > 0 {
			g.Fn = g.Fns[0]
			res = append(res, g)
		}
	}
	return res
}

// censusSummary is a canonical "fn[state] xN" list.
func censusSummary(gs []gor) string {
	cnt := map[string]int{}
	for _, g := range gs {
		cnt[g.Fn+"["+g.State+"]"]++
	}
	var keys []string
	for k := range cnt {
		keys = append(keys, k)
	}
	sort.Strings(keys)
	var parts []string
	for _, k := range keys {
		parts = append(parts, fmt.Sprintf("%s x%d", k, cnt[k]))
	}
	return strings.Join(parts, "; ")
}

// waitBaseline polls until no goroutine is inside the code under test or the bound expires.
func waitBaseline(bound time.Duration) (ok bool, left []gor, took time.Duration) {
	t0 := time.Now()
	sleep := 50 * time.Microsecond
	for {
		left = census()
		if len(left) == 0 {
			return true, nil, time.Since(t0)
		}
		if time.Since(t0) > bound {
			return false, left, time.Since(t0)
		}
		time.Sleep(sleep)
		if sleep < 5*time.Millisecond {
			sleep *= 2
		}
	}
}

// quiescent reports whether every goroutine inside the code under test is parked in a blocking
// operation (channel op, select, lock wait) as opposed to running/runnable.
func blockedState(s string) bool {
	switch s {
	case "select", "chan send", "chan receive", "sync.RWMutex.Lock", "sync.RWMutex.RLock", "sync.Mutex.Lock",
		"semacquire", "sync.Cond.Wait", "select (no cases)", "chan send (nil chan)", "chan receive (nil chan)":
		return true
	}
	return false
}
