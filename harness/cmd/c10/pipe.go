package main

// K4-style tie for the forwarding goroutines of pkg/resource (Value.Pull, Collection.Pull, PullID,
// DropExcess, mergeCollectionExcess) against the COMPOSED Lean model (bus + pipeline, lean/ScVerif/C10/Sys.lean)
// through the driver (acceptor, lean/ScVerif/C10/DrvSys.lean).  Goroutines are never identified by name:
// the observation is the NUMBER of goroutines inside the code under test that are not the harness's own
// writers, which writers are still blocked, what the consumer received, and whether it saw the close.

import (
	"context"
	"fmt"
	"math/rand"
	"runtime"
	"strings"
	"sync"
	"time"

	"github.com/smart-core-os/sc-api/go/types"
	"github.com/smart-core-os/sc-golang/internal/verifhook"
	"github.com/smart-core-os/sc-golang/pkg/resource"
	"github.com/smart-core-os/sc-golang/verifharness/lib"
	"google.golang.org/protobuf/types/known/wrapperspb"
)

const (
	tiePipe     = "forwarder-pipeline"
	tiePipeRule = "K4-style: one real subscription (Value.Pull / Collection.Pull / Collection.PullID; backpressure on/off; updates-only on/off) driven by random macro moves {write (Set / Update or Delete of the watched item, of the writer's own item or of an item an earlier writer touched, incl. re-adding a deleted item; each in its own goroutine; the harness tells the model the change type ADD/UPDATE/REMOVE from its own bookkeeping of which items exist and only issues writes whose outcome is determined), one consumer receive, cancel}, plus burst scenarios (every write before the first receive, so that forwarder and excess stage fill up: mergeChanges incl. ADD+REMOVE annihilation and REMOVE+ADD = REPLACE) and churn bursts (no backpressure: 0-3 updates of the watched item that park in the stages, then 3-5 writes that delete the item when it exists and re-add it when it does not: REPLACE+REMOVE = REMOVE, REMOVE+ADD+REMOVE ...); after every move the harness waits until every goroutine inside pkg/resource + internal/minibus and every writer is blocked (wait reason from runtime.Stack) and reports G = number of live goroutines of the subscription (counted by package path, not by name), per writer done/blocked, the tags the consumer received (a Collection.Pull consumer also the change types a/u/r/p), receive pending, close seen; the composed Lean model (bus + excess stage + forwarder + PullID stage, free-running: all interleavings and select choices) must reach a quiescent configuration with exactly this observation. one evaluation = one scenario; non-trivial = it contains a cancel or a Delete with at least one write; distinct = distinct (shape, op sequence)"
)

type PipeCase struct {
	Seed        int64  `json:"seed"`
	Res         string `json:"res"`  // value | collection
	Kind        string `json:"kind"` // pull | pullid
	BP          bool   `json:"bp"`
	UpdatesOnly bool   `json:"uo"`
	Writers     int    `json:"writers"`
	Steps       int    `json:"steps"`
	// Icpt: id interceptor of the collection ("" | lower | upper | trim); subscriber and writers then pick any of
	// the four spellings of an item (see ids.go). Pre: the context is already cancelled when the subscription is made.
	Icpt string `json:"icpt,omitempty"`
	Pre  bool   `json:"pre,omitempty"`
	// Burst: all the writes first, with nobody receiving, then the receives: the stages fill up (forwarder holding,
	// writers blocked or - without backpressure - the excess stage merging / dropping), then drain.
	Burst bool `json:"burst,omitempty"`
	// Churn (bursts only): the first Fill writes update the watched item (they park in the stages of the subscription),
	// the following ones delete it when it exists and re-add it when it does not (now and then something else): the
	// delete / re-add / delete ... tail is folded by mergeChanges in the lossy stage, on top of whatever is queued there
	Churn bool `json:"churn,omitempty"`
	Fill  int  `json:"fill,omitempty"`
}

func pipeScenarios(f lib.Flags) []Scenario {
	r := lib.NewRand(f.Seed*3571 + 29)
	n := f.N(240, 2400)
	var res []Scenario
	for i := 0; i < n; i++ {
		pc := PipeCase{Seed: r.Int63(), Res: "value", Kind: "pull", BP: i%2 == 0, UpdatesOnly: (i/2)%2 == 0,
			Writers: 1 + r.Intn(4), Steps: 4 + r.Intn(10)}
		switch (i / 4) % 3 {
		case 1:
			pc.Res = "collection"
		case 2:
			pc.Res, pc.Kind = "collection", "pullid"
		}
		if pc.Res == "collection" && (i/12)%2 == 1 {
			pc.Icpt = icptNames[(i/24)%len(icptNames)]
		}
		pc.Pre = i%7 == 3
		res = append(res, Scenario{Mode: "pipe", Class: "pipeline/" + pc.Res + "/" + pc.Kind, Res: pc.Res, Pipe: &pc, BoundMs: boundMs(f)})
	}
	// bursts: the same shapes (two thirds of them without backpressure), every write before the first receive
	for i := 0; i < n/4; i++ {
		w := 2 + r.Intn(3)
		pc := PipeCase{Seed: r.Int63(), Res: "collection", Kind: "pull", BP: i%3 == 2, UpdatesOnly: (i/3)%2 == 0,
			Writers: w, Steps: w + 2 + r.Intn(5), Burst: true}
		switch (i / 6) % 4 {
		case 2:
			pc.Kind = "pullid"
		case 3:
			pc.Res = "value"
		}
		if pc.Res == "collection" && (i/24)%2 == 1 {
			pc.Icpt = icptNames[(i/48)%len(icptNames)]
		}
		res = append(res, Scenario{Mode: "pipe", Class: "pipeline/" + pc.Res + "/" + pc.Kind + "/burst", Res: pc.Res, Pipe: &pc, BoundMs: boundMs(f)})
	}
	// churn bursts: no backpressure, 0-3 updates of the watched item, then 3-5 deletes / re-adds of it
	for i := 0; i < n/6; i++ {
		fill := i % 4
		pc := PipeCase{Seed: r.Int63(), Res: "collection", Kind: "pull", BP: false, UpdatesOnly: (i/8)%2 == 1,
			Burst: true, Churn: true, Fill: fill}
		pc.Writers = fill + 3 + r.Intn(3)
		pc.Steps = pc.Writers + 2 + r.Intn(5)
		if (i/4)%2 == 1 {
			pc.Kind = "pullid"
		}
		if (i/16)%3 == 2 {
			pc.Icpt = icptNames[(i/48)%len(icptNames)]
		}
		res = append(res, Scenario{Mode: "pipe", Class: "pipeline/" + pc.Res + "/" + pc.Kind + "/churn", Res: pc.Res, Pipe: &pc, BoundMs: boundMs(f)})
	}
	return res
}

type pipeWriter struct {
	gid  int64
	done bool
	// key: the stored id of the item the write is about; isDelete: it is a Collection.Delete (which publishes while
	// holding the collection's lock: until it is done every later write waits for the lock, uncommitted)
	key      string
	isDelete bool
}

func runPipe(sc Scenario, drv *lib.Driver) (out Outcome) {
	o := &out
	pc := sc.Pipe
	bound := time.Duration(sc.BoundMs) * time.Millisecond
	verifhook.Set(nil)
	waitBaseline(bound)

	var mu sync.Mutex
	var value *resource.Value
	var coll *resource.Collection
	seeds := "-"
	if pc.Res == "value" {
		value = resource.NewValue(resource.WithInitialValue(wrapperspb.Int64(0)))
		if !pc.UpdatesOnly {
			seeds = "0"
		}
	}
	// items of the collection by base name: index k in this list, spelling v of it has the code 4k+v (ids.go)
	items := []string{"xa"}
	for t := 0; t < pc.Writers; t++ {
		items = append(items, fmt.Sprintf("n%db", t))
	}
	xCanon := spellings4(pc.Icpt, "xa")[0]
	r := rand.New(rand.NewSource(pc.Seed))
	subID := xCanon
	if value == nil {
		copts := []resource.Option{resource.WithInitialRecord(xCanon, wrapperspb.Int64(0))}
		if f := icptFunc(pc.Icpt); f != nil {
			copts = append(copts, resource.WithIDInterceptor(f))
		}
		coll = resource.NewCollection(copts...)
		if !pc.UpdatesOnly {
			seeds = "0"
		}
		if pc.Icpt != "" || r.Intn(4) == 0 {
			// any spelling; without an interceptor the other spellings are other (absent) items
			subID = spellings4(pc.Icpt, "xa")[r.Intn(4)]
		}
	}
	ctx, cancel := context.WithCancel(context.Background())
	defer cancel()
	if pc.Pre {
		cancel()
	}
	opts := []resource.ReadOption{resource.WithBackpressure(pc.BP), resource.WithUpdatesOnly(pc.UpdatesOnly)}
	var got []string
	pending, sawClose := false, false
	ccmd := make(chan struct{})
	stop := make(chan struct{})
	defer close(stop)
	var cgid int64
	var next func() (string, bool)
	switch {
	case value != nil:
		ch := value.Pull(ctx, opts...)
		next = func() (string, bool) {
			c, ok := <-ch
			if !ok {
				return "", false
			}
			_, q, _ := decode(c.Value)
			return fmt.Sprint(q), true
		}
	case pc.Kind == "pullid":
		ch := coll.PullID(ctx, subID, opts...)
		next = func() (string, bool) {
			c, ok := <-ch
			if !ok {
				return "", false
			}
			_, q, _ := decode(c.Value)
			return fmt.Sprint(q), true
		}
	default:
		ch := coll.Pull(ctx, opts...)
		next = func() (string, bool) {
			c, ok := <-ch
			if !ok {
				return "", false
			}
			_, q, _ := decode(c.NewValue)
			return kindLetter(c.ChangeType) + fmt.Sprint(q), true
		}
	}
	ready := make(chan struct{})
	go func() {
		cgid = verifhook.GoID()
		close(ready)
		for {
			select {
			case <-stop:
				return
			case <-ccmd:
				v, ok := next()
				mu.Lock()
				if ok {
					got = append(got, v)
				} else {
					sawClose = true
				}
				pending = false
				mu.Unlock()
			}
		}
	}()
	<-ready
	writers := make([]*pipeWriter, 0, pc.Writers)

	status := func() (string, bool) {
		states := allStates()
		inside := census()
		mu.Lock()
		defer mu.Unlock()
		stable := true
		known := map[int64]bool{}
		ws := ""
		for _, w := range writers {
			known[w.gid] = true
			if w.done {
				ws += "d"
			} else {
				ws += "b"
				st, alive := states[w.gid]
				if !alive || !(lockWait(st) || st == "select" || st == "chan send" || st == "chan receive") {
					stable = false
				}
			}
		}
		for i := len(writers); i < pc.Writers; i++ {
			ws += "-"
		}
		g := 0
		for _, x := range inside {
			if known[x.ID] {
				continue
			}
			g++
			if !blockedState(x.State) && !lockWait(x.State) {
				stable = false
			}
		}
		pend := ""
		if pending {
			pend = "?"
			if states[cgid] != "chan receive" {
				stable = false
			}
		}
		cl := ""
		if sawClose {
			cl = "x"
		}
		return fmt.Sprintf("G=%d;W=%s;C=[%s]%s%s", g, ws, strings.Join(got, ","), pend, cl), stable
	}
	settle := func() (string, bool) {
		deadline := time.Now().Add(bound)
		last, n := "", 0
		for {
			runtime.Gosched()
			ob, stable := status()
			if stable && ob == last {
				n++
				if n >= 2 {
					return ob, true
				}
			} else {
				n = 0
			}
			last = ob
			if time.Now().After(deadline) {
				return ob, false
			}
			time.Sleep(20 * time.Microsecond)
		}
	}

	hasEx, exMerge, hasPid := !pc.BP, pc.Res == "collection", pc.Kind == "pullid"
	micpt := "none"
	if pc.Icpt != "" {
		micpt = "fold4"
	}
	target, _ := idCode(pc.Icpt, items, subID)
	kinds := value == nil && !hasPid // a Collection.Pull consumer reports the change types it sees
	ans, err := drv.Ask(fmt.Sprintf("pinit %v %v %v %s %d %s %d %v %v", hasEx, exMerge, hasPid, micpt, target, seeds, pc.Writers, pc.Pre, kinds))
	if err != nil || !strings.HasPrefix(ans, "ok ") {
		o.Ties = append(o.Ties, TieRec{Tie: tiePipe, Err: fmt.Sprintf("driver pinit: %v %s", err, ans)})
		return
	}
	obs, stable := settle()
	var done []string
	model, code := "", ""
	agree := true
	if !stable || !strings.Contains("|"+strings.TrimPrefix(ans, "ok ")+"|", "|"+obs+"|") {
		agree, model, code = false, ans+" (initial state)", obs
	}
	cancelled, nontrivial := pc.Pre, pc.Pre
	// which items exist (by stored id), as the harness's own bookkeeping of the writes it issued.  It is exact for an
	// item as long as every write on it was issued when its outcome was determined: Update commits before it publishes
	// (outside the lock), so a blocked Update has committed; Delete publishes holding the collection's lock, so while
	// a Delete is blocked the later writes queue on the lock and commit in an order the harness does not control.
	exists := map[string]bool{}
	everExisted := map[string]bool{}
	if value == nil {
		exists[xCanon], everExisted[xCanon] = true, true
	}
	xDeletes := 0
	lastTag := map[string]string{} // per stored id: the tag of the last Update issued on it
	lastTagSeen := func(key string) bool {
		mu.Lock()
		defer mu.Unlock()
		for _, g := range got {
			if strings.TrimLeft(g, "aurp") == lastTag[key] {
				return true
			}
		}
		return false
	}
	determinate := func(key string) bool {
		mu.Lock()
		defer mu.Unlock()
		lockHeld := false
		for _, w := range writers {
			if w.isDelete && !w.done {
				lockHeld = true
			}
		}
		if !lockHeld {
			return true
		}
		for _, w := range writers {
			if w.key == key && !w.done {
				return false
			}
		}
		return true
	}
	for i := 0; i < pc.Steps && agree; i++ {
		var cands []string
		if len(writers) < pc.Writers {
			cands = append(cands, "write", "write", "write")
		}
		mu.Lock()
		if !pending && !sawClose {
			cands = append(cands, "recv", "recv", "recv")
		}
		mu.Unlock()
		if !cancelled {
			cands = append(cands, "cancel")
		}
		if pc.Burst {
			burst := cands[:0:0]
			for _, c := range cands {
				if (c == "write") == (len(writers) < pc.Writers) && c != "cancel" {
					burst = append(burst, c)
				}
			}
			if len(burst) == 0 && !cancelled {
				burst = append(burst, "cancel")
			}
			cands = burst
		}
		if len(cands) == 0 {
			break
		}
		var op string
		switch cands[r.Intn(len(cands))] {
		case "recv":
			op = "recv"
			mu.Lock()
			pending = true
			mu.Unlock()
			ccmd <- struct{}{}
		case "cancel":
			op = "cancel"
			cancelled = true
			nontrivial = nontrivial || len(writers) > 0
			cancel()
		case "write":
			t := len(writers)
			tag := t + 1
			w := &pipeWriter{}
			var do func()
			// the id as this writer spells it: some spelling of the watched item, of the writer's own item or of an
			// item an earlier writer touched.  The model gets the spelled id (as a code) and applies its interceptor
			// itself; it also gets the change type the write must publish (ADD / UPDATE / REMOVE), which the harness
			// knows from its own bookkeeping of which items exist — see determinate().
			var id string
			force := ""
			switch {
			case value != nil:
			case pc.Churn && (t < pc.Fill || r.Intn(5) != 0):
				id = xCanon
				if pc.Icpt != "" {
					id = spellings4(pc.Icpt, "xa")[r.Intn(4)]
				}
				force = "toggle"
				if t < pc.Fill {
					force = "upd"
				}
			case t > 0 && r.Intn(3) == 0:
				// an item an earlier writer touched: delete it (an ADD still queued in the excess stage is annihilated),
				// or update it (merged into the queued change)
				other := spellings4(pc.Icpt, items[1+r.Intn(t)])
				id = other[0]
				if pc.Icpt != "" {
					id = other[r.Intn(4)]
				}
			case r.Intn(2) == 0:
				id = xCanon
				if pc.Icpt != "" || r.Intn(3) == 0 {
					id = spellings4(pc.Icpt, "xa")[r.Intn(4)]
				}
			}
			if value == nil && (id == "" || !determinate(canon(pc.Icpt, id))) {
				// the writer's own item: nobody has touched it yet
				own := spellings4(pc.Icpt, items[t+1])
				id = own[0]
				if pc.Icpt != "" {
					id = own[r.Intn(4)]
				}
			}
			switch {
			case value != nil:
				op = fmt.Sprintf("write %d 0 u %d", t, tag)
				do = func() { value.Set(val(t, tag)) }
			default:
				key := canon(pc.Icpt, id)
				code, _ := idCode(pc.Icpt, items, id)
				isX := key == xCanon
				w.key = key
				switch {
				case exists[key] && force != "upd" && (force == "toggle" || r.Intn(3) == 0 || (!isX && r.Intn(2) == 0)):
					op = fmt.Sprintf("write %d %d r 0", t, code)
					w.isDelete = true
					exists[key] = false
					nontrivial = true
					if isX {
						if xDeletes++; xDeletes >= 2 {
							o.count("pipe:delete-again-after-re-add")
						}
						o.count("pipe:delete-spelling:" + spellingKind(id, xCanon, subID))
					} else {
						o.count("pipe:delete-other-item")
						if !pc.BP && !lastTagSeen(key) {
							// lossy subscription, and the consumer has not received the item's latest change: if that is
							// still queued in mergeCollectionExcess the REMOVE is merged with it (ADD + REMOVE annihilate)
							o.count("pipe:delete-other-item/lossy/last-change-not-yet-received")
						}
					}
					do = func() { coll.Delete(id) }
				case exists[key]:
					op = fmt.Sprintf("write %d %d u %d", t, code, tag)
					do = func() { coll.Update(id, val(t, tag), resource.WithCreateIfAbsent()) }
				default:
					op = fmt.Sprintf("write %d %d a %d", t, code, tag)
					if everExisted[key] {
						o.count("pipe:re-add-after-delete")
					}
					exists[key] = true
					do = func() { coll.Update(id, val(t, tag), resource.WithCreateIfAbsent()) }
				}
				everExisted[key] = true
				if !w.isDelete {
					lastTag[key] = fmt.Sprint(tag)
				}
			}
			started := make(chan struct{})
			go func() {
				w.gid = verifhook.GoID()
				close(started)
				do()
				mu.Lock()
				w.done = true
				mu.Unlock()
			}()
			<-started
			mu.Lock()
			writers = append(writers, w)
			mu.Unlock()
		}
		done = append(done, op)
		o.count("pipe:op:" + strings.Fields(op)[0])
		obs, stable = settle()
		if !stable {
			agree, model, code = false, "a quiescent state", "not quiescent within "+bound.String()+" after "+strings.Join(done, " / ")+": "+obs+" || "+censusSummary(census())
			break
		}
		ans, err := drv.Ask("pop " + obs + " " + op)
		if err != nil {
			o.Ties = append(o.Ties, TieRec{Tie: tiePipe, Err: "driver: " + err.Error()})
			return
		}
		if ans != "ok "+obs {
			agree, model, code = false, ans+"  (after "+strings.Join(done, " / ")+")", obs
			break
		}
		if strings.Contains(obs, "b") {
			o.count("pipe:seen:writer-blocked")
		}
		if strings.HasPrefix(obs, "G=0;") {
			o.count("pipe:seen:all-goroutines-gone")
		}
	}
	if agree {
		model, code = "ok "+obs, "ok "+obs
	}
	shape := fmt.Sprintf("%s/%s/bp=%v/uo=%v", pc.Res, pc.Kind, pc.BP, pc.UpdatesOnly)
	if pc.Icpt != "" {
		shape += "/icpt"
	}
	if pc.Pre {
		shape += "/pre-cancelled"
	}
	if pc.Burst {
		shape += "/burst"
	}
	if pc.Churn {
		shape += "/churn"
	}
	o.count("pipe:shape:" + shape)
	o.Ties = append(o.Ties, TieRec{Tie: tiePipe, Key: shape + ":" + strings.Join(done, "/"), Nontrivial: nontrivial, Model: model, Code: code})
	// end of scenario: cancel, let the consumer drain, and the property itself: everything is gone
	cancel()
	mu.Lock()
	wasPending := pending
	mu.Unlock()
	_ = wasPending
	if agree {
		o.eval(monShutdown, "goroutines-baseline/pipeline-tie/"+shape, true)
		deadline := time.Now().Add(bound)
		for {
			mu.Lock()
			p, sc := pending, sawClose
			mu.Unlock()
			if sc || time.Now().After(deadline) {
				break
			}
			if !p {
				mu.Lock()
				pending = true
				mu.Unlock()
				ccmd <- struct{}{}
			}
			time.Sleep(50 * time.Microsecond)
		}
		if ok, left, _ := waitBaseline(bound); !ok {
			o.violate(monShutdown, "C10/"+pc.Res+"/goroutine-leak", "goroutines of a cancelled subscription (or writers blocked on it) are still alive",
				"no goroutine inside pkg/resource or internal/minibus", censusSummary(left)+" after "+strings.Join(done, " / "))
		}
	}
	return out
}

func kindLetter(t types.ChangeType) string {
	switch t {
	case types.ChangeType_ADD:
		return "a"
	case types.ChangeType_UPDATE:
		return "u"
	case types.ChangeType_REMOVE:
		return "r"
	case types.ChangeType_REPLACE:
		return "p"
	}
	return "?"
}

// spellingKind: how the id given to Delete relates to the stored id and to the id the subscriber used
func spellingKind(del, stored, sub string) string {
	k := "canonical"
	if del != stored {
		k = "non-canonical"
	}
	if del == sub {
		return k + "/same-as-subscriber"
	}
	return k + "/other-than-subscriber"
}
