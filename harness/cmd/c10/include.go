package main

// (*CollectionChange).include, exhaustively through the public API (K2): an item that starts absent / with a value
// the filter includes / with one it excludes, and every sequence of 1-4 changes that take it to absent / included /
// excluded, written one by one to a real collection while a backpressure, updates-only Collection.Pull subscriber
// made WithInclude(filter) receives.  What the subscriber is told about the item (change types, in order; a sentinel
// ADD of another, included item marks the end) is compared with the Lean function includeChg mapped over the same
// chain (driver op `incl`).
//
// Monitor (oracle independent of the model: the subscriber's view of the item as one bool): every change it is told
// is applicable to its view (ADD only when not shown, the rest only when shown), and after the last write its view is
// "the item exists and the filter includes its value" — in particular a subscriber that had been shown the item and
// whose item is gone has been told REMOVE.

import (
	"context"
	"fmt"
	"sort"
	"strings"
	"time"

	"google.golang.org/protobuf/proto"
	"google.golang.org/protobuf/types/known/wrapperspb"

	"github.com/smart-core-os/sc-golang/pkg/resource"
	"github.com/smart-core-os/sc-golang/verifharness/lib"
)

const (
	tieInclude     = "include-table"
	tieIncludeRule = "K2 exhaustive: every start state of an item (n absent, i a value the filter includes, e one it excludes) and every sequence of 1-4 next states (no absent -> absent), written with Collection.Update(WithCreateIfAbsent) / Delete to a real collection under a backpressure, updates-only Collection.Pull subscriber made WithInclude(payload is even); the change types the subscriber receives for the item, in order, compared with the Lean includeChg mapped over the same chain of (type, old, new) changes (driver op incl). non-trivial = at least one change moves the item across the filter or removes it; distinct = distinct (start, sequence)"
)

type IncludeCase struct {
	Start string `json:"start"` // n | i | e
	Steps string `json:"steps"` // letters n i e
}

func includeScenarios(maxLen int, boundMs int) []Scenario {
	var res []Scenario
	var gen func(start string, cur byte, seq string)
	gen = func(start string, cur byte, seq string) {
		if len(seq) > 0 {
			ic := IncludeCase{Start: start, Steps: seq}
			res = append(res, Scenario{Mode: "include", Class: "include-table", Res: "collection", Incl: &ic, BoundMs: boundMs})
		}
		if len(seq) == maxLen {
			return
		}
		for _, nx := range []byte("nie") {
			if cur == 'n' && nx == 'n' {
				continue
			}
			gen(start, nx, seq+string(nx))
		}
	}
	for _, s := range []string{"n", "i", "e"} {
		gen(s, s[0], "")
	}
	sort.SliceStable(res, func(i, j int) bool { return len(res[i].Incl.Steps) < len(res[j].Incl.Steps) })
	return res
}

func inclValue(k int, state byte) proto.Message {
	switch state {
	case 'i':
		return wrapperspb.Int64(int64(2 * k))
	case 'e':
		return wrapperspb.Int64(int64(2*k + 1))
	}
	return nil
}

func runInclude(sc Scenario, drv *lib.Driver) (out Outcome) {
	o := &out
	ic := sc.Incl
	bound := time.Duration(sc.BoundMs) * time.Millisecond
	if bound <= 0 {
		bound = 2 * time.Second
	}
	var opts []resource.Option
	if v := inclValue(0, ic.Start[0]); v != nil {
		opts = append(opts, resource.WithInitialRecord("x", v))
	}
	coll := resource.NewCollection(opts...)
	even := func(_ string, m proto.Message) bool {
		v, ok := m.(*wrapperspb.Int64Value)
		return ok && v.GetValue()%2 == 0
	}
	ctx, cancel := context.WithCancel(context.Background())
	defer cancel()
	ch := coll.Pull(ctx, resource.WithBackpressure(true), resource.WithUpdatesOnly(true), resource.WithInclude(even))
	type told struct {
		kinds []string
		ok    bool
	}
	done := make(chan told, 1)
	go func() {
		var t told
		for c := range ch {
			if c.Id == "z" {
				t.ok = true
				break
			}
			if c.Id == "x" {
				t.kinds = append(t.kinds, kindLetter(c.ChangeType))
			}
		}
		done <- t
	}()
	code := ""
	didPanic, panicked := lib.Catch(func() {
		for k := 0; k < len(ic.Steps); k++ {
			if v := inclValue(k+1, ic.Steps[k]); v != nil {
				if _, err := coll.Update("x", v, resource.WithCreateIfAbsent()); err != nil {
					code = "write-error:" + err.Error()
					return
				}
			} else if _, err := coll.Delete("x"); err != nil {
				code = "write-error:" + err.Error()
				return
			}
		}
		coll.Update("z", wrapperspb.Int64(0), resource.WithCreateIfAbsent())
	})
	var t told
	if didPanic {
		code = "panic:" + panicked
	} else if code == "" {
		select {
		case t = <-done:
			if !t.ok {
				code = "closed-early:" + strings.Join(t.kinds, "")
			} else if len(t.kinds) == 0 {
				code = "-"
			} else {
				code = strings.Join(t.kinds, "")
			}
		case <-time.After(bound):
			code = "sentinel-not-delivered"
		}
	}
	cancel()
	key := ic.Start + "/" + ic.Steps
	crosses := strings.ContainsAny(ic.Steps, "n") || strings.Contains(ic.Start+ic.Steps, "ie") || strings.Contains(ic.Start+ic.Steps, "ei")
	if drv != nil {
		ans, err := drv.Ask("incl " + ic.Start + " " + ic.Steps)
		rec := TieRec{Tie: tieInclude, Key: key, Nontrivial: crosses, Model: ans, Code: code}
		if err != nil {
			rec.Err = "driver: " + err.Error()
		}
		o.Ties = append(o.Ties, rec)
	}
	o.count("include:told:" + fmt.Sprint(len(t.kinds)))
	// the subscriber's view
	o.eval(monDelivery, "include-view/len="+fmt.Sprint(len(ic.Steps)), crosses)
	switch {
	case didPanic:
		o.violate(monDelivery, "C10/include/panic", "a write panicked under a WithInclude subscription", "no panic", panicked)
	case !t.ok:
		o.violate(monDelivery, "C10/include/sentinel-not-delivered", "a receiving WithInclude subscriber was not told of the ADD of an included item written after the item's changes",
			"ADD of the sentinel within "+bound.String(), code)
	default:
		shown := ic.Start == "i"
		for i, k := range t.kinds {
			if (k == "a") == shown {
				o.violate(monDelivery, "C10/include/not-applicable",
					"a WithInclude subscriber was sent a change it cannot apply to what it has been shown (ADD of a shown item, or UPDATE / REMOVE of one it was never shown)",
					fmt.Sprintf("change %d applicable to shown=%v", i+1, shown), strings.Join(t.kinds, ""))
				return out
			}
			shown = k != "r"
		}
		want := ic.Steps[len(ic.Steps)-1] == 'i'
		if shown != want {
			sig := "C10/include/add-not-delivered"
			if shown {
				sig = "C10/include/remove-not-delivered"
			}
			o.violate(monDelivery, sig,
				"what a receiving WithInclude subscriber was told about an item does not add up to 'the item exists and the filter includes its value'",
				fmt.Sprintf("shown=%v after the last write", want), fmt.Sprintf("shown=%v; told %q", shown, strings.Join(t.kinds, "")))
		}
	}
	if ok, left, _ := waitBaseline(bound); !ok {
		o.violate(monShutdown, "C10/collection/goroutine-leak", "goroutines of a cancelled WithInclude subscription are still alive",
			"no goroutine inside pkg/resource or internal/minibus", censusSummary(left))
	}
	return out
}
