package main

// Scenario runner: the property C10 evaluated directly on the real pkg/resource + internal/minibus
// code.  The oracle is independent of the Lean model: plain per-writer lists of the writes that
// succeeded, wall-clock bounds, a goroutine census, recovered panics.

import (
	"context"
	"fmt"
	"sort"
	"strings"
	"sync"
	"sync/atomic"
	"time"

	"github.com/smart-core-os/sc-api/go/types"
	"google.golang.org/protobuf/proto"
	"google.golang.org/protobuf/types/known/durationpb"
	"google.golang.org/protobuf/types/known/wrapperspb"

	"github.com/smart-core-os/sc-golang/internal/verifhook"
	"github.com/smart-core-os/sc-golang/pkg/cmp"
	"github.com/smart-core-os/sc-golang/pkg/resource"
)

type SubSpec struct {
	Kind        string `json:"kind"` // pull | pullid
	ID          string `json:"id,omitempty"`
	BP          bool   `json:"bp"`
	UpdatesOnly bool   `json:"uo"`
	Consume     string `json:"consume"` // drain | stop | none | abandon | pause (receives StopAfter changes, stays away while the writers run, then goes on receiving WITHOUT cancelling)
	// Mask: read mask of the subscription (scenarios with Msg = "dur" only): "seconds" selects the field that carries
	// the payload, "nanos" only a field no item ever sets (the subscriber sees every item as the empty message)
	Mask string `json:"mask,omitempty"`
	// Include: the subscription is made with resource.WithInclude(<filter>): "" = no filter | all (every item) |
	// id (every item but those named w1-…) | val (by payload: every item whose sequence number is not 2 mod 3; the
	// empty message of an initial record is included).  An update can move an item out of / into a "val" filter: the
	// subscriber is then told REMOVE / ADD; the REMOVE of an item it had been shown always reaches it.
	Include string `json:"include,omitempty"`
	StopAfter   int    `json:"stopAfter,omitempty"`
	Cancel      string `json:"cancel"` // end | before | timer | point | never
	CancelUs    int    `json:"cancelUs,omitempty"`
	Point       string `json:"point,omitempty"`
	Occ         int    `json:"occ,omitempty"`
	LingerUs    int    `json:"lingerUs,omitempty"`
}

type Op struct {
	Kind string `json:"k"` // set | upd | del | nap (the writer sleeps 3 ms: the stages in front of a consumer that is away fill up)
	ID   string `json:"id,omitempty"`
}

type Scenario struct {
	Mode    string   `json:"mode"` // "stress" (this file) | "sched" (sched.go) | "race" (race.go)
	Class   string   `json:"class"`
	Res     string   `json:"res"` // value | collection
	Initial []string `json:"initial,omitempty"`
	// Icpt: the collection is created WithIDInterceptor(<named function>): "" | lower | upper | trim.  The ids in
	// Subs and Writers are what the callers pass in (any spelling); Initial holds stored (canonical) ids.
	Icpt string `json:"icpt,omitempty"`
	// Eq: the collection's equivalence option: "" | nodup (WithNoDuplicates) | msgeq (WithMessageEquivalence(cmp.Equal()))
	// | equiv (WithEquivalence of a hand-written nil-safe Comparer: both present and proto.Equal).  Msg: the message
	// type of the items: "" = wrapperspb.Int64Value (one field), dur = durationpb.Duration (payload in seconds, nanos
	// never set).  In both an initial record is the EMPTY message.
	Eq      string       `json:"eq,omitempty"`
	Msg     string       `json:"msg,omitempty"`
	Subs    []SubSpec    `json:"subs"`
	Writers [][]Op       `json:"writers"`
	BoundMs int          `json:"boundMs"`
	Sched   *SchedCase   `json:"sched,omitempty"`
	Race    *RaceCase    `json:"race,omitempty"`
	Pipe    *PipeCase    `json:"pipe,omitempty"`
	Adapter *AdapterCase `json:"adapter,omitempty"`
	Single  *SingleCase  `json:"single,omitempty"`
	Merge   *MergeCase   `json:"merge,omitempty"`
	Incl    *IncludeCase `json:"incl,omitempty"`
	// StallMs: subscribers that stop receiving stay away at least this long before they cancel (writers parked on
	// them stay parked: a collection write has no deadline of its own)
	StallMs int `json:"stallMs,omitempty"`
	// LingerAt: every goroutine reaching this yield point sleeps LingerUs there (widens a window)
	LingerAt string `json:"lingerAt,omitempty"`
	LingerUs int    `json:"lingerUs,omitempty"`
}

type Rec struct {
	Mon        string `json:"mon"`
	Key        string `json:"key"`
	Nontrivial bool   `json:"nt"`
}
type Viol struct {
	Mon      string `json:"mon"`
	Sig      string `json:"sig"`
	What     string `json:"what"`
	Expected string `json:"expected"`
	Observed string `json:"observed"`
}
type TieRec struct {
	Tie        string `json:"tie"`
	Key        string `json:"key"`
	Nontrivial bool   `json:"nt"`
	Model      string `json:"model"`
	Code       string `json:"code"`
	Err        string `json:"err,omitempty"`
}
type Outcome struct {
	Evals  []Rec          `json:"evals"`
	Viols  []Viol         `json:"viols"`
	Ties   []TieRec       `json:"ties"`
	Counts map[string]int `json:"counts"`
	Points map[string]int `json:"points,omitempty"`
}

func (o *Outcome) eval(mon, key string, nt bool) { o.Evals = append(o.Evals, Rec{mon, key, nt}) }
func (o *Outcome) violate(mon, sig, what, exp, obs string) {
	o.Viols = append(o.Viols, Viol{mon, sig, what, exp, obs})
}
func (o *Outcome) count(b string) {
	if o.Counts == nil {
		o.Counts = map[string]int{}
	}
	o.Counts[b]++
}

const (
	monShutdown = "shutdown"
	monDelivery = "delivery"
)

// payload encoding: (writer+1)*1e6 + seq
func val(writer, seq int) *wrapperspb.Int64Value {
	return wrapperspb.Int64(int64(writer+1)*1_000_000 + int64(seq))
}
func decode(m proto.Message) (writer, seq int, ok bool) {
	var n int64
	switch v := m.(type) {
	case *wrapperspb.Int64Value:
		n = v.GetValue()
	case *durationpb.Duration:
		n = v.GetSeconds()
	}
	if n < 1_000_000 {
		return 0, 0, false
	}
	return int(n/1_000_000) - 1, int(n % 1_000_000), true
}

// message type of a scenario's items
func mkMsg(kind string, writer, seq int) proto.Message {
	if kind == "dur" {
		return &durationpb.Duration{Seconds: val(writer, seq).Value}
	}
	return val(writer, seq)
}
func zeroMsg(kind string) proto.Message {
	if kind == "dur" {
		return &durationpb.Duration{}
	}
	return wrapperspb.Int64(0)
}

func eqOption(name string) resource.Option {
	switch name {
	case "nodup":
		return resource.WithNoDuplicates()
	case "msgeq":
		return resource.WithMessageEquivalence(cmp.Equal())
	case "equiv":
		return resource.WithEquivalence(resource.ComparerFunc(func(x, y proto.Message) bool {
			return x != nil && y != nil && proto.Equal(x, y)
		}))
	}
	return nil
}

// an event as seen by a consumer or expected by the oracle
type ev struct {
	Typ string // SET ADD UPDATE REMOVE REPLACE
	ID  string
	W   int
	Seq int
}

func (e ev) String() string { return fmt.Sprintf("%s:%s:w%d#%d", e.Typ, e.ID, e.W, e.Seq) }

func writerOfID(id string) int {
	id = base(id)
	if id == "x" {
		return 90
	}
	if id == "probe" {
		return 99
	}
	var w int
	if _, err := fmt.Sscanf(id, "w%d-", &w); err == nil {
		return w
	}
	return -1
}

type subRun struct {
	spec       SubSpec
	cancel     context.CancelFunc
	cancelOnce sync.Once
	resume     chan struct{}
	goOn       chan struct{} // closed when a paused consumer is to go on receiving

	mu          sync.Mutex
	got         []ev
	nSeed       int
	view        map[string]bool // Collection.Pull: which items exist according to the changes received so far (seeds included)
	closedAt    time.Time
	closed      bool
	cancelledAt time.Time
	cancelled   bool
	panicMsg    string
	done        chan struct{}
}

func (s *subRun) doCancel() {
	s.cancelOnce.Do(func() {
		s.mu.Lock()
		s.cancelled = true
		s.cancelledAt = time.Now()
		s.mu.Unlock()
		s.cancel()
		close(s.resume)
	})
}

func (s *subRun) isCancelled() bool {
	s.mu.Lock()
	defer s.mu.Unlock()
	return s.cancelled
}

func (s *subRun) snapshot() (got []ev, closed bool, closedAt time.Time) {
	s.mu.Lock()
	defer s.mu.Unlock()
	return append([]ev(nil), s.got...), s.closed, s.closedAt
}

func (s *subRun) class(res string) string {
	k := "Pull"
	if s.spec.Kind == "pullid" {
		k = "PullID"
	}
	bp := "lossy"
	if s.spec.BP {
		bp = "backpressure"
	}
	return fmt.Sprintf("%s/%s/%s", res, k, bp)
}

// consume runs the consumer of one subscription. next() returns (event, isSeed, ok).
func (s *subRun) consume(next func() (ev, bool, bool)) {
	defer close(s.done)
	defer func() {
		if r := recover(); r != nil {
			s.mu.Lock()
			s.panicMsg = fmt.Sprint(r)
			s.mu.Unlock()
		}
	}()
	recvOne := func() bool {
		e, seed, ok := next()
		s.mu.Lock()
		defer s.mu.Unlock()
		if !ok {
			s.closed = true
			s.closedAt = time.Now()
			return false
		}
		if seed {
			s.nSeed++
		} else {
			s.got = append(s.got, e)
		}
		if s.spec.Kind == "pull" && e.ID != "" {
			if s.view == nil {
				s.view = map[string]bool{}
			}
			s.view[e.ID] = e.Typ != "REMOVE"
		}
		return true
	}
	switch s.spec.Consume {
	case "stop":
		for i := 0; i < s.spec.StopAfter; i++ {
			if !recvOne() {
				return
			}
		}
		<-s.resume
	case "pause":
		for i := 0; i < s.spec.StopAfter; i++ {
			if !recvOne() {
				return
			}
		}
		<-s.goOn
	case "none":
		<-s.resume
	case "abandon": // stops receiving, cancels, and never looks at the channel again
		<-s.resume
		return
	}
	for recvOne() {
	}
}

type writerRun struct {
	ops      []Op
	idx      int
	expected []ev // events of the writes that succeeded, in order
	nDone    atomic.Int64
	panicMsg string
	errs     []string
	done     chan struct{}
}

func optsOf(sp SubSpec) []resource.ReadOption {
	opts := []resource.ReadOption{resource.WithBackpressure(sp.BP), resource.WithUpdatesOnly(sp.UpdatesOnly)}
	if sp.Mask != "" {
		opts = append(opts, resource.WithReadPaths(&durationpb.Duration{}, sp.Mask))
	}
	if sp.Include != "" {
		opts = append(opts, resource.WithInclude(func(id string, item proto.Message) bool {
			_, seq, _ := decode(item)
			return sp.includes(id, seq)
		}))
	}
	return opts
}

// includes: the harness's own statement of the subscription's WithInclude filter, on (stored id, sequence number of
// the payload; 0 = the empty message)
func (sp SubSpec) includes(id string, seq int) bool {
	switch sp.Include {
	case "id":
		return !strings.HasPrefix(base(id), "w1-")
	case "val":
		return seq%3 != 2
	}
	return true
}

// throughInclude: what a subscriber with sp's filter is told when the changes `es` (of any number of items, each
// item's changes in order) happen one by one: a change between two included states as it is, one that moves the item
// into the filter as ADD, out of it (or removes an included item) as REMOVE, one between two excluded states not at all.
// initial: the items that exist (as the empty message) before the first change.
func (sp SubSpec) throughInclude(es []ev, initial []string) []ev {
	if sp.Include == "" {
		return es
	}
	inc := map[string]bool{}
	for _, id := range initial {
		inc[id] = sp.includes(id, 0)
	}
	var res []ev
	for _, e := range es {
		was := inc[e.ID]
		now := e.Typ != "REMOVE" && sp.includes(e.ID, e.Seq)
		inc[e.ID] = now
		switch {
		case was && now:
			res = append(res, e)
		case now:
			e.Typ = "ADD"
			res = append(res, e)
		case was:
			e.Typ, e.Seq = "REMOVE", 0
			res = append(res, e)
		}
	}
	return res
}

// blind: the subscription's read mask hides the payload (delivery is judged by change type and item only)
func (sp SubSpec) blind() bool { return sp.Mask != "" && sp.Mask != "seconds" }

func runStress(sc Scenario) (out Outcome) {
	bound := time.Duration(sc.BoundMs) * time.Millisecond
	if bound <= 0 {
		bound = 2 * time.Second
	}
	o := &out
	o.Points = map[string]int{}

	if ok, left, _ := waitBaseline(bound); !ok {
		// leftovers of a previous scenario: not this scenario's fault, but nothing can be measured
		o.count("dirty-baseline:" + censusSummary(left))
	}

	var value *resource.Value
	var coll *resource.Collection
	if sc.Res == "value" {
		value = resource.NewValue(resource.WithInitialValue(wrapperspb.Int64(0)))
	} else {
		var opts []resource.Option
		for _, id := range sc.Initial {
			opts = append(opts, resource.WithInitialRecord(id, zeroMsg(sc.Msg)))
		}
		if e := eqOption(sc.Eq); e != nil {
			opts = append(opts, e)
		}
		if f := icptFunc(sc.Icpt); f != nil {
			opts = append(opts, resource.WithIDInterceptor(f))
		}
		coll = resource.NewCollection(opts...)
	}
	key := func(id string) string { return canon(sc.Icpt, id) }

	subs := make([]*subRun, len(sc.Subs))

	// hook: count yield points; fire point-cancels inside the yield
	var hookMu sync.Mutex
	pointCount := map[string]int{}
	verifhook.Set(func(point string) {
		hookMu.Lock()
		pointCount[point]++
		n := pointCount[point]
		var fire []*subRun
		for _, s := range subs {
			if s != nil && s.spec.Cancel == "point" && s.spec.Point == point && s.spec.Occ == n {
				fire = append(fire, s)
			}
		}
		hookMu.Unlock()
		if sc.LingerAt == point && sc.LingerUs > 0 {
			time.Sleep(time.Duration(sc.LingerUs) * time.Microsecond)
		}
		for _, s := range fire {
			s.doCancel()
			if s.spec.LingerUs > 0 {
				time.Sleep(time.Duration(s.spec.LingerUs) * time.Microsecond)
			}
		}
	})
	defer verifhook.Set(nil)

	// subscribe
	for i, sp := range sc.Subs {
		ctx, cancel := context.WithCancel(context.Background())
		s := &subRun{spec: sp, cancel: cancel, resume: make(chan struct{}), goOn: make(chan struct{}), done: make(chan struct{})}
		hookMu.Lock()
		subs[i] = s
		hookMu.Unlock()
		if sp.Cancel == "before" {
			s.doCancel()
		}
		var next func() (ev, bool, bool)
		switch {
		case sc.Res == "value":
			ch := value.Pull(ctx, optsOf(sp)...)
			next = func() (ev, bool, bool) {
				c, ok := <-ch
				if !ok {
					return ev{}, false, false
				}
				w, q, _ := decode(c.Value)
				return ev{Typ: "SET", W: w, Seq: q}, c.SeedValue, true
			}
		case sp.Kind == "pullid":
			ch := coll.PullID(ctx, sp.ID, optsOf(sp)...)
			next = func() (ev, bool, bool) {
				c, ok := <-ch
				if !ok {
					return ev{}, false, false
				}
				_, q, _ := decode(c.Value)
				return ev{Typ: "UPDATE", ID: key(sp.ID), W: writerOfID(sp.ID), Seq: q}, c.SeedValue, true
			}
		default:
			ch := coll.Pull(ctx, optsOf(sp)...)
			next = func() (ev, bool, bool) {
				c, ok := <-ch
				if !ok {
					return ev{}, false, false
				}
				_, q, _ := decode(c.NewValue)
				return ev{Typ: c.ChangeType.String(), ID: c.Id, W: writerOfID(c.Id), Seq: q}, c.SeedValue, true
			}
		}
		go s.consume(next)
	}

	// writers
	present := map[string]bool{}
	for _, id := range sc.Initial {
		present[id] = true
	}
	removed := map[string]bool{} // items for which a Delete succeeded while they were present (every subscription is older)
	lastSeq := map[string]int{}  // sequence number of the payload last written to the item (0 = the initial empty message)
	var presentMu sync.Mutex
	writers := make([]*writerRun, len(sc.Writers))
	start := make(chan struct{})
	doOp := func(w int, seq int, op Op) (e ev, emitted bool, err error) {
		switch op.Kind {
		case "nap":
			time.Sleep(3 * time.Millisecond)
			return ev{}, false, nil
		case "set":
			_, err = value.Set(val(w, seq))
			return ev{Typ: "SET", W: w, Seq: seq}, err == nil, err
		case "upd":
			// the caller passes op.ID as spelled; the item (and the id in the event) is key(op.ID)
			k := key(op.ID)
			presentMu.Lock()
			was := present[k]
			presentMu.Unlock()
			_, err = coll.Update(op.ID, mkMsg(sc.Msg, w, seq), resource.WithCreateIfAbsent())
			if err == nil {
				presentMu.Lock()
				present[k] = true
				lastSeq[k] = seq
				presentMu.Unlock()
			}
			t := types.ChangeType_UPDATE
			if !was {
				t = types.ChangeType_ADD
			}
			return ev{Typ: t.String(), ID: k, W: writerOfID(k), Seq: seq}, err == nil, err
		case "del":
			k := key(op.ID)
			presentMu.Lock()
			was := present[k]
			presentMu.Unlock()
			_, err = coll.Delete(op.ID, resource.WithAllowMissing(true))
			if err == nil {
				presentMu.Lock()
				delete(present, k)
				if was {
					removed[k] = true
				}
				presentMu.Unlock()
			}
			return ev{Typ: "REMOVE", ID: k, W: writerOfID(k), Seq: 0}, err == nil && was, err
		}
		return ev{}, false, fmt.Errorf("bad op %v", op)
	}
	for wi, ops := range sc.Writers {
		w := &writerRun{ops: ops, idx: wi, done: make(chan struct{})}
		writers[wi] = w
		go func() {
			defer close(w.done)
			defer func() {
				if r := recover(); r != nil {
					w.panicMsg = fmt.Sprint(r)
				}
			}()
			<-start
			for i, op := range w.ops {
				e, emitted, err := doOp(w.idx, i+1, op)
				if err != nil {
					w.errs = append(w.errs, err.Error())
				}
				if emitted {
					w.expected = append(w.expected, e)
				}
				w.nDone.Add(1)
			}
		}()
	}

	// timers
	maxTimer := 0
	for _, s := range subs {
		if s.spec.Cancel == "timer" {
			if s.spec.CancelUs > maxTimer {
				maxTimer = s.spec.CancelUs
			}
			go func() {
				<-start
				time.Sleep(time.Duration(s.spec.CancelUs) * time.Microsecond)
				s.doCancel()
			}()
		}
	}

	t0 := time.Now()
	close(start)

	// ---- phase A: writers run; subscribers that abandon may block them (by design, until cancel)
	mayBlock := false
	for _, s := range subs {
		if s.spec.BP && s.spec.Consume != "drain" && s.spec.Cancel != "before" {
			mayBlock = true
		}
	}
	waitWriters := func(d time.Duration) bool {
		deadline := time.After(d)
		for _, w := range writers {
			select {
			case <-w.done:
			case <-deadline:
				return false
			}
		}
		return true
	}
	tA := bound
	if mayBlock {
		tA = time.Duration(maxTimer)*time.Microsecond + 30*time.Millisecond
		if stall := time.Duration(sc.StallMs) * time.Millisecond; stall > tA {
			tA = stall
		}
	}
	writersDone := waitWriters(tA)

	// ---- phase B: every consumer that stopped receiving now cancels ("stop receiving, then cancel")
	for _, s := range subs {
		if s.spec.Consume == "pause" {
			close(s.goOn)
		} else if s.spec.Consume != "drain" && s.spec.Cancel != "never" {
			s.doCancel()
		}
	}
	endedPullID := func() *subRun {
		for _, s := range subs {
			_, closed, _ := s.snapshot()
			if s.spec.Kind == "pullid" && closed && !s.isCancelled() {
				return s
			}
		}
		return nil
	}
	blockedSig := func() (string, string) {
		dump := censusSummary(census())
		if s := endedPullID(); s != nil {
			bp := "lossy"
			if s.spec.BP {
				bp = "backpressure"
			}
			return "C10/PullID/after-remove/" + bp + "/writer-blocked", dump
		}
		return "C10/" + sc.Res + "/writer-blocked-after-cancel", dump
	}
	if !writersDone {
		writersDone = waitWriters(bound)
	}
	o.eval(monShutdown, "writers-finish/"+sc.Class, len(writers) > 0 && len(subs) > 0)
	if !writersDone {
		sig, dump := blockedSig()
		var prog []string
		for _, w := range writers {
			prog = append(prog, fmt.Sprintf("w%d:%d/%d", w.idx, w.nDone.Load(), len(w.ops)))
		}
		o.violate(monShutdown, sig, "a writer is still blocked although every subscriber that is not receiving has been cancelled",
			"all writers return within "+bound.String(), "progress "+strings.Join(prog, ",")+"; goroutines: "+dump)
	}
	for _, w := range writers {
		select {
		case <-w.done:
			if w.panicMsg != "" {
				o.violate(monShutdown, "C10/"+sc.Res+"/writer/panic", "a write panicked", "no panic", w.panicMsg)
			}
			for _, e := range w.errs {
				o.count("write-error:" + e)
			}
		default:
		}
	}

	// ---- phase C: delivery to subscribers that were live and receiving for the whole run
	if writersDone {
		checkDelivery(o, sc, subs, writers, bound)
	}

	// single-item subscriptions end on removal: the item a PullID(ctx, id) watches is key(id), whatever spelling
	// the subscriber and the deleting writer used
	for _, s := range subs {
		if s.spec.Kind != "pullid" || (s.spec.Consume != "drain" && s.spec.Consume != "pause") || !writersDone {
			continue
		}
		// with backpressure every REMOVE of the item reaches the subscription; without, a delete followed by a re-add
		// may reach it as one REPLACE (the subscription goes on), so only an item that is gone FOR GOOD must end it
		presentMu.Lock()
		gone := removed[key(s.spec.ID)] && (s.spec.BP || !present[key(s.spec.ID)])
		presentMu.Unlock()
		inInitial := false
		for _, id := range sc.Initial {
			inInitial = inInitial || id == key(s.spec.ID)
		}
		if !gone || !inInitial || !s.spec.includes(key(s.spec.ID), 0) {
			// (a filter that does not include the item when the subscription is made shows the subscriber nothing to end on)
			continue
		}
		o.eval(monShutdown, "pullid-ends/"+s.class(sc.Res), true)
		if !waitClosed(s, bound) {
			o.violate(monShutdown, "C10/PullID/not-closed-after-remove", "PullID channel still open after its item was removed",
				"closed within "+bound.String()+" of the Delete returning", "still open; cancelled="+fmt.Sprint(s.isCancelled()))
		}
	}

	// a Collection.Pull subscriber that is receiving and was not cancelled is told of every removal (and re-creation) of
	// an item it has been shown, with or without backpressure: once the writers are done, what it has received adds up
	// to the items that exist (the lossy stage may merge changes of an item, never lose their net effect)
	for _, s := range subs {
		if coll == nil || s.spec.Kind != "pull" || (s.spec.Consume != "drain" && s.spec.Consume != "pause") || !writersDone ||
			(s.spec.Cancel != "end" && s.spec.Cancel != "never") || s.isCancelled() {
			continue
		}
		diff := func() string {
			presentMu.Lock()
			defer presentMu.Unlock()
			s.mu.Lock()
			defer s.mu.Unlock()
			var ids []string
			for id := range s.view {
				ids = append(ids, id)
			}
			sort.Strings(ids)
			for _, id := range ids {
				if shown := present[id] && s.spec.includes(id, lastSeq[id]); s.view[id] != shown {
					return fmt.Sprintf("item %q: exists=%v, the subscriber was last told exists=%v", id, shown, s.view[id])
				}
			}
			return ""
		}
		o.eval(monDelivery, "net-effect/"+s.class(sc.Res)+"/"+s.spec.Consume, len(writers) > 0)
		deadline := time.Now().Add(bound)
		d := diff()
		for d != "" && time.Now().Before(deadline) {
			time.Sleep(200 * time.Microsecond)
			d = diff()
		}
		if d != "" {
			kind := "remove-not-delivered"
			if !strings.Contains(d, "exists=false, the") {
				kind = "add-not-delivered"
			}
			got, _, _ := s.snapshot()
			o.violate(monDelivery, "C10/"+s.class(sc.Res)+"/delivery/"+kind,
				"a receiving, uncancelled Collection.Pull subscriber was not told of the last removal / re-creation of an item it had been shown, although every writer returned",
				"the received changes add up to the items that exist, within "+bound.String(), d+"; received "+fmtEvs(got))
		}
	}

	// probe writes: nothing that has ended or been cancelled may delay a writer
	if writersDone {
		for _, s := range subs { // live draining subscribers keep receiving; the rest is cancelled or ended
			_ = s
		}
		probe := func(name string, f func()) {
			done := make(chan struct{})
			var pmsg string
			go func() {
				defer close(done)
				defer func() {
					if r := recover(); r != nil {
						pmsg = fmt.Sprint(r)
					}
				}()
				f()
			}()
			o.eval(monShutdown, "probe-"+name+"/"+sc.Class, len(subs) > 0)
			select {
			case <-done:
				if pmsg != "" {
					o.violate(monShutdown, "C10/"+sc.Res+"/writer/panic", "a write panicked", "no panic", pmsg)
				}
			case <-time.After(bound):
				sig, dump := blockedSig()
				o.violate(monShutdown, sig, "a write issued after the subscription ended/cancelled does not return ("+name+")",
					"returns within "+bound.String(), "blocked; goroutines: "+dump)
			}
		}
		if value != nil {
			probe("set", func() { value.Set(val(99, 1)) })
		} else {
			probe("update", func() { coll.Update("probe", val(99, 1), resource.WithCreateIfAbsent()) })
			probe("delete", func() { coll.Delete("probe", resource.WithAllowMissing(true)) })
		}
	}

	// ---- phase D: cancel the rest; every consumer sees its channel closed within the bound
	for _, s := range subs {
		if s.spec.Cancel != "never" {
			s.doCancel()
		}
	}
	for _, s := range subs {
		if s.spec.Cancel == "never" || s.spec.Consume == "abandon" {
			continue
		}
		o.eval(monShutdown, "closed-after-cancel/"+s.class(sc.Res)+"/"+s.spec.Consume+"/"+s.spec.Cancel+"/"+s.spec.Point, true)
		if !waitClosed(s, bound) {
			o.violate(monShutdown, "C10/"+s.class(sc.Res)+"/close-not-observed-after-cancel",
				"the consumer did not see its channel closed after cancelling", "closed within "+bound.String(),
				"still open; goroutines: "+censusSummary(census()))
		} else {
			s.mu.Lock()
			d := s.closedAt.Sub(s.cancelledAt)
			s.mu.Unlock()
			if d > 100*time.Millisecond {
				o.count("close-latency>100ms")
			}
		}
		s.mu.Lock()
		if s.panicMsg != "" {
			o.violate(monShutdown, "C10/"+s.class(sc.Res)+"/consumer/panic", "a consumer panicked", "no panic", s.panicMsg)
		}
		s.mu.Unlock()
	}

	// ---- phase E: every goroutine started for a cancelled or ended subscription is gone
	o.eval(monShutdown, "goroutines-baseline/"+sc.Class, len(subs) > 0)
	if ok, left, _ := waitBaseline(bound); !ok {
		sig := "C10/" + sc.Res + "/goroutine-leak"
		if endedPullID() != nil {
			sig = "C10/PullID/after-remove/goroutine-leak"
		}
		o.violate(monShutdown, sig, "goroutines of cancelled/ended subscriptions are still alive",
			"no goroutine inside pkg/resource or internal/minibus", censusSummary(left))
	}

	// ---- cleanup (not judged, except that cancel must always release everything)
	for _, s := range subs {
		s.doCancel()
	}
	if ok, left, _ := waitBaseline(bound + 3*time.Second); !ok {
		o.violate(monShutdown, "C10/"+sc.Res+"/goroutine-leak-after-cancel", "goroutines still alive after every context was cancelled",
			"no goroutine inside pkg/resource or internal/minibus", censusSummary(left))
	}
	hookMu.Lock()
	for k, v := range pointCount {
		o.Points[k] = v
	}
	hookMu.Unlock()
	o.count(fmt.Sprintf("scenario-ms<%d", bucketMs(time.Since(t0))))
	return out
}

func bucketMs(d time.Duration) int {
	ms := int(d / time.Millisecond)
	for _, b := range []int{10, 50, 200, 1000, 5000} {
		if ms < b {
			return b
		}
	}
	return 1 << 30
}

func waitClosed(s *subRun, bound time.Duration) bool {
	select {
	case <-s.done:
	case <-time.After(bound):
	}
	_, closed, _ := s.snapshot()
	return closed
}

// checkDelivery: exactly-once + per-writer order for subscribers live for the whole run, and
// "strictly increasing per writer" (no duplicate, no reordering) for everyone else.
func checkDelivery(o *Outcome, sc Scenario, subs []*subRun, writers []*writerRun, bound time.Duration) {
	expectedBy := map[int][]ev{}
	for _, w := range writers {
		for _, e := range w.expected {
			expectedBy[e.W] = append(expectedBy[e.W], e)
		}
	}
	for _, s := range subs {
		full := s.spec.BP && (s.spec.Consume == "drain" || s.spec.Consume == "pause") && (s.spec.Cancel == "end" || s.spec.Cancel == "never") && !s.isCancelled()
		blind := s.spec.blind()
		if blind && (!full || s.spec.Kind == "pullid") {
			// the payload is masked away: nothing to order by (ends-on-remove, close and goroutines are judged elsewhere)
			continue
		}
		want := map[int][]ev{}
		if s.spec.Kind == "pullid" {
			// the updates of its id up to (excluding) the removal
			var own []ev
			for _, e := range expectedBy[writerOfID(s.spec.ID)] {
				if e.ID == canon(sc.Icpt, s.spec.ID) {
					own = append(own, e)
				}
			}
			for _, e := range s.spec.throughInclude(own, sc.Initial) {
				if e.Typ == "REMOVE" {
					break
				}
				e.Typ = "UPDATE"
				want[e.W] = append(want[e.W], e)
			}
		} else {
			for w, es := range expectedBy {
				if blind {
					// judged by item and change type: every ADD and every REMOVE, in order (an UPDATE may be a duplicate
					// under the collection's equivalence, every view being the empty message)
					for _, e := range es {
						if e.Typ == "ADD" || e.Typ == "REMOVE" {
							e.Seq = 0
							want[w] = append(want[w], e)
						}
					}
					continue
				}
				want[w] = s.spec.throughInclude(es, sc.Initial)
			}
		}
		total := 0
		for _, es := range want {
			total += len(es)
		}
		if full {
			// the last event may still be in the forwarder's hand
			deadline := time.Now().Add(bound)
			for time.Now().Before(deadline) {
				got, closed, _ := s.snapshot()
				n := 0
				for _, e := range got {
					if !blind || e.Typ == "ADD" || e.Typ == "REMOVE" {
						n++
					}
				}
				if n >= total || closed {
					break
				}
				time.Sleep(100 * time.Microsecond)
			}
		}
		got, _, _ := s.snapshot()
		gotBy := map[int][]ev{}
		for _, e := range got {
			if blind && e.Typ != "ADD" && e.Typ != "REMOVE" {
				continue
			}
			gotBy[e.W] = append(gotBy[e.W], e)
		}
		cls := s.class(sc.Res)
		if full {
			o.eval(monDelivery, fmt.Sprintf("exactly-once/%s/n=%d", cls, total), total > 0)
			var ws []int
			for w := range want {
				ws = append(ws, w)
			}
			for w := range gotBy {
				if _, ok := want[w]; !ok {
					ws = append(ws, w)
				}
			}
			sort.Ints(ws)
			for _, w := range ws {
				a, b := fmtEvs(want[w]), fmtEvs(gotBy[w])
				if a == b {
					continue
				}
				kind := deliveryDefect(want[w], gotBy[w])
				o.violate(monDelivery, "C10/"+cls+"/delivery/"+kind,
					"a subscriber live for the whole run did not receive each event of a writer exactly once in order",
					a, b)
			}
		} else {
			o.eval(monDelivery, "monotone/"+cls+"/"+s.spec.Consume+"/"+s.spec.Cancel, len(got) > 0)
			for w, es := range gotBy {
				last := map[string]int{}
				lastAny := 0
				for _, e := range es {
					if e.Typ == "REMOVE" {
						continue
					}
					if e.Seq <= last[e.ID] || (sc.Res == "value" && e.Seq <= lastAny) {
						o.violate(monDelivery, "C10/"+cls+"/delivery/not-increasing",
							"events of one writer arrived duplicated or out of order",
							"strictly increasing sequence numbers for writer "+fmt.Sprint(w), fmtEvs(es))
						break
					}
					last[e.ID] = e.Seq
					lastAny = e.Seq
				}
			}
		}
	}
}

// deliveryDefect names what is wrong with the events `got` from one writer, given the ones it successfully wrote
// (`want`, in order): by comparing the two as multisets first — an event received more often than written
// (`duplicate`), one that was never written (`unexpected-event`), one received less often than written (`missing`) —
// and only when the multisets agree as a matter of order (`reordered`).
func deliveryDefect(want, got []ev) string {
	wrote, left := map[ev]int{}, map[ev]int{}
	for _, e := range want {
		wrote[e]++
		left[e]++
	}
	dup, alien := false, false
	for _, e := range got {
		left[e]--
		if left[e] < 0 {
			if wrote[e] > 0 {
				dup = true
			} else {
				alien = true
			}
		}
	}
	switch {
	case dup:
		return "duplicate"
	case alien:
		return "unexpected-event"
	}
	for _, n := range left {
		if n > 0 {
			return "missing"
		}
	}
	return "reordered"
}

func fmtEvs(es []ev) string {
	parts := make([]string, len(es))
	for i, e := range es {
		parts[i] = e.String()
	}
	return "[" + strings.Join(parts, " ") + "]"
}
