package main

// Trait-level subscriptions: the Pull… adapters of the trait models (a goroutine that ranges over the
// pkg/resource channel and re-sends typed changes) and, for the same ten traits, the ModelServer's gRPC
// handler on top (`for change := range model.Pull…(ctx) { stream.Send }`, no ctx case of its own).  The
// property is the same as for pkg/resource: cancelling the context at any moment — also after the consumer
// stopped receiving while writers were active — ends every goroutine started for the subscription.
// Oracle: the goroutine census (frames inside pkg/resource, internal/minibus and pkg/trait/*) is empty again.

import (
	"context"
	"errors"
	"fmt"
	"time"

	"github.com/smart-core-os/sc-api/go/traits"
	"google.golang.org/grpc/metadata"

	"github.com/smart-core-os/sc-golang/pkg/resource"
	"github.com/smart-core-os/sc-golang/pkg/trait/accesspb"
	"github.com/smart-core-os/sc-golang/pkg/trait/airqualitysensorpb"
	"github.com/smart-core-os/sc-golang/pkg/trait/airtemperaturepb"
	"github.com/smart-core-os/sc-golang/pkg/trait/bookingpb"
	"github.com/smart-core-os/sc-golang/pkg/trait/electricpb"
	"github.com/smart-core-os/sc-golang/pkg/trait/energystoragepb"
	"github.com/smart-core-os/sc-golang/pkg/trait/enterleavesensorpb"
	"github.com/smart-core-os/sc-golang/pkg/trait/fanspeedpb"
	"github.com/smart-core-os/sc-golang/pkg/trait/hailpb"
	"github.com/smart-core-os/sc-golang/pkg/trait/lightpb"
	"github.com/smart-core-os/sc-golang/pkg/trait/metadatapb"
	"github.com/smart-core-os/sc-golang/pkg/trait/meterpb"
	"github.com/smart-core-os/sc-golang/pkg/trait/modepb"
	"github.com/smart-core-os/sc-golang/pkg/trait/occupancysensorpb"
	"github.com/smart-core-os/sc-golang/pkg/trait/onoffpb"
	"github.com/smart-core-os/sc-golang/pkg/trait/openclosepb"
	"github.com/smart-core-os/sc-golang/pkg/trait/parentpb"
	"github.com/smart-core-os/sc-golang/pkg/trait/presspb"
	"github.com/smart-core-os/sc-golang/pkg/trait/publicationpb"
	"github.com/smart-core-os/sc-golang/pkg/trait/vendingpb"
	"github.com/smart-core-os/sc-golang/pkg/trait/wastepb"
)

type AdapterCase struct {
	Trait     string `json:"trait"`
	Level     string `json:"level"`     // model | server | group (the pkg/group based fan-in handler of a trait Group over 3 member devices)
	Consume   string `json:"consume"`   // drain | stop (receive StopAfter events, then never again)
	StopAfter int    `json:"stopAfter"` // also: the fake stream's Send fails from this message on (level server)
	Writes    int    `json:"writes"`    // writes issued after the consumer stopped / while it drains
	Pre       bool   `json:"pre"`       // the context is already cancelled when the subscription is made
	UO        bool   `json:"uo"`
}

// an opened trait-level subscription: recv receives one change (false = channel closed), write does the i-th write
type adapterSub struct {
	recv  func() bool
	write func(i int)
}

func f32(v float32) *float32 { return &v }

var adapterNames = []string{"onoff", "light", "press", "waste", "airtemperature", "airquality", "energystorage", "fanspeed", "publications", "publication",
	// every other Pull… adapter of a trait model (model level)
	"occupancy", "meter", "access", "demand", "activemode", "modes", "enterleave", "consumables", "inventory", "bookings",
	"modevalues", "positions", "metadata", "allmetadata", "hails", "children"}

func openAdapter(name string, ctx context.Context, opts ...resource.ReadOption) *adapterSub {
	switch name {
	case "onoff":
		m := onoffpb.NewModel()
		ch := m.PullOnOff(ctx, opts...)
		return &adapterSub{func() bool { _, ok := <-ch; return ok }, func(i int) {
			m.UpdateOnOff(&traits.OnOff{State: traits.OnOff_State(1 + i%2)})
		}}
	case "light":
		m := lightpb.NewModel()
		ch := m.PullBrightness(ctx, opts...)
		return &adapterSub{func() bool { _, ok := <-ch; return ok }, func(i int) {
			m.UpdateBrightness(&traits.Brightness{LevelPercent: float32(1 + i%90)})
		}}
	case "press":
		m := presspb.NewModel(traits.PressedState_UNPRESSED)
		ch := m.PullPressedState(ctx, opts...)
		return &adapterSub{func() bool { _, ok := <-ch; return ok }, func(i int) {
			m.UpdatePressedState(&traits.PressedState{State: traits.PressedState_Press(1 + i%2)})
		}}
	case "waste":
		m := wastepb.NewModel()
		ch := m.PullWasteRecords(ctx, opts...)
		return &adapterSub{func() bool { _, ok := <-ch; return ok }, func(i int) {
			m.AddWasteRecord(&traits.WasteRecord{Id: fmt.Sprint("r", i)})
		}}
	case "airtemperature":
		m := airtemperaturepb.NewModel()
		ch := m.PullAirTemperature(ctx, opts...)
		return &adapterSub{func() bool { _, ok := <-ch; return ok }, func(i int) {
			m.UpdateAirTemperature(&traits.AirTemperature{AmbientHumidity: f32(float32(1 + i%90))})
		}}
	case "airquality":
		m := airqualitysensorpb.NewModel()
		ch := m.PullAirQuality(ctx, opts...)
		return &adapterSub{func() bool { _, ok := <-ch; return ok }, func(i int) {
			m.UpdateAirQuality(&traits.AirQuality{CarbonDioxideLevel: f32(float32(400 + i))})
		}}
	case "energystorage":
		m := energystoragepb.NewModel()
		ch := m.PullEnergyLevel(ctx, opts...)
		return &adapterSub{func() bool { _, ok := <-ch; return ok }, func(i int) {
			m.UpdateEnergyLevel(&traits.EnergyLevel{Quantity: &traits.EnergyLevel_Quantity{Percentage: float32(1 + i%90)}})
		}}
	case "fanspeed":
		m := fanspeedpb.NewModel()
		ch := m.PullFanSpeed(ctx, opts...)
		return &adapterSub{func() bool { _, ok := <-ch; return ok }, func(i int) {
			m.UpdateFanSpeed(&traits.FanSpeed{Percentage: float32(1 + i%90)})
		}}
	case "publications", "publication":
		m := publicationpb.NewModel()
		m.CreatePublication(&traits.Publication{Id: "p", Body: []byte{0}})
		write := func(i int) {
			m.UpdatePublication("p", &traits.Publication{Id: "p", Body: []byte{byte(1 + i%200)}})
		}
		if name == "publication" {
			ch := m.PullPublication(ctx, "p", opts...)
			return &adapterSub{func() bool { _, ok := <-ch; return ok }, write}
		}
		ch := m.PullPublications(ctx, opts...)
		return &adapterSub{func() bool { _, ok := <-ch; return ok }, write}
	}
	return openAdapterMore(name, ctx, opts...)
}

// openAdapterMore: the Pull… adapters of the remaining trait models
func openAdapterMore(name string, ctx context.Context, opts ...resource.ReadOption) *adapterSub {
	switch name {
	case "occupancy":
		m := occupancysensorpb.NewModel()
		ch := m.PullOccupancy(ctx, opts...)
		return &adapterSub{func() bool { _, ok := <-ch; return ok }, func(i int) {
			m.SetOccupancy(&traits.Occupancy{PeopleCount: int32(1 + i)})
		}}
	case "meter":
		m := meterpb.NewModel()
		ch := m.PullMeterReadings(ctx, opts...)
		return &adapterSub{func() bool { _, ok := <-ch; return ok }, func(i int) {
			m.UpdateMeterReading(&traits.MeterReading{Usage: float32(1 + i)})
		}}
	case "access":
		m := accesspb.NewModel()
		ch := m.PullAccessAttempts(ctx, opts...)
		return &adapterSub{func() bool { _, ok := <-ch; return ok }, func(i int) {
			m.UpdateLastAccessAttempt(&traits.AccessAttempt{Reason: fmt.Sprint("r", i)})
		}}
	case "demand":
		m := electricpb.NewModel()
		ch := m.PullDemand(ctx, opts...)
		return &adapterSub{func() bool { _, ok := <-ch; return ok }, func(i int) {
			m.UpdateDemand(&traits.ElectricDemand{Current: float32(1 + i)})
		}}
	case "activemode":
		m := electricpb.NewModel()
		a, _ := m.CreateMode(&traits.ElectricMode{Title: "a"})
		b, _ := m.CreateMode(&traits.ElectricMode{Title: "b"})
		ch := m.PullActiveMode(ctx, opts...)
		return &adapterSub{func() bool { _, ok := <-ch; return ok }, func(i int) {
			if a == nil || b == nil {
				return
			}
			m.ChangeActiveMode([]string{a.Id, b.Id}[i%2])
		}}
	case "modes":
		m := electricpb.NewModel()
		ch := m.PullModes(ctx, opts...)
		return &adapterSub{func() bool { _, ok := <-ch; return ok }, func(i int) {
			m.CreateMode(&traits.ElectricMode{Title: fmt.Sprint("t", i)})
		}}
	case "enterleave":
		m := enterleavesensorpb.NewModel()
		ch := m.PullEnterLeaveEvents(ctx, opts...)
		return &adapterSub{func() bool { _, ok := <-ch; return ok }, func(i int) {
			m.CreateEnterLeaveEvent(&traits.EnterLeaveEvent{Direction: traits.EnterLeaveEvent_Direction(1 + i%2)})
		}}
	case "consumables", "inventory":
		m := vendingpb.NewModel()
		if name == "consumables" {
			ch := m.PullConsumables(ctx, opts...)
			return &adapterSub{func() bool { _, ok := <-ch; return ok }, func(i int) {
				m.CreateConsumable(&traits.Consumable{Name: fmt.Sprint("c", i)})
			}}
		}
		ch := m.PullInventory(ctx, opts...)
		return &adapterSub{func() bool { _, ok := <-ch; return ok }, func(i int) {
			m.CreateStock(&traits.Consumable_Stock{Consumable: fmt.Sprint("c", i)})
		}}
	case "bookings":
		m := bookingpb.NewModel()
		ch := m.PullBookings(ctx, opts...)
		return &adapterSub{func() bool { _, ok := <-ch; return ok }, func(i int) {
			m.CreateBooking(&traits.Booking{Bookable: fmt.Sprint("b", i)})
		}}
	case "modevalues":
		m := modepb.NewModelModes(&traits.Modes{Modes: []*traits.Modes_Mode{{Name: "m", Values: []*traits.Modes_Value{{Name: "a"}, {Name: "b"}, {Name: "c"}}}}})
		ch := m.PullModeValues(ctx, opts...)
		return &adapterSub{func() bool { _, ok := <-ch; return ok }, func(i int) {
			m.UpdateModeValues(&traits.ModeValues{Values: map[string]string{"m": []string{"b", "c", "a"}[i%3]}})
		}}
	case "positions":
		m := openclosepb.NewModel()
		ch := m.PullPositions(ctx, opts...)
		return &adapterSub{func() bool { _, ok := <-ch; return ok }, func(i int) {
			m.UpdatePositions(&traits.OpenClosePositions{States: []*traits.OpenClosePosition{{OpenPercent: float32(1 + i%90)}}})
		}}
	case "metadata":
		m := metadatapb.NewModel()
		ch := m.PullMetadata(ctx, opts...)
		return &adapterSub{func() bool { _, ok := <-ch; return ok }, func(i int) {
			m.UpdateMetadata(&traits.Metadata{Name: fmt.Sprint("n", i)})
		}}
	case "allmetadata":
		m := metadatapb.NewCollection()
		ch := m.PullAllMetadata(ctx, opts...)
		return &adapterSub{func() bool { _, ok := <-ch; return ok }, func(i int) {
			m.UpdateMetadata(fmt.Sprint("n", i), &traits.Metadata{Name: fmt.Sprint("n", i)}, resource.WithCreateIfAbsent())
		}}
	case "hails":
		m := hailpb.NewModel()
		ch := m.PullHails(ctx, opts...)
		return &adapterSub{func() bool { _, ok := <-ch; return ok }, func(i int) {
			m.CreateHail(&traits.Hail{State: traits.Hail_CALLED})
		}}
	case "children":
		m := parentpb.NewModel()
		ch := m.PullChildren(ctx, opts...)
		return &adapterSub{func() bool { _, ok := <-ch; return ok }, func(i int) {
			m.AddChild(&traits.Child{Name: fmt.Sprint("c", i)})
		}}
	}
	return nil
}

// fakeStream: a server stream (of responses R) whose Send starts failing after `failFrom` messages (the client went
// away); it satisfies every generated `…Api_Pull…Server` interface.
type fakeStream[R any] struct {
	ctx      context.Context
	n        int
	failFrom int
	notify   func(n int) // called with the number of the message being sent (single.go)
}

func (s *fakeStream[R]) Send(*R) error {
	s.n++
	if s.notify != nil {
		s.notify(s.n)
	}
	if s.n > s.failFrom {
		return errors.New("transport is closing")
	}
	return nil
}
func (s *fakeStream[R]) Context() context.Context     { return s.ctx }
func (s *fakeStream[R]) SetHeader(metadata.MD) error  { return nil }
func (s *fakeStream[R]) SendHeader(metadata.MD) error { return nil }
func (s *fakeStream[R]) SetTrailer(metadata.MD)       {}
func (s *fakeStream[R]) SendMsg(any) error            { return nil }
func (s *fakeStream[R]) RecvMsg(any) error            { return nil }

func newFake[R any](ctx context.Context, failFrom int) *fakeStream[R] {
	return &fakeStream[R]{ctx: ctx, failFrom: failFrom}
}

// the traits driven at SERVER level: the model's ModelServer Pull handler (`for change := range model.Pull…(ctx)
// { stream.Send }`) on a fake stream
var serverNames = []string{"onoff", "light", "press", "waste", "airtemperature", "airquality", "energystorage", "fanspeed", "publications", "publication",
	"occupancy", "meter", "access", "demand", "modes"}

// openServer returns the handler call (blocks until the handler returns) and the i-th write on the model behind it
func openServer(name string, ctx context.Context, failFrom int, uo bool) (run func(), write func(i int)) {
	switch name {
	case "onoff":
		m := onoffpb.NewModel()
		srv := onoffpb.NewModelServer(m)
		return func() {
				srv.PullOnOff(&traits.PullOnOffRequest{UpdatesOnly: uo}, newFake[traits.PullOnOffResponse](ctx, failFrom))
			}, func(i int) {
				m.UpdateOnOff(&traits.OnOff{State: traits.OnOff_State(1 + i%2)})
			}
	case "light":
		m := lightpb.NewModel()
		srv := lightpb.NewModelServer(m)
		return func() {
				srv.PullBrightness(&traits.PullBrightnessRequest{UpdatesOnly: uo}, newFake[traits.PullBrightnessResponse](ctx, failFrom))
			}, func(i int) {
				m.UpdateBrightness(&traits.Brightness{LevelPercent: float32(1 + i%90)})
			}
	case "press":
		m := presspb.NewModel(traits.PressedState_UNPRESSED)
		srv := presspb.NewModelServer(m)
		return func() {
				srv.PullPressedState(&traits.PullPressedStateRequest{UpdatesOnly: uo}, newFake[traits.PullPressedStateResponse](ctx, failFrom))
			}, func(i int) {
				m.UpdatePressedState(&traits.PressedState{State: traits.PressedState_Press(1 + i%2)})
			}
	case "waste":
		m := wastepb.NewModel()
		srv := wastepb.NewModelServer(m)
		return func() {
				srv.PullWasteRecords(&traits.PullWasteRecordsRequest{UpdatesOnly: uo}, newFake[traits.PullWasteRecordsResponse](ctx, failFrom))
			}, func(i int) {
				m.AddWasteRecord(&traits.WasteRecord{Id: fmt.Sprint("r", i)})
			}
	case "airtemperature":
		m := airtemperaturepb.NewModel()
		srv := airtemperaturepb.NewModelServer(m)
		return func() {
				srv.PullAirTemperature(&traits.PullAirTemperatureRequest{UpdatesOnly: uo}, newFake[traits.PullAirTemperatureResponse](ctx, failFrom))
			}, func(i int) {
				m.UpdateAirTemperature(&traits.AirTemperature{AmbientHumidity: f32(float32(1 + i%90))})
			}
	case "airquality":
		m := airqualitysensorpb.NewModel()
		srv := airqualitysensorpb.NewModelServer(m)
		return func() {
				srv.PullAirQuality(&traits.PullAirQualityRequest{UpdatesOnly: uo}, newFake[traits.PullAirQualityResponse](ctx, failFrom))
			}, func(i int) {
				m.UpdateAirQuality(&traits.AirQuality{CarbonDioxideLevel: f32(float32(400 + i))})
			}
	case "energystorage":
		m := energystoragepb.NewModel()
		srv := energystoragepb.NewModelServer(m)
		return func() {
				srv.PullEnergyLevel(&traits.PullEnergyLevelRequest{UpdatesOnly: uo}, newFake[traits.PullEnergyLevelResponse](ctx, failFrom))
			}, func(i int) {
				m.UpdateEnergyLevel(&traits.EnergyLevel{Quantity: &traits.EnergyLevel_Quantity{Percentage: float32(1 + i%90)}})
			}
	case "fanspeed":
		m := fanspeedpb.NewModel()
		srv := fanspeedpb.NewModelServer(m)
		return func() {
				srv.PullFanSpeed(&traits.PullFanSpeedRequest{UpdatesOnly: uo}, newFake[traits.PullFanSpeedResponse](ctx, failFrom))
			}, func(i int) {
				m.UpdateFanSpeed(&traits.FanSpeed{Percentage: float32(1 + i%90)})
			}
	case "publications", "publication":
		m := publicationpb.NewModel()
		m.CreatePublication(&traits.Publication{Id: "p", Body: []byte{0}})
		srv := publicationpb.NewModelServer(m)
		write = func(i int) {
			m.UpdatePublication("p", &traits.Publication{Id: "p", Body: []byte{byte(1 + i%200)}})
		}
		if name == "publication" {
			return func() {
				srv.PullPublication(&traits.PullPublicationRequest{Id: "p", UpdatesOnly: uo}, newFake[traits.PullPublicationResponse](ctx, failFrom))
			}, write
		}
		return func() {
			srv.PullPublications(&traits.PullPublicationsRequest{UpdatesOnly: uo}, newFake[traits.PullPublicationsResponse](ctx, failFrom))
		}, write
	case "occupancy":
		m := occupancysensorpb.NewModel()
		srv := occupancysensorpb.NewModelServer(m)
		return func() {
				srv.PullOccupancy(&traits.PullOccupancyRequest{UpdatesOnly: uo}, newFake[traits.PullOccupancyResponse](ctx, failFrom))
			}, func(i int) {
				m.SetOccupancy(&traits.Occupancy{PeopleCount: int32(1 + i)})
			}
	case "meter":
		m := meterpb.NewModel()
		srv := meterpb.NewModelServer(m)
		return func() {
				srv.PullMeterReadings(&traits.PullMeterReadingsRequest{UpdatesOnly: uo}, newFake[traits.PullMeterReadingsResponse](ctx, failFrom))
			}, func(i int) {
				m.UpdateMeterReading(&traits.MeterReading{Usage: float32(1 + i)})
			}
	case "access":
		m := accesspb.NewModel()
		srv := accesspb.NewModelServer(m)
		return func() {
				srv.PullAccessAttempts(&traits.PullAccessAttemptsRequest{UpdatesOnly: uo}, newFake[traits.PullAccessAttemptsResponse](ctx, failFrom))
			}, func(i int) {
				m.UpdateLastAccessAttempt(&traits.AccessAttempt{Reason: fmt.Sprint("r", i)})
			}
	case "demand", "modes":
		m := electricpb.NewModel()
		srv := electricpb.NewModelServer(m)
		if name == "demand" {
			return func() {
					srv.PullDemand(&traits.PullDemandRequest{UpdatesOnly: uo}, newFake[traits.PullDemandResponse](ctx, failFrom))
				}, func(i int) {
					m.UpdateDemand(&traits.ElectricDemand{Current: float32(1 + i)})
				}
		}
		return func() {
				srv.PullModes(&traits.PullModesRequest{UpdatesOnly: uo}, newFake[traits.PullModesResponse](ctx, failFrom))
			}, func(i int) {
				m.CreateMode(&traits.ElectricMode{Title: fmt.Sprint("t", i)})
			}
	}
	return nil, nil
}

// the traits that have a Group (pkg/group based fan-in of the members' Pull streams into one)
var groupNames = []string{"light", "onoff"}

// openGroup: a trait Group over three member devices (model + ModelServer each, reached like in production through
// the trait's router and the in-process wrapper); run is the Group's Pull handler on a fake stream, the i-th write
// changes one member
func openGroup(name string, ctx context.Context, failFrom int, uo bool) (run func(), write func(i int)) {
	members := []string{"A", "B", "C"}
	switch name {
	case "light":
		models := map[string]*lightpb.Model{}
		for _, n := range members {
			models[n] = lightpb.NewModel()
		}
		devices := lightpb.NewApiRouter(lightpb.WithLightApiClientFactory(func(n string) (traits.LightApiClient, error) {
			m := models[n]
			if m == nil {
				return nil, errors.New("unknown device")
			}
			return lightpb.WrapApi(lightpb.NewModelServer(m)), nil
		}))
		g := lightpb.NewGroup(lightpb.WrapApi(devices), members...)
		return func() {
				g.PullBrightness(&traits.PullBrightnessRequest{Name: "group", UpdatesOnly: uo}, newFake[traits.PullBrightnessResponse](ctx, failFrom))
			}, func(i int) {
				models[members[i%3]].UpdateBrightness(&traits.Brightness{LevelPercent: float32(1 + (7*i)%90)})
			}
	case "onoff":
		models := map[string]*onoffpb.Model{}
		for _, n := range members {
			models[n] = onoffpb.NewModel()
		}
		devices := onoffpb.NewApiRouter(onoffpb.WithOnOffApiClientFactory(func(n string) (traits.OnOffApiClient, error) {
			m := models[n]
			if m == nil {
				return nil, errors.New("unknown device")
			}
			return onoffpb.WrapApi(onoffpb.NewModelServer(m)), nil
		}))
		g := onoffpb.NewGroup(onoffpb.WrapApi(devices), members...)
		return func() {
				g.PullOnOff(&traits.PullOnOffRequest{Name: "group", UpdatesOnly: uo}, newFake[traits.PullOnOffResponse](ctx, failFrom))
			}, func(i int) {
				// all three members change together every third write: the group's (max) state flips ON / OFF
				for _, n := range members {
					models[n].UpdateOnOff(&traits.OnOff{State: traits.OnOff_State(1 + i%2)})
				}
			}
	}
	return nil, nil
}

func adapterScenarios(boundMs int) []Scenario {
	var res []Scenario
	add := func(ac AdapterCase) {
		res = append(res, Scenario{Mode: "adapter", Class: "trait-adapter/" + ac.Level + "/" + ac.Consume, Res: "trait", Adapter: &ac, BoundMs: boundMs})
	}
	for i, name := range adapterNames {
		add(AdapterCase{Trait: name, Level: "model", Consume: "drain", Writes: 3})
		add(AdapterCase{Trait: name, Level: "model", Consume: "stop", StopAfter: 1, Writes: 2})
		add(AdapterCase{Trait: name, Level: "model", Consume: "stop", StopAfter: 0, Writes: 1, UO: i%2 == 0})
		add(AdapterCase{Trait: name, Level: "model", Consume: "drain", Writes: 1, Pre: true})
		add(AdapterCase{Trait: name, Level: "model", Consume: "stop", StopAfter: 0, Writes: 1, Pre: true, UO: true})
	}
	for i, name := range serverNames {
		for _, k := range []int{0, 1, 2} {
			// the stream's Send fails from message k+1 on: the handler returns while writers are still active
			add(AdapterCase{Trait: name, Level: "server", Consume: "stop", StopAfter: k, Writes: 3, UO: (i+k)%3 == 0})
		}
		add(AdapterCase{Trait: name, Level: "server", Consume: "drain", StopAfter: 1 << 20, Writes: 2 + i%3})
		add(AdapterCase{Trait: name, Level: "server", Consume: "drain", StopAfter: 1 << 20, Writes: 1, Pre: true})
	}
	for i, name := range groupNames {
		for _, k := range []int{0, 1, 2} {
			// the hand-over to the client fails at message k+1: the group subscription ends on its error path, the
			// stream's context still live
			add(AdapterCase{Trait: name, Level: "group", Consume: "stop", StopAfter: k, Writes: 4, UO: (i+k)%2 == 1})
		}
		add(AdapterCase{Trait: name, Level: "group", Consume: "drain", StopAfter: 1 << 20, Writes: 4})
		add(AdapterCase{Trait: name, Level: "group", Consume: "drain", StopAfter: 1 << 20, Writes: 3, UO: true})
		add(AdapterCase{Trait: name, Level: "group", Consume: "drain", StopAfter: 1 << 20, Writes: 1, Pre: true})
	}
	return res
}

func runAdapter(sc Scenario) (out Outcome) {
	o := &out
	ac := sc.Adapter
	bound := time.Duration(sc.BoundMs) * time.Millisecond
	if ok, left, _ := waitBaseline(bound); !ok {
		o.count("dirty-baseline:" + censusSummary(left))
	}
	ctx, cancel := context.WithCancel(context.Background())
	defer cancel()
	if ac.Pre {
		cancel()
	}
	opts := []resource.ReadOption{resource.WithUpdatesOnly(ac.UO)}
	key := fmt.Sprintf("%s/%s/%s", ac.Trait, ac.Level, ac.Consume)
	if ac.Pre {
		key += "/pre-cancelled"
	}
	closed := make(chan struct{})  // the consumer saw the close / the handler returned
	stopped := make(chan struct{}) // the consumer has received its StopAfter events and will not receive again
	var write func(i int)

	switch ac.Level {
	case "model":
		sub := openAdapter(ac.Trait, ctx, opts...)
		if sub == nil {
			o.count("unknown-adapter:" + ac.Trait)
			return
		}
		write = sub.write
		go func() {
			if ac.Consume == "stop" {
				for i := 0; i < ac.StopAfter; i++ {
					if !sub.recv() {
						close(stopped)
						close(closed)
						return
					}
				}
				close(stopped)
				return // never looks at the channel again
			}
			close(stopped)
			for sub.recv() {
			}
			close(closed)
		}()
	case "server", "group":
		var run func()
		if ac.Level == "group" {
			run, write = openGroup(ac.Trait, ctx, ac.StopAfter, ac.UO)
		} else {
			run, write = openServer(ac.Trait, ctx, ac.StopAfter, ac.UO)
		}
		if run == nil {
			o.count("unknown-server:" + ac.Trait)
			return
		}
		close(stopped)
		go func() {
			run()
			close(closed) // the handler returned (Send failed, or the channel was closed)
		}()
	}
	// writers stay active while the consumer receives, stops, and after it stopped
	select {
	case <-stopped:
	case <-time.After(30 * time.Millisecond):
		// the consumer waits for events that only the writes below produce (no seed: an empty collection, updates-only)
	}
	for i := 0; i < ac.Writes+ac.StopAfter && i < 64; i++ {
		done := make(chan struct{})
		go func() { defer close(done); lib_catch(func() { write(i) }) }()
		select {
		case <-done:
		case <-time.After(bound):
			o.violate(monShutdown, "C10/trait/"+ac.Trait+"/"+ac.Level+"/writer-blocked", "a write on a trait model does not return although its only subscriber merely stopped receiving (no backpressure requested)",
				"returns within "+bound.String(), "blocked; goroutines: "+censusSummary(census()))
			return
		}
		time.Sleep(200 * time.Microsecond)
	}
	select {
	case <-stopped:
	case <-time.After(bound):
	}
	time.Sleep(2 * time.Millisecond) // let the adapter goroutine pick up the last change
	if ac.Level == "group" && ac.Consume == "stop" && !ac.Pre {
		// a Group's Pull handler that returned because its hand-over failed has ended its subscription itself (it runs
		// the members on a context of its own, cancelled on return): the fan-in goroutine, the member streams and the
		// members' subscriptions all go although the stream's context is still live
		select {
		case <-closed:
			o.eval(monShutdown, "goroutines-baseline/trait/"+key+"/send-failed-ctx-live", true)
			if ok, left, _ := waitBaseline(bound); !ok {
				o.violate(monShutdown, "C10/trait/"+ac.Trait+"/group/goroutine-leak-after-send-failed",
					"goroutines started for a group subscription are still alive after its handler returned the error of a failed Send (stream context still live)",
					"no goroutine inside pkg/trait/*, pkg/group, pkg/wrap, pkg/resource or internal/minibus", censusSummary(left))
				cancel()
				return
			}
		case <-time.After(bound):
			o.violate(monShutdown, "C10/trait/"+ac.Trait+"/group/handler-not-returned-after-send-failed",
				"a Group's Pull handler whose Send failed did not return", "returns within "+bound.String(), "still running; goroutines: "+censusSummary(census()))
			cancel()
			return
		}
	}
	cancel()
	if ac.Consume == "drain" {
		o.eval(monShutdown, "closed-after-cancel/trait/"+key, true)
		select {
		case <-closed:
		case <-time.After(bound):
			o.violate(monShutdown, "C10/trait/"+ac.Trait+"/"+ac.Level+"/close-not-observed-after-cancel",
				"the consumer of a trait-level subscription did not see its channel closed (the handler did not return) after the cancel",
				"closed within "+bound.String(), "still open; goroutines: "+censusSummary(census()))
		}
	}
	o.eval(monShutdown, "goroutines-baseline/trait/"+key, true)
	if ok, left, _ := waitBaseline(bound); !ok {
		o.violate(monShutdown, "C10/trait/"+ac.Trait+"/"+ac.Level+"/goroutine-leak",
			"goroutines started for a trait-level subscription are still alive after its context was cancelled (the consumer had stopped receiving before the cancel)",
			"no goroutine inside pkg/trait/*, pkg/resource or internal/minibus", censusSummary(left))
	}
	return out
}

func lib_catch(f func()) {
	defer func() { _ = recover() }()
	f()
}
