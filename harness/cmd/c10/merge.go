package main

// The kind algebra of mergeChanges, exhaustively (K2): every sequence of up to 5 change types the collection can
// publish about one item one after the other (ADD when it does not exist; UPDATE / REPLACE / REMOVE when it does),
// from both start states, folded through the real mergeChanges the way mergeCollectionExcess does while the consumer
// is away (the held change of the item merged with each newcomer; "send = false" = nothing held).
//
// Tie: the held change type against the Lean fold (mergeSeq, driver op `mseq`).
// Monitor (oracle independent of the model: a receiver's view of the item as one bool): the held change must be one
// the receiver can apply to what it was last told, and must take it to the item's true final state; nothing held =
// the receiver is already right.  A receiver that was shown the item and is behind by delete / re-add / delete is
// owed a REMOVE.  Also: the held change carries the newest value.

import (
	"fmt"
	"sort"

	"github.com/smart-core-os/sc-api/go/types"
	"google.golang.org/protobuf/proto"
	"google.golang.org/protobuf/types/known/wrapperspb"

	"github.com/smart-core-os/sc-golang/pkg/resource"
	"github.com/smart-core-os/sc-golang/verifharness/lib"
)

const (
	tieMerge     = "merge-table"
	tieMergeRule = "K2 exhaustive: every valid sequence of 1-5 change types (a = ADD only when the item does not exist, u / p / r = UPDATE / REPLACE / REMOVE only when it does) from both start states, folded through the real resource.mergeChanges (verif export) as mergeCollectionExcess does for one item while nothing is taken out; compared with the Lean fold mergeSeq / mergeKind (driver op mseq): held change type or none. non-trivial = at least two changes; distinct = distinct (start state, sequence)"
)

type MergeCase struct {
	Exists bool   `json:"exists"` // the item exists at the start, and the receiver knows
	Kinds  string `json:"kinds"`  // letters a u r p
}

func mergeScenarios(maxLen int) []Scenario {
	var res []Scenario
	var gen func(start, s bool, seq string)
	gen = func(start, s bool, seq string) {
		if len(seq) > 0 {
			mc := MergeCase{Exists: start, Kinds: seq}
			res = append(res, Scenario{Mode: "merge", Class: "merge-table", Res: "collection", Merge: &mc})
		}
		if len(seq) == maxLen {
			return
		}
		if !s {
			gen(start, true, seq+"a")
			return
		}
		gen(start, true, seq+"u")
		gen(start, true, seq+"p")
		gen(start, false, seq+"r")
	}
	gen(true, true, "")
	gen(false, false, "")
	// shortest first: the first failing input per signature is the replay
	sort.SliceStable(res, func(i, j int) bool { return len(res[i].Merge.Kinds) < len(res[j].Merge.Kinds) })
	return res
}

func letterType(c byte) types.ChangeType {
	switch c {
	case 'a':
		return types.ChangeType_ADD
	case 'u':
		return types.ChangeType_UPDATE
	case 'r':
		return types.ChangeType_REMOVE
	case 'p':
		return types.ChangeType_REPLACE
	}
	return types.ChangeType_CHANGE_TYPE_UNSPECIFIED
}

func runMerge(sc Scenario, drv *lib.Driver) (out Outcome) {
	o := &out
	mc := sc.Merge
	var held *resource.CollectionChange
	var cur proto.Message // the item's value (nil = does not exist)
	if mc.Exists {
		cur = wrapperspb.Int64(0)
	}
	exists := mc.Exists
	didPanic, panicked := lib.Catch(func() {
		for i := 0; i < len(mc.Kinds); i++ {
			t := letterType(mc.Kinds[i])
			b := resource.CollectionChange{Id: "x", ChangeType: t, OldValue: cur}
			if t != types.ChangeType_REMOVE {
				b.NewValue = wrapperspb.Int64(int64(i + 1))
			}
			cur = b.NewValue
			exists = t != types.ChangeType_REMOVE
			if held == nil {
				held = &b
				continue
			}
			c, send := resource.VerifMergeChanges(*held, b)
			if send {
				held = &c
			} else {
				held = nil
			}
		}
	})
	code := "none"
	if didPanic {
		code = "panic:" + panicked
	} else if held != nil {
		code = kindLetter(held.ChangeType)
	}
	key := fmt.Sprintf("%v/%s", mc.Exists, mc.Kinds)
	if drv != nil {
		ans, err := drv.Ask("mseq " + mc.Kinds)
		t := TieRec{Tie: tieMerge, Key: key, Nontrivial: len(mc.Kinds) >= 2, Model: ans, Code: code}
		if err != nil {
			t.Err = "driver: " + err.Error()
		}
		o.Ties = append(o.Ties, t)
	}
	o.count("merge:held:" + code)
	// the receiver's view
	o.eval(monDelivery, "merge-net-effect/len="+fmt.Sprint(len(mc.Kinds)), len(mc.Kinds) >= 2)
	told := mc.Exists
	switch {
	case didPanic:
		o.violate(monDelivery, "C10/mergeChanges/panic", "mergeChanges panicked", "no panic", panicked)
	case held == nil:
		if told != exists {
			o.violate(monDelivery, "C10/mergeChanges/net-effect-lost",
				"the changes of an item that arrived while the consumer was away were merged into nothing although they do not cancel: the receiver is never told",
				fmt.Sprintf("a held change that takes the receiver from exists=%v to exists=%v", told, exists), "nothing held")
		}
	default:
		t := held.ChangeType
		applicable := (t == types.ChangeType_ADD) == !told
		after := t != types.ChangeType_REMOVE
		if !applicable || after != exists {
			o.violate(monDelivery, "C10/mergeChanges/net-effect-wrong",
				"the change held for an item after merging does not take the receiver's view of the item to the item's state",
				fmt.Sprintf("a change applicable to exists=%v that yields exists=%v", told, exists), "held "+t.String())
		} else if !proto.Equal(held.NewValue, cur) && !(held.NewValue == nil && cur == nil) {
			o.violate(monDelivery, "C10/mergeChanges/value-lost",
				"the change held for an item after merging does not carry the item's newest value",
				fmt.Sprint(cur), fmt.Sprint(held.NewValue))
		}
	}
	return out
}
