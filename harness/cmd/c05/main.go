// Harness for C05 (writes respect update, writable-field and reset masks): ties the Lean model
// (driverC05) to masks.FieldUpdater, resource.Value.Set, resource.Collection.Update and to the
// libraries they are built on, and evaluates the property path by path on the real code.
package main

import (
	"encoding/json"
	"fmt"
	"os"

	"google.golang.org/protobuf/proto"
	"google.golang.org/protobuf/reflect/protoreflect"

	"github.com/smart-core-os/sc-api/go/traits"
	"github.com/smart-core-os/sc-golang/internal/testproto"
	"github.com/smart-core-os/sc-golang/verifharness/cmd/c05/mt"
	"github.com/smart-core-os/sc-golang/verifharness/lib"
)

type root struct {
	Name string
	New  func() proto.Message
}

func (r root) MD() protoreflect.MessageDescriptor { return r.New().ProtoReflect().Descriptor() }

var roots = []root{
	{"TestAllTypes", func() proto.Message { return &testproto.TestAllTypes{} }},
	{"AirTemperature", func() proto.Message { return &traits.AirTemperature{} }},
	{"Brightness", func() proto.Message { return &traits.Brightness{} }},
	{"ElectricMode", func() proto.Message { return &traits.ElectricMode{} }},
}

func rootByName(n string) root {
	for _, r := range roots {
		if r.Name == n {
			return r
		}
	}
	for _, r := range traitRoots {
		if r.Name == n {
			return r
		}
	}
	panic("unknown root " + n)
}

var schema *mt.Schema

func initSchema() {
	var mds []protoreflect.MessageDescriptor
	for _, r := range roots {
		mds = append(mds, r.MD())
	}
	for _, r := range traitRoots {
		mds = append(mds, r.MD())
	}
	schema = mt.NewSchema(mds...)
}

func startDriver(f lib.Flags) *lib.Driver {
	drv, err := lib.StartDriver(f.Driver)
	if err != nil {
		lib.Fatal(err)
	}
	ans, err := drv.Ask(schema.Line())
	if err != nil || ans != "ok" {
		lib.Fatal(fmt.Errorf("driver rejected the schema: %q %v", ans, err))
	}
	return drv
}

func main() {
	f := lib.ParseFlags()
	initSchema()
	if f.Replay != "" {
		os.Exit(replay(f))
	}
	res := lib.NewResult("C05", f)
	drv := startDriver(f)
	defer drv.Close()
	runLibraryTies(f, res, drv)
	runWrites(f, res, drv)
	runSequences(f, res, drv)
	runRaces(f, res, drv)
	runTraits(f, res, drv)
	runIntercepted(f, res, drv)
	if err := res.Write(f.Out); err != nil {
		lib.Fatal(err)
	}
}

func replay(f lib.Flags) int {
	rp, err := lib.ReadReplay(f.Replay)
	if err != nil {
		lib.Fatal(err)
	}
	b, _ := json.Marshal(rp.Input)
	var tc tcase
	if err := json.Unmarshal(b, &tc); err == nil && tc.Trait != "" {
		return replayTrait(tc)
	}
	var ic icase
	if err := json.Unmarshal(b, &ic); err == nil && ic.Icpt != "" {
		return replayIcase(ic)
	}
	var rc rcase
	if err := json.Unmarshal(b, &rc); err == nil && rc.Root != "" && rc.Outer.Src != "" {
		return replayRace(rc)
	}
	var sc scase
	if err := json.Unmarshal(b, &sc); err == nil && sc.Root != "" && len(sc.Steps) > 0 {
		return replaySeq(sc)
	}
	var c wcase
	if err := json.Unmarshal(b, &c); err != nil || c.Root == "" {
		fmt.Println("replay: no concrete input in file (", rp.Kind, rp.Broken, ")")
		return 2
	}
	m := lib.NewMonitor("replay", "")
	if c.Inner != nil {
		c.Inner.Nested = true
	}
	out := c.runCode()
	c.monitor(m, out)
	if c.Inner != nil && out.Inner != nil {
		c.Inner.monitor(m, *out.Inner)
	}
	fmt.Printf("replay %s site=%s W=%s more=%s all=%v M=%s R=%s\n  stored=%s\n  written=%s\n  -> %s\n", c.Root, c.Site,
		c.W.Enc(), c.More.Enc(), c.All, c.M.Enc(), c.R.Enc(), c.DstText, c.SrcText, out.fullText())
	if len(m.Violations) > 0 {
		for _, v := range m.Violations {
			fmt.Printf("STILL FAILS %s: %s (expected %s, observed %s)\n", v.Signature, v.What, v.Expected, v.Observed)
		}
		return 1
	}
	fmt.Println("replay: property holds on this input now")
	return 0
}
