package main

import (
	"google.golang.org/protobuf/proto"

	"github.com/smart-core-os/sc-golang/internal/testproto"
	"github.com/smart-core-os/sc-golang/verifharness/cmd/c05/mt"
	"github.com/smart-core-os/sc-golang/verifharness/lib"
)

// prunedTree: 13 paths of TestAllTypes covering every field kind and two levels of nesting.
var prunedTree = []string{
	"default_int32", "optional_int32",
	"default_foreign_message", "default_foreign_message.c", "default_foreign_message.d",
	"default_nested_message", "default_nested_message.a", "default_nested_message.corecursive",
	"default_nested_message.corecursive.default_int32",
	"oneof_default_int32", "oneof_default_nested_message",
	"repeated_int32", "map_string_string",
}

func exhaustiveMessages() []proto.Message {
	zero := int32(0)
	five := int32(5)
	return []proto.Message{
		&testproto.TestAllTypes{},
		&testproto.TestAllTypes{
			DefaultInt32: 1, OptionalInt32: &zero,
			DefaultForeignMessage: &testproto.ForeignMessage{C: 1, D: 2},
			DefaultNestedMessage:  &testproto.TestAllTypes_NestedMessage{A: 3, Corecursive: &testproto.TestAllTypes{DefaultInt32: 4, DefaultString: "s"}},
			OneofDefault:          &testproto.TestAllTypes_OneofDefaultInt32{OneofDefaultInt32: 6},
			RepeatedInt32:         []int32{1, 2},
			MapStringString:       map[string]string{"a": "1", "b": "2"},
		},
		&testproto.TestAllTypes{
			OptionalInt32:         &five,
			DefaultForeignMessage: &testproto.ForeignMessage{D: 9},
			DefaultNestedMessage:  &testproto.TestAllTypes_NestedMessage{Corecursive: &testproto.TestAllTypes{}},
			OneofDefault:          &testproto.TestAllTypes_OneofDefaultNestedMessage{OneofDefaultNestedMessage: &testproto.TestAllTypes_NestedMessage{A: 8}},
			RepeatedInt32:         []int32{7},
			MapStringString:       map[string]string{"b": "3", "c": "4"},
		},
	}
}

func masksUpTo2(tree []string) []mt.Mask {
	out := []mt.Mask{mt.NilMask(), {Paths: []string{}}}
	for _, a := range tree {
		out = append(out, mt.Mask{Paths: []string{a}})
	}
	for _, a := range tree {
		for _, b := range tree {
			out = append(out, mt.Mask{Paths: []string{a, b}})
		}
	}
	return out
}

// runExhaustive: every update mask of at most two paths over the pruned tree × a family of writable
// masks × 3 stored × 3 written messages, at FieldUpdater.
func runExhaustive(res *lib.Result, drv *lib.Driver, mon *lib.Monitor) {
	tie := res.Tie("writes-exhaustive", "K2",
		"all update masks of <=2 paths (ordered, duplicates included, plus nil and empty) over a pruned 13-path tree of TestAllTypes x writable in {nil, each single path, 4 two-path masks} x 3 stored x 3 written messages at FieldUpdater.Validate+Merge; exhaustive over this finite domain")
	tie.Exhaustive = true
	msgs := exhaustiveMessages()
	Ms := masksUpTo2(prunedTree)
	Ws := []mt.Mask{mt.NilMask()}
	for _, a := range prunedTree {
		Ws = append(Ws, mt.Mask{Paths: []string{a}})
	}
	Ws = append(Ws,
		mt.Mask{Paths: []string{"default_foreign_message.c", "default_foreign_message.d"}},
		mt.Mask{Paths: []string{"default_foreign_message.c", "default_int32"}},
		mt.Mask{Paths: []string{"default_nested_message.corecursive", "oneof_default_int32"}},
		mt.Mask{Paths: []string{"default_nested_message", "default_nested_message.a"}},
	)
	var cases []wcase
	flush := func() {
		runCases(cases, tie, mon, drv)
		cases = cases[:0]
	}
	for _, W := range Ws {
		for _, M := range Ms {
			for _, dst := range msgs {
				for _, src := range msgs {
					cases = append(cases, wcase{Root: "TestAllTypes", Site: "updater", W: W, More: mt.NilMask(), M: M, R: mt.NilMask(),
						Dst: mt.EncodeMsg(dst), Src: mt.EncodeMsg(src), DstText: mt.CanonMsg(dst), SrcText: mt.CanonMsg(src)})
					if len(cases) >= 3000 {
						flush()
					}
				}
			}
		}
	}
	flush()
	runExhaustiveReset(res, drv, mon)
}

// resetTree: the paths reset masks are enumerated over (two levels of nesting, every field kind).
var resetTree = []string{
	"default_int32", "default_foreign_message", "default_foreign_message.c", "default_foreign_message.d",
	"default_nested_message", "default_nested_message.a", "default_nested_message.corecursive",
	"default_nested_message.corecursive.default_int32", "oneof_default_nested_message", "repeated_int32", "map_string_string",
}

// runExhaustiveReset: every reset mask of at most two paths (ordered: parent+child in both orders,
// duplicates) x a family of (writable, update) masks x 3 stored x 3 written messages, at
// FieldUpdater and through Value.Set.
func runExhaustiveReset(res *lib.Result, drv *lib.Driver, mon *lib.Monitor) {
	tie := res.Tie("writes-exhaustive-reset", "K2",
		"all reset masks of <=2 paths (ordered, duplicates and parent+child pairs included, plus empty) over an 11-path tree of TestAllTypes x (writable, update) in {(nil,nil), (nil,{default_int32}), (nil,{default_foreign_message.c}), (nil,empty), (empty,nil), ({default_int32},nil), ({default_foreign_message.c},{default_foreign_message.c})} x 3 stored x 3 written messages at FieldUpdater.Validate+Merge and Value.Set; exhaustive over this finite domain")
	tie.Exhaustive = true
	msgs := exhaustiveMessages()
	one := func(p string) mt.Mask { return mt.Mask{Paths: []string{p}} }
	empty := mt.Mask{Paths: []string{}}
	WMs := [][2]mt.Mask{
		{mt.NilMask(), mt.NilMask()}, {mt.NilMask(), one("default_int32")}, {mt.NilMask(), one("default_foreign_message.c")},
		{mt.NilMask(), empty}, {empty, mt.NilMask()}, {one("default_int32"), mt.NilMask()},
		{one("default_foreign_message.c"), one("default_foreign_message.c")},
	}
	var cases []wcase
	flush := func() {
		runCases(cases, tie, mon, drv)
		cases = cases[:0]
	}
	for _, R := range masksUpTo2(resetTree)[1:] {
		for _, wm := range WMs {
			for _, dst := range msgs {
				for _, src := range msgs {
					for _, site := range []string{"updater", "value"} {
						cases = append(cases, wcase{Root: "TestAllTypes", Site: site, W: wm[0], More: mt.NilMask(), M: wm[1], R: R,
							Dst: mt.EncodeMsg(dst), Src: mt.EncodeMsg(src), DstText: mt.CanonMsg(dst), SrcText: mt.CanonMsg(src)})
					}
					if len(cases) >= 3000 {
						flush()
					}
				}
			}
		}
	}
	flush()
}
