// Package mt ("message trees") is shared by the C05 and C06 harnesses: it turns real protobuf
// messages, descriptors and field masks into the canonical text forms of the Lean drivers
// (lean/ScVerif/C05/Codec.lean), generates messages and masks from a descriptor's path tree, and
// holds the small path utilities used by the independent Go oracles.
package mt

import (
	"encoding/hex"
	"fmt"
	"math"
	"math/rand"
	"sort"
	"strings"

	"google.golang.org/protobuf/proto"
	"google.golang.org/protobuf/reflect/protoreflect"
	"google.golang.org/protobuf/types/known/fieldmaskpb"
)

// ---------------------------------------------------------------------------------------------
// Schema

type Schema struct {
	Types []protoreflect.MessageDescriptor
	idx   map[protoreflect.FullName]int
}

// NewSchema numbers every message type reachable from the roots through singular or repeated message
// fields (map values are opaque to the model).
func NewSchema(roots ...protoreflect.MessageDescriptor) *Schema {
	s := &Schema{idx: map[protoreflect.FullName]int{}}
	var add func(md protoreflect.MessageDescriptor)
	add = func(md protoreflect.MessageDescriptor) {
		if _, ok := s.idx[md.FullName()]; ok {
			return
		}
		s.idx[md.FullName()] = len(s.Types)
		s.Types = append(s.Types, md)
		for i := 0; i < md.Fields().Len(); i++ {
			fd := md.Fields().Get(i)
			if fd.IsMap() {
				continue
			}
			if fd.Message() != nil {
				add(fd.Message())
			}
		}
	}
	for _, r := range roots {
		add(r)
	}
	return s
}

func (s *Schema) ID(md protoreflect.MessageDescriptor) int { return s.idx[md.FullName()] }

func RealOneof(fd protoreflect.FieldDescriptor) protoreflect.OneofDescriptor {
	if o := fd.ContainingOneof(); o != nil && !o.IsSynthetic() {
		return o
	}
	return nil
}

// Line is the `schema` request of the drivers.
func (s *Schema) Line() string {
	var types []string
	for _, md := range s.Types {
		var fs []string
		for i := 0; i < md.Fields().Len(); i++ {
			fd := md.Fields().Get(i)
			var kind string
			switch {
			case fd.IsMap():
				kind = "p"
			case fd.IsList() && fd.Message() != nil:
				kind = fmt.Sprintf("M%d", s.ID(fd.Message()))
			case fd.IsList():
				kind = "S"
			case fd.Message() != nil:
				kind = fmt.Sprintf("m%d", s.ID(fd.Message()))
			default:
				kind = "s"
			}
			oneof := 0
			if o := RealOneof(fd); o != nil {
				oneof = o.Index() + 1
			}
			fs = append(fs, fmt.Sprintf("%s:%s:%d", fd.Name(), kind, oneof))
		}
		if len(fs) == 0 {
			types = append(types, "-")
		} else {
			types = append(types, strings.Join(fs, ","))
		}
	}
	return "schema " + strings.Join(types, ";")
}

// ---------------------------------------------------------------------------------------------
// Canonical text of messages

func scalarTok(fd protoreflect.FieldDescriptor, v protoreflect.Value) string {
	switch fd.Kind() {
	case protoreflect.BoolKind:
		if v.Bool() {
			return "b1"
		}
		return "b0"
	case protoreflect.Int32Kind, protoreflect.Sint32Kind, protoreflect.Sfixed32Kind,
		protoreflect.Int64Kind, protoreflect.Sint64Kind, protoreflect.Sfixed64Kind:
		return fmt.Sprintf("i%d", v.Int())
	case protoreflect.Uint32Kind, protoreflect.Fixed32Kind, protoreflect.Uint64Kind, protoreflect.Fixed64Kind:
		return fmt.Sprintf("u%d", v.Uint())
	case protoreflect.FloatKind:
		return fmt.Sprintf("f%08x", math.Float32bits(float32(v.Float())))
	case protoreflect.DoubleKind:
		return fmt.Sprintf("d%016x", math.Float64bits(v.Float()))
	case protoreflect.StringKind:
		return "s" + hex.EncodeToString([]byte(v.String()))
	case protoreflect.BytesKind:
		return "y" + hex.EncodeToString(v.Bytes())
	case protoreflect.EnumKind:
		return fmt.Sprintf("e%d", v.Enum())
	case protoreflect.MessageKind, protoreflect.GroupKind:
		b, err := proto.MarshalOptions{Deterministic: true}.Marshal(v.Message().Interface())
		if err != nil {
			panic(err)
		}
		return "M" + hex.EncodeToString(b)
	}
	panic("kind")
}

func ValText(fd protoreflect.FieldDescriptor, v protoreflect.Value) string {
	switch {
	case fd.IsMap():
		var es []string
		v.Map().Range(func(k protoreflect.MapKey, mv protoreflect.Value) bool {
			es = append(es, scalarTok(fd.MapKey(), k.Value())+":"+scalarTok(fd.MapValue(), mv))
			return true
		})
		sort.Slice(es, func(i, j int) bool {
			return es[i][:strings.IndexByte(es[i], ':')] < es[j][:strings.IndexByte(es[j], ':')]
		})
		return "(" + strings.Join(es, ",") + ")"
	case fd.IsList():
		l := v.List()
		var xs []string
		for i := 0; i < l.Len(); i++ {
			if fd.Message() != nil {
				xs = append(xs, Canon(l.Get(i).Message()))
			} else {
				xs = append(xs, scalarTok(fd, l.Get(i)))
			}
		}
		if fd.Message() != nil {
			return "<" + strings.Join(xs, ",") + ">"
		}
		return "[" + strings.Join(xs, ",") + "]"
	case fd.Message() != nil:
		return Canon(v.Message())
	default:
		return scalarTok(fd, v)
	}
}

// Canon prints the populated fields of m sorted by name (the drivers print the same form).
func Canon(m protoreflect.Message) string {
	if m == nil || !m.IsValid() {
		return "{}"
	}
	var fs []string
	m.Range(func(fd protoreflect.FieldDescriptor, v protoreflect.Value) bool {
		fs = append(fs, string(fd.Name())+"="+ValText(fd, v))
		return true
	})
	sort.Strings(fs)
	return "{" + strings.Join(fs, ",") + "}"
}

func CanonMsg(m proto.Message) string {
	if m == nil {
		return "{}"
	}
	return Canon(m.ProtoReflect())
}

// ---------------------------------------------------------------------------------------------
// Masks

// Mask is a field mask; Nil distinguishes Go's nil *FieldMask from an empty one.
type Mask struct {
	Nil   bool     `json:"nil,omitempty"`
	Paths []string `json:"paths"`
}

func NilMask() Mask { return Mask{Nil: true} }

func (m Mask) FM() *fieldmaskpb.FieldMask {
	if m.Nil {
		return nil
	}
	return &fieldmaskpb.FieldMask{Paths: append([]string{}, m.Paths...)}
}

func (m Mask) Enc() string {
	if m.Nil {
		return "~"
	}
	if len(m.Paths) == 0 {
		return "-"
	}
	return "/" + strings.Join(m.Paths, "/")
}

func EncPaths(ps []string) string { return Mask{Paths: ps}.Enc() }

func Segs(p string) []string { return strings.Split(p, ".") }

// IsPrefix reports whether path a (as segments) is a prefix of b.
func IsPrefix(a, b []string) bool {
	if len(a) > len(b) {
		return false
	}
	for i := range a {
		if a[i] != b[i] {
			return false
		}
	}
	return true
}

func Related(a, b []string) bool { return IsPrefix(a, b) || IsPrefix(b, a) }

// PathInfo classifies a path against a descriptor, independently of fieldmaskpb: Valid means every
// segment names a field and only singular message fields are continued through.
type PathInfo struct {
	Valid       bool
	Unknown     bool // some segment names no field (or is empty)
	ThroughList bool // continues below a repeated message field
	ThroughBad  bool // continues below a scalar, repeated scalar or map field
	BadKind     string
	Last        protoreflect.FieldDescriptor
}

func Classify(md protoreflect.MessageDescriptor, path string) PathInfo {
	var pi PathInfo
	cur := md
	segs := Segs(path)
	for i, s := range segs {
		if cur == nil {
			return pi
		}
		fd := cur.Fields().ByName(protoreflect.Name(s))
		if fd == nil {
			pi.Unknown = true
			return pi
		}
		pi.Last = fd
		last := i == len(segs)-1
		switch {
		case fd.IsMap():
			cur = nil
			if !last {
				pi.ThroughBad, pi.BadKind = true, "map"
			}
		case fd.IsList():
			if fd.Message() != nil {
				cur = fd.Message()
				if !last {
					pi.ThroughList = true
				}
			} else {
				cur = nil
				if !last {
					pi.ThroughBad, pi.BadKind = true, "repeated-scalar"
				}
			}
		case fd.Message() != nil:
			cur = fd.Message()
		default:
			cur = nil
			if !last {
				pi.ThroughBad, pi.BadKind = true, "scalar"
			}
		}
	}
	if pi.ThroughBad {
		// the continuation itself must still be judged: below a non-message nothing is known
		return pi
	}
	pi.Valid = !pi.Unknown && !pi.ThroughList
	return pi
}

// ---------------------------------------------------------------------------------------------
// Reading values by path (through singular messages)

type Leaf struct {
	Path []string
	FD   protoreflect.FieldDescriptor
	Text string // canonical text of the value
}

// Leaves lists every populated non-singular-message field reachable through singular messages,
// plus (Presence) every populated singular message field itself.
func Leaves(m protoreflect.Message, prefix []string, leaves map[string]Leaf, presence map[string]Leaf) {
	if m == nil || !m.IsValid() {
		return
	}
	m.Range(func(fd protoreflect.FieldDescriptor, v protoreflect.Value) bool {
		p := append(append([]string{}, prefix...), string(fd.Name()))
		key := strings.Join(p, ".")
		if fd.Message() != nil && !fd.IsList() && !fd.IsMap() {
			presence[key] = Leaf{Path: p, FD: fd, Text: "present"}
			Leaves(v.Message(), p, leaves, presence)
		} else {
			leaves[key] = Leaf{Path: p, FD: fd, Text: ValText(fd, v)}
		}
		return true
	})
}

// Get follows path through singular messages; ok is false when the value is absent.
func Get(m protoreflect.Message, path []string) (fd protoreflect.FieldDescriptor, v protoreflect.Value, ok bool) {
	cur := m
	for i, s := range path {
		if cur == nil || !cur.IsValid() {
			return nil, protoreflect.Value{}, false
		}
		fd = cur.Descriptor().Fields().ByName(protoreflect.Name(s))
		if fd == nil || !cur.Has(fd) {
			return fd, protoreflect.Value{}, false
		}
		v = cur.Get(fd)
		if i == len(path)-1 {
			return fd, v, true
		}
		if fd.Message() == nil || fd.IsList() || fd.IsMap() {
			return fd, protoreflect.Value{}, false
		}
		cur = v.Message()
	}
	return nil, protoreflect.Value{}, false
}

// GetText is the canonical text at path, "" when absent.
func GetText(m protoreflect.Message, path []string) string {
	fd, v, ok := Get(m, path)
	if !ok {
		return ""
	}
	if fd.Message() != nil && !fd.IsList() && !fd.IsMap() {
		return Canon(v.Message())
	}
	return ValText(fd, v)
}

// ---------------------------------------------------------------------------------------------
// Generators

type Gen struct {
	R *rand.Rand
}

var words = []string{"a", "b", "c"}

func (g *Gen) scalar(fd protoreflect.FieldDescriptor, allowZero bool) protoreflect.Value {
	n := g.R.Intn(3) + 1
	if allowZero && g.R.Intn(4) == 0 {
		n = 0
	}
	switch fd.Kind() {
	case protoreflect.BoolKind:
		return protoreflect.ValueOfBool(n != 0)
	case protoreflect.Int32Kind, protoreflect.Sint32Kind, protoreflect.Sfixed32Kind:
		return protoreflect.ValueOfInt32(int32(n))
	case protoreflect.Int64Kind, protoreflect.Sint64Kind, protoreflect.Sfixed64Kind:
		return protoreflect.ValueOfInt64(int64(n))
	case protoreflect.Uint32Kind, protoreflect.Fixed32Kind:
		return protoreflect.ValueOfUint32(uint32(n))
	case protoreflect.Uint64Kind, protoreflect.Fixed64Kind:
		return protoreflect.ValueOfUint64(uint64(n))
	case protoreflect.FloatKind:
		return protoreflect.ValueOfFloat32(float32(n) / 2)
	case protoreflect.DoubleKind:
		return protoreflect.ValueOfFloat64(float64(n) / 2)
	case protoreflect.StringKind:
		if n == 0 {
			return protoreflect.ValueOfString("")
		}
		return protoreflect.ValueOfString(words[n-1])
	case protoreflect.BytesKind:
		if n == 0 {
			return protoreflect.ValueOfBytes([]byte{})
		}
		return protoreflect.ValueOfBytes([]byte{byte(n)})
	case protoreflect.EnumKind:
		vals := fd.Enum().Values()
		if n == 0 {
			return protoreflect.ValueOfEnum(0)
		}
		for i := 0; i < 8; i++ {
			num := vals.Get(g.R.Intn(vals.Len())).Number()
			if num != 0 {
				return protoreflect.ValueOfEnum(num)
			}
		}
		return protoreflect.ValueOfEnum(vals.Get(vals.Len() - 1).Number())
	}
	panic("scalar kind " + fd.Kind().String())
}

// Populate sets field fd of m to a random value (nested messages get up to `width` fields).
func (g *Gen) Populate(m protoreflect.Message, fd protoreflect.FieldDescriptor, depth int) {
	switch {
	case fd.IsMap():
		mp := m.Mutable(fd).Map()
		n := g.R.Intn(2) + 1
		for i := 0; i < n; i++ {
			k := g.scalar(fd.MapKey(), false).MapKey()
			if fd.MapValue().Message() != nil {
				v := mp.NewValue()
				g.Fill(v.Message(), depth-1, 2)
				mp.Set(k, v)
			} else {
				mp.Set(k, g.scalar(fd.MapValue(), true))
			}
		}
	case fd.IsList():
		l := m.Mutable(fd).List()
		n := g.R.Intn(2) + 1
		for i := 0; i < n; i++ {
			if fd.Message() != nil {
				v := l.NewElement()
				g.Fill(v.Message(), depth-1, 2)
				l.Append(v)
			} else {
				l.Append(g.scalar(fd, true))
			}
		}
	case fd.Message() != nil:
		sub := m.Mutable(fd).Message()
		g.Fill(sub, depth-1, 3)
	default:
		m.Set(fd, g.scalar(fd, fd.HasPresence()))
	}
}

// Fill populates up to `width` random fields of m.
func (g *Gen) Fill(m protoreflect.Message, depth, width int) {
	fields := m.Descriptor().Fields()
	if fields.Len() == 0 {
		return
	}
	n := g.R.Intn(width + 1)
	for i := 0; i < n; i++ {
		fd := fields.Get(g.R.Intn(fields.Len()))
		if depth <= 0 && (fd.Message() != nil) {
			continue
		}
		g.Populate(m, fd, depth)
	}
}

// Focus picks a small set of top-level fields biased towards the structurally interesting kinds.
func (g *Gen) Focus(md protoreflect.MessageDescriptor, n int) []protoreflect.FieldDescriptor {
	fields := md.Fields()
	var interesting, plain []protoreflect.FieldDescriptor
	for i := 0; i < fields.Len(); i++ {
		fd := fields.Get(i)
		if fd.Message() != nil || fd.IsList() || fd.IsMap() || fd.HasPresence() {
			interesting = append(interesting, fd)
		} else {
			plain = append(plain, fd)
		}
	}
	seen := map[protoreflect.Name]bool{}
	var out []protoreflect.FieldDescriptor
	for tries := 0; len(out) < n && tries < 10*n; tries++ {
		pool := interesting
		if len(pool) == 0 || (len(plain) > 0 && g.R.Intn(4) == 0) {
			pool = plain
		}
		// singular messages and oneof members are where the masks nest: favour them
		fd := pool[g.R.Intn(len(pool))]
		if g.R.Intn(2) == 0 {
			for _, c := range pool {
				if c.Message() != nil && !c.IsList() && !c.IsMap() && g.R.Intn(3) == 0 {
					fd = c
					break
				}
			}
		}
		if !seen[fd.Name()] {
			seen[fd.Name()] = true
			out = append(out, fd)
		}
	}
	return out
}

// Msg builds a message of type md whose top-level fields come from focus (each with probability
// 2/3); nested messages are filled recursively.
func (g *Gen) Msg(md protoreflect.MessageDescriptor, newMsg func() proto.Message, focus []protoreflect.FieldDescriptor) proto.Message {
	m := newMsg()
	r := m.ProtoReflect()
	for _, fd := range focus {
		if g.R.Intn(3) != 0 {
			g.Populate(r, fd, 2)
		}
	}
	return m
}

// Path draws a path below one of the focus fields: descends through singular (and, for corrupt
// masks, repeated) messages, with the given probability of each corruption.
type PathOpts struct {
	Corrupt float64 // probability that the path is corrupted at all
}

func (g *Gen) validPath(focus []protoreflect.FieldDescriptor) (string, protoreflect.FieldDescriptor) {
	fd := focus[g.R.Intn(len(focus))]
	segs := []string{string(fd.Name())}
	for depth := 0; depth < 2; depth++ {
		if fd.Message() == nil || fd.IsList() || fd.IsMap() || fd.Message().Fields().Len() == 0 || g.R.Intn(2) == 0 {
			break
		}
		fs := fd.Message().Fields()
		fd = fs.Get(g.R.Intn(fs.Len()))
		segs = append(segs, string(fd.Name()))
	}
	return strings.Join(segs, "."), fd
}

// Path returns a path and the name of the corruption applied ("" for none).
func (g *Gen) Path(focus []protoreflect.FieldDescriptor, o PathOpts) (string, string) {
	p, last := g.validPath(focus)
	if g.R.Float64() >= o.Corrupt {
		return p, ""
	}
	switch g.R.Intn(6) {
	case 0:
		return p + ".zz", "unknown-child"
	case 1:
		segs := Segs(p)
		segs[len(segs)-1] = "nope"
		return strings.Join(segs, "."), "unknown-last"
	case 2:
		// continue below whatever the last field is, with a plausible child name
		if last.Message() != nil && !last.IsMap() && last.Message().Fields().Len() > 0 {
			fs := last.Message().Fields()
			return p + "." + string(fs.Get(g.R.Intn(fs.Len())).Name()), "continue-real-child"
		}
		return p + ".x", "continue-x"
	case 3:
		return p + ".", "trailing-dot"
	case 4:
		if g.R.Intn(2) == 0 {
			return "", "empty-path"
		}
		return strings.Replace(p, ".", "..", 1), "double-dot"
	default:
		return p + ".x", "continue-x"
	}
}

// MaskFrom draws 1..3 paths and sometimes adds a parent, a child or a duplicate of one of them.
func (g *Gen) MaskFrom(focus []protoreflect.FieldDescriptor, o PathOpts) Mask {
	n := 1 + g.R.Intn(3)
	var ps []string
	for i := 0; i < n; i++ {
		p, _ := g.Path(focus, o)
		ps = append(ps, p)
	}
	switch g.R.Intn(8) {
	case 0: // duplicate
		ps = append(ps, ps[g.R.Intn(len(ps))])
	case 1: // parent of an existing path
		p := ps[g.R.Intn(len(ps))]
		if i := strings.LastIndexByte(p, '.'); i > 0 {
			ps = append(ps, p[:i])
		}
	case 2: // parent first
		p := ps[g.R.Intn(len(ps))]
		if i := strings.LastIndexByte(p, '.'); i > 0 {
			ps = append([]string{p[:i]}, ps...)
		}
	}
	g.R.Shuffle(len(ps), func(i, j int) { ps[i], ps[j] = ps[j], ps[i] })
	return Mask{Paths: ps}
}

// AllPaths enumerates the path tree of md down to the given depth (through singular messages, and
// one step below repeated messages / scalars / maps when `corrupt` is set).
func AllPaths(md protoreflect.MessageDescriptor, depth int, keep func(fd protoreflect.FieldDescriptor) bool) []string {
	var out []string
	var walk func(md protoreflect.MessageDescriptor, prefix string, d int)
	walk = func(md protoreflect.MessageDescriptor, prefix string, d int) {
		for i := 0; i < md.Fields().Len(); i++ {
			fd := md.Fields().Get(i)
			if d == depth && keep != nil && !keep(fd) {
				continue
			}
			p := prefix + string(fd.Name())
			out = append(out, p)
			if d > 1 && fd.Message() != nil && !fd.IsList() && !fd.IsMap() {
				walk(fd.Message(), p+".", d-1)
			}
		}
	}
	walk(md, "", depth)
	return out
}

// ---------------------------------------------------------------------------------------------
// Replay encoding of messages

func EncodeMsg(m proto.Message) string {
	if m == nil {
		return "nil"
	}
	b, err := proto.MarshalOptions{Deterministic: true}.Marshal(m)
	if err != nil {
		panic(err)
	}
	return hex.EncodeToString(b)
}

func DecodeMsg(s string, into proto.Message) (proto.Message, error) {
	if s == "nil" {
		return nil, nil
	}
	b, err := hex.DecodeString(s)
	if err != nil {
		return nil, err
	}
	if err := proto.Unmarshal(b, into); err != nil {
		return nil, err
	}
	return into, nil
}
