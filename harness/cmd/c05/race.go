package main

import (
	"fmt"
	"sort"
	"strings"

	"google.golang.org/protobuf/proto"

	"github.com/smart-core-os/sc-golang/internal/verifhook"
	"github.com/smart-core-os/sc-golang/pkg/resource"
	"github.com/smart-core-os/sc-golang/verifharness/cmd/c05/mt"
	"github.com/smart-core-os/sc-golang/verifharness/lib"
)

// Writes that lose or win a race: ONE write on a Value / Collection item (its own option list) with
// whole writes of OTHER callers to the same Value / item committed while it holds no lock, i.e.
// between its first read and its re-check in resource.GetAndUpdate.  The others are issued from the
// places where the code under test hands control to somebody else inside that window: the
// WithExpectedCheck callback, InterceptBefore (between Validate and Merge), InterceptAfter (after
// Merge) and the yield points gau.afterRead / gau.beforeLock (verifhook, build tag verif).
//
// The property speaks of "what it was before": for a write that succeeds that is the message stored
// immediately before its commit — the monitor evaluates the write-semantics oracle against the
// message the LAST rival left (read back with Get inside the window), and requires a failed write to
// leave exactly that message.  The model side is `raceSet` (ScVerif/C05/Race.lean).

var testprotoEmpty proto.Message = rootByName("TestAllTypes").New()

var racePoints = []string{"gau.afterRead", "expected-check", "intercept-before", "intercept-after", "gau.beforeLock"}

func pointRank(p string) int {
	for i, q := range racePoints {
		if p == q {
			return i
		}
	}
	return len(racePoints)
}

type rival struct {
	// At: where inside the window of the outer write this write is issued
	At string `json:"at"`
	// Occurrence: it is issued the n-th time the outer write reaches that place (1-based); the code
	// reaches every place once per call, so rivals with n >= 2 are never issued on the unchanged tree
	Occurrence int   `json:"occurrence"`
	Write      sstep `json:"write"`
}

type rcase struct {
	Root    string  `json:"root"`
	Site    string  `json:"site"`
	ROpts   []ropt  `json:"resource_options"`
	Route   string  `json:"writable_route,omitempty"`
	Dst     string  `json:"stored_hex"`
	DstText string  `json:"stored"`
	Outer   sstep   `json:"outer_write"`
	Rivals  []rival `json:"rival_writes"`
}

func stepEnc(st sstep) string {
	var os []string
	for _, o := range st.Opts {
		os = append(os, o.enc())
	}
	return encList(os) + "@" + st.SrcText
}

// expectedRivals: the rivals the unchanged code issues (first occurrence of their place), in the
// order of the places inside the window.
func (c rcase) expectedRivals() []rival {
	var rs []rival
	for _, r := range c.Rivals {
		if r.Occurrence == 1 {
			rs = append(rs, r)
		}
	}
	sort.SliceStable(rs, func(i, j int) bool { return pointRank(rs[i].At) < pointRank(rs[j].At) })
	return rs
}

func (c rcase) modelLine() string {
	var ro []string
	for _, o := range c.ROpts {
		ro = append(ro, o.enc())
	}
	var rs []string
	for _, r := range c.expectedRivals() {
		// '>': issued after writer.Merge (InterceptAfter, gau.beforeLock): never reached when Merge panics
		phase := ""
		if pointRank(r.At) >= pointRank("intercept-after") {
			phase = ">"
		}
		rs = append(rs, phase+stepEnc(r.Write))
	}
	rivals := "_"
	if len(rs) > 0 {
		rivals = strings.Join(rs, "|")
	}
	return fmt.Sprintf("race %d %s %s %s %s", schema.ID(rootByName(c.Root).MD()), encList(ro), c.DstText, stepEnc(c.Outer), rivals)
}

type rout struct {
	ConfigPanic string
	Outer       wout
	// Fired[i]: the wout of rival i (index into rcase.Rivals) if it was issued
	Fired map[int]*wout
	Order []int
	Final proto.Message
}

func (o rout) text() string {
	if o.ConfigPanic != "" {
		return "config-panic"
	}
	var t string
	switch {
	case o.Outer.Panic != "":
		t = "panic"
	case o.Outer.Err == "Aborted":
		t = "aborted"
	case o.Outer.Err != "":
		t = "err:" + o.Outer.Err
	default:
		t = mt.CanonMsg(o.Outer.After) + " " + mt.CanonMsg(o.Outer.SrcAfter)
	}
	return t + " => " + mt.CanonMsg(o.Final)
}

func (c rcase) runCode() rout {
	r := rootByName(c.Root)
	out := rout{Fired: map[int]*wout{}}
	dst, err := mt.DecodeMsg(c.Dst, r.New())
	if err != nil {
		panic(err)
	}
	site := c.Site
	if c.Site == "collection-create" {
		site = "collection"
	}
	b, cp := buildResource(r, site, c.Route, c.ROpts, dst)
	if cp != "" {
		out.ConfigPanic = cp
		return out
	}
	if c.Site == "collection-create" {
		// the tracked item does not exist yet: the outer write is an Update WithCreateIfAbsent, a rival
		// that finds it absent is an Add
		b.id = map[string]string{"x": "z", "X": "Z"}[b.id]
	}
	src, err := mt.DecodeMsg(c.Outer.Src, r.New())
	if err != nil {
		panic(err)
	}
	cur := b.tracked() // the message stored immediately before the outer write's commit
	inRival := false
	seen := map[string]int{}
	fire := func(point string) {
		if inRival {
			return
		}
		seen[point]++
		for i, rv := range c.Rivals {
			if rv.At != point || rv.Occurrence != seen[point] || out.Fired[i] != nil {
				continue
			}
			rsrc, err := mt.DecodeMsg(rv.Write.Src, r.New())
			if err != nil {
				panic(err)
			}
			var ropts []resource.WriteOption
			for _, o := range rv.Write.Opts {
				ropts = append(ropts, o.option())
			}
			ro := &wout{Written: proto.Clone(rsrc), SrcAfter: rsrc}
			inRival = true
			ro.Before = b.tracked()
			var rerr error
			panicked, msg := lib.Catch(func() {
				if _, exists := exists(b); c.Site == "collection-create" && !exists {
					ro.Returned, rerr = b.col.Add(b.id, rsrc, ropts...)
				} else {
					ro.Returned, rerr = b.write(rsrc, ropts...)
				}
			})
			ro.After = b.tracked()
			inRival = false
			if panicked {
				ro.Panic = msg
			}
			ro.Err = codeName(rerr)
			ro.ChangedOnErr = (rerr != nil || panicked) && !proto.Equal(ro.Before, ro.After)
			out.Fired[i] = ro
			out.Order = append(out.Order, i)
			cur = ro.After
		}
	}
	var opts []resource.WriteOption
	for _, o := range c.Outer.Opts {
		opts = append(opts, o.option())
	}
	if c.Site == "collection-create" {
		opts = append(opts, resource.WithCreateIfAbsent())
	}
	hooks := false
	for _, rv := range c.Rivals {
		switch rv.At {
		case "expected-check", "intercept-before", "intercept-after":
		default:
			hooks = true
		}
	}
	has := func(at string) bool {
		for _, rv := range c.Rivals {
			if rv.At == at {
				return true
			}
		}
		return false
	}
	if has("expected-check") {
		opts = append(opts, resource.WithExpectedCheck(func(proto.Message) error { fire("expected-check"); return nil }))
	}
	if has("intercept-before") {
		opts = append(opts, resource.InterceptBefore(func(_, _ proto.Message) { fire("intercept-before") }))
	}
	if has("intercept-after") {
		opts = append(opts, resource.InterceptAfter(func(_, _ proto.Message) { fire("intercept-after") }))
	}
	o := wout{Written: proto.Clone(src), SrcAfter: src}
	wBefore := fullSlice(b.wfm)
	if hooks {
		verifhook.Set(fire)
	}
	var werr error
	panicked, msg := lib.Catch(func() { o.Returned, werr = b.write(src, opts...) })
	if hooks {
		verifhook.Set(nil)
	}
	out.Final = b.tracked()
	o.Before, o.After = cur, out.Final
	if panicked {
		o.Panic = msg
	}
	o.Err = codeName(werr)
	o.ChangedOnErr = werr != nil && !proto.Equal(cur, out.Final)
	if wAfter := fullSlice(b.wfm); !sameStrings(wBefore, wAfter) {
		o.MaskMutated = fmt.Sprintf("%q -> %q", wBefore, wAfter)
	}
	out.Outer = o
	return out
}

func exists(b built) (proto.Message, bool) {
	if b.col == nil {
		return nil, true
	}
	return b.col.Get(b.id)
}

func (c rcase) monitor(mon *lib.Monitor, out rout) {
	if out.ConfigPanic != "" {
		return
	}
	W := specWOf(c.ROpts)
	one := func(st sstep, o wout, tag string) {
		M, R, More, all := specOpts(st.Opts)
		wc := wcase{Root: c.Root, Site: c.Site, Tag: tag, input: c,
			Dst: mt.EncodeMsg(o.Before), DstText: mt.CanonMsg(o.Before), Src: st.Src, SrcText: st.SrcText,
			W: W, More: More, All: all, M: M, R: R}
		wc.monitor(mon, o)
	}
	for _, i := range out.Order {
		one(c.Rivals[i].Write, *out.Fired[i], "+race-rival")
	}
	// the outer write, against the message stored immediately before its commit
	one(c.Outer, out.Outer, "+race")
}

func (c rcase) key() string {
	return c.Root + " " + c.Site + " " + c.Route + " " + c.modelLine() + fmt.Sprint(c.Rivals)
}

// ---------------------------------------------------------------------------------------------

func genRace(g *mt.Gen, site string) rcase {
	r := roots[0]
	if g.R.Intn(4) == 0 {
		r = roots[1+g.R.Intn(len(roots)-1)]
	}
	md := r.MD()
	focus := g.Focus(md, 2+g.R.Intn(4))
	c := rcase{Root: r.Name, Site: site}
	dst := g.Msg(md, r.New, focus)
	if site == "collection" && g.R.Intn(4) == 0 {
		// the item does not exist yet: create-if-absent racing with another creator
		c.Site, dst = "collection-create", r.New()
	}
	c.Dst, c.DstText = mt.EncodeMsg(dst), mt.CanonMsg(dst)
	switch x := g.R.Intn(10); {
	case x < 5: // everything writable
	case x < 8:
		c.ROpts = []ropt{{Kind: "writable-fields", Mask: g.MaskFrom(focus, mt.PathOpts{Corrupt: 0.01})}}
	default:
		c.ROpts = []ropt{{Kind: "writable-paths", Mask: g.MaskFrom(focus, mt.PathOpts{})}}
	}
	c.Route = []string{"literal", "union", "append", "unmarshal"}[g.R.Intn(4)]
	c.ROpts = withOthers(g, site, c.ROpts)
	W := specWOf(c.ROpts)
	step := func() sstep {
		src := g.Msg(md, r.New, focus)
		st := sstep{Src: mt.EncodeMsg(src), SrcText: mt.CanonMsg(src), Opts: genOpts(g, md, focus, W)}
		if st.Opts == nil {
			st.Opts = []wopt{}
		}
		return st
	}
	c.Outer = step()
	n := 1
	if g.R.Intn(4) == 0 {
		n = 2
	}
	used := map[string]bool{}
	for i := 0; i < n; i++ {
		rv := rival{At: racePoints[g.R.Intn(len(racePoints))], Occurrence: 1, Write: step()}
		if g.R.Intn(12) == 0 {
			rv.Occurrence = 2
		}
		switch g.R.Intn(8) {
		case 0:
			// a rival that stores what is stored already: the outer write must go through
			rv.Write = sstep{Src: c.Dst, SrcText: c.DstText, Opts: []wopt{{Kind: "all-writable", Mask: mt.NilMask()}}}
		case 1:
			// a rival that changes nothing (empty non-nil update mask)
			rv.Write.Opts = []wopt{{Kind: "update-paths", Mask: mt.Mask{Paths: []string{}}}}
		}
		k := fmt.Sprint(rv.At, rv.Occurrence)
		if used[k] {
			continue
		}
		used[k] = true
		c.Rivals = append(c.Rivals, rv)
	}
	return c
}

// seededRaces: small fixed cases first (they become the replays): a masked write to default_int32
// with one rival write to default_foreign_message.c (a field OUTSIDE the outer mask) committed at each
// place of the window, on a Value and on a Collection item, without and with resource options that
// are not masks; then a rival that changes nothing, and two rivals.
func seededRaces() []rcase {
	paths := func(ps ...string) mt.Mask { return mt.Mask{Paths: ps} }
	step := func(m proto.Message, opts ...wopt) sstep {
		if opts == nil {
			opts = []wopt{}
		}
		return sstep{Opts: opts, Src: mt.EncodeMsg(m), SrcText: mt.CanonMsg(m)}
	}
	h, t := mt.EncodeMsg(seedStored()), mt.CanonMsg(seedStored())
	var out []rcase
	for _, site := range []string{"value", "collection"} {
		for _, ro := range [][]ropt{nil, {{Kind: "other:equiv-no-duplicates", Mask: mt.NilMask()}},
			{{Kind: "writable-paths", Mask: paths("default_int32", "default_foreign_message")}, {Kind: "other:clock-fixed", Mask: mt.NilMask()}}} {
			for _, at := range racePoints {
				out = append(out, rcase{Root: "TestAllTypes", Site: site, ROpts: ro, Route: "literal", Dst: h, DstText: t,
					Outer:  step(seedWrittenNoForeign(), wopt{Kind: "update-paths", Mask: paths("default_int32")}),
					Rivals: []rival{{At: at, Occurrence: 1, Write: step(seedWrittenForeign(), wopt{Kind: "update-paths", Mask: paths("default_foreign_message.c")})}}})
			}
		}
		out = append(out,
			rcase{Root: "TestAllTypes", Site: site, Route: "literal", Dst: h, DstText: t,
				Outer:  step(seedWrittenNoForeign(), wopt{Kind: "update-paths", Mask: paths("default_int32")}),
				Rivals: []rival{{At: "intercept-before", Occurrence: 1, Write: step(seedWrittenForeign(), wopt{Kind: "update-paths", Mask: paths()})}}},
			rcase{Root: "TestAllTypes", Site: site, Route: "literal", Dst: h, DstText: t,
				Outer: step(seedWrittenNoForeign()),
				Rivals: []rival{
					{At: "gau.afterRead", Occurrence: 1, Write: step(seedWrittenForeign(), wopt{Kind: "update-paths", Mask: paths("default_foreign_message.c")})},
					{At: "gau.beforeLock", Occurrence: 1, Write: step(seedWrittenNoForeign(), wopt{Kind: "update-paths", Mask: paths("default_int32")})}}},
			rcase{Root: "TestAllTypes", Site: site, Route: "literal", Dst: h, DstText: t,
				Outer: step(seedWrittenNoForeign(), wopt{Kind: "update-paths", Mask: paths("default_int32")}),
				Rivals: []rival{
					{At: "intercept-before", Occurrence: 1, Write: step(seedWrittenForeign(), wopt{Kind: "update-paths", Mask: paths("default_foreign_message.c")})},
					{At: "intercept-before", Occurrence: 2, Write: step(seedStored(), wopt{Kind: "update-paths", Mask: paths("default_foreign_message.d")})}}},
		)
	}
	e := &testprotoEmpty
	eh, et := mt.EncodeMsg(*e), mt.CanonMsg(*e)
	for _, at := range []string{"gau.afterRead", "intercept-before", "gau.beforeLock"} {
		out = append(out, rcase{Root: "TestAllTypes", Site: "collection-create", Route: "literal", Dst: eh, DstText: et,
			Outer:  step(seedWrittenNoForeign(), wopt{Kind: "update-paths", Mask: paths("default_int32")}),
			Rivals: []rival{{At: at, Occurrence: 1, Write: step(seedWrittenForeign())}}})
	}
	return out
}

func runRaceCases(cases []rcase, tie *lib.Tie, mon *lib.Monitor, drv *lib.Driver) {
	var lines []string
	for _, c := range cases {
		lines = append(lines, c.modelLine())
	}
	ans, err := drv.Batch(lines)
	if err != nil {
		tie.Fail(err)
		return
	}
	for i, c := range cases {
		out := c.runCode()
		tie.Record(c.key(), true, c, ans[i], out.text())
		tie.Count("site:" + c.Site)
		for _, o := range c.ROpts {
			tie.Count("resource-option:" + o.Kind)
		}
		for j, rv := range c.Rivals {
			if out.Fired[j] != nil {
				tie.Count("rival-issued-at:" + rv.At)
				if !proto.Equal(out.Fired[j].Before, out.Fired[j].After) {
					tie.Count("rival-committed-a-change")
				}
			} else {
				tie.Count("rival-not-issued")
			}
		}
		switch {
		case out.ConfigPanic != "":
			tie.Count("outcome:config-panic")
		case out.Outer.Panic != "":
			tie.Count("outcome:panic")
		case out.Outer.Err != "":
			tie.Count("outcome:err:" + out.Outer.Err)
		default:
			tie.Count("outcome:ok")
			if len(out.Order) > 0 {
				tie.Count("outcome:ok-after-rival")
			}
		}
		mon.Eval(c.key(), true, nil)
		c.monitor(mon, out)
	}
}

func runRaces(f lib.Flags, res *lib.Result, drv *lib.Driver) {
	tie := res.Tie("write-races", "K4",
		"one write on a resource.Value / one item of a resource.Collection with 1-2 whole writes of other callers to the SAME value/item (also: an item that does not exist yet, the write being an Update WithCreateIfAbsent and the first rival an Add of that id) committed inside its lock-free window (between the first read and the re-check of resource.GetAndUpdate), issued from the WithExpectedCheck callback, InterceptBefore, InterceptAfter and the yield points gau.afterRead / gau.beforeLock, on the first (rarely: second) time the write reaches that place; every write with its own list of real option constructors; resources built with writable fields/paths and with options that are not masks (clocks, equivalences incl. ones coarser than proto.Equal, RNG, id interceptor); rivals that change fields outside the outer mask, that store an equal message, that change nothing; compared with the Lean model raceSet (outcome ok/aborted/err/panic + stored message afterwards); fixed small cases first, then random from the seed; distinct by the whole case")
	mon := res.Monitor("write-race-semantics",
		"every rival write and the outer write of every race case: the write-semantics oracle with 'before' = the message stored immediately before that write's commit (for the outer write: what the last rival left, read with Get inside the window): reset => absent, outside update∩writable => unchanged, inside => FieldMask update semantics, returned message = next Get; a write that fails (Aborted included) leaves the stored message exactly as the last rival left it")
	runRaceCases(seededRaces(), tie, mon, drv)
	g := &mt.Gen{R: lib.NewRand(f.Seed + 104729)}
	n := f.N(1500, 30000)
	batch := 500
	for done := 0; done < n; done += batch {
		var cases []rcase
		for i := 0; i < batch && done+i < n; i++ {
			cases = append(cases, genRace(g, []string{"value", "collection"}[(done+i)%2]))
		}
		runRaceCases(cases, tie, mon, drv)
	}
}

func replayRace(c rcase) int {
	m := lib.NewMonitor("replay", "")
	out := c.runCode()
	c.monitor(m, out)
	fmt.Printf("replay race %s site=%s resource-options=%v stored=%s\n  outer %s\n", c.Root, c.Site, c.ROpts, c.DstText, stepEnc(c.Outer))
	for i, rv := range c.Rivals {
		o := "(not issued)"
		if w := out.Fired[i]; w != nil {
			o = w.text()
		}
		fmt.Printf("  rival at %s#%d %s\n    -> %s\n", rv.At, rv.Occurrence, stepEnc(rv.Write), o)
	}
	fmt.Printf("  -> %s\n", out.text())
	if len(m.Violations) > 0 {
		for _, v := range m.Violations {
			fmt.Printf("STILL FAILS %s: %s (expected %s, observed %s)\n", v.Signature, v.What, v.Expected, v.Observed)
		}
		return 1
	}
	fmt.Println("replay: property holds on this input now")
	return 0
}
