package main

// Trait servers: the property observed THROUGH the servers of pkg/trait that hand a request's
// update_mask to resource.Value.Set together with write interceptors (delta / relative flags in
// InterceptBefore, derived fields in InterceptAfter). The anchored code may be untouched and correct
// while the statement is false at the Update RPC (a delta applied after the masked merge doubles
// what the mask leaves out): so every row is driven through its real Update RPC with generated
// masks (nil, empty, partial, full, unknown and read-only paths), flags and earlier calls, and
// judged by the same path-by-path monitor as the resource writes.

import (
	"context"
	"fmt"
	"strings"

	"google.golang.org/protobuf/proto"
	"google.golang.org/protobuf/reflect/protoreflect"
	"google.golang.org/protobuf/types/known/fieldmaskpb"

	"github.com/smart-core-os/sc-api/go/traits"
	"github.com/smart-core-os/sc-api/go/types"
	"github.com/smart-core-os/sc-golang/pkg/resource"
	"github.com/smart-core-os/sc-golang/pkg/trait/airtemperaturepb"
	"github.com/smart-core-os/sc-golang/pkg/trait/countpb"
	"github.com/smart-core-os/sc-golang/pkg/trait/emergencypb"
	"github.com/smart-core-os/sc-golang/pkg/trait/fanspeedpb"
	"github.com/smart-core-os/sc-golang/pkg/trait/lightpb"
	"github.com/smart-core-os/sc-golang/pkg/trait/modepb"
	"github.com/smart-core-os/sc-golang/pkg/trait/onoffpb"
	"github.com/smart-core-os/sc-golang/pkg/trait/presspb"
	"github.com/smart-core-os/sc-golang/pkg/trait/speakerpb"
	"github.com/smart-core-os/sc-golang/verifharness/cmd/c05/mt"
	"github.com/smart-core-os/sc-golang/verifharness/lib"
)

// traitRoots are message types only the trait family uses (the random write families keep drawing
// from `roots`).
var traitRoots = []root{
	{"Count", func() proto.Message { return &traits.Count{} }},
	{"AudioLevel", func() proto.Message { return &types.AudioLevel{} }},
	{"Emergency", func() proto.Message { return &traits.Emergency{} }},
	{"FanSpeed", func() proto.Message { return &traits.FanSpeed{} }},
	{"OnOff", func() proto.Message { return &traits.OnOff{} }},
	{"ModeValues", func() proto.Message { return &traits.ModeValues{} }},
	{"PressedState", func() proto.Message { return &traits.PressedState{} }},
}

// the relative adjustment every flagged modepb request carries, and the model's modes (modepb.DefaultModes)
var modeRelative = map[string]int32{"temperature": 1, "spin": -1, "nope": 2}
var modeAvailable = map[string][]string{"temperature": {"delicates", "medium", "whites"}, "spin": {"auto", "slow", "fast"}}

// tserver is one freshly constructed trait server seen through its Update and Get RPCs.
type tserver struct {
	update func(msg proto.Message, mask *fieldmaskpb.FieldMask, flag bool) (proto.Message, error)
	get    func() proto.Message
}

// trow describes one trait server independently of its code: what its documentation / constructor
// says is writable, what its flag means, which fields it derives.
type trow struct {
	Name string // package.Type/RPC
	Root string
	W    mt.Mask // writable fields of the server's resource
	Flag string  // name of the request's boolean (delta / relative), "" = none
	New  func() tserver
	// Effective: the message a request with the flag set asks to be written, given the stored one
	// (specification of the flag; the harness' own arithmetic). nil = the written message itself
	Effective func(before, written proto.Message, flag bool) proto.Message
	// Derived: top-level fields the server's documented rules may set as a consequence of this write
	// (they are not judged by the frame)
	Derived func(before, after proto.Message) []string
	// IntKeys: the flag is an integer delta on these top-level fields: the model's own delta
	// interceptor is used in the tie (otherwise the model is handed Effective's message)
	IntKeys []string
	// R: paths the server documents it clears on every accepted write (a reset mask of its own)
	R mt.Mask
	// Prepare edits a generated request message so that it stays on the RPC's plain path
	Prepare func(m proto.Message)
	// EffMask: the mask the server documents it writes with, given the request's (nil = the request's
	// own): lightpb.Model adds level_percent to the mask of a request that selects a configured preset
	EffMask func(written proto.Message, M mt.Mask) mt.Mask
	// ModelLine: the driver line of a row whose write is an option LIST (nil = one `iset` line);
	// the model answers `<stored'> <src'>`: the tie compares the stored message
	ModelLine func(c tcase, out tout, ty int) string
	// Tie: the outcome is compared with the model (servers without validation of their own and
	// without derived fields)
	Tie bool
}

var ctxBg = context.Background()

func clampInt32(x int64) int32 {
	if x > 2147483647 {
		return 2147483647
	}
	if x < -2147483648 {
		return -2147483648
	}
	return int32(x)
}

var trows = []trow{
	{
		Name: "countpb.MemoryDevice/UpdateCount", Root: "Count", W: mt.Mask{Paths: []string{"added", "removed"}}, Flag: "delta",
		New: func() tserver {
			d := countpb.NewMemoryDevice()
			return tserver{
				update: func(m proto.Message, fm *fieldmaskpb.FieldMask, flag bool) (proto.Message, error) {
					r, err := d.UpdateCount(ctxBg, &traits.UpdateCountRequest{Name: "n", Count: m.(*traits.Count), UpdateMask: fm, Delta: flag})
					if r == nil {
						return nil, err
					}
					return r, err
				},
				get: func() proto.Message {
					r, _ := d.GetCount(ctxBg, &traits.GetCountRequest{Name: "n"})
					return r
				},
			}
		},
		Effective: func(before, written proto.Message, flag bool) proto.Message {
			if !flag {
				return written
			}
			b, w := before.(*traits.Count), proto.Clone(written).(*traits.Count)
			w.Added += b.Added
			w.Removed += b.Removed
			return w
		},
		IntKeys: []string{"added", "removed"}, Tie: true,
	},
	{
		Name: "speakerpb.MemoryDevice/UpdateVolume", Root: "AudioLevel", W: mt.NilMask(), Flag: "delta",
		New: func() tserver {
			d := speakerpb.NewMemoryDevice(&types.AudioLevel{})
			return tserver{
				update: func(m proto.Message, fm *fieldmaskpb.FieldMask, flag bool) (proto.Message, error) {
					r, err := d.UpdateVolume(ctxBg, &traits.UpdateSpeakerVolumeRequest{Name: "n", Volume: m.(*types.AudioLevel), UpdateMask: fm, Delta: flag})
					if r == nil {
						return nil, err
					}
					return r, err
				},
				get: func() proto.Message {
					r, _ := d.GetVolume(ctxBg, &traits.GetSpeakerVolumeRequest{Name: "n"})
					return r
				},
			}
		},
		Effective: func(before, written proto.Message, flag bool) proto.Message {
			if !flag {
				return written
			}
			b, w := before.(*types.AudioLevel), proto.Clone(written).(*types.AudioLevel)
			w.Gain += b.Gain
			return w
		},
		Tie: true,
	},
	{
		Name: "emergencypb.MemoryDevice/UpdateEmergency", Root: "Emergency", W: mt.NilMask(),
		New: func() tserver {
			d := emergencypb.NewMemoryDevice()
			return tserver{
				update: func(m proto.Message, fm *fieldmaskpb.FieldMask, _ bool) (proto.Message, error) {
					r, err := d.UpdateEmergency(ctxBg, &traits.UpdateEmergencyRequest{Name: "n", Emergency: m.(*traits.Emergency), UpdateMask: fm})
					if r == nil {
						return nil, err
					}
					return r, err
				},
				get: func() proto.Message {
					r, _ := d.GetEmergency(ctxBg, &traits.GetEmergencyRequest{Name: "n"})
					return r
				},
			}
		},
		// the server stamps the change time when the level changes
		Derived: func(before, after proto.Message) []string {
			if before.(*traits.Emergency).Level != after.(*traits.Emergency).Level {
				return []string{"level_change_time"}
			}
			return nil
		},
		Tie: true,
	},
	{
		Name: "fanspeedpb.ModelServer/UpdateFanSpeed", Root: "FanSpeed", W: mt.NilMask(), Flag: "relative",
		New: func() tserver {
			model := fanspeedpb.NewModel(fanspeedpb.WithPresets(
				fanspeedpb.Preset{Name: "a", Percentage: 0.5}, fanspeedpb.Preset{Name: "b", Percentage: 1}, fanspeedpb.Preset{Name: "c", Percentage: 1.5}))
			s := fanspeedpb.NewModelServer(model)
			return tserver{
				update: func(m proto.Message, fm *fieldmaskpb.FieldMask, flag bool) (proto.Message, error) {
					r, err := s.UpdateFanSpeed(ctxBg, &traits.UpdateFanSpeedRequest{Name: "n", FanSpeed: m.(*traits.FanSpeed), UpdateMask: fm, Relative: flag})
					if r == nil {
						return nil, err
					}
					return r, err
				},
				get: func() proto.Message {
					r, _ := s.GetFanSpeed(ctxBg, &traits.GetFanSpeedRequest{Name: "n"})
					return r
				},
			}
		},
		Effective: func(before, written proto.Message, flag bool) proto.Message {
			if !flag {
				return written
			}
			b, w := before.(*traits.FanSpeed), proto.Clone(written).(*traits.FanSpeed)
			w.Percentage += b.Percentage
			w.PresetIndex = clampInt32(int64(w.PresetIndex) + int64(b.PresetIndex))
			return w
		},
		// percentage, preset and preset_index are kept in step with each other by the model
		Derived: func(_, _ proto.Message) []string { return []string{"percentage", "preset", "preset_index"} },
	},
	{
		Name: "onoffpb.ModelServer/UpdateOnOff", Root: "OnOff", W: mt.NilMask(),
		New: func() tserver {
			s := onoffpb.NewModelServer(onoffpb.NewModel())
			return tserver{
				update: func(m proto.Message, fm *fieldmaskpb.FieldMask, _ bool) (proto.Message, error) {
					r, err := s.UpdateOnOff(ctxBg, &traits.UpdateOnOffRequest{Name: "n", OnOff: m.(*traits.OnOff), UpdateMask: fm})
					if r == nil {
						return nil, err
					}
					return r, err
				},
				get: func() proto.Message {
					r, _ := s.GetOnOff(ctxBg, &traits.GetOnOffRequest{Name: "n"})
					return r
				},
			}
		},
		Tie: true,
	},
	{
		Name: "airtemperaturepb.MemoryDevice/UpdateAirTemperature", Root: "AirTemperature",
		W: mt.Mask{Paths: []string{"mode", "temperature_set_point", "temperature_set_point_delta", "temperature_range"}},
		New: func() tserver {
			d := airtemperaturepb.NewMemoryDevice()
			return tserver{
				update: func(m proto.Message, fm *fieldmaskpb.FieldMask, _ bool) (proto.Message, error) {
					r, err := d.UpdateAirTemperature(ctxBg, &traits.UpdateAirTemperatureRequest{Name: "n", State: m.(*traits.AirTemperature), UpdateMask: fm})
					if r == nil {
						return nil, err
					}
					return r, err
				},
				get: func() proto.Message {
					r, _ := d.GetAirTemperature(ctxBg, &traits.GetAirTemperatureRequest{Name: "n"})
					return r
				},
			}
		},
		Tie: true,
	},
}

func init() {
	trows = append(trows, trow{
		Name: "modepb.ModelServer/UpdateModeValues", Root: "ModeValues", W: mt.NilMask(), Flag: "relative",
		New: func() tserver {
			s := modepb.NewModelServer(modepb.NewModel())
			return tserver{
				update: func(m proto.Message, fm *fieldmaskpb.FieldMask, flag bool) (proto.Message, error) {
					req := &traits.UpdateModeValuesRequest{Name: "n", ModeValues: m.(*traits.ModeValues), UpdateMask: fm}
					if flag {
						req.Relative = &traits.ModeValuesRelative{Values: map[string]int32{}}
						for k, v := range modeRelative {
							req.Relative.Values[k] = v
						}
					}
					r, err := s.UpdateModeValues(ctxBg, req)
					if r == nil {
						return nil, err
					}
					return r, err
				},
				get: func() proto.Message {
					r, _ := s.GetModeValues(ctxBg, &traits.GetModeValuesRequest{Name: "n"})
					return r
				},
			}
		},
		// relative: each named mode the model knows moves by the adjustment through its values, wrapping
		// round; a mode without a (known) current value gets the first value
		Effective: func(before, written proto.Message, flag bool) proto.Message {
			if !flag {
				return written
			}
			b, w := before.(*traits.ModeValues), proto.Clone(written).(*traits.ModeValues)
			if w.Values == nil {
				w.Values = map[string]string{}
			}
			for name, adj := range modeRelative {
				vals := modeAvailable[name]
				if len(vals) == 0 {
					continue
				}
				at := -1
				for i, v := range vals {
					if cur, ok := b.Values[name]; ok && cur == v {
						at = i
					}
				}
				if at < 0 {
					w.Values[name] = vals[0]
					continue
				}
				n := int64(len(vals))
				w.Values[name] = vals[((int64(at)+int64(adj))%n+n)%n]
			}
			return w
		},
		Tie: true,
	})
}

func init() {
	trows = append(trows, trow{
		Name: "lightpb.MemoryDevice/UpdateBrightness", Root: "Brightness", Flag: "delta",
		W: mt.Mask{Paths: []string{"level_percent", "brightness_tween.total_duration", "preset"}},
		// "if there's a tween in progress, clear the tween props"
		R: mt.Mask{Paths: []string{"target_level_percent", "brightness_tween"}},
		// requests without preset and without tween: the plain path of the RPC (the other two start
		// timers or replace the whole message)
		Prepare: func(m proto.Message) {
			b := m.(*traits.Brightness)
			b.Preset, b.BrightnessTween = nil, nil
		},
		New: func() tserver {
			d := lightpb.NewMemoryDevice()
			return tserver{
				update: func(m proto.Message, fm *fieldmaskpb.FieldMask, flag bool) (proto.Message, error) {
					r, err := d.UpdateBrightness(ctxBg, &traits.UpdateBrightnessRequest{Name: "n", Brightness: m.(*traits.Brightness), UpdateMask: fm, Delta: flag})
					if r == nil {
						return nil, err
					}
					return r, err
				},
				get: func() proto.Message {
					r, _ := d.GetBrightness(ctxBg, &traits.GetBrightnessRequest{Name: "n"})
					return r
				},
			}
		},
		// every request: the level is capped to 0..100; delta: added to the stored level first
		Effective: func(before, written proto.Message, flag bool) proto.Message {
			b, w := before.(*traits.Brightness), proto.Clone(written).(*traits.Brightness)
			if flag {
				w.LevelPercent += b.LevelPercent
			}
			if w.LevelPercent < 0 {
				w.LevelPercent = 0
			}
			if w.LevelPercent > 100 {
				w.LevelPercent = 100
			}
			return w
		},
		Tie: true,
	})
	// the same device, requests that carry a preset: the RPC writes the caller's message as it is
	// (no delta, no cap, no reset paths, no timer) with the request's mask
	trows = append(trows, trow{
		Name: "lightpb.MemoryDevice/UpdateBrightness+preset", Root: "Brightness",
		W: mt.Mask{Paths: []string{"level_percent", "brightness_tween.total_duration", "preset"}},
		Prepare: func(m proto.Message) {
			b := m.(*traits.Brightness)
			if b.Preset == nil {
				b.Preset = &traits.LightPreset{}
			}
		},
		New: func() tserver {
			d := lightpb.NewMemoryDevice()
			return tserver{
				update: func(m proto.Message, fm *fieldmaskpb.FieldMask, flag bool) (proto.Message, error) {
					r, err := d.UpdateBrightness(ctxBg, &traits.UpdateBrightnessRequest{Name: "n", Brightness: m.(*traits.Brightness), UpdateMask: fm})
					if r == nil {
						return nil, err
					}
					return r, err
				},
				get: func() proto.Message {
					r, _ := d.GetBrightness(ctxBg, &traits.GetBrightnessRequest{Name: "n"})
					return r
				},
			}
		},
		Tie: true,
	})
}

func init() {
	// two more model servers that hand the request's mask to a Value with every field writable:
	// airtemperaturepb's (a oneof among the fields) and presspb's (enum + timestamps)
	trows = append(trows, trow{
		Name: "airtemperaturepb.ModelServer/UpdateAirTemperature", Root: "AirTemperature", W: mt.NilMask(),
		New: func() tserver {
			s := airtemperaturepb.NewModelServer(airtemperaturepb.NewModel())
			return tserver{
				update: func(m proto.Message, fm *fieldmaskpb.FieldMask, _ bool) (proto.Message, error) {
					r, err := s.UpdateAirTemperature(ctxBg, &traits.UpdateAirTemperatureRequest{Name: "n", State: m.(*traits.AirTemperature), UpdateMask: fm})
					if r == nil {
						return nil, err
					}
					return r, err
				},
				get: func() proto.Message {
					r, _ := s.GetAirTemperature(ctxBg, &traits.GetAirTemperatureRequest{Name: "n"})
					return r
				},
			}
		},
		Tie: true,
	}, trow{
		Name: "presspb.ModelServer/UpdatePressedState", Root: "PressedState", W: mt.NilMask(),
		New: func() tserver {
			s := presspb.NewModelServer(presspb.NewModel(traits.PressedState_UNPRESSED))
			return tserver{
				update: func(m proto.Message, fm *fieldmaskpb.FieldMask, _ bool) (proto.Message, error) {
					r, err := s.UpdatePressedState(ctxBg, &traits.UpdatePressedStateRequest{Name: "n", PressedState: m.(*traits.PressedState), UpdateMask: fm})
					if r == nil {
						return nil, err
					}
					return r, err
				},
				get: func() proto.Message {
					r, _ := s.GetPressedState(ctxBg, &traits.GetPressedStateRequest{Name: "n"})
					return r
				},
			}
		},
		Tie: true,
	})
}

// the presets the lightpb model of the ModelServer row is configured with (WithPreset): the
// generator's strings are one letter of a small alphabet, so requests select a configured preset,
// another one, or none
var lightPresets = []struct {
	level float32
	p     *traits.LightPreset
}{
	{40, &traits.LightPreset{Name: "a", Title: "Low"}},
	{0, &traits.LightPreset{Name: "c", Title: "Off"}},
}

func lightPresetOf(m proto.Message) (float32, *traits.LightPreset, bool) {
	b := m.(*traits.Brightness)
	if b.GetPreset() == nil {
		return 0, nil, false
	}
	for _, lp := range lightPresets {
		if lp.p.Name == b.Preset.GetName() {
			return lp.level, lp.p, true
		}
	}
	return 0, nil, false
}

func init() {
	// lightpb.ModelServer hands the request's mask to lightpb.Model, whose documented rule is
	// "WithPreset instructs the model to set the light to the given level when preset p is selected":
	// the written message gets the preset's level and configured title, and level_percent joins a
	// non-nil mask (a nil mask - the whole message - stays nil)
	trows = append(trows, trow{
		Name: "lightpb.ModelServer/UpdateBrightness", Root: "Brightness", W: mt.NilMask(),
		New: func() tserver {
			var opts []resource.Option
			for _, lp := range lightPresets {
				opts = append(opts, lightpb.WithPreset(lp.level, proto.Clone(lp.p).(*traits.LightPreset)))
			}
			s := lightpb.NewModelServer(lightpb.NewModel(opts...))
			return tserver{
				update: func(m proto.Message, fm *fieldmaskpb.FieldMask, _ bool) (proto.Message, error) {
					r, err := s.UpdateBrightness(ctxBg, &traits.UpdateBrightnessRequest{Name: "n", Brightness: m.(*traits.Brightness), UpdateMask: fm})
					if r == nil {
						return nil, err
					}
					return r, err
				},
				get: func() proto.Message {
					r, _ := s.GetBrightness(ctxBg, &traits.GetBrightnessRequest{Name: "n"})
					return r
				},
			}
		},
		Effective: func(_, written proto.Message, _ bool) proto.Message {
			level, lp, ok := lightPresetOf(written)
			if !ok {
				return written
			}
			w := proto.Clone(written).(*traits.Brightness)
			w.LevelPercent = level
			w.Preset = proto.Clone(lp).(*traits.LightPreset)
			return w
		},
		EffMask: func(written proto.Message, M mt.Mask) mt.Mask {
			if _, _, ok := lightPresetOf(written); !ok || M.Nil {
				return M
			}
			return mt.Mask{Paths: append(append([]string{}, M.Paths...), "level_percent")}
		},
		// the model is handed the option list the server builds: WithUpdateMask(request mask), then
		// WithMoreUpdatePaths("level_percent") when a configured preset is selected
		ModelLine: func(c tcase, out tout, ty int) string {
			src := out.Written
			opts := "U" + c.Call.M.Enc()
			if level, lp, ok := lightPresetOf(src); ok {
				w := proto.Clone(src).(*traits.Brightness)
				w.LevelPercent, w.Preset = level, proto.Clone(lp).(*traits.LightPreset)
				src = w
				opts += ";p" + (mt.Mask{Paths: []string{"level_percent"}}).Enc()
			}
			return fmt.Sprintf("wseq %d _ %s %s@%s", ty, mt.CanonMsg(out.Before), opts, mt.CanonMsg(src))
		},
		Tie: true,
	})
}

func trowByName(n string) (trow, bool) {
	for _, r := range trows {
		if r.Name == n {
			return r, true
		}
	}
	return trow{}, false
}

// tcall is one Update RPC.
type tcall struct {
	Msg     string  `json:"message_hex"`
	MsgText string  `json:"message"`
	M       mt.Mask `json:"update_mask"`
	Flag    bool    `json:"delta_or_relative"`
}

// tcase: a fresh server, some earlier Update calls, then the judged one.
type tcase struct {
	Trait string  `json:"trait"`
	Setup []tcall `json:"earlier_calls"`
	Call  tcall   `json:"call"`
}

func mkCallFor(row trow, m proto.Message, M mt.Mask, flag bool) tcall {
	if row.Prepare != nil {
		row.Prepare(m)
	}
	return mkCall(m, M, flag)
}

func mkCall(m proto.Message, M mt.Mask, flag bool) tcall {
	return tcall{Msg: mt.EncodeMsg(m), MsgText: mt.CanonMsg(m), M: M, Flag: flag}
}

func (c tcall) enc() string {
	f := ""
	if c.Flag {
		f = "+flag"
	}
	return c.M.Enc() + f + "@" + c.MsgText
}

func (c tcase) key() string {
	parts := []string{c.Trait}
	for _, s := range c.Setup {
		parts = append(parts, s.enc())
	}
	return strings.Join(append(parts, c.Call.enc()), " ; ")
}

func (c tcase) nontrivial() bool { return !c.Call.M.Nil || c.Call.Flag }

type tout struct {
	wout
	SetupErrs []string
}

func (c tcase) run(row trow) tout {
	r := rootByName(row.Root)
	var out tout
	decode := func(x tcall) proto.Message {
		m, err := mt.DecodeMsg(x.Msg, r.New())
		if err != nil {
			panic(err)
		}
		return m
	}
	var srv tserver
	if p, msg := lib.Catch(func() { srv = row.New() }); p {
		out.Panic = "constructor: " + msg
		return out
	}
	for _, s := range c.Setup {
		var err error
		p, msg := lib.Catch(func() { _, err = srv.update(decode(s), s.M.FM(), s.Flag) })
		switch {
		case p:
			out.SetupErrs = append(out.SetupErrs, "panic:"+msg)
		default:
			out.SetupErrs = append(out.SetupErrs, codeName(err))
		}
	}
	src := decode(c.Call)
	out.Written = proto.Clone(src)
	var err error
	if p, msg := lib.Catch(func() { out.Before = proto.Clone(srv.get()) }); p {
		out.Panic = "get: " + msg
		return out
	}
	if p, msg := lib.Catch(func() { out.Returned, err = srv.update(src, c.Call.M.FM(), c.Call.Flag) }); p {
		out.Panic = msg
		return out
	}
	out.Err = codeName(err)
	if err != nil {
		out.Returned = nil
	}
	out.After = proto.Clone(srv.get())
	out.SrcAfter = src
	out.ChangedOnErr = err != nil && !proto.Equal(out.After, out.Before)
	return out
}

// copyField makes field name of dst what it is in src (absent included).
func copyField(dst, src proto.Message, name string) {
	d, s := dst.ProtoReflect(), src.ProtoReflect()
	fd := d.Descriptor().Fields().ByName(protoreflect.Name(name))
	if fd == nil {
		return
	}
	if !s.Has(fd) {
		d.Clear(fd)
		return
	}
	tmp := proto.Clone(src).ProtoReflect()
	d.Set(fd, tmp.Get(fd))
}

// judge evaluates the property on one trait call: the write-semantics monitor with the server's
// documented writable fields, the request's mask and the message the flag asks to be written.
func (c tcase) judge(row trow, mon *lib.Monitor, out tout) (derived []string) {
	M := c.Call.M
	if row.EffMask != nil && out.Written != nil {
		M = row.EffMask(out.Written, M)
	}
	return c.judgeWith(row, M, mon, out)
}

func (c tcase) judgeWith(row trow, M mt.Mask, mon *lib.Monitor, out tout) (derived []string) {
	w := wcase{Root: row.Root, Site: "trait/" + row.Name, W: row.W, More: mt.NilMask(), M: M, R: mt.NilMask(), input: c}
	if len(row.R.Paths) > 0 {
		w.R = row.R
	}
	o := out.wout
	if o.Panic == "" && o.Err == "" {
		if row.Effective != nil {
			o.Written = row.Effective(o.Before, o.Written, c.Call.Flag)
		}
		if row.Derived != nil {
			derived = row.Derived(o.Before, o.After)
		}
		if len(derived) > 0 {
			o.Before, o.Written = proto.Clone(o.Before), proto.Clone(o.Written)
			for _, d := range derived {
				copyField(o.Before, o.After, d)
				copyField(o.Written, o.After, d)
			}
			// an empty mask changes nothing: derived fields follow from a change, there is none
			if !M.Nil && len(M.Paths) == 0 && !proto.Equal(out.After, out.Before) {
				mon.Violate("C05/"+w.Site+"/empty-mask/changed", "an empty non-nil update mask changed the message", c, mt.CanonMsg(out.Before), mt.CanonMsg(out.After))
			}
		}
	}
	w.monitor(mon, o)
	return derived
}

func (c tcase) modelLine(row trow, out tout) string {
	ty := schema.ID(rootByName(row.Root).MD())
	if row.ModelLine != nil {
		return row.ModelLine(c, out, ty)
	}
	src := out.Written
	keys := "_"
	switch {
	case c.Call.Flag && len(row.IntKeys) > 0:
		keys = strings.Join(row.IntKeys, ",")
	case row.Effective != nil:
		src = row.Effective(out.Before, out.Written, c.Call.Flag)
	}
	if len(row.R.Paths) > 0 {
		return fmt.Sprintf("iset %d %s %s %s %s %s %s _", ty, row.W.Enc(), c.Call.M.Enc(), row.R.Enc(), mt.CanonMsg(out.Before), mt.CanonMsg(src), keys)
	}
	return fmt.Sprintf("iset %d %s %s %s %s %s _", ty, row.W.Enc(), c.Call.M.Enc(), mt.CanonMsg(out.Before), mt.CanonMsg(src), keys)
}

func (o tout) tieText() string {
	switch {
	case o.Panic != "":
		return "panic"
	case o.Err != "":
		if o.ChangedOnErr {
			return "err:" + o.Err + "+changed"
		}
		return "err:" + o.Err
	}
	return mt.CanonMsg(o.After)
}

func runTraitCases(cases []tcase, tie *lib.Tie, mon *lib.Monitor, drv *lib.Driver) {
	type ran struct {
		c       tcase
		row     trow
		out     tout
		derived []string
	}
	var rs []ran
	var lines []string
	for _, c := range cases {
		row, ok := trowByName(c.Trait)
		if !ok {
			continue
		}
		out := c.run(row)
		mon.Eval(c.key(), c.nontrivial(), nil)
		derived := c.judge(row, mon, out)
		mon.Count("server:" + row.Name)
		switch {
		case out.Panic != "":
			mon.Count("outcome:panic")
		case out.Err != "":
			mon.Count("outcome:err:" + out.Err)
		default:
			mon.Count("outcome:ok")
		}
		switch {
		case c.Call.M.Nil:
			mon.Count("M:nil")
		case len(c.Call.M.Paths) == 0:
			mon.Count("M:empty")
		default:
			mon.Count("M:paths")
		}
		if c.Call.Flag {
			mon.Count("flag:" + row.Flag)
		}
		if row.Tie && len(derived) == 0 && out.Before != nil && out.Panic == "" {
			rs = append(rs, ran{c, row, out, derived})
			lines = append(lines, c.modelLine(row, out))
		}
	}
	ans, err := drv.Batch(lines)
	if err != nil {
		tie.Fail(err)
		return
	}
	for i, r := range rs {
		a := ans[i]
		if r.row.ModelLine != nil && !strings.HasPrefix(a, "err:") {
			if fs := strings.Fields(a); len(fs) == 2 {
				a = fs[0]
			}
		}
		tie.Record(r.c.key(), r.c.nontrivial(), r.c, a, r.out.tieText())
		tie.Count("server:" + r.row.Name)
		if r.row.EffMask != nil && r.out.Written != nil {
			switch eff := r.row.EffMask(r.out.Written, r.c.Call.M); {
			case len(eff.Paths) != len(r.c.Call.M.Paths):
				tie.Count("server-rule:mask-widened")
			case r.row.Effective != nil && !proto.Equal(r.row.Effective(r.out.Before, r.out.Written, r.c.Call.Flag), r.out.Written):
				tie.Count("server-rule:message-edited-nil-mask")
			default:
				tie.Count("server-rule:not-triggered")
			}
		}
		if r.c.Call.Flag {
			tie.Count("flag:" + r.row.Flag)
		}
	}
}

// allFields populates every top-level field of a new message of the row's type.
func allFields(g *mt.Gen, r root) proto.Message {
	m := r.New()
	fs := m.ProtoReflect().Descriptor().Fields()
	for i := 0; i < fs.Len(); i++ {
		fd := fs.Get(i)
		for tries := 0; tries < 8 && !m.ProtoReflect().Has(fd); tries++ {
			g.Populate(m.ProtoReflect(), fd, 1)
		}
	}
	return m
}

func topNames(md protoreflect.MessageDescriptor) []string {
	var out []string
	for i := 0; i < md.Fields().Len(); i++ {
		out = append(out, string(md.Fields().Get(i).Name()))
	}
	return out
}

// smallTraitCases: per server, after one unmasked write of a fully populated message, a second
// fully populated message with every small mask (nil, empty, each single top-level field, every
// pair of writable fields, all writable fields, an unknown path) x flag off/on. The same for every seed.
func smallTraitCases() []tcase {
	g := &mt.Gen{R: lib.NewRand(12345)}
	var out []tcase
	for _, row := range trows {
		r := rootByName(row.Root)
		a, b := allFields(g, r), allFields(g, r)
		names := topNames(r.MD())
		writable := names
		if !row.W.Nil {
			writable = row.W.Paths
		}
		ms := []mt.Mask{mt.NilMask(), {Paths: []string{}}, {Paths: append([]string{}, writable...)}, {Paths: []string{"nope"}}}
		for _, n := range names {
			ms = append(ms, mt.Mask{Paths: []string{n}})
		}
		for i := 0; i < len(writable) && i < 4; i++ {
			for j := i + 1; j < len(writable) && j < 4; j++ {
				ms = append(ms, mt.Mask{Paths: []string{writable[i], writable[j]}})
			}
		}
		flags := []bool{false}
		if row.Flag != "" {
			flags = append(flags, true)
		}
		for _, fl := range flags {
			for _, M := range ms {
				out = append(out, tcase{Trait: row.Name, Setup: []tcall{mkCallFor(row, a, mt.NilMask(), false)}, Call: mkCallFor(row, b, M, fl)})
			}
		}
	}
	return out
}

func genTraitCase(g *mt.Gen) tcase {
	row := trows[g.R.Intn(len(trows))]
	r := rootByName(row.Root)
	md := r.MD()
	focus := g.Focus(md, 2+g.R.Intn(4))
	genMask := func() mt.Mask {
		switch x := g.R.Intn(10); {
		case x < 2:
			return mt.NilMask()
		case x == 2:
			return mt.Mask{Paths: []string{}}
		case x < 6 && !row.W.Nil:
			// partial masks over the writable fields
			var ps []string
			for _, w := range row.W.Paths {
				if g.R.Intn(2) == 0 {
					ps = append(ps, w)
				}
			}
			return mt.Mask{Paths: ps}
		default:
			return g.MaskFrom(focus, mt.PathOpts{Corrupt: 0.06})
		}
	}
	genCall := func() tcall {
		var m proto.Message
		if g.R.Intn(3) == 0 {
			m = allFields(g, r)
		} else {
			m = g.Msg(md, r.New, focus)
		}
		return mkCallFor(row, m, genMask(), row.Flag != "" && g.R.Intn(2) == 0)
	}
	c := tcase{Trait: row.Name}
	for i, n := 0, g.R.Intn(3); i < n; i++ {
		s := genCall()
		if g.R.Intn(2) == 0 {
			s.M = mt.NilMask() // an unmasked write populates what later masks leave out
		}
		c.Setup = append(c.Setup, s)
	}
	c.Call = genCall()
	return c
}

func runTraits(f lib.Flags, res *lib.Result, drv *lib.Driver) {
	tie := res.Tie("trait-servers", "K1",
		"Update RPCs of real trait servers that hand the request's update_mask to resource.Value.Set, with and without write interceptors (countpb/speakerpb MemoryDevice: delta in InterceptBefore; emergencypb MemoryDevice: change time in InterceptAfter, compared when the level does not change; onoffpb / airtemperaturepb / presspb ModelServer, airtemperaturepb MemoryDevice with its writable paths and oneof, lightpb MemoryDevice plain path - delta + cap, its own reset paths handed to the model - and preset path, lightpb ModelServer with configured presets - the model is handed the option list the server builds, WithUpdateMask then WithMoreUpdatePaths(level_percent)): a fresh server, 0-2 earlier Update calls, then one call with a generated mask (nil, empty, partial over the writable fields, paths from the descriptor tree incl. corrupted ones), message and flag; the state read with Get before the call, the request and the server's documented writable fields go to the Lean model's valueSetI (countpb with the model's own delta interceptor deltaIcpt on added/removed as BEFORE-interceptor; speakerpb with the harness' float sum as written message), compared with the state Get returns afterwards / the error code; small masks x flags per server first; non-trivial = mask non-nil or flag set; distinct by the whole call history")
	mon := res.Monitor("trait-write-semantics",
		"every trait case through the write-semantics monitor at the RPC: fields outside update∩writable unchanged (the server's documented writable fields; fields the server documents as derived from the written ones - emergency level_change_time when the level changes, fan speed percentage/preset/preset_index - exempt), inside: FieldMask update semantics of the message the request asks for (delta / relative: the harness' own sum of stored and written), unknown / read-only paths rejected and nothing changes, empty non-nil mask changes nothing at all (derived fields included), returned message = next Get, no panic; a server rule that widens the mask (lightpb.Model: level_percent joins the non-nil mask of a request that selects a configured preset) is judged with the widened mask; also fanspeedpb ModelServer (relative flag, DeriveValues in InterceptAfter), which is monitored only")
	runTraitCases(smallTraitCases(), tie, mon, drv)
	g := &mt.Gen{R: lib.NewRand(f.Seed + 104729)}
	n := f.N(1500, 30000)
	batch := 500
	for done := 0; done < n; done += batch {
		var cases []tcase
		for i := 0; i < batch && done+i < n; i++ {
			cases = append(cases, genTraitCase(g))
		}
		runTraitCases(cases, tie, mon, drv)
	}
}

func replayTrait(c tcase) int {
	row, ok := trowByName(c.Trait)
	if !ok {
		fmt.Println("replay: unknown trait server", c.Trait)
		return 2
	}
	m := lib.NewMonitor("replay", "")
	out := c.run(row)
	c.judge(row, m, out)
	fmt.Printf("replay %s\n", c.Trait)
	for i, s := range c.Setup {
		fmt.Printf("  earlier call %d: mask=%s %s=%v message=%s -> %s\n", i, s.M.Enc(), row.Flag, s.Flag, s.MsgText, out.SetupErrs[i])
	}
	before := "?"
	if out.Before != nil {
		before = mt.CanonMsg(out.Before)
	}
	fmt.Printf("  stored=%s\n  call: mask=%s %s=%v message=%s\n  -> %s\n", before, c.Call.M.Enc(), row.Flag, c.Call.Flag, c.Call.MsgText, out.tieText())
	if len(m.Violations) > 0 {
		for _, v := range m.Violations {
			fmt.Printf("STILL FAILS %s: %s (expected %s, observed %s)\n", v.Signature, v.What, v.Expected, v.Observed)
		}
		return 1
	}
	fmt.Println("replay: property holds on this input now")
	return 0
}
