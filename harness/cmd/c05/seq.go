package main

import (
	"fmt"
	"math/rand"
	"strings"
	"time"

	"google.golang.org/protobuf/proto"
	"google.golang.org/protobuf/reflect/protoreflect"
	"google.golang.org/protobuf/types/known/fieldmaskpb"

	"github.com/smart-core-os/sc-golang/pkg/cmp"
	"github.com/smart-core-os/sc-golang/pkg/resource"
	"github.com/smart-core-os/sc-golang/verifharness/cmd/c05/mt"
	"github.com/smart-core-os/sc-golang/verifharness/lib"
)

// Sequences of writes on ONE resource, every write with its own LIST of resource.WriteOptions (the
// real option constructors, in a generated order), on a resource whose writable fields come from
// the real construction options.  The model side is `wseq` (ScVerif/C05/Opts.lean: WOpt.apply,
// computeWriteConfig, WriteRequest.fieldUpdater, runSeq); the monitor evaluates every step against
// masks derived from the option list by specOpts below (independent of both).

// wopt is one resource.WriteOption.
type wopt struct {
	// update-mask | update-paths | more-update-mask | more-update-paths | reset-mask | reset-paths |
	// more-writable-fields | more-writable-paths | all-writable
	Kind string  `json:"kind"`
	Mask mt.Mask `json:"mask"`
}

// ropt is one option of resource construction: writable-fields | writable-paths, or one of the
// options that are NOT masks, "other:<name>" (see otherOption): clock, equivalence, rng, id interceptor.
type ropt struct {
	Kind string  `json:"kind"`
	Mask mt.Mask `json:"mask"`
}

type sstep struct {
	Opts    []wopt `json:"options"`
	Src     string `json:"written_hex"`
	SrcText string `json:"written"`
	// Fresh: Collection.Add of a new item (ids n0, n1, …) instead of Update of the tracked item "x"
	Fresh bool `json:"add_new_item,omitempty"`
}

type scase struct {
	Root    string  `json:"root"`
	Site    string  `json:"site"` // value | collection
	ROpts   []ropt  `json:"resource_options"`
	Route   string  `json:"writable_route,omitempty"`
	Dst     string  `json:"stored_hex"`
	DstText string  `json:"stored"`
	Steps   []sstep `json:"steps"`
}

// enc names the CONSTRUCTOR that option() really calls (the model maps each With…Paths constructor to
// what it returns, `WCtor.opt`): a constructor that treats its paths differently from its …Mask
// sibling (copies and normalises, drops, validates them) is a disagreement of the tie.
func (o wopt) enc() string {
	switch o.Kind {
	case "update-mask":
		return "U" + o.Mask.Enc()
	case "update-paths":
		return "P" + o.Mask.Enc()
	case "more-update-mask":
		return "u" + o.Mask.Enc()
	case "more-update-paths":
		return "p" + o.Mask.Enc()
	case "reset-mask":
		return "R" + o.Mask.Enc()
	case "reset-paths":
		return "r" + o.Mask.Enc()
	case "more-writable-fields":
		return "w" + o.Mask.Enc()
	case "more-writable-paths":
		return "v" + o.Mask.Enc()
	case "all-writable":
		return "A"
	}
	panic("wopt kind " + o.Kind)
}

func (o wopt) option() resource.WriteOption {
	switch o.Kind {
	case "update-mask":
		return resource.WithUpdateMask(o.Mask.FM())
	case "update-paths":
		return resource.WithUpdatePaths(append([]string(nil), o.Mask.Paths...)...)
	case "more-update-mask":
		return resource.WithMoreUpdateMask(o.Mask.FM())
	case "more-update-paths":
		return resource.WithMoreUpdatePaths(append([]string(nil), o.Mask.Paths...)...)
	case "reset-mask":
		return resource.WithResetMask(o.Mask.FM())
	case "reset-paths":
		return resource.WithResetPaths(append([]string(nil), o.Mask.Paths...)...)
	case "more-writable-fields":
		return resource.WithMoreWritableFields(o.Mask.FM())
	case "more-writable-paths":
		return resource.WithMoreWritablePaths(append([]string(nil), o.Mask.Paths...)...)
	case "all-writable":
		return resource.WithAllFieldsWritable()
	}
	panic("wopt kind " + o.Kind)
}

func encList(xs []string) string {
	if len(xs) == 0 {
		return "_"
	}
	return strings.Join(xs, ";")
}

func (s scase) modelLine() string {
	var ro []string
	for _, o := range s.ROpts {
		ro = append(ro, o.enc())
	}
	var steps []string
	for _, st := range s.Steps {
		var os []string
		for _, o := range st.Opts {
			os = append(os, o.enc())
		}
		fresh := ""
		if st.Fresh {
			fresh = "+"
		}
		steps = append(steps, encList(os)+"@"+fresh+st.SrcText)
	}
	return fmt.Sprintf("wseq %d %s %s %s", schema.ID(rootByName(s.Root).MD()), encList(ro), s.DstText, strings.Join(steps, "|"))
}

// specOpts: the masks a list of write options denotes, per the documentation of the options
// (written independently of opt.go and of the Lean model):
//   - the update mask is the one of the LAST WithUpdateMask/Paths option; nil (or no such option)
//     means "all writable fields", whatever WithMoreUpdate* options say; otherwise the paths of the
//     WithMoreUpdate* options that FOLLOW it are added;
//   - the reset mask is the one of the last WithResetMask/Paths option;
//   - the extra writable fields are those of all WithMoreWritable* options; WithAllFieldsWritable
//     anywhere makes everything writable.
func specOpts(opts []wopt) (M, R, More mt.Mask, all bool) {
	M, R, More = mt.NilMask(), mt.NilMask(), mt.NilMask()
	var later []string
scan:
	for i := len(opts) - 1; i >= 0; i-- {
		switch opts[i].Kind {
		case "more-update-mask", "more-update-paths":
			later = append(append([]string{}, opts[i].Mask.Paths...), later...)
		case "update-mask", "update-paths":
			if !opts[i].Mask.Nil {
				M = mt.Mask{Paths: append(append([]string{}, opts[i].Mask.Paths...), later...)}
			}
			break scan
		}
	}
	for _, o := range opts {
		switch o.Kind {
		case "reset-mask", "reset-paths":
			R = o.Mask
		case "more-writable-fields", "more-writable-paths":
			More = mt.Mask{Paths: append(append([]string{}, More.Paths...), o.Mask.Paths...)}
		case "all-writable":
			all = true
		}
	}
	return
}

// specW: the last writable-fields construction option wins; none = everything writable.
func (s scase) specW() mt.Mask { return specWOf(s.ROpts) }

func specWOf(ropts []ropt) mt.Mask {
	if o := lastWritable(ropts); o != nil {
		return o.Mask
	}
	return mt.NilMask()
}

// lastWritable: the last writable-fields option of the list (options that are not masks do not count).
func lastWritable(ropts []ropt) *ropt {
	for i := len(ropts) - 1; i >= 0; i-- {
		if !ropts[i].other() {
			return &ropts[i]
		}
	}
	return nil
}

func (o ropt) other() bool { return strings.HasPrefix(o.Kind, "other:") }

func (o ropt) enc() string {
	switch {
	case o.other():
		return "X" + strings.ReplaceAll(strings.TrimPrefix(o.Kind, "other:"), "-", "")
	case o.Kind == "writable-paths":
		return "P" + o.Mask.Enc()
	}
	return "F" + o.Mask.Enc()
}

type fixedClock struct{ t time.Time }

func (c fixedClock) Now() time.Time { return c.t }

type steppingClock struct{ t *time.Time }

func (c steppingClock) Now() time.Time {
	*c.t = c.t.Add(time.Second)
	return *c.t
}

// otherNames: the resource options that are not masks, in the shapes that differ in what they could
// make a write do: clocks (constant, advancing), equivalences (equal; approximate numbers with a
// margin wider than any generated value; one that relates ALL messages; one that looks at the first
// field only; one that relates none), a seeded RNG, an id interceptor (collections address the
// tracked item as "X", stored under "x").
var otherNames = []string{"clock-fixed", "clock-stepping", "equiv-no-duplicates", "equiv-float-approx",
	"equiv-always", "equiv-first-field", "equiv-never", "rng", "id-lower"}

func otherOption(name string, md protoreflect.MessageDescriptor) resource.Option {
	switch name {
	case "clock-fixed":
		return resource.WithClock(fixedClock{time.Unix(1700000000, 0)})
	case "clock-stepping":
		t := time.Unix(1700000000, 0)
		return resource.WithClock(steppingClock{&t})
	case "equiv-no-duplicates":
		return resource.WithNoDuplicates()
	case "equiv-float-approx":
		return resource.WithMessageEquivalence(cmp.Equal(cmp.FloatValueApprox(0, 1e300)))
	case "equiv-always":
		return resource.WithEquivalence(resource.ComparerFunc(func(_, _ proto.Message) bool { return true }))
	case "equiv-never":
		return resource.WithEquivalence(resource.ComparerFunc(func(_, _ proto.Message) bool { return false }))
	case "equiv-first-field":
		fd := md.Fields().Get(0)
		return resource.WithEquivalence(resource.ComparerFunc(func(x, y proto.Message) bool {
			if x == nil || y == nil {
				return x == nil && y == nil
			}
			return mt.GetText(x.ProtoReflect(), []string{string(fd.Name())}) == mt.GetText(y.ProtoReflect(), []string{string(fd.Name())})
		}))
	case "rng":
		return resource.WithRNG(rand.New(rand.NewSource(1)))
	case "id-lower":
		return resource.WithIDInterceptor(strings.ToLower)
	}
	panic("other option " + name)
}

// built is one resource under test with the item the harness tracks.
type built struct {
	v   *resource.Value
	col *resource.Collection
	// wfm: the writable mask the harness handed over (nil when the resource built its own)
	wfm *fieldmaskpb.FieldMask
	// id under which the harness addresses the tracked item ("X" behind a lower-casing id interceptor)
	id string
	r  root
}

func (b built) tracked() proto.Message {
	var m proto.Message
	if b.v != nil {
		m = b.v.Get()
	} else {
		m, _ = b.col.Get(b.id)
	}
	if m == nil {
		m = b.r.New()
	}
	return m
}

func (b built) write(src proto.Message, opts ...resource.WriteOption) (proto.Message, error) {
	if b.v != nil {
		return b.v.Set(src, opts...)
	}
	return b.col.Update(b.id, src, opts...)
}

// buildResource constructs the Value / Collection of a case from its construction options.
func buildResource(r root, site, route string, ropts []ropt, dst proto.Message) (b built, configPanic string) {
	b.r, b.id = r, "x"
	var opts []resource.Option
	panicked, msg := lib.Catch(func() {
		for _, o := range ropts {
			switch {
			case o.other():
				name := strings.TrimPrefix(o.Kind, "other:")
				if name == "id-lower" {
					b.id = "X"
				}
				opts = append(opts, otherOption(name, r.MD()))
			case o.Kind == "writable-paths":
				opts = append(opts, resource.WithWritablePaths(r.New(), append([]string(nil), o.Mask.Paths...)...))
			default:
				b.wfm = wcase{W: o.Mask, Route: route}.writableMask()
				if o.Mask.Nil {
					b.wfm = nil
				}
				opts = append(opts, resource.WithWritableFields(b.wfm))
			}
		}
	})
	if panicked {
		return b, msg
	}
	if o := lastWritable(ropts); o != nil && o.Kind == "writable-paths" {
		b.wfm = nil // the resource owns the mask it built
	}
	if site == "value" {
		if dst != nil {
			opts = append(opts, resource.WithInitialValue(dst))
		}
		b.v = resource.NewValue(opts...)
	} else {
		b.col = resource.NewCollection(opts...)
		if dst == nil {
			dst = r.New()
		}
		if _, err := b.col.Add(b.id, proto.Clone(dst), resource.WithAllFieldsWritable()); err != nil {
			panic(err)
		}
	}
	return b, ""
}

type sout struct {
	ConfigPanic string
	Steps       []wout
	// OtherChanged[i]: step i (an Add of a new item) changed the tracked item
	OtherChanged []bool
}

func (o sout) text() string {
	if o.ConfigPanic != "" {
		return "config-panic"
	}
	var parts []string
	for _, st := range o.Steps {
		parts = append(parts, st.text())
	}
	return strings.Join(parts, " | ")
}

func (s scase) runCode() sout {
	r := rootByName(s.Root)
	var out sout
	dst, err := mt.DecodeMsg(s.Dst, r.New())
	if err != nil {
		panic(err)
	}
	b, cp := buildResource(r, s.Site, s.Route, s.ROpts, dst)
	if cp != "" {
		out.ConfigPanic = cp
		return out
	}
	col, wfm, tracked := b.col, b.wfm, b.tracked
	for i, st := range s.Steps {
		src, err := mt.DecodeMsg(st.Src, r.New())
		if err != nil {
			panic(err)
		}
		var opts []resource.WriteOption
		for _, o := range st.Opts {
			opts = append(opts, o.option())
		}
		wBefore := fullSlice(wfm)
		before := tracked()
		o := wout{Written: proto.Clone(src), Before: before, SrcAfter: src}
		id := fmt.Sprintf("n%d", i)
		if b.id == "X" {
			id = fmt.Sprintf("N%d", i)
		}
		if st.Fresh {
			o.Before = r.New()
		}
		var werr error
		var ret proto.Message
		panicked, msg := lib.Catch(func() {
			if st.Fresh {
				ret, werr = col.Add(id, src, opts...)
			} else {
				ret, werr = b.write(src, opts...)
			}
		})
		if panicked {
			o.Panic = msg
			out.Steps = append(out.Steps, o)
			out.OtherChanged = append(out.OtherChanged, false)
			return out
		}
		o.Err = codeName(werr)
		o.Returned = ret
		after := tracked()
		if st.Fresh {
			item, ok := col.Get(id)
			if !ok {
				item = r.New()
			}
			o.After = item
			o.ChangedOnErr = werr != nil && ok
			out.OtherChanged = append(out.OtherChanged, !proto.Equal(before, after))
		} else {
			o.After = after
			o.ChangedOnErr = werr != nil && !proto.Equal(before, after)
			out.OtherChanged = append(out.OtherChanged, false)
		}
		if wAfter := fullSlice(wfm); !sameStrings(wBefore, wAfter) {
			o.MaskMutated = fmt.Sprintf("%q -> %q", wBefore, wAfter)
		}
		out.Steps = append(out.Steps, o)
	}
	return out
}

// monitor evaluates the property on every step of the sequence, with the masks its options denote.
func (s scase) monitor(mon *lib.Monitor, out sout) {
	if out.ConfigPanic != "" {
		return
	}
	W := s.specW()
	for i, o := range out.Steps {
		st := s.Steps[i]
		prefix := s
		prefix.Steps = s.Steps[:i+1]
		M, R, More, all := specOpts(st.Opts)
		wc := wcase{Root: s.Root, Site: s.Site, Seq: true, input: prefix,
			Dst: mt.EncodeMsg(o.Before), DstText: mt.CanonMsg(o.Before), Src: st.Src, SrcText: st.SrcText,
			W: W, More: More, All: all, M: M, R: R}
		wc.monitor(mon, o)
		if out.OtherChanged[i] {
			mon.Violate("C05/"+s.Site+"+sequence/add-changed-another-item", "adding a new item changed the stored item x", prefix, mt.CanonMsg(o.Before), "changed")
		}
	}
}

func (s scase) key() string {
	parts := []string{s.Root, s.Site, s.Route, s.DstText, s.modelLine()}
	return strings.Join(parts, " ")
}

// ---------------------------------------------------------------------------------------------
// Generation

// overlapMask: a singular message field of the focus together with a path inside it, in either order
// (as a set of fields this is the whole field), sometimes next to other paths.
func overlapMask(g *mt.Gen, focus []protoreflect.FieldDescriptor) (mt.Mask, bool) {
	var cands []protoreflect.FieldDescriptor
	for _, fd := range focus {
		if fd.Message() != nil && !fd.IsList() && !fd.IsMap() && fd.Message().Fields().Len() > 0 {
			cands = append(cands, fd)
		}
	}
	if len(cands) == 0 {
		return mt.Mask{}, false
	}
	fd := cands[g.R.Intn(len(cands))]
	fs := fd.Message().Fields()
	child := fs.Get(g.R.Intn(fs.Len()))
	ps := []string{string(fd.Name()), string(fd.Name()) + "." + string(child.Name())}
	if child.Message() != nil && !child.IsList() && !child.IsMap() && child.Message().Fields().Len() > 0 && g.R.Intn(3) == 0 {
		// one level deeper: {f.c, f.c.x}
		gs := child.Message().Fields()
		ps = []string{ps[1], ps[1] + "." + string(gs.Get(g.R.Intn(gs.Len())).Name())}
	}
	if g.R.Intn(3) == 0 {
		p, _ := g.Path(focus, mt.PathOpts{})
		ps = append(ps, p)
	}
	g.R.Shuffle(len(ps), func(i, j int) { ps[i], ps[j] = ps[j], ps[i] })
	return mt.Mask{Paths: ps}, true
}

// genReset draws a reset mask: one to four paths with parents, children and duplicates, or a field
// together with a path inside it.
func genReset(g *mt.Gen, focus []protoreflect.FieldDescriptor) mt.Mask {
	if g.R.Intn(3) == 0 {
		if m, ok := overlapMask(g, focus); ok {
			return m
		}
	}
	m := g.MaskFrom(focus, mt.PathOpts{Corrupt: 0.03})
	if g.R.Intn(2) == 0 {
		m.Paths = m.Paths[:1]
	}
	return m
}

func pick(g *mt.Gen, a, b string) string {
	if g.R.Intn(2) == 0 {
		return a
	}
	return b
}

// insideOf returns a path at or below one of the paths of w (so that an update mask is accepted).
func insideOf(g *mt.Gen, md protoreflect.MessageDescriptor, w []string) string {
	p := w[g.R.Intn(len(w))]
	if fd := mt.Classify(md, p).Last; fd != nil && fd.Message() != nil && !fd.IsList() && !fd.IsMap() && fd.Message().Fields().Len() > 0 && g.R.Intn(2) == 0 {
		fs := fd.Message().Fields()
		return p + "." + string(fs.Get(g.R.Intn(fs.Len())).Name())
	}
	return p
}

func genOpts(g *mt.Gen, md protoreflect.MessageDescriptor, focus []protoreflect.FieldDescriptor, W mt.Mask) []wopt {
	if g.R.Intn(4) == 0 {
		// a bare write, privileged or not
		if g.R.Intn(2) == 0 {
			return []wopt{{Kind: "all-writable"}}
		}
		return nil
	}
	clean := mt.PathOpts{Corrupt: 0.02}
	var opts []wopt
	var more mt.Mask
	hasMore := false
	if g.R.Intn(10) < 3 {
		more, hasMore = g.MaskFrom(focus, clean), true
	}
	allowed := append([]string{}, W.Paths...)
	if hasMore {
		allowed = append(allowed, more.Paths...)
	}
	inside := func(m mt.Mask) mt.Mask {
		// move the mask inside the writable fields most of the time, so that writes are accepted
		if !W.Nil && len(allowed) > 0 && g.R.Intn(4) != 0 {
			for i := range m.Paths {
				if g.R.Intn(4) != 0 {
					m.Paths[i] = insideOf(g, md, allowed)
				}
			}
		}
		return m
	}
	var upd []wopt
	switch x := g.R.Intn(10); {
	case x < 4:
	case x == 4:
		upd = append(upd, wopt{Kind: "update-mask", Mask: mt.NilMask()})
	case x == 5:
		upd = append(upd, wopt{Kind: pick(g, "update-mask", "update-paths"), Mask: mt.Mask{Paths: []string{}}})
	default:
		upd = append(upd, wopt{Kind: pick(g, "update-mask", "update-paths"), Mask: inside(g.MaskFrom(focus, mt.PathOpts{Corrupt: 0.05}))})
	}
	if g.R.Intn(10) < 4 {
		mu := wopt{Kind: pick(g, "more-update-mask", "more-update-paths"), Mask: inside(g.MaskFrom(focus, clean))}
		if g.R.Intn(3) != 0 {
			mu.Mask.Paths = mu.Mask.Paths[:1]
		}
		if g.R.Intn(15) == 0 {
			mu = wopt{Kind: "more-update-mask", Mask: mt.NilMask()}
		}
		if g.R.Intn(5) == 0 {
			upd = append([]wopt{mu}, upd...) // before the update mask: overwritten by it
		} else {
			upd = append(upd, mu)
		}
		if g.R.Intn(6) == 0 {
			upd = append(upd, wopt{Kind: "more-update-paths", Mask: inside(g.MaskFrom(focus, clean))})
		}
	}
	opts = append(opts, upd...)
	if g.R.Intn(10) < 3 {
		opts = append(opts, wopt{Kind: pick(g, "reset-mask", "reset-paths"), Mask: genReset(g, focus)})
		if g.R.Intn(20) == 0 {
			opts = append(opts, wopt{Kind: "reset-mask", Mask: mt.NilMask()})
		}
	}
	if hasMore {
		opts = append(opts, wopt{Kind: pick(g, "more-writable-fields", "more-writable-paths"), Mask: more})
		if g.R.Intn(5) == 0 {
			opts = append(opts, wopt{Kind: pick(g, "more-writable-fields", "more-writable-paths"), Mask: g.MaskFrom(focus, clean)})
		}
		if g.R.Intn(25) == 0 {
			opts = append(opts, wopt{Kind: "more-writable-fields", Mask: mt.NilMask()})
		}
	}
	if g.R.Intn(5) == 0 {
		opts = append(opts, wopt{Kind: "all-writable"})
	}
	// the relative order of options of different families does not matter: move them around
	if g.R.Intn(2) == 0 {
		// a stable interleaving: rotate the list, keeping the update-family options in their order
		var fam, rest []wopt
		for _, o := range opts {
			if strings.Contains(o.Kind, "update") {
				fam = append(fam, o)
			} else {
				rest = append(rest, o)
			}
		}
		g.R.Shuffle(len(rest), func(i, j int) { rest[i], rest[j] = rest[j], rest[i] })
		// reset / more-writable order among themselves is only kept where it matters (last reset wins)
		opts = opts[:0]
		k := 0
		if len(rest) > 0 {
			k = g.R.Intn(len(rest) + 1)
		}
		opts = append(opts, rest[:k]...)
		opts = append(opts, fam...)
		opts = append(opts, rest[k:]...)
	}
	for i := range opts {
		if opts[i].Mask.Paths == nil && !opts[i].Mask.Nil {
			opts[i].Mask.Paths = []string{}
		}
		if opts[i].Kind == "all-writable" {
			opts[i].Mask = mt.NilMask()
		}
		if strings.HasSuffix(opts[i].Kind, "-paths") && opts[i].Mask.Nil {
			opts[i].Kind = strings.TrimSuffix(opts[i].Kind, "-paths") + "-mask"
			if strings.HasPrefix(opts[i].Kind, "more-writable") {
				opts[i].Kind = "more-writable-fields"
			}
		}
	}
	return opts
}

func genSeq(g *mt.Gen, site string) scase {
	r := roots[0]
	if g.R.Intn(3) == 0 {
		r = roots[1+g.R.Intn(len(roots)-1)]
	}
	md := r.MD()
	focus := g.Focus(md, 2+g.R.Intn(4))
	s := scase{Root: r.Name, Site: site}
	dst := g.Msg(md, r.New, focus)
	if g.R.Intn(25) == 0 && site == "value" {
		dst = nil
	}
	s.Dst, s.DstText = mt.EncodeMsg(dst), mt.CanonMsg(dst)
	switch x := g.R.Intn(12); {
	case x < 2: // no option: everything writable
	case x == 2:
		s.ROpts = []ropt{{Kind: "writable-fields", Mask: mt.NilMask()}}
	case x == 3:
		s.ROpts = []ropt{{Kind: pick(g, "writable-fields", "writable-paths"), Mask: mt.Mask{Paths: []string{}}}}
	case x < 8:
		s.ROpts = []ropt{{Kind: "writable-fields", Mask: g.MaskFrom(focus, mt.PathOpts{Corrupt: 0.02})}}
	default:
		s.ROpts = []ropt{{Kind: "writable-paths", Mask: g.MaskFrom(focus, mt.PathOpts{Corrupt: 0.005})}}
	}
	if len(s.ROpts) > 0 && g.R.Intn(8) == 0 {
		// an earlier option that the later one replaces
		s.ROpts = append([]ropt{{Kind: "writable-fields", Mask: g.MaskFrom(focus, mt.PathOpts{})}}, s.ROpts...)
	}
	s.Route = []string{"literal", "union", "append", "unmarshal"}[g.R.Intn(4)]
	s.ROpts = withOthers(g, site, s.ROpts)
	W := s.specW()
	n := 2 + g.R.Intn(3)
	for i := 0; i < n; i++ {
		src := g.Msg(md, r.New, focus)
		st := sstep{Src: mt.EncodeMsg(src), SrcText: mt.CanonMsg(src), Opts: genOpts(g, md, focus, W)}
		if st.Opts == nil {
			st.Opts = []wopt{}
		}
		if site == "collection" && g.R.Intn(6) == 0 {
			st.Fresh = true
		}
		s.Steps = append(s.Steps, st)
	}
	return s
}

func (s scase) nontrivial() bool {
	for _, st := range s.Steps {
		if len(st.Opts) > 0 {
			return true
		}
	}
	return len(s.ROpts) > 0
}

// withOthers inserts resource options that are not masks into a list of construction options, at
// generated positions (before, between and after the writable-fields options).
func withOthers(g *mt.Gen, site string, ropts []ropt) []ropt {
	n := 0
	switch x := g.R.Intn(10); {
	case x < 5:
		return ropts
	case x < 8:
		n = 1
	default:
		n = 2 + g.R.Intn(2)
	}
	for i := 0; i < n; i++ {
		name := otherNames[g.R.Intn(len(otherNames))]
		if name == "id-lower" && site != "collection" {
			name = "equiv-always"
		}
		k := g.R.Intn(len(ropts) + 1)
		ropts = append(ropts[:k:k], append([]ropt{{Kind: "other:" + name, Mask: mt.NilMask()}}, ropts[k:]...)...)
	}
	return ropts
}

func runSeqCases(cases []scase, tie *lib.Tie, mon *lib.Monitor, drv *lib.Driver) {
	var lines []string
	for _, s := range cases {
		lines = append(lines, s.modelLine())
	}
	ans, err := drv.Batch(lines)
	if err != nil {
		tie.Fail(err)
		return
	}
	for i, s := range cases {
		out := s.runCode()
		tie.Record(s.key(), s.nontrivial(), s, ans[i], out.text())
		tie.Count("site:" + s.Site)
		tie.Count(fmt.Sprintf("steps:%d", len(s.Steps)))
		if out.ConfigPanic != "" {
			tie.Count("outcome:config-panic")
		}
		for _, o := range s.ROpts {
			tie.Count("resource-option:" + o.Kind)
		}
		bare, barePriv := 0, 0
		for j, st := range s.Steps {
			for _, o := range st.Opts {
				tie.Count("option:" + o.Kind)
			}
			M, R, More, all := specOpts(st.Opts)
			if M.Nil && R.Nil && More.Nil {
				if all {
					barePriv++
				} else {
					bare++
				}
			}
			if st.Fresh {
				tie.Count("step:add-new-item")
			}
			if j < len(out.Steps) {
				switch o := out.Steps[j]; {
				case o.Panic != "":
					tie.Count("outcome:panic")
				case o.Err != "":
					tie.Count("outcome:err:" + o.Err)
				default:
					tie.Count("outcome:ok")
				}
			}
		}
		if bare > 0 && barePriv > 0 && !s.specW().Nil {
			tie.Count("mixed-privilege-bare-writes")
		}
		mon.Eval(s.key(), s.nontrivial(), nil)
		s.monitor(mon, out)
	}
}

// seededSeqs: small fixed sequences first (they become the replays of anything they expose): the
// in-tree option shapes (lightpb preset write: caller's mask + WithMoreUpdatePaths; tween end:
// WithUpdatePaths + WithResetPaths; countpb: WithAllFieldsWritable between ordinary writes).
func seededSeqs() []scase {
	paths := func(ps ...string) mt.Mask { return mt.Mask{Paths: ps} }
	enc := func(m proto.Message) (string, string) { return mt.EncodeMsg(m), mt.CanonMsg(m) }
	step := func(m proto.Message, opts ...wopt) sstep {
		h, t := enc(m)
		if opts == nil {
			opts = []wopt{}
		}
		return sstep{Opts: opts, Src: h, SrcText: t}
	}
	var out []scase
	for _, site := range []string{"value", "collection"} {
		h, t := enc(seedStored())
		W := []ropt{{Kind: "writable-paths", Mask: paths("default_int32", "default_foreign_message.c")}}
		out = append(out,
			scase{Root: "TestAllTypes", Site: site, ROpts: W, Dst: h, DstText: t, Steps: []sstep{
				step(seedWrittenForeign(), wopt{Kind: "more-update-paths", Mask: paths("default_int32")}),
				step(seedWrittenNoForeign(), wopt{Kind: "update-mask", Mask: mt.NilMask()}, wopt{Kind: "more-update-paths", Mask: paths("default_foreign_message.c")}),
				step(seedWrittenForeign(), wopt{Kind: "update-paths", Mask: paths("default_foreign_message.c")}, wopt{Kind: "more-update-paths", Mask: paths("default_int32")}),
			}},
			scase{Root: "TestAllTypes", Site: site, ROpts: W, Dst: h, DstText: t, Steps: []sstep{
				step(seedWrittenForeign(), wopt{Kind: "all-writable", Mask: mt.NilMask()}),
				step(seedWrittenNoForeign()),
				step(seedWrittenForeign(), wopt{Kind: "all-writable", Mask: mt.NilMask()}),
			}},
			scase{Root: "TestAllTypes", Site: site, ROpts: W, Dst: h, DstText: t, Steps: []sstep{
				step(seedWrittenForeign()),
				step(seedStored(), wopt{Kind: "all-writable", Mask: mt.NilMask()}),
				step(seedWrittenNoForeign(), wopt{Kind: "update-paths", Mask: paths("default_int32")},
					wopt{Kind: "reset-paths", Mask: paths("default_foreign_message", "default_foreign_message.c")}),
				step(seedWrittenForeign(), wopt{Kind: "update-paths", Mask: paths("default_int32", "default_foreign_message")},
					wopt{Kind: "more-writable-paths", Mask: paths("default_foreign_message")},
					wopt{Kind: "reset-paths", Mask: paths("default_foreign_message.c", "default_foreign_message")}),
			}},
			// an update mask naming an unknown field stays rejected when WithMoreUpdate* widens it (5cc1d68)
			scase{Root: "TestAllTypes", Site: site, Dst: h, DstText: t, Steps: []sstep{
				step(seedWrittenNoForeign(), wopt{Kind: "update-paths", Mask: paths("default_int32", "default_int32.x")},
					wopt{Kind: "more-update-paths", Mask: paths("default_foreign_message.c")}),
			}},
			// …and an unknown path below a valid path of the same WithUpdatePaths call, in both orders
			scase{Root: "TestAllTypes", Site: site, Dst: h, DstText: t, Steps: []sstep{
				step(seedWrittenForeign(), wopt{Kind: "update-paths", Mask: paths("default_foreign_message", "default_foreign_message.nope")}),
				step(seedWrittenForeign(), wopt{Kind: "update-paths", Mask: paths("default_int32.x", "default_int32")}),
			}},
		)
		// read-only resources (writable mask non-nil without paths, both construction routes): ordinary
		// writes copy nothing — bare, masked (rejected), empty mask with and without reset, nil mask with
		// reset (resets only), extra writable fields / privilege for one write, then ordinary again
		for _, kind := range []string{"writable-fields", "writable-paths"} {
			RO := []ropt{{Kind: kind, Mask: mt.Mask{Paths: []string{}}}}
			out = append(out,
				scase{Root: "TestAllTypes", Site: site, ROpts: RO, Route: "literal", Dst: h, DstText: t, Steps: []sstep{
					step(seedWrittenForeign()),
					step(seedWrittenForeign(), wopt{Kind: "update-paths", Mask: paths("default_int32")}),
					step(seedWrittenForeign(), wopt{Kind: "update-mask", Mask: paths()}, wopt{Kind: "reset-paths", Mask: paths("default_int32")}),
					step(seedWrittenForeign(), wopt{Kind: "reset-paths", Mask: paths("default_foreign_message.c")}),
				}},
				scase{Root: "TestAllTypes", Site: site, ROpts: RO, Route: "literal", Dst: h, DstText: t, Steps: []sstep{
					step(seedWrittenForeign(), wopt{Kind: "update-paths", Mask: paths()}),
					step(seedWrittenNoForeign(), wopt{Kind: "more-writable-paths", Mask: paths("default_int32")}),
					step(seedWrittenForeign(), wopt{Kind: "more-writable-fields", Mask: paths()}),
					step(seedWrittenForeign(), wopt{Kind: "all-writable", Mask: mt.NilMask()}, wopt{Kind: "update-paths", Mask: paths("default_foreign_message.d")}),
					step(seedWrittenNoForeign()),
				}},
			)
		}
	}
	return out
}

// ctorAlphabet: one or more representatives of every mask-related option constructor, with the mask
// shapes that matter (nil, empty, a writable path, a path outside {default_int32}, an unknown path on
// its own and below a valid path of the same call).
func ctorAlphabet() []wopt {
	paths := func(ps ...string) mt.Mask { return mt.Mask{Paths: ps} }
	return []wopt{
		{Kind: "update-mask", Mask: mt.NilMask()},
		{Kind: "update-mask", Mask: paths()},
		{Kind: "update-mask", Mask: paths("default_int32")},
		{Kind: "update-paths", Mask: paths()},
		{Kind: "update-paths", Mask: paths("default_int32")},
		{Kind: "update-paths", Mask: paths("default_int32", "default_int32.x")},
		{Kind: "update-paths", Mask: paths("default_foreign_message.c")},
		{Kind: "more-update-mask", Mask: paths("default_foreign_message.c")},
		{Kind: "more-update-paths", Mask: paths("default_foreign_message.c", "default_foreign_message.c.x")},
		{Kind: "reset-mask", Mask: paths("default_int32")},
		{Kind: "reset-paths", Mask: paths("default_foreign_message")},
		{Kind: "reset-paths", Mask: paths("default_foreign_message", "default_foreign_message.nope")},
		{Kind: "more-writable-paths", Mask: paths("default_foreign_message.c")},
		{Kind: "more-writable-fields", Mask: paths()},
		{Kind: "all-writable", Mask: mt.NilMask()},
	}
}

// runExhaustiveOptions: every LIST of at most maxLen option constructors over ctorAlphabet, as the
// options of one write on a Value and on a Collection item, for a resource that is fully writable,
// read-only (empty non-nil writable mask) or has writable fields {default_int32}.
func runExhaustiveOptions(f lib.Flags, res *lib.Result, drv *lib.Driver, mon *lib.Monitor) {
	maxLen := f.N(2, 3)
	tie := res.Tie("option-lists-exhaustive", "K2",
		fmt.Sprintf("all lists of <=%d write-option constructors (ordered, repeats included) over a 15-letter alphabet covering every mask-related constructor of pkg/resource (WithUpdateMask nil/empty/one path, WithUpdatePaths empty/one path/a path with an unknown path below it/a path outside the writable fields, WithMoreUpdateMask, WithMoreUpdatePaths with an unknown path below a valid one, WithResetMask, WithResetPaths valid/with an unknown path below a valid one, WithMoreWritablePaths, WithMoreWritableFields without paths, WithAllFieldsWritable) x resource writable in {none, non-nil without paths, {default_int32}} x site in {Value.Set, Collection.Update} x 2 written messages, one stored message; the model is told which constructor was called (WCtor.opt); exhaustive over this finite domain", maxLen))
	tie.Exhaustive = true
	alpha := ctorAlphabet()
	var lists [][]wopt
	var rec func(cur []wopt)
	rec = func(cur []wopt) {
		lists = append(lists, append([]wopt{}, cur...))
		if len(cur) == maxLen {
			return
		}
		for _, o := range alpha {
			rec(append(cur, o))
		}
	}
	rec(nil)
	h, t := mt.EncodeMsg(seedStored()), mt.CanonMsg(seedStored())
	Ws := [][]ropt{nil,
		{{Kind: "writable-fields", Mask: mt.Mask{Paths: []string{}}}},
		{{Kind: "writable-paths", Mask: mt.Mask{Paths: []string{"default_int32"}}}}}
	var cases []scase
	flush := func() {
		runSeqCases(cases, tie, mon, drv)
		cases = cases[:0]
	}
	for _, ro := range Ws {
		for _, site := range []string{"value", "collection"} {
			for _, src := range []proto.Message{seedWrittenForeign(), seedWrittenNoForeign()} {
				sh, stxt := mt.EncodeMsg(src), mt.CanonMsg(src)
				for _, l := range lists {
					cases = append(cases, scase{Root: "TestAllTypes", Site: site, ROpts: ro, Route: "literal", Dst: h, DstText: t,
						Steps: []sstep{{Opts: l, Src: sh, SrcText: stxt}}})
					if len(cases) >= 600 {
						flush()
					}
				}
			}
		}
	}
	flush()
}

func runSequences(f lib.Flags, res *lib.Result, drv *lib.Driver) {
	tie := res.Tie("write-sequences", "K1",
		"random sequences of 2-4 writes on ONE resource.Value / one item of a resource.Collection (Update of the item, or Add of a new item), each write with its own list of the real resource.WriteOption constructors in a generated order (WithUpdateMask/Paths incl. nil and empty, WithMoreUpdateMask/Paths before/after/without an update mask, WithResetMask/Paths with 1-4 paths incl. a field together with a path inside it, WithMoreWritableFields/Paths once or twice, WithAllFieldsWritable; a quarter of the writes carry no option or only WithAllFieldsWritable), the resource built with WithWritableFields (four slice routes) / WithWritablePaths / both / none; compared with the Lean model's resourceWritable + computeWriteConfig + fieldUpdater + runSeq (outcome of every step); non-trivial = some option present; distinct by the whole sequence")
	mon := res.Monitor("write-sequence-semantics",
		"every step of every sequence: the write-semantics monitor (reset => absent; outside update∩writable => unchanged; inside => FieldMask update semantics; rejects change nothing; no panic; configured writable mask unchanged) with the masks the step's OWN option list denotes per the option documentation (last update-mask option decides, nil stays nil whatever WithMoreUpdate* follow; extras and all-writable are per write) and the stored message left by the previous steps; adding a new item leaves the other item unchanged")
	runSeqCases(seededSeqs(), tie, mon, drv)
	runExhaustiveOptions(f, res, drv, mon)
	g := &mt.Gen{R: lib.NewRand(f.Seed + 7919)}
	n := f.N(1800, 40000)
	batch := 600
	for done := 0; done < n; done += batch {
		var cases []scase
		for i := 0; i < batch && done+i < n; i++ {
			cases = append(cases, genSeq(g, []string{"value", "collection"}[(done+i)%2]))
		}
		runSeqCases(cases, tie, mon, drv)
	}
}

func replaySeq(s scase) int {
	m := lib.NewMonitor("replay", "")
	out := s.runCode()
	s.monitor(m, out)
	fmt.Printf("replay sequence %s site=%s resource-options=%v stored=%s\n", s.Root, s.Site, s.ROpts, s.DstText)
	for i, st := range s.Steps {
		o := "(not run)"
		if i < len(out.Steps) {
			o = out.Steps[i].text()
		}
		var os []string
		for _, x := range st.Opts {
			os = append(os, x.enc())
		}
		fmt.Printf("  step %d options=%s add=%v written=%s\n    -> %s\n", i, encList(os), st.Fresh, st.SrcText, o)
	}
	if len(m.Violations) > 0 {
		for _, v := range m.Violations {
			fmt.Printf("STILL FAILS %s: %s (expected %s, observed %s)\n", v.Signature, v.What, v.Expected, v.Observed)
		}
		return 1
	}
	fmt.Println("replay: property holds on this input now")
	return 0
}
