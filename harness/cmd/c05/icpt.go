package main

// Intercepted writes: resource.Value.Set / Collection.Update with an update mask, writable fields
// AND write interceptors that edit the messages (the delta idiom of the trait servers: new.k +=
// old.k), registered with InterceptBefore, InterceptAfter or both. Ties the model's valueSetI
// (Icpt.lean) to WriteRequest.changeFn and judges the property around the interceptors.

import (
	"fmt"
	"strings"

	"google.golang.org/protobuf/proto"
	"google.golang.org/protobuf/reflect/protoreflect"

	"github.com/smart-core-os/sc-golang/pkg/resource"
	"github.com/smart-core-os/sc-golang/verifharness/cmd/c05/mt"
	"github.com/smart-core-os/sc-golang/verifharness/lib"
)

var deltaFields = []string{"default_int32", "default_int64", "default_sint32"}

type icase struct {
	Icpt    string   `json:"intercepted_write"` // always "delta"
	Site    string   `json:"site"`              // value | collection
	Dst     string   `json:"stored_hex"`
	Src     string   `json:"written_hex"`
	DstText string   `json:"stored"`
	SrcText string   `json:"written"`
	W       mt.Mask  `json:"writable"`
	M       mt.Mask  `json:"update_mask"`
	BKeys   []string `json:"before_delta_fields"`
	AKeys   []string `json:"after_delta_fields"`
}

// addInto is the interceptor body: new.k += sign*old.k for the named integer fields.
func addInto(old, new proto.Message, keys []string, sign int64) {
	if old == nil {
		return
	}
	o, n := old.ProtoReflect(), new.ProtoReflect()
	for _, k := range keys {
		fd := n.Descriptor().Fields().ByName(protoreflect.Name(k))
		s := n.Get(fd).Int() + sign*o.Get(fd).Int()
		if fd.Kind() == protoreflect.Int64Kind {
			n.Set(fd, protoreflect.ValueOfInt64(s))
		} else {
			n.Set(fd, protoreflect.ValueOfInt32(int32(s)))
		}
	}
}

func keysEnc(ks []string) string {
	if len(ks) == 0 {
		return "_"
	}
	return strings.Join(ks, ",")
}

func (c icase) key() string {
	return fmt.Sprintf("%s W=%s M=%s b=%s a=%s %s <- %s", c.Site, c.W.Enc(), c.M.Enc(), keysEnc(c.BKeys), keysEnc(c.AKeys), c.DstText, c.SrcText)
}

func (c icase) modelLine() string {
	ty := schema.ID(rootByName("TestAllTypes").MD())
	return fmt.Sprintf("iset %d %s %s %s %s %s %s", ty, c.W.Enc(), c.M.Enc(), c.DstText, c.SrcText, keysEnc(c.BKeys), keysEnc(c.AKeys))
}

func (c icase) run() wout {
	r := rootByName("TestAllTypes")
	dst, _ := mt.DecodeMsg(c.Dst, r.New())
	src, _ := mt.DecodeMsg(c.Src, r.New())
	out := wout{Written: proto.Clone(src), Before: proto.Clone(dst)}
	var ropts []resource.Option
	if !c.W.Nil {
		ropts = append(ropts, resource.WithWritableFields(c.W.FM()))
	}
	var opts []resource.WriteOption
	if !c.M.Nil {
		opts = append(opts, resource.WithUpdateMask(c.M.FM()))
	}
	if len(c.BKeys) > 0 {
		opts = append(opts, resource.InterceptBefore(func(old, new proto.Message) { addInto(old, new, c.BKeys, 1) }))
	}
	if len(c.AKeys) > 0 {
		opts = append(opts, resource.InterceptAfter(func(old, new proto.Message) { addInto(old, new, c.AKeys, 1) }))
	}
	var v *resource.Value
	var col *resource.Collection
	if c.Site == "value" {
		v = resource.NewValue(append(ropts, resource.WithInitialValue(dst))...)
	} else {
		col = resource.NewCollection(ropts...)
		if _, err := col.Add("x", dst, resource.WithAllFieldsWritable()); err != nil {
			panic(err)
		}
	}
	get := func() proto.Message {
		if v != nil {
			return v.Get()
		}
		m, _ := col.Get("x")
		return m
	}
	var err error
	p, msg := lib.Catch(func() {
		if v != nil {
			out.Returned, err = v.Set(src, opts...)
		} else {
			out.Returned, err = col.Update("x", src, opts...)
		}
	})
	if p {
		out.Panic = msg
		return out
	}
	out.Err = codeName(err)
	if err != nil {
		out.Returned = nil
	}
	out.After = get()
	out.SrcAfter = src
	out.ChangedOnErr = err != nil && !proto.Equal(out.After, out.Before)
	return out
}

// judge: the write-semantics monitor with (a) the written message the before-delta asks for (the
// harness' own sum) and (b) the after-delta taken off the observed results again: what remains must
// be the masked write, i.e. the after-interceptor ran once, on the merged message, and nothing else
// moved.
func (c icase) judge(mon *lib.Monitor, out wout) {
	w := wcase{Root: "TestAllTypes", Site: c.Site + "+interceptors", W: c.W, More: mt.NilMask(), M: c.M, R: mt.NilMask(), input: c}
	o := out
	if o.Panic == "" && o.Err == "" {
		o.Written = proto.Clone(o.Written)
		addInto(o.Before, o.Written, c.BKeys, 1)
		o.After = proto.Clone(o.After)
		addInto(o.Before, o.After, c.AKeys, -1)
		if o.Returned != nil {
			o.Returned = proto.Clone(o.Returned)
			addInto(o.Before, o.Returned, c.AKeys, -1)
		}
	}
	w.monitor(mon, o)
}

func genIcase(g *mt.Gen, site string) icase {
	r := rootByName("TestAllTypes")
	md := r.MD()
	var focus []protoreflect.FieldDescriptor
	for _, k := range deltaFields {
		focus = append(focus, md.Fields().ByName(protoreflect.Name(k)))
	}
	focus = append(focus, g.Focus(md, 1+g.R.Intn(2))...)
	dst, src := g.Msg(md, r.New, focus), g.Msg(md, r.New, focus)
	c := icase{Icpt: "delta", Site: site, W: mt.NilMask(), M: mt.NilMask(),
		Dst: mt.EncodeMsg(dst), Src: mt.EncodeMsg(src), DstText: mt.CanonMsg(dst), SrcText: mt.CanonMsg(src)}
	sub := func() []string {
		var ks []string
		for _, k := range deltaFields {
			if g.R.Intn(2) == 0 {
				ks = append(ks, k)
			}
		}
		return ks
	}
	pathsOf := func(fs []protoreflect.FieldDescriptor) mt.Mask {
		ps := []string{}
		for _, fd := range fs {
			if g.R.Intn(2) == 0 {
				ps = append(ps, string(fd.Name()))
			}
		}
		return mt.Mask{Paths: ps}
	}
	if g.R.Intn(2) == 0 {
		c.W = pathsOf(focus)
	}
	switch x := g.R.Intn(8); {
	case x == 0:
	case x == 1:
		c.M = mt.Mask{Paths: []string{}}
	default:
		c.M = pathsOf(focus)
	}
	switch g.R.Intn(3) {
	case 0:
		c.BKeys = sub()
	case 1:
		c.AKeys = sub()
	default:
		c.BKeys, c.AKeys = sub(), sub()
	}
	return c
}

func runIntercepted(f lib.Flags, res *lib.Result, drv *lib.Driver) {
	tie := res.Tie("intercepted-writes", "K1",
		"one Value.Set / Collection.Update on TestAllTypes with generated writable fields and update mask (nil, empty, subsets of three integer fields plus 1-2 other fields) and delta interceptors (new.k += old.k on a generated subset of the three integer fields) registered with InterceptBefore, InterceptAfter or both; compared with the Lean model's valueSetI + deltaIcpt (error code | stored-after); non-trivial = some interceptor edits; distinct by the whole tuple")
	mon := res.Monitor("intercepted-write-semantics",
		"the write-semantics monitor around the interceptors: the written message is what the before-delta asks for (harness' own sum of stored and written), the after-delta is subtracted from the observed result and returned message again - what remains must be the masked write (outside update∩writable unchanged, inside FieldMask semantics, rejects change nothing, empty mask: nothing but the after-delta)")
	g := &mt.Gen{R: lib.NewRand(f.Seed + 15485863)}
	n := f.N(1200, 24000)
	batch := 600
	for done := 0; done < n; done += batch {
		var cases []icase
		var lines []string
		for i := 0; i < batch && done+i < n; i++ {
			c := genIcase(g, []string{"value", "collection"}[(done+i)%2])
			cases = append(cases, c)
			lines = append(lines, c.modelLine())
		}
		ans, err := drv.Batch(lines)
		if err != nil {
			tie.Fail(err)
			return
		}
		for i, c := range cases {
			out := c.run()
			code := out.text()
			if out.Panic == "" && out.Err == "" {
				code = mt.CanonMsg(out.After)
			}
			nt := len(c.BKeys)+len(c.AKeys) > 0
			tie.Record(c.key(), nt, c, ans[i], code)
			tie.Count("site:" + c.Site)
			tie.Count(fmt.Sprintf("before:%d after:%d", len(c.BKeys), len(c.AKeys)))
			if out.Err != "" {
				tie.Count("outcome:err:" + out.Err)
			} else {
				tie.Count("outcome:ok")
			}
			mon.Eval(c.key(), nt, nil)
			c.judge(mon, out)
		}
	}
}

func replayIcase(c icase) int {
	m := lib.NewMonitor("replay", "")
	out := c.run()
	c.judge(m, out)
	fmt.Printf("replay intercepted write site=%s W=%s M=%s before-delta=%v after-delta=%v\n  stored=%s\n  written=%s\n  -> %s\n",
		c.Site, c.W.Enc(), c.M.Enc(), c.BKeys, c.AKeys, c.DstText, c.SrcText, out.text())
	if len(m.Violations) > 0 {
		for _, v := range m.Violations {
			fmt.Printf("STILL FAILS %s: %s (expected %s, observed %s)\n", v.Signature, v.What, v.Expected, v.Observed)
		}
		return 1
	}
	fmt.Println("replay: property holds on this input now")
	return 0
}
