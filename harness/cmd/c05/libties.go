package main

import (
	"fmt"
	"sort"
	"strings"

	"github.com/mennanov/fmutils"
	"google.golang.org/protobuf/proto"
	"google.golang.org/protobuf/types/known/fieldmaskpb"

	"github.com/smart-core-os/sc-golang/internal/testproto"
	"github.com/smart-core-os/sc-golang/verifharness/cmd/c05/mt"
	"github.com/smart-core-os/sc-golang/verifharness/lib"
)

func seedStored() proto.Message {
	return &testproto.TestAllTypes{
		DefaultInt32:          7,
		DefaultForeignMessage: &testproto.ForeignMessage{C: 1, D: 2},
	}
}

func seedWrittenNoForeign() proto.Message {
	return &testproto.TestAllTypes{DefaultInt32: 9}
}

func seedWrittenForeign() proto.Message {
	return &testproto.TestAllTypes{DefaultInt32: 9, DefaultForeignMessage: &testproto.ForeignMessage{C: 5, D: 6}}
}

func nestedText(m fmutils.NestedMask) string {
	var ks []string
	for k := range m {
		ks = append(ks, k)
	}
	sort.Strings(ks)
	var parts []string
	for _, k := range ks {
		parts = append(parts, k+nestedText(m[k]))
	}
	return "{" + strings.Join(parts, ",") + "}"
}

// runLibraryTies: the Lean models of the third-party functions against the functions themselves.
func runLibraryTies(f lib.Flags, res *lib.Result, drv *lib.Driver) {
	tie := res.Tie("libraries", "K1",
		"fmutils.NestedMaskFromPaths/Filter/Prune, proto.Merge, fieldmaskpb.IsValid/Normalize/Union/Intersect called directly on random messages and masks (valid and corrupted paths, duplicates, parents+children) and compared with the Lean models; a recovered panic is the outcome `panic`; non-trivial = non-empty mask or non-empty message; distinct by request line")
	g := &mt.Gen{R: lib.NewRand(f.Seed + 1000)}
	n := f.N(4000, 60000)
	type lcase struct {
		line string
		code string
	}
	var cases []lcase
	for i := 0; i < n; i++ {
		r := roots[0]
		if g.R.Intn(4) == 0 {
			r = roots[1+g.R.Intn(len(roots)-1)]
		}
		md := r.MD()
		ty := schema.ID(md)
		focus := g.Focus(md, 2+g.R.Intn(4))
		mask := g.MaskFrom(focus, mt.PathOpts{Corrupt: 0.25})
		if g.R.Intn(15) == 0 {
			mask = mt.Mask{Paths: []string{}}
		}
		mask2 := g.MaskFrom(focus, mt.PathOpts{Corrupt: 0.05})
		msg := g.Msg(md, r.New, focus)
		msg2 := g.Msg(md, r.New, focus)
		var c lcase
		op := []string{"nested", "filter", "prune", "pmerge", "isvalid", "normalize", "union", "intersect"}[i%8]
		tie.Count("op:" + op)
		switch op {
		case "nested":
			c.line = "nested " + mask.Enc()
			c.code = nestedText(fmutils.NestedMaskFromPaths(mask.Paths))
		case "filter", "prune":
			c.line = op + " " + mask.Enc() + " " + mt.CanonMsg(msg)
			work := proto.Clone(msg)
			panicked, _ := lib.Catch(func() {
				if op == "filter" {
					fmutils.Filter(work, mask.Paths)
				} else {
					fmutils.Prune(work, mask.Paths)
				}
			})
			if panicked {
				c.code = "panic"
				tie.Count(op + ":panic")
			} else {
				c.code = mt.CanonMsg(work)
			}
		case "pmerge":
			c.line = fmt.Sprintf("pmerge %d %s %s", ty, mt.CanonMsg(msg), mt.CanonMsg(msg2))
			work := proto.Clone(msg)
			proto.Merge(work, msg2)
			c.code = mt.CanonMsg(work)
		case "isvalid":
			c.line = fmt.Sprintf("isvalid %d %s", ty, mask.Enc())
			c.code = fmt.Sprint(mask.FM().IsValid(r.New()))
			tie.Count("isvalid:" + c.code)
		case "normalize":
			c.line = "normalize " + mask.Enc()
			fm := mask.FM()
			fm.Normalize()
			c.code = mt.EncPaths(fm.Paths)
		case "union":
			c.line = "union " + mask.Enc() + " " + mask2.Enc()
			c.code = mt.EncPaths(fieldmaskpb.Union(mask.FM(), mask2.FM()).Paths)
		case "intersect":
			c.line = "intersect " + mask.Enc() + " " + mask2.Enc()
			c.code = mt.EncPaths(fieldmaskpb.Intersect(mask.FM(), mask2.FM()).Paths)
		}
		cases = append(cases, c)
	}
	lines := make([]string, len(cases))
	for i, c := range cases {
		lines[i] = c.line
	}
	ans, err := drv.Batch(lines)
	if err != nil {
		tie.Fail(err)
		return
	}
	for i, c := range cases {
		tie.Record(c.line, len(c.line) > 24, c.line, ans[i], c.code)
	}
}
