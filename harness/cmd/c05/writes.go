package main

import (
	"fmt"
	"math"
	"sort"
	"strings"

	"google.golang.org/protobuf/types/known/fieldmaskpb"

	"google.golang.org/grpc/status"
	"google.golang.org/protobuf/proto"
	"google.golang.org/protobuf/reflect/protoreflect"

	"github.com/smart-core-os/sc-api/go/traits"
	"github.com/smart-core-os/sc-golang/pkg/masks"
	"github.com/smart-core-os/sc-golang/pkg/resource"
	"github.com/smart-core-os/sc-golang/verifharness/cmd/c05/mt"
	"github.com/smart-core-os/sc-golang/verifharness/lib"
)

// wcase is one write: (stored message, written message, update mask, writable mask, extra writable
// mask, all-writable flag, reset mask) at one of the three call sites.
type wcase struct {
	Root    string  `json:"root"`
	Site    string  `json:"site"` // updater | value | collection
	Dst     string  `json:"stored_hex"`
	Src     string  `json:"written_hex"`
	DstText string  `json:"stored"`
	SrcText string  `json:"written"`
	W       mt.Mask `json:"writable"`
	More    mt.Mask `json:"more_writable"`
	All     bool    `json:"all_writable"`
	M       mt.Mask `json:"update_mask"`
	R       mt.Mask `json:"reset_mask"`
	// Route: how the resource's writable FieldMask is constructed (literal: cap == len; union, append,
	// unmarshal: the Paths slice has spare capacity, as masks from configuration usually have)
	Route string `json:"writable_route,omitempty"`
	// Inner: a second write with its OWN extra writable fields, issued from InterceptBefore of this one,
	// i.e. between this write's Validate and Merge (Value: a write that changes nothing; Collection:
	// a write to another item "y", initially equal to the stored message)
	Inner *wcase `json:"nested_write,omitempty"`
	// Nested marks the inner write itself (only used for signatures)
	Nested bool `json:"-"`
	// Seq marks one step of a write sequence (seq.go); input is then the sequence up to this step,
	// which is what a violation records as its replay
	Seq bool `json:"-"`
	// Tag: another family's suffix of the call site in signatures (race.go: "+race", "+race-rival")
	Tag   string `json:"-"`
	input any
}

// in is what a violation of this case records as its input.
func (c wcase) in() any {
	if c.input != nil {
		return c.input
	}
	return c
}

type wout struct {
	Err      string // "" or gRPC code name
	Panic    string
	After    proto.Message // stored value after the call
	SrcAfter proto.Message // the written message after the call (Merge filters it in place)
	Before   proto.Message
	Written  proto.Message // pristine copy of the written message
	// Changed reports that a failed call changed the stored value
	ChangedOnErr bool
	// MaskMutated: the resource's configured writable mask (the whole backing array of its Paths) changed
	MaskMutated string
	// Reused: the same FieldUpdater applied a second time to fresh copies of the same messages gave
	// another result (an updater is built once and may serve many writes)
	Reused string
	Inner  *wout
	// Returned: the message the successful call returned (the other observation point of the property)
	Returned proto.Message
}

func (o wout) text() string {
	switch {
	case o.Panic != "":
		return "panic"
	case o.Err != "":
		if o.ChangedOnErr {
			return "err:" + o.Err + "+changed"
		}
		return "err:" + o.Err
	}
	return mt.CanonMsg(o.After) + " " + mt.CanonMsg(o.SrcAfter)
}

func (o wout) fullText() string {
	if o.Inner != nil && o.Panic == "" {
		return o.text() + " || nested: " + o.Inner.text()
	}
	return o.text()
}

// writableMask builds the resource's writable FieldMask by the case's construction route.
func (c wcase) writableMask() *fieldmaskpb.FieldMask {
	switch c.Route {
	case "union":
		return fieldmaskpb.Union(c.W.FM(), nil)
	case "append":
		fm := &fieldmaskpb.FieldMask{}
		for _, p := range c.W.Paths {
			fm.Paths = append(fm.Paths, p)
		}
		if fm.Paths == nil {
			fm.Paths = []string{}
		}
		return fm
	case "unmarshal":
		b, err := proto.Marshal(c.W.FM())
		if err != nil {
			panic(err)
		}
		fm := &fieldmaskpb.FieldMask{}
		if err := proto.Unmarshal(b, fm); err != nil {
			panic(err)
		}
		return fm
	}
	return c.W.FM()
}

func fullSlice(fm *fieldmaskpb.FieldMask) []string {
	if fm == nil {
		return nil
	}
	return append([]string{}, fm.Paths[:cap(fm.Paths)]...)
}

func sameStrings(a, b []string) bool {
	if len(a) != len(b) {
		return false
	}
	for i := range a {
		if a[i] != b[i] {
			return false
		}
	}
	return true
}

func (c wcase) decode() (dst, src proto.Message) {
	r := rootByName(c.Root)
	dst, err := mt.DecodeMsg(c.Dst, r.New())
	if err != nil {
		panic(err)
	}
	src, err = mt.DecodeMsg(c.Src, r.New())
	if err != nil {
		panic(err)
	}
	return dst, src
}

func codeName(err error) string {
	if err == nil {
		return ""
	}
	if s, ok := status.FromError(err); ok {
		return s.Code().String()
	}
	return "error:" + err.Error()
}

// effective writable mask as the specification sees it (nil = everything)
func (c wcase) effW() mt.Mask {
	if c.Site == "updater" {
		return c.W
	}
	if c.All || c.W.Nil {
		return mt.NilMask()
	}
	ps := append([]string{}, c.W.Paths...)
	if !c.More.Nil {
		ps = append(ps, c.More.Paths...)
	}
	return mt.Mask{Paths: ps}
}

func (c wcase) writeOpts() []resource.WriteOption {
	var opts []resource.WriteOption
	if !c.M.Nil {
		opts = append(opts, resource.WithUpdateMask(c.M.FM()))
	}
	if !c.R.Nil {
		opts = append(opts, resource.WithResetMask(c.R.FM()))
	}
	if !c.More.Nil {
		opts = append(opts, resource.WithMoreWritableFields(c.More.FM()))
	}
	if c.All {
		opts = append(opts, resource.WithAllFieldsWritable())
	}
	return opts
}

func (c wcase) runCode() wout {
	dst, src := c.decode()
	r := rootByName(c.Root)
	out := wout{Written: cloneExact(src)}
	if dst != nil {
		out.Before = proto.Clone(dst)
	} else {
		out.Before = r.New()
	}
	switch c.Site {
	case "updater":
		if dst == nil {
			dst = r.New()
		}
		fu := masks.NewFieldUpdater(masks.WithWritableFields(c.W.FM()), masks.WithUpdateMask(c.M.FM()), masks.WithResetMask(c.R.FM()))
		var err error
		panicked, msg := lib.Catch(func() {
			err = fu.Validate(src)
			if err == nil {
				fu.Merge(dst, src)
			}
		})
		if panicked {
			out.Panic = msg
			return out
		}
		out.Err = codeName(err)
		out.After, out.SrcAfter = dst, src
		out.ChangedOnErr = err != nil && !proto.Equal(dst, out.Before)
		if err == nil {
			dst2, src2 := proto.Clone(out.Before), cloneExact(out.Written)
			var err2 error
			p2, _ := lib.Catch(func() {
				if err2 = fu.Validate(src2); err2 == nil {
					fu.Merge(dst2, src2)
				}
			})
			if p2 || err2 != nil || !proto.Equal(dst2, dst) || !proto.Equal(src2, src) {
				out.Reused = fmt.Sprintf("second use: panic=%v err=%v stored=%s written=%s", p2, err2, mt.CanonMsg(dst2), mt.CanonMsg(src2))
			}
		}
	case "value", "collection":
		var ropts []resource.Option
		var wfm *fieldmaskpb.FieldMask
		if !c.W.Nil {
			wfm = c.writableMask()
			ropts = append(ropts, resource.WithWritableFields(wfm))
		}
		wBefore := fullSlice(wfm)
		var v *resource.Value
		var col *resource.Collection
		if c.Site == "value" {
			if dst != nil {
				ropts = append(ropts, resource.WithInitialValue(dst))
			}
			v = resource.NewValue(ropts...)
		} else {
			col = resource.NewCollection(ropts...)
			if dst == nil {
				dst = r.New()
			}
			for _, id := range []string{"x", "y"} {
				if _, err := col.Add(id, proto.Clone(dst), resource.WithAllFieldsWritable()); err != nil {
					panic(err)
				}
			}
		}
		opts := c.writeOpts()
		if c.Inner != nil {
			in := *c.Inner
			_, isrc := in.decode()
			iout := wout{Written: cloneExact(isrc), Before: proto.Clone(out.Before), SrcAfter: isrc}
			opts = append(opts, resource.InterceptBefore(func(_, _ proto.Message) {
				// runs between the outer write's Validate and Merge
				var ierr error
				done := make(chan struct{})
				go func() {
					defer close(done)
					p, msg := lib.Catch(func() {
						if v != nil {
							_, ierr = v.Set(isrc, in.writeOpts()...)
						} else {
							_, ierr = col.Update("y", isrc, in.writeOpts()...)
						}
					})
					if p {
						iout.Panic = msg
					}
				}()
				<-done
				iout.Err = codeName(ierr)
				if v != nil {
					iout.After = v.Get()
					if iout.After == nil {
						iout.After = r.New()
					}
				} else {
					iout.After, _ = col.Get("y")
				}
				iout.ChangedOnErr = ierr != nil && !proto.Equal(iout.After, iout.Before)
			}))
			out.Inner = &iout
		}
		var err error
		panicked, msg := lib.Catch(func() {
			if v != nil {
				out.Returned, err = v.Set(src, opts...)
			} else {
				out.Returned, err = col.Update("x", src, opts...)
			}
		})
		if panicked {
			out.Panic = msg
			return out
		}
		out.Err = codeName(err)
		if v != nil {
			out.After = v.Get()
			if out.After == nil {
				out.After = r.New()
			}
		} else {
			out.After, _ = col.Get("x")
		}
		out.SrcAfter = src
		out.ChangedOnErr = err != nil && !proto.Equal(out.After, out.Before)
		if wAfter := fullSlice(wfm); !sameStrings(wBefore, wAfter) {
			out.MaskMutated = fmt.Sprintf("%q -> %q", wBefore, wAfter)
		}
		if out.Inner != nil && out.Inner.After == nil {
			out.Inner = nil // the outer write was rejected before its interceptor ran
		}
	default:
		panic("site " + c.Site)
	}
	return out
}

// modelLines are the driver requests whose answers modelAnswer combines.
func (c wcase) modelLines() []string {
	ty := schema.ID(rootByName(c.Root).MD())
	if c.Site == "updater" {
		return []string{
			fmt.Sprintf("validate %d %s %s %s", ty, c.W.Enc(), c.M.Enc(), c.R.Enc()),
			fmt.Sprintf("merge %d %s %s %s %s %s", ty, c.W.Enc(), c.M.Enc(), c.R.Enc(), c.DstText, c.SrcText),
		}
	}
	all := "0"
	if c.All {
		all = "1"
	}
	lines := []string{fmt.Sprintf("set %d %s %s %s %s %s %s %s", ty, c.W.Enc(), c.More.Enc(), all, c.M.Enc(), c.R.Enc(), c.DstText, c.SrcText)}
	if c.Inner != nil {
		lines = append(lines, c.Inner.modelLines()...)
	}
	return lines
}

func (c wcase) modelAnswer(ans []string) string {
	if c.Site == "updater" {
		if ans[0] != "OK" {
			return "err:" + ans[0]
		}
		return ans[1]
	}
	if c.Inner != nil && !strings.HasPrefix(ans[0], "err:") && ans[0] != "panic" {
		return ans[0] + " || nested: " + ans[1]
	}
	return ans[0]
}

// ---------------------------------------------------------------------------------------------
// The property, path by path (independent of the model: only protoreflect and path prefixes)

func covered(m mt.Mask, p []string) bool {
	if m.Nil {
		return true
	}
	for _, q := range m.Paths {
		if mt.IsPrefix(mt.Segs(q), p) {
			return true
		}
	}
	return false
}

func kindOf(fd protoreflect.FieldDescriptor) string {
	switch {
	case fd.IsMap():
		return "map"
	case fd.IsList():
		return "repeated"
	case fd.Message() != nil:
		return "message"
	default:
		return "scalar"
	}
}

// appendText / mapMergeText compute the FieldMask update semantics on canonical texts.
func appendText(before, written string) string {
	if before == "" {
		return written
	}
	if written == "" {
		return before
	}
	return before[:len(before)-1] + "," + written[1:]
}

func mapMergeText(before, written string) string {
	if before == "" {
		return written
	}
	if written == "" {
		return before
	}
	entries := map[string]string{}
	for _, t := range []string{before, written} {
		for _, e := range strings.Split(t[1:len(t)-1], ",") {
			kv := strings.SplitN(e, ":", 2)
			entries[kv[0]] = kv[1]
		}
	}
	var keys []string
	for k := range entries {
		keys = append(keys, k)
	}
	sort.Strings(keys)
	var es []string
	for _, k := range keys {
		es = append(es, k+":"+entries[k])
	}
	return "(" + strings.Join(es, ",") + ")"
}

// displaced: p runs through a oneof member that was populated before, and the written message holds
// (at the same place) a different member of that oneof which the write assigns (related to the
// update mask and to the writable fields) — clearing the old member is inherent in assigning the
// other one, even if a reset mask clears the new member afterwards.
func (c wcase) displaced(before, written protoreflect.Message, p []string) bool {
	W := c.effW()
	relatedTo := func(m mt.Mask, q []string) bool {
		if m.Nil {
			return true
		}
		for _, x := range m.Paths {
			if mt.Related(mt.Segs(x), q) {
				return true
			}
		}
		return false
	}
	cb, cw := before, written
	for i, s := range p {
		if cb == nil || cw == nil || !cb.IsValid() || !cw.IsValid() {
			return false
		}
		fd := cb.Descriptor().Fields().ByName(protoreflect.Name(s))
		if fd == nil {
			return false
		}
		if o := mt.RealOneof(fd); o != nil && cb.Has(fd) {
			if now := cw.WhichOneof(o); now != nil && now.Name() != fd.Name() {
				q := append(append([]string{}, p[:i]...), string(now.Name()))
				if relatedTo(c.M, q) && relatedTo(W, q) {
					return true
				}
			}
		}
		if fd.Message() == nil || fd.IsList() || fd.IsMap() || !cb.Has(fd) || !cw.Has(fd) {
			return false
		}
		cb, cw = cb.Get(fd).Message(), cw.Get(fd).Message()
	}
	return false
}

func hasMsgAt(m protoreflect.Message, path []string) bool {
	_, _, ok := mt.Get(m, path)
	return ok
}

func (c wcase) monitor(mon *lib.Monitor, out wout) {
	md := rootByName(c.Root).MD()
	site := "C05/" + c.Site
	if c.Nested {
		site += "+nested-write"
	}
	if c.Seq {
		site += "+sequence"
	}
	site += c.Tag
	W := c.effW()
	if out.MaskMutated != "" {
		mon.Violate(site+"/writable-mask-mutated", "a write changed the resource's configured writable mask (backing array of Paths included): "+out.MaskMutated, c.in(), "unchanged", "changed")
	}

	// classify the update mask independently of fieldmaskpb
	unknown, outside := "", ""
	var outsideAll []string
	if !c.M.Nil {
		for _, m := range c.M.Paths {
			pi := mt.Classify(md, m)
			if !pi.Valid {
				unknown = m
				continue
			}
			if !W.Nil {
				// inside the writable fields: a writable path, or a path below one (a parent of writable
				// paths also names fields that are not writable)
				rel := false
				for _, w := range W.Paths {
					if mt.IsPrefix(mt.Segs(w), mt.Segs(m)) {
						rel = true
					}
				}
				if !rel {
					outside = m
					outsideAll = append(outsideAll, m)
				}
			}
		}
	}
	if out.Reused != "" {
		mon.Violate(site+"/reused-updater-differs", "the same FieldUpdater applied again to copies of the same stored and written messages behaved differently", c.in(), out.text(), out.Reused)
	}
	if out.Panic != "" {
		// W is configuration and may be arbitrary; a panic is only charged to the write when every
		// mask is valid for the type
		wOK := true
		for _, w := range W.Paths {
			if !mt.Classify(md, w).Valid {
				wOK = false
			}
		}
		if wOK {
			mon.Violate(site+"/panic", "write panicked: "+out.Panic, c.in(), "no panic", "panic")
		}
		return
	}
	if out.Err != "" {
		if out.ChangedOnErr {
			mon.Violate(site+"/rejects/changed-on-error", "a rejected write changed the stored message", c.in(), mt.CanonMsg(out.Before), mt.CanonMsg(out.After))
		}
		return
	}
	// accepted
	if out.Returned != nil && !proto.Equal(out.Returned, out.After) {
		// the two observation points of the property: the message the write returns and the next Get
		mon.Violate(site+"/returned-differs-from-next-get", "the message returned by the successful write is not the message the next Get returns", c.in(), mt.CanonMsg(out.Returned), mt.CanonMsg(out.After))
	}
	if unknown != "" {
		mon.Violate(site+"/rejects/unknown-path-accepted", "update mask names unknown path "+unknown+" but the write was accepted", c.in(), "InvalidArgument", "OK")
	}
	if outside != "" {
		mon.Violate(site+"/rejects/read-only-path-accepted", "update mask path "+outside+" is outside the writable fields "+W.Enc()+" but the write was accepted", c.in(), "InvalidArgument", "OK")
	}
	if !c.R.Nil {
		// the reset mask is a mask too: one that names an unknown path (also below a valid path of the
		// same mask) must not be accepted, whatever the update mask is (the code answers Internal: the
		// reset mask is the server's own; any rejection counts)
		for _, r := range c.R.Paths {
			if !mt.Classify(md, r).Valid {
				mon.Violate(site+"/rejects/unknown-reset-path-accepted", "reset mask names unknown path "+r+" but the write was accepted", c.in(), "rejected", "OK")
				break
			}
		}
	}
	if !c.M.Nil && len(c.M.Paths) == 0 {
		if !proto.Equal(out.After, out.Before) {
			mon.Violate(site+"/empty-mask/changed", "an empty non-nil update mask changed the message", c.in(), mt.CanonMsg(out.Before), mt.CanonMsg(out.After))
		}
		return
	}
	if unknown != "" {
		return // semantics below are for valid update masks
	}
	for _, w := range W.Paths {
		if !mt.Classify(md, w).Valid {
			return // the writable mask is server configuration: only valid ones have a meaning
		}
	}
	overlap := !c.M.Nil && prefixOverlap(c.M.Paths)
	if c.Site == "updater" && !c.W.Nil && prefixOverlap(c.W.Paths) {
		overlap = true // resource.* normalises the writable mask, masks.FieldUpdater is handed it raw
	}
	if !c.R.Nil {
		for _, r := range c.R.Paths {
			if !mt.Classify(md, r).Valid {
				return
			}
		}
	}

	before, after, written := out.Before.ProtoReflect(), out.After.ProtoReflect(), out.Written.ProtoReflect()
	leaves, presence := map[string]mt.Leaf{}, map[string]mt.Leaf{}
	mt.Leaves(before, nil, leaves, presence)
	mt.Leaves(after, nil, leaves, presence)
	mt.Leaves(written, nil, leaves, presence)
	// frameClass names the situation of a frame failure, so that distinct causes are distinct findings
	frameClass := func(p []string) string {
		class := "other"
		if !c.M.Nil {
			for _, m := range c.M.Paths {
				ms := mt.Segs(m)
				if mt.IsPrefix(ms, p) && !covered(W, p) {
					class = "update-path-wider-than-writable"
				}
				for i := 1; i < len(ms); i++ {
					if mt.IsPrefix(ms[:i], p) && !mt.IsPrefix(ms, p) && !hasMsgAt(written, ms[:i]) {
						class = "nested-path-under-message-absent-from-written"
					}
				}
			}
			// an accepted read-only path is filtered out of the written message and then cleared
			// from the stored one together with what surrounds it
			for _, m := range outsideAll {
				if mt.Segs(m)[0] == p[0] {
					class = "read-only-path-accepted"
				}
			}
		}
		return class
	}
	keys := make([]string, 0, len(leaves))
	for k := range leaves {
		keys = append(keys, k)
	}
	sort.Strings(keys)
	for _, k := range keys {
		lf := leaves[k]
		p := lf.Path
		b, a, w := mt.GetText(before, p), mt.GetText(after, p), mt.GetText(written, p)
		kind := kindOf(lf.FD)
		if !c.R.Nil && covered(c.R, p) {
			if a != "" {
				sig := site + "/reset/not-cleared"
				if !W.Nil && len(W.Paths) == 0 {
					sig += "-when-nothing-writable"
				}
				mon.Violate(sig, "reset-mask path "+k+" is still populated", c.in(), "absent", a)
			}
			continue
		}
		if !(covered(c.M, p) && covered(W, p)) {
			if a == b || c.displaced(before, written, p) {
				continue
			}
			if cl := frameClass(p); cl == "other" && overlap {
				mon.Violate(site+"/parent-and-child-paths/frame", "path "+k+" is outside update∩writable and not reset, but changed", c.in(), orAbsent(b), orAbsent(a))
				continue
			}
			mon.Violate(site+"/frame/"+frameClass(p), "path "+k+" is outside update∩writable and not reset, but changed", c.in(), orAbsent(b), orAbsent(a))
			continue
		}
		// inside update ∩ writable, not reset
		var want string
		if c.M.Nil {
			want = w // nil mask: the writable part of the message is replaced
		} else {
			// as a set of fields {f, f.d} is {f}: only the outermost paths "name" a field
			exact, parentInSrc := false, false
			for _, m := range outermost(c.M.Paths) {
				ms := mt.Segs(m)
				if len(ms) == len(p) && mt.IsPrefix(ms, p) {
					exact = true
				} else if mt.IsPrefix(ms, p) && hasMsgAt(written, ms) {
					parentInSrc = true
				}
			}
			switch {
			case w != "" && kind == "scalar":
				want = w
			case w != "" && kind == "repeated":
				want = appendText(b, w)
			case w != "" && kind == "map":
				want = mapMergeText(b, w)
			case exact:
				want = "" // named by the mask and absent from the written message: cleared
			case parentInSrc:
				want = b // merged into the existing sub-message: untouched fields stay
			default:
				want = "" // the message the mask names is absent from the written message: cleared
			}
		}
		if a != want && kind == "scalar" && negZeroTok(want) && !c.displaced(before, written, p) {
			// the written scalar is negative zero (present by protoreflect's Has, so "named and
			// present: takes the written value")
			switch {
			case a == "":
				continue // stored as +0: the same number, the sign of zero is not kept
			case !c.M.Nil && a == b:
				// recorded finding: proto.Merge copies a proto3 float only when != 0, pruneEmpty keeps a
				// field Has reports: the stored value stays, neither written nor cleared
				mon.Violate("C05/masked-write/inside/negative-zero-scalar-keeps-stored-value", "path "+k+" is inside update∩writable and the written message holds negative zero there (present by Has), but the stored value is kept: neither the written value nor cleared ["+site+"]", c.in(), want+" (or absent = +0)", orAbsent(a))
				continue
			}
		}
		if a != want && !c.displaced(before, written, p) {
			class := "/inside/" + kind
			if overlap {
				class = "/parent-and-child-paths/inside/" + kind
			}
			mon.Violate(site+class, "path "+k+" is inside update∩writable but does not follow FieldMask update semantics", c.in(), orAbsent(want), orAbsent(a))
		}
	}
	// presence of singular messages that no mask path is related to
	pkeys := make([]string, 0, len(presence))
	for k := range presence {
		pkeys = append(pkeys, k)
	}
	sort.Strings(pkeys)
	for _, k := range pkeys {
		p := presence[k].Path
		if c.M.Nil && covered(W, p) {
			continue
		}
		touched := false
		for _, set := range []mt.Mask{c.M, c.R, W} {
			if set.Nil {
				continue
			}
			for _, q := range set.Paths {
				if mt.Related(mt.Segs(q), p) {
					touched = true
				}
			}
		}
		if touched || (c.M.Nil && W.Nil) {
			continue
		}
		if hasMsgAt(before, p) != hasMsgAt(after, p) && !c.displaced(before, written, p) {
			mon.Violate(site+"/frame/"+frameClass(p)+"/message-presence", "presence of message "+k+" changed although no mask path is related to it", c.in(), fmt.Sprint(hasMsgAt(before, p)), fmt.Sprint(hasMsgAt(after, p)))
		}
	}
}

// outermost drops the paths that lie inside another path of the list.
func outermost(ps []string) []string {
	var out []string
	for _, p := range ps {
		inside := false
		for _, q := range ps {
			if qs, psg := mt.Segs(q), mt.Segs(p); len(qs) < len(psg) && mt.IsPrefix(qs, psg) {
				inside = true
			}
		}
		if !inside {
			out = append(out, p)
		}
	}
	return out
}

func prefixOverlap(ps []string) bool {
	for i, a := range ps {
		for j, b := range ps {
			if i != j && a != b && mt.IsPrefix(mt.Segs(a), mt.Segs(b)) {
				return true
			}
		}
	}
	return false
}

func orAbsent(s string) string {
	if s == "" {
		return "absent"
	}
	return s
}

// ---------------------------------------------------------------------------------------------
// Generation and the run

func genCase(g *mt.Gen, site string) wcase {
	r := roots[0]
	if g.R.Intn(4) == 0 {
		r = roots[1+g.R.Intn(len(roots)-1)]
	}
	md := r.MD()
	focus := g.Focus(md, 2+g.R.Intn(4))
	c := wcase{Root: r.Name, Site: site, W: mt.NilMask(), More: mt.NilMask(), M: mt.NilMask(), R: mt.NilMask()}
	dst := g.Msg(md, r.New, focus)
	src := g.Msg(md, r.New, focus)
	if g.R.Intn(25) == 0 && site != "collection" {
		dst = nil
	}
	c.Dst, c.Src = mt.EncodeMsg(dst), mt.EncodeMsg(src)
	c.DstText, c.SrcText = mt.CanonMsg(dst), mt.CanonMsg(src)
	clean := mt.PathOpts{Corrupt: 0.02}
	if g.R.Intn(2) == 0 {
		c.W = g.MaskFrom(focus, clean)
		if g.R.Intn(30) == 0 {
			c.W = mt.Mask{Paths: []string{}}
		}
	}
	switch x := g.R.Intn(20); {
	case x < 4: // nil
	case x == 4:
		c.M = mt.Mask{Paths: []string{}}
	default:
		c.M = g.MaskFrom(focus, mt.PathOpts{Corrupt: 0.08})
		// relate the update mask to the writable mask: children / parents / the same paths
		if !c.W.Nil && len(c.W.Paths) > 0 && g.R.Intn(2) == 0 {
			w := c.W.Paths[g.R.Intn(len(c.W.Paths))]
			switch g.R.Intn(3) {
			case 0:
				c.M.Paths[0] = w
			case 1:
				if i := strings.LastIndexByte(w, '.'); i > 0 {
					c.M.Paths[0] = w[:i]
				}
			default:
				if fd := mt.Classify(md, w).Last; fd != nil && fd.Message() != nil && !fd.IsList() && !fd.IsMap() && fd.Message().Fields().Len() > 0 {
					fs := fd.Message().Fields()
					c.M.Paths[0] = w + "." + string(fs.Get(g.R.Intn(fs.Len())).Name())
				}
			}
		}
	}
	if g.R.Intn(4) == 0 {
		// one to four reset paths: parents, children, duplicates, a field together with a path inside it
		c.R = genReset(g, focus)
	}
	if site != "updater" {
		if g.R.Intn(3) == 0 {
			c.More = g.MaskFrom(focus, clean)
		}
		c.All = g.R.Intn(12) == 0
		c.Route = []string{"literal", "union", "append", "unmarshal"}[g.R.Intn(4)]
		if !c.W.Nil && c.Dst != "nil" && g.R.Intn(3) == 0 {
			// a nested write with its own extra writable fields, issued from the outer write's interceptor
			isrc := g.Msg(md, r.New, focus)
			in := wcase{Root: c.Root, Site: site, Nested: true, Dst: c.Dst, DstText: c.DstText, W: c.W, Route: c.Route,
				Src: mt.EncodeMsg(isrc), SrcText: mt.CanonMsg(isrc),
				More: g.MaskFrom(focus, clean), M: mt.NilMask(), R: mt.NilMask()}
			if site == "value" {
				// must not change the stored value (the outer write would be aborted): empty mask, or rejected
				if g.R.Intn(2) == 0 {
					in.M = mt.Mask{Paths: []string{}}
				} else {
					in.M = mt.Mask{Paths: []string{"nope"}}
				}
			} else if g.R.Intn(3) != 0 {
				in.M = g.MaskFrom(focus, clean)
			}
			if c.More.Nil {
				c.More = g.MaskFrom(focus, clean)
			}
			c.Inner = &in
		}
	}
	return c
}

func (c wcase) key() string {
	k := strings.Join([]string{c.Root, c.Site, c.W.Enc(), c.More.Enc(), fmt.Sprint(c.All), c.M.Enc(), c.R.Enc(), c.DstText, c.SrcText, c.Route}, " ")
	if c.Inner != nil {
		k += " nested:" + c.Inner.key()
	}
	return k
}

func (c wcase) nontrivial() bool {
	return !c.M.Nil || !c.W.Nil || !c.R.Nil
}

func runCases(cases []wcase, tie *lib.Tie, mon *lib.Monitor, drv *lib.Driver) {
	var lines []string
	for _, c := range cases {
		lines = append(lines, c.modelLines()...)
	}
	ans, err := drv.Batch(lines)
	if err != nil {
		tie.Fail(err)
		return
	}
	i := 0
	for _, c := range cases {
		n := len(c.modelLines())
		model := c.modelAnswer(ans[i : i+n])
		i += n
		out := c.runCode()
		code := out.fullText()
		if c.writesNegZero() {
			// the model's scalars are opaque tokens copied whenever present: it has no negative zero
			// (which proto.Merge does not copy); such writes are monitored only
			tie.Count("not-compared:written-negative-zero")
		} else {
			tie.Record(c.key(), c.nontrivial(), c.in(), model, code)
		}
		if c.Inner != nil {
			tie.Count("nested-write")
		}
		if c.Route != "" {
			tie.Count("writable-route:" + c.Route)
		}
		switch {
		case out.Panic != "":
			tie.Count("outcome:panic")
		case out.Err != "":
			tie.Count("outcome:err:" + out.Err)
		default:
			tie.Count("outcome:ok")
		}
		tie.Count("site:" + c.Site)
		tie.Count("root:" + c.Root)
		if c.M.Nil {
			tie.Count("M:nil")
		} else {
			tie.Count(fmt.Sprintf("M:%d-paths", len(c.M.Paths)))
		}
		if c.W.Nil {
			tie.Count("W:nil")
		} else {
			tie.Count("W:set")
		}
		mon.Eval(c.key(), c.nontrivial(), nil)
		c.monitor(mon, out)
		if c.Inner != nil && out.Inner != nil {
			c.Inner.monitor(mon, *out.Inner)
		}
	}
}

// seeded cases: the witnesses of the `_fails` theorems and of the findings, smallest first
func seededCases() []wcase {
	var out []wcase
	mk := func(site string, W, M mt.Mask, dst, src proto.Message) wcase {
		return wcase{Root: "TestAllTypes", Site: site, W: W, More: mt.NilMask(), M: M, R: mt.NilMask(),
			Dst: mt.EncodeMsg(dst), Src: mt.EncodeMsg(src), DstText: mt.CanonMsg(dst), SrcText: mt.CanonMsg(src)}
	}
	paths := func(ps ...string) mt.Mask { return mt.Mask{Paths: ps} }
	for _, site := range []string{"updater", "value", "collection"} {
		out = append(out,
			// M={f}, W={f.c}, written lacks f
			mk(site, paths("default_foreign_message.c"), paths("default_foreign_message"), seedStored(), seedWrittenNoForeign()),
			// M={f.c}, written lacks f
			mk(site, mt.NilMask(), paths("default_foreign_message.c"), seedStored(), seedWrittenNoForeign()),
			// M={a, b}, W={a.x, a.y}: b is read-only yet accepted
			mk(site, paths("default_foreign_message.c", "default_foreign_message.d"), paths("default_foreign_message", "default_int32"), seedStored(), seedWrittenNoForeign()),
			// parent + child in the update mask
			mk(site, mt.NilMask(), paths("default_foreign_message", "default_foreign_message.c"), seedStored(), seedWrittenForeign()),
			// duplicate update path
			mk(site, paths("default_int32"), paths("default_int32", "default_int32"), seedStored(), seedWrittenForeign()),
		)
		// nothing writable + reset mask
		nw := mk(site, mt.Mask{Paths: []string{}}, mt.NilMask(), seedStored(), seedWrittenNoForeign())
		nw.R = paths("default_int32")
		out = append(out, nw)
	}
	return out
}

func runWrites(f lib.Flags, res *lib.Result, drv *lib.Driver) {
	tie := res.Tie("writes", "K1",
		"random (stored, written, update mask, writable, extra writable, all-writable, reset) tuples (the resource's writable mask built by four routes: literal, fieldmaskpb.Union, Append growth, proto.Unmarshal — the last three leave spare capacity in Paths; a third of the resource writes with writable fields carry a NESTED write with its own extra-writable mask issued from InterceptBefore, i.e. between the outer Validate and Merge: a no-op/rejected Set on a Value, an Update of another item on a Collection; both writes are compared with the model and monitored against W ∪ their OWN extras) over TestAllTypes and three trait messages at FieldUpdater.Validate+Merge, Value.Set and Collection.Update, compared with the Lean model's validate/merge/valueSet (outcome: error code | panic | stored-after + written-after); masks drawn from the descriptor's path tree with parents, children, duplicates, overlaps and corrupted segments; then 0.9k/15k cases (own generator, mostly the proto3 trait messages) whose written message holds a special float - NaN, +Inf, -Inf compared with the model, negative zero monitored only (the model's scalars are opaque tokens without a negative zero: bucket not-compared:written-negative-zero) - in a field the update and writable masks name two times out of three, the smallest such shapes first; non-trivial = some mask non-nil; distinct by the whole tuple")
	mon := res.Monitor("write-semantics",
		"for every case: path-by-path comparison of stored-before, written and stored-after over all populated leaf paths (reset => absent; outside update∩writable => unchanged; inside => FieldMask update semantics, present/absent in the written message decided by protoreflect's Has on an exact wire-format copy of it: a written negative zero is present; stored as +0 it is the same number and accepted, a stored non-zero value KEPT under a mask that names the field is the recorded finding negative-zero-scalar-keeps-stored-value), rejection of unknown / read-only paths with no change, empty mask => no change, no panic; the resource's configured writable mask, hidden tail paths[len:cap] included, is unchanged after every write; a masks.FieldUpdater used a second time on copies of the same messages gives the same result")
	g := &mt.Gen{R: lib.NewRand(f.Seed)}
	runCases(seededCases(), tie, mon, drv)
	n := f.N(6000, 150000)
	sites := []string{"updater", "value", "collection"}
	batch := 2000
	for done := 0; done < n; done += batch {
		var cases []wcase
		for i := 0; i < batch && done+i < n; i++ {
			cases = append(cases, genCase(g, sites[(done+i)%3]))
		}
		runCases(cases, tie, mon, drv)
	}
	// special float payloads in the written message (negative zero, NaN, +-Inf) on a generator of its
	// own, after the main family (whose cases stay what they were for every seed)
	g2 := &mt.Gen{R: lib.NewRand(f.Seed + 7919)}
	n2 := f.N(900, 15000)
	var sp []wcase
	for i := 0; i < n2; i++ {
		c := genCase(g2, sites[i%3])
		for t := 0; t < 3 && c.Root == "TestAllTypes" && c.Inner == nil; t++ {
			c = genCase(g2, sites[i%3]) // mostly the proto3 trait messages (implicit presence)
		}
		if c.Inner != nil {
			continue
		}
		sp = append(sp, specialFloatCase(g2, c))
	}
	// the smallest shapes first, the same for every seed: stored level 50, written level -0 / NaN / +Inf,
	// update mask {level_percent} and no mask
	var fixed []wcase
	for _, site := range sites {
		for _, v := range []float64{math.Copysign(0, -1), math.NaN(), math.Inf(1)} {
			for _, M := range []mt.Mask{{Paths: []string{"level_percent"}}, mt.NilMask()} {
				dst, src := &traits.Brightness{LevelPercent: 50, TargetLevelPercent: 25}, &traits.Brightness{LevelPercent: float32(v)}
				fixed = append(fixed, wcase{Root: "Brightness", Site: site, W: mt.NilMask(), More: mt.NilMask(), M: M, R: mt.NilMask(),
					Dst: mt.EncodeMsg(dst), Src: mt.EncodeMsg(src), DstText: mt.CanonMsg(dst), SrcText: mt.CanonMsg(src)})
			}
		}
	}
	runCases(fixed, tie, mon, drv)
	runCases(sp, tie, mon, drv)
	if f.Thorough() {
		runExhaustive(res, drv, mon)
	}
}

// cloneExact copies a message through the wire format: proto.Clone goes through proto.Merge, which
// does not copy a negative zero of a proto3 float field (the copy would read +0 = absent).
func cloneExact(m proto.Message) proto.Message {
	if m == nil {
		return nil
	}
	b, err := proto.MarshalOptions{Deterministic: true}.Marshal(m)
	if err != nil {
		panic(err)
	}
	c := m.ProtoReflect().New().Interface()
	if err := proto.Unmarshal(b, c); err != nil {
		panic(err)
	}
	return c
}

func negZeroTok(t string) bool { return t == "f80000000" || t == "d8000000000000000" }

var specialFloats = []float64{math.Copysign(0, -1), math.NaN(), math.Inf(1), math.Inf(-1)}

type floatSlot struct {
	m    protoreflect.Message
	fd   protoreflect.FieldDescriptor
	path string
}

// floatSlots: the singular float / double fields of m and of its singular sub-messages two levels
// down (populated or not: the written message gets the field).
func floatSlots(m protoreflect.Message, prefix string, depth int, out *[]floatSlot) {
	fs := m.Descriptor().Fields()
	for i := 0; i < fs.Len(); i++ {
		fd := fs.Get(i)
		if fd.IsList() || fd.IsMap() {
			continue
		}
		switch fd.Kind() {
		case protoreflect.FloatKind, protoreflect.DoubleKind:
			*out = append(*out, floatSlot{m, fd, prefix + string(fd.Name())})
		case protoreflect.MessageKind:
			if depth > 0 && (m.Has(fd) || depth > 1) {
				floatSlots(m.Mutable(fd).Message(), prefix+string(fd.Name())+".", depth-1, out)
			}
		}
	}
}

// specialFloatCase puts one special float (negative zero half of the time) into a float field of the
// case's written message and, two times out of three, names that field in the update mask (and in
// the writable masks, when there are any).
func specialFloatCase(g *mt.Gen, c wcase) wcase {
	r := rootByName(c.Root)
	src := r.New()
	if m, err := mt.DecodeMsg(c.Src, src); err != nil || m == nil {
		return c
	}
	var slots []floatSlot
	floatSlots(src.ProtoReflect(), "", 2, &slots)
	if len(slots) == 0 {
		return c
	}
	sl := slots[g.R.Intn(len(slots))]
	v := specialFloats[0]
	if g.R.Intn(2) == 0 {
		v = specialFloats[g.R.Intn(len(specialFloats))]
	}
	if sl.fd.Kind() == protoreflect.FloatKind {
		sl.m.Set(sl.fd, protoreflect.ValueOfFloat32(float32(v)))
	} else {
		sl.m.Set(sl.fd, protoreflect.ValueOfFloat64(v))
	}
	c.Src, c.SrcText = mt.EncodeMsg(src), mt.CanonMsg(src)
	if g.R.Intn(3) > 0 {
		if c.M.Nil || g.R.Intn(2) == 0 {
			c.M = mt.Mask{Paths: []string{sl.path}}
		} else {
			c.M = mt.Mask{Paths: append(append([]string{}, c.M.Paths...), sl.path)}
		}
		if !c.W.Nil {
			c.W = mt.Mask{Paths: append(append([]string{}, c.W.Paths...), sl.path)}
		}
	}
	return c
}

func (c wcase) writesNegZero() bool {
	return strings.Contains(c.SrcText, "=f80000000") || strings.Contains(c.SrcText, "=d8000000000000000")
}
