// Reads have no memory: what a read returns is a function of the stored message and the read mask of THAT
// read, whatever reads the process made before — on the same resource, on other resources, of other message
// types, through other call sites.  A case here is a SEQUENCE of reads executed in order (the family runs
// first in the process, and a replay re-executes the whole sequence in a fresh process); every read of the
// sequence is judged like a single read.  The sequences put next to each other masks that are different but
// easily confused by anything that remembers masks by a string made of their paths: a valid mask of 2-3
// paths and the ONE-path mask whose only path is those paths joined by a separator (",", ", ", " ", ";", "|",
// ":", "+", "/", nothing) or printed as a list ("[a b]") — a client putting the text form of a mask into a
// single path —, in both orders; the same mask over different stored messages, message types and sites; the
// same paths in another order.
package main

import (
	"encoding/json"
	"fmt"
	"strings"

	"google.golang.org/protobuf/proto"
	"google.golang.org/protobuf/reflect/protoreflect"

	"github.com/smart-core-os/sc-golang/verifharness/cmd/c05/mt"
	"github.com/smart-core-os/sc-golang/verifharness/lib"
)

type qcase struct {
	History bool    `json:"read_history"`
	Reads   []rcase `json:"reads_in_order"`
}

func (q qcase) key() string {
	var ks []string
	for _, r := range q.Reads {
		ks = append(ks, r.key())
	}
	return "history " + strings.Join(ks, " ; ")
}

// encodable: the mask can be written in the driver's line protocol (paths joined by "/", options by ",").
func encodable(m mt.Mask) bool {
	for _, p := range m.Paths {
		if p == "" {
			return false
		}
		for _, ch := range p {
			if !(ch == '_' || ch == '.' || (ch >= 'a' && ch <= 'z') || (ch >= '0' && ch <= '9')) {
				return false
			}
		}
	}
	return true
}

// plainUnknown: every path of the (non-empty) mask is a single segment that names no field of md: such a mask
// selects nothing.
func plainUnknown(md protoreflect.MessageDescriptor, m mt.Mask) bool {
	if m.Nil || len(m.Paths) == 0 {
		return false
	}
	for _, p := range m.Paths {
		if strings.Contains(p, ".") || md.Fields().ByName(protoreflect.Name(p)) != nil {
			return false
		}
	}
	return true
}

var syncSites = []string{"FilterClone", "Filter", "Value.Get", "Collection.Get", "Collection.List"}

// run executes the reads in order; judge evaluates every one of them.
func (q qcase) run() []rout {
	outs := make([]rout, len(q.Reads))
	for i, r := range q.Reads {
		outs[i] = r.runCode()
	}
	return outs
}

func (q qcase) judge(mon *lib.Monitor, outs []rout) {
	for i, r := range q.Reads {
		earlier := []string{}
		for _, e := range q.Reads[:i] {
			earlier = append(earlier, fmt.Sprintf("%s %s %q", e.Root, e.Site, e.Mask.Paths))
		}
		ctx := fmt.Sprintf(" (read %d of the sequence, mask %q, after the reads: %s)", i+1, r.Mask.Paths, strings.Join(earlier, "; "))
		tmp := lib.NewMonitor("one-read", "")
		r.monitor(tmp, outs[i])
		out := outs[i]
		if md := rootByName(r.Root).MD(); out.Panic == "" && !isPull(r.Site) && plainUnknown(md, r.Mask) {
			for _, got := range out.Results {
				if got != nil && nonEmpty(got) {
					tmp.Violate("C06/"+r.Site+"/unknown-path-selects-fields", "a read mask whose only paths name no field of the message selects nothing, yet the read returned fields", r, "{}", msgText(got))
				}
			}
		}
		for _, v := range tmp.Violations {
			mon.Violate("C06/read-history/"+strings.TrimPrefix(v.Signature, "C06/"), v.What+ctx, q, v.Expected, v.Observed)
		}
	}
}

// historyCases: see the file comment.  Deterministic in g.
func historyCases(g *mt.Gen, n int) []qcase {
	seps := []string{",", ", ", " ", ";", "|", ":", "+", "/", "", "[]"}
	join := func(ps []string, sep string) string {
		if sep == "[]" {
			return "[" + strings.Join(ps, " ") + "]"
		}
		return strings.Join(ps, sep)
	}
	var out []qcase
	for k := 0; k < n; k++ {
		r := roots[k%len(roots)]
		md := r.MD()
		var valid []string
		for _, p := range itemPaths(md, 2) {
			if mt.Classify(md, p).Valid {
				valid = append(valid, p)
			}
		}
		np := 2 + g.R.Intn(2)
		if k < 2*len(seps) {
			np = 2
		}
		var v []string
		var focus []protoreflect.FieldDescriptor
		seen := map[string]bool{}
		for tries := 0; len(v) < np && tries < 50; tries++ {
			p := valid[g.R.Intn(len(valid))]
			if k < 2*len(seps) && strings.Contains(p, ".") {
				continue // the first sequences use top-level fields only (small replays)
			}
			top := mt.Segs(p)[0]
			if seen[top] {
				continue
			}
			seen[top] = true
			v = append(v, p)
			focus = append(focus, md.Fields().ByName(protoreflect.Name(top)))
		}
		if len(v) < 2 {
			continue
		}
		mk := func(root root, fs []protoreflect.FieldDescriptor) proto.Message {
			m := root.New()
			for _, fd := range fs {
				g.Populate(m.ProtoReflect(), fd, 2)
			}
			for _, fd := range g.Focus(root.MD(), 2) {
				g.Populate(m.ProtoReflect(), fd, 2)
			}
			return m
		}
		msgA, msgB := mk(r, focus), mk(r, focus[:1])
		other := roots[(k+1+g.R.Intn(len(roots)-1))%len(roots)]
		msgX := mk(other, nil)
		V := mt.Mask{Paths: v}
		J := mt.Mask{Paths: []string{join(v, seps[k%len(seps)])}}
		rev := mt.Mask{Paths: append([]string{}, v...)}
		for i, j := 0, len(rev.Paths)-1; i < j; i, j = i+1, j-1 {
			rev.Paths[i], rev.Paths[j] = rev.Paths[j], rev.Paths[i]
		}
		read := func(root root, site string, m proto.Message, mask mt.Mask) rcase {
			c := rcase{Root: root.Name, Site: site, Msg: mt.EncodeMsg(m), MsgText: mt.CanonMsg(m), Mask: mask}
			if isPull(site) {
				c.Msg2, c.Msg2Text = mt.EncodeMsg(msgB), mt.CanonMsg(msgB)
			}
			return c
		}
		q := qcase{History: true}
		if (k/len(seps))%2 == 0 {
			// the confusable one-path mask first, on another message type / resource; then the valid mask everywhere
			if k%3 == 0 {
				q.Reads = append(q.Reads, read(r, syncSites[k%len(syncSites)], msgA, J))
			} else {
				q.Reads = append(q.Reads, read(other, syncSites[k%len(syncSites)], msgX, J))
			}
			for _, s := range syncSites {
				q.Reads = append(q.Reads, read(r, s, msgA, V))
			}
			q.Reads = append(q.Reads, read(r, "Value.Get", msgB, V), read(r, "FilterClone", msgA, rev))
			if k%4 == 0 {
				q.Reads = append(q.Reads, read(r, "Value.Pull", msgA, V), read(r, "Collection.Pull", msgA, V))
			}
		} else {
			// the valid mask first; then the one-path mask (selects nothing) everywhere; then the valid one again
			q.Reads = append(q.Reads, read(r, syncSites[(k+2)%len(syncSites)], msgA, V))
			for _, s := range syncSites {
				q.Reads = append(q.Reads, read(r, s, msgA, J))
			}
			q.Reads = append(q.Reads, read(r, "Collection.List", msgB, V), read(r, "Collection.Get", msgA, rev))
		}
		out = append(out, q)
	}
	return out
}

func runHistoryCases(cases []qcase, tie *lib.Tie, mon *lib.Monitor, drv *lib.Driver) {
	for _, q := range cases {
		outs := q.run()
		// the model knows nothing of earlier reads: every synchronous read whose mask can be written in the
		// line protocol against the Lean filter of the stored message
		var lines []string
		for i, r := range q.Reads {
			if !isPull(r.Site) && encodable(r.Mask) && outs[i].Panic == "" {
				lines = append(lines, "rfilter "+r.Mask.Enc()+" "+r.MsgText)
			}
		}
		ans, err := drv.Batch(lines)
		if err != nil {
			tie.Fail(err)
			return
		}
		k := 0
		var model, code []string
		for i, r := range q.Reads {
			switch {
			case isPull(r.Site) || !encodable(r.Mask):
				tie.Count("monitor-only:" + map[bool]string{true: "subscription", false: "mask-not-in-line-protocol"}[isPull(r.Site)])
				continue
			case outs[i].Panic != "":
				model, code = append(model, "no panic"), append(code, "panic")
				continue
			}
			var xs []string
			for _, m := range outs[i].Results {
				xs = append(xs, msgText(m))
			}
			model, code = append(model, ans[k]), append(code, strings.Join(xs, " "))
			k++
		}
		tie.Record(q.key(), true, q, strings.Join(model, " ; "), strings.Join(code, " ; "))
		tie.Count(fmt.Sprintf("reads-in-sequence:%d", len(q.Reads)))
		if len(q.Reads[0].Mask.Paths) == 1 {
			tie.Count("order:confusable-one-path-mask-first")
		} else {
			tie.Count("order:valid-mask-first")
		}
		mon.Eval(q.key(), true, nil)
		q.judge(mon, outs)
	}
}

func replayHistory(b []byte) int {
	var q qcase
	if err := json.Unmarshal(b, &q); err != nil || len(q.Reads) == 0 {
		fmt.Println("replay: no concrete input in file")
		return 2
	}
	for _, r := range q.Reads {
		if isPull(r.Site) && !r.safe() {
			fmt.Println("replay: refusing to drive a goroutine-backed read with a mask that may panic")
			return 2
		}
	}
	m := lib.NewMonitor("replay", "")
	outs := q.run()
	q.judge(m, outs)
	for i, r := range q.Reads {
		fmt.Printf("replay read %d: %s site=%s mask=%q stored=%s -> %s\n", i+1, r.Root, r.Site, r.Mask.Paths, r.MsgText, outs[i].text())
	}
	return reportReplay(m)
}
