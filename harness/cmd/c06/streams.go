// UPDATES of the trait servers' server-streaming Pull RPCs under a read mask: two client streams of the
// same service instance are opened through the in-process wrapper, one without and one with the mask;
// after the seed values, single stored changes (create / update / delete an item through the model) are
// made, each followed by the creation of a recognisable marker item.  Every change the masked stream
// delivers must be the projection (old AND new value; same kind; absent stays absent) of the change the
// unmasked stream delivers for the same write; a change may only be missing from the masked stream when
// the projections of its old and new value are equal (a model that drops duplicates).
package main

import (
	"context"
	"fmt"
	"reflect"
	"sort"
	"time"

	"google.golang.org/protobuf/proto"
	"google.golang.org/protobuf/reflect/protoreflect"
	"google.golang.org/protobuf/types/known/fieldmaskpb"

	"github.com/smart-core-os/sc-api/go/traits"
	"github.com/smart-core-os/sc-golang/verifharness/cmd/c05/mt"
	"github.com/smart-core-os/sc-golang/verifharness/lib"
)

// crud is how the harness changes the items behind a List/Pull service through its model.
type crud struct {
	Key     string // the item's identifying string field
	NewItem func() proto.Message
	Create  func(m proto.Message) (proto.Message, error) // m carries the wanted key ("" where the model invents one); the created item
	Update  func(m proto.Message) error // m carries the key of an existing item
	Delete  func(id string) error
	GenID   bool // Create requires an empty key and invents one
	// MarkerOnly: the service streams ONE value (a resource.Value without backpressure: a subscriber that is
	// behind is sent the latest value only), so the only write of a step is the marker item itself and the
	// next step waits until both streams delivered it
	MarkerOnly bool
}

func keyOf(m proto.Message, key string) string {
	if m == nil {
		return ""
	}
	r := m.ProtoReflect()
	fd := r.Descriptor().Fields().ByName(protoreflect.Name(key))
	if fd == nil {
		return ""
	}
	return r.Get(fd).String()
}

func setKey(m proto.Message, key, v string) {
	r := m.ProtoReflect()
	r.Set(r.Descriptor().Fields().ByName(protoreflect.Name(key)), protoreflect.ValueOfString(v))
}

// wire gives inst a Write (one random stored change; a failed or refused write is simply no change) and a
// Marker (creates a fresh item and returns its key).
func wire(inst *instance, c crud) {
	n := 0
	inst.Key = c.Key
	inst.Write = func(g *mt.Gen) {
		if c.MarkerOnly {
			return
		}
		lib.Catch(func() {
			items := inst.Read(nil)
			switch x := g.R.Intn(4); {
			case x == 0 || len(items) == 0:
				m := c.NewItem()
				fillItem(g, m)
				n++
				if c.GenID {
					setKey(m, c.Key, "")
				} else {
					setKey(m, c.Key, fmt.Sprintf("n%d", n))
				}
				fixItem(m)
				_, _ = c.Create(m)
			case x == 1 && c.Delete != nil:
				_ = c.Delete(keyOf(items[g.R.Intn(len(items))], c.Key))
			default:
				if c.Update == nil {
					return
				}
				m := c.NewItem()
				fillItem(g, m)
				setKey(m, c.Key, keyOf(items[g.R.Intn(len(items))], c.Key))
				fixItem(m)
				_ = c.Update(m)
			}
		})
	}
	inst.Hold = inst.Write
	if c.MarkerOnly {
		inst.Hold = func(g *mt.Gen) { lib.Catch(func() { inst.Marker(0, g) }) }
	}
	inst.Marker = func(i int, g *mt.Gen) string {
		m := c.NewItem()
		fillItem(g, m)
		fixItem(m)
		id := fmt.Sprintf("zz-marker-%d", i)
		if c.GenID {
			id = ""
		}
		setKey(m, c.Key, id)
		created, err := c.Create(m)
		if err != nil {
			panic(err)
		}
		if k := keyOf(created, c.Key); k != "" {
			return k
		}
		return keyOf(m, c.Key)
	}
}

// fixItem: what the models require of an item (sorted traits of a Child; an ElectricMode is only normal
// when the harness says so).
func fixItem(m proto.Message) {
	switch x := m.(type) {
	case *traits.ElectricMode:
		x.Normal = false
	case *traits.Child:
		sort.Slice(x.Traits, func(a, b int) bool { return x.Traits[a].Name < x.Traits[b].Name })
	}
}

// schange is one change of a Pull response: kind, old and new value (nil: not set).  A single-resource
// change (no new_value field) carries its resource as New.
type schange struct {
	Type     string
	Old, New proto.Message
}

func (s schange) text() string { return s.Type + " old=" + msgText(s.Old) + " new=" + msgText(s.New) }

func (s schange) projected(m mt.Mask) schange {
	p := func(x proto.Message) proto.Message {
		if x == nil {
			return nil
		}
		return specProject(x, m)
	}
	return schange{s.Type, p(s.Old), p(s.New)}
}

type sitem struct {
	c   schange
	err string
}

type sreader struct {
	ch     chan sitem
	cancel context.CancelFunc
}

func openStream(inst *instance, mask *fieldmaskpb.FieldMask) (*sreader, error) {
	ctx, cancel := context.WithCancel(bg)
	st, err := inst.Stream(ctx, mask)
	if err != nil {
		cancel()
		return nil, err
	}
	recv := reflect.ValueOf(st).MethodByName("Recv")
	r := &sreader{ch: make(chan sitem), cancel: cancel}
	go func() {
		defer close(r.ch)
		for {
			rs := recv.Call(nil)
			if !rs[1].IsNil() {
				select {
				case r.ch <- sitem{err: rs[1].Interface().(error).Error()}:
				case <-ctx.Done():
				}
				return
			}
			resp := rs[0].Interface().(proto.Message).ProtoReflect()
			changes := resp.Get(resp.Descriptor().Fields().ByName("changes")).List()
			for i := 0; i < changes.Len(); i++ {
				chg := changes.Get(i).Message()
				fs := chg.Descriptor().Fields()
				var c schange
				if fd := fs.ByName("type"); fd != nil {
					c.Type = string(fd.Enum().Values().ByNumber(chg.Get(fd).Enum()).Name())
				}
				get := func(fd protoreflect.FieldDescriptor) proto.Message {
					if fd == nil || !chg.Has(fd) {
						return nil
					}
					return proto.Clone(chg.Get(fd).Message().Interface())
				}
				nv := fs.ByName("new_value")
				if nv == nil {
					for j := 0; j < fs.Len(); j++ {
						if f := fs.Get(j); f.Message() != nil && f.Name() != "change_time" && f.Name() != "old_value" {
							nv = f
						}
					}
				}
				c.New, c.Old = get(nv), get(fs.ByName("old_value"))
				select {
				case r.ch <- sitem{c: c}:
				case <-ctx.Done():
					return
				}
			}
		}
	}()
	return r, nil
}

func (r *sreader) next() (schange, string) {
	select {
	case it, ok := <-r.ch:
		if !ok {
			return schange{}, "the stream ended"
		}
		if it.err != "" {
			return schange{}, "the stream ended: " + it.err
		}
		return it.c, ""
	case <-time.After(waitFor):
		return schange{}, "no change within " + waitFor.String()
	}
}

// runUpdates is the mode "updates" of a ccase.
func (c ccase) runUpdates(g *mt.Gen, inst *instance, out *cout) {
	// Pending: the first write is begun BEFORE the streams are opened and held between storing its value and
	// publishing its change (yield points coll.update.beforeSend / value.set.beforeSend): both streams are
	// seeded with what it stored and are then sent its change.  (A write that does not reach such a point —
	// a Delete, a refused write — simply completes before the streams open.)
	var pend *pgate
	if c.Pending {
		park := newParker("coll.update.beforeSend", "value.set.beforeSend")
		defer park.close()
		pend = park.start("pending write", func() error { inst.Write(g); return nil })
		if pend.held {
			out.Held = true
		}
	}
	n := inst.Seeds()
	if n == 0 && c.Pending {
		// the pending write was a Delete of the only item (it completes): a stream without seed values gives no
		// sign of having subscribed (the RPC returns before the server has), so there must be an item
		inst.Marker(0, g)
		n = inst.Seeds()
	}
	// one stream's seed values after the other's, the second stream opened only then: a server may send its
	// seeds while holding a lock of the model (wastepb does), two streams seeding at once would wait for
	// each other's reader
	ru, err := openStream(inst, nil)
	if err != nil {
		out.Stream = "opening the unmasked stream failed: " + err.Error()
		return
	}
	defer ru.cancel()
	for i := 0; i < n; i++ {
		if _, e := ru.next(); e != "" {
			out.Stream = fmt.Sprintf("unmasked stream, seed value %d of %d: %s", i+1, n, e)
			return
		}
	}
	rm, err := openStream(inst, c.Mask.FM())
	if err != nil {
		out.Stream = "opening the masked stream failed: " + err.Error()
		return
	}
	defer rm.cancel()
	for i := 0; i < n; i++ {
		if _, e := rm.next(); e != "" {
			out.Stream = fmt.Sprintf("masked stream, seed value %d of %d: %s", i+1, n, e)
			return
		}
	}
	pair := func(role string, raw, got proto.Message) {
		if raw == nil || got == nil {
			return
		}
		out.Raw, out.Got, out.Roles = append(out.Raw, raw), append(out.Got, got), append(out.Roles, role)
	}
	// the masked List/Get of the same service before the writes and again after them (same mask): the second
	// one must show what is stored THEN
	_ = inst.Read(c.Mask.FM())
	defer func() {
		if out.Stream != "" {
			return
		}
		raw, got := cloneAll(inst.Read(nil)), cloneAll(inst.Read(c.Mask.FM()))
		if len(raw) != len(got) {
			out.Stream = fmt.Sprintf("the masked read after the writes returns %d items, the unmasked read %d", len(got), len(raw))
			return
		}
		for i := range raw {
			pair(fmt.Sprintf("read-after-writes-item%d", i), raw[i], got[i])
		}
	}()
	same := func(a, b schange) bool { return a.text() == b.text() }
	shape := func(a schange) string {
		return fmt.Sprintf("%s old:%v new:%v", a.Type, a.Old != nil, a.New != nil)
	}
	for i := 1; i <= c.Writes; i++ {
		if i == 1 && pend != nil {
			pend.finish("pending write")
		} else {
			inst.Write(g)
		}
		marker := inst.Marker(i, g)
		// the unmasked stream: the changes of the write (at most a few), then the marker's
		var evs []schange
		var mark schange
		for {
			e, msg := ru.next()
			if msg != "" {
				out.Stream = fmt.Sprintf("unmasked stream after write %d: %s", i, msg)
				return
			}
			if keyOf(e.New, inst.Key) == marker {
				mark = e
				break
			}
			if len(evs) > 4 {
				out.Stream = fmt.Sprintf("unmasked stream after write %d: the marker item never arrived", i)
				return
			}
			evs = append(evs, e)
		}
		all := append(evs, mark)
		for j := 0; j < len(all); j++ {
			got, msg := rm.next()
			if msg != "" {
				out.Stream = fmt.Sprintf("masked stream after write %d (unmasked: %s): %s", i, all[j].text(), msg)
				return
			}
			want := all[j].projected(c.Mask)
			// a change whose old and new value have the same projection may be dropped as a duplicate under the
			// mask: then the next expected change must match instead
			for !same(got, want) && j < len(all)-1 && want.Old != nil && want.New != nil && msgText(want.Old) == msgText(want.New) {
				out.Dropped++
				j++
				want = all[j].projected(c.Mask)
			}
			role := fmt.Sprintf("write%d-change%d", i, j+1)
			if j == len(all)-1 {
				role = fmt.Sprintf("write%d-marker", i)
			}
			if shape(got) != shape(want) {
				out.Stream = fmt.Sprintf("%s: the masked stream delivered [%s] where the unmasked stream delivered [%s]", role, got.text(), all[j].text())
				return
			}
			pair(role+"-new", all[j].New, got.New)
			pair(role+"-old", all[j].Old, got.Old)
		}
	}
}
