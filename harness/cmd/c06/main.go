// Harness for C06 (reads return exactly the read-mask projection and never mutate): ties the Lean
// model (driverC06) to masks.ResponseFilter and the read paths of resource.Value / Collection, and
// evaluates the property on the real code against an independent projection written with protoreflect.
package main

import (
	"context"
	"encoding/json"
	"fmt"
	"os"
	"sort"
	"strings"
	"time"

	"google.golang.org/protobuf/proto"
	"google.golang.org/protobuf/reflect/protoreflect"

	"github.com/smart-core-os/sc-api/go/traits"
	"github.com/smart-core-os/sc-golang/internal/testproto"
	"github.com/smart-core-os/sc-golang/pkg/masks"
	"github.com/smart-core-os/sc-golang/pkg/resource"
	"github.com/smart-core-os/sc-golang/verifharness/cmd/c05/mt"
	"github.com/smart-core-os/sc-golang/verifharness/lib"
)

type root struct {
	Name string
	New  func() proto.Message
}

func (r root) MD() protoreflect.MessageDescriptor { return r.New().ProtoReflect().Descriptor() }

var roots = []root{
	{"TestAllTypes", func() proto.Message { return &testproto.TestAllTypes{} }},
	{"AirTemperature", func() proto.Message { return &traits.AirTemperature{} }},
	{"Brightness", func() proto.Message { return &traits.Brightness{} }},
	{"ElectricMode", func() proto.Message { return &traits.ElectricMode{} }},
}

func rootByName(n string) root {
	for _, r := range roots {
		if r.Name == n {
			return r
		}
	}
	panic("unknown root " + n)
}

var schema *mt.Schema

// rcase is one read: a stored message and a read mask at one call site.
type rcase struct {
	Root    string  `json:"root"`
	Site    string  `json:"site"`
	Msg     string  `json:"stored_hex"`
	MsgText string  `json:"stored"`
	Mask    mt.Mask `json:"read_mask"`
}

var sites = []string{"FilterClone", "Filter", "Value.Get", "Collection.Get", "Collection.List", "Value.Pull", "Collection.Pull"}

type rout struct {
	Panic   string
	Results []proto.Message // every message the read produced (one, or seed + update for Pull)
	Mutated string          // non-empty: what was mutated
	Valid   bool            // ResponseFilter.Validate accepted the mask
}

func (o rout) text() string {
	if o.Panic != "" {
		return "panic"
	}
	var xs []string
	for _, m := range o.Results {
		xs = append(xs, mt.CanonMsg(m))
	}
	return strings.Join(xs, " ")
}

func (c rcase) decode() proto.Message {
	m, err := mt.DecodeMsg(c.Msg, rootByName(c.Root).New())
	if err != nil {
		panic(err)
	}
	return m
}

// safe: no path continues below a scalar, repeated scalar or map field (where fmutils may panic).
// Reads that filter on another goroutine (Pull) are only driven with safe masks: a panic there
// cannot be recovered by the harness.
func (c rcase) safe() bool {
	md := rootByName(c.Root).MD()
	for _, p := range c.Mask.Paths {
		if mt.Classify(md, p).ThroughBad {
			return false
		}
	}
	return true
}

func recvValue(ch <-chan *resource.ValueChange) *resource.ValueChange {
	select {
	case v := <-ch:
		return v
	case <-time.After(5 * time.Second):
		return nil
	}
}

func recvColl(ch <-chan *resource.CollectionChange) *resource.CollectionChange {
	select {
	case v := <-ch:
		return v
	case <-time.After(5 * time.Second):
		return nil
	}
}

func (c rcase) runCode() rout {
	msg := c.decode()
	before := proto.Clone(msg)
	var out rout
	var ropts []resource.ReadOption
	if !c.Mask.Nil {
		ropts = append(ropts, resource.WithReadMask(c.Mask.FM()))
	}
	rf := masks.NewResponseFilter(masks.WithFieldMask(c.Mask.FM()))
	out.Valid = rf.Validate(msg) == nil
	var stored proto.Message // the message that must not change
	panicked, pmsg := lib.Catch(func() {
		switch c.Site {
		case "FilterClone":
			stored = msg
			out.Results = []proto.Message{rf.FilterClone(msg)}
		case "Filter":
			work := proto.Clone(msg)
			rf.Filter(work)
			out.Results = []proto.Message{work}
		case "Value.Get":
			v := resource.NewValue(resource.WithInitialValue(msg))
			stored = msg
			out.Results = []proto.Message{v.Get(ropts...)}
		case "Collection.Get":
			col := resource.NewCollection()
			st, err := col.Add("x", msg)
			if err != nil {
				panic(err)
			}
			stored = st
			before = proto.Clone(st)
			got, _ := col.Get("x", ropts...)
			out.Results = []proto.Message{got}
		case "Collection.List":
			col := resource.NewCollection()
			st, err := col.Add("x", msg)
			if err != nil {
				panic(err)
			}
			stored = st
			before = proto.Clone(st)
			out.Results = col.List(ropts...)
		case "Value.Pull":
			v := resource.NewValue(resource.WithInitialValue(msg))
			stored = msg
			ctx, cancel := context.WithCancel(context.Background())
			defer cancel()
			ch := v.Pull(ctx, append(ropts, resource.WithBackpressure(true))...)
			seed := recvValue(ch)
			if seed == nil {
				panic("no seed value")
			}
			out.Results = append(out.Results, seed.Value)
		case "Collection.Pull":
			col := resource.NewCollection()
			st, err := col.Add("x", msg)
			if err != nil {
				panic(err)
			}
			stored = st
			before = proto.Clone(st)
			ctx, cancel := context.WithCancel(context.Background())
			defer cancel()
			ch := col.Pull(ctx, append(ropts, resource.WithBackpressure(true))...)
			seed := recvColl(ch)
			if seed == nil {
				panic("no seed value")
			}
			out.Results = append(out.Results, seed.NewValue)
			// an update whose old value is the stored message: the event carries both, filtered
			done := make(chan error, 1)
			go func() {
				_, err := col.Update("x", rootByName(c.Root).New(), resource.WithUpdateMask(nil))
				done <- err
			}()
			ev := recvColl(ch)
			if ev == nil {
				panic("no update event")
			}
			out.Results = append(out.Results, ev.OldValue)
			<-done
		default:
			panic("site " + c.Site)
		}
	})
	if panicked {
		out.Panic = pmsg
		return out
	}
	if stored != nil && !proto.Equal(stored, before) {
		out.Mutated = "stored/passed-in message changed: " + mt.CanonMsg(before) + " -> " + mt.CanonMsg(stored)
	}
	return out
}

// expected number of result messages per site (for the model answer)
func (c rcase) copies() int {
	if c.Site == "Collection.Pull" {
		return 2
	}
	return 1
}

// ---------------------------------------------------------------------------------------------
// Independent projection (protoreflect only)

func projectGo(m protoreflect.Message, paths [][]string) protoreflect.Message {
	out := m.New()
	m.Range(func(fd protoreflect.FieldDescriptor, v protoreflect.Value) bool {
		whole := false
		var tails [][]string
		for _, p := range paths {
			if len(p) > 0 && p[0] == string(fd.Name()) {
				if len(p) == 1 {
					whole = true
				} else {
					tails = append(tails, p[1:])
				}
			}
		}
		switch {
		case !whole && len(tails) == 0:
		case whole || fd.Message() == nil || fd.IsMap():
			out.Set(fd, v)
		case fd.IsList():
			l := out.Mutable(fd).List()
			for i := 0; i < v.List().Len(); i++ {
				l.Append(protoreflect.ValueOfMessage(projectGo(v.List().Get(i).Message(), tails)))
			}
		default:
			out.Set(fd, protoreflect.ValueOfMessage(projectGo(v.Message(), tails)))
		}
		return true
	})
	return out
}

func specProject(msg proto.Message, mask mt.Mask) proto.Message {
	if mask.Nil {
		return proto.Clone(msg)
	}
	var paths [][]string
	for _, p := range mask.Paths {
		paths = append(paths, mt.Segs(p))
	}
	return projectGo(proto.Clone(msg).ProtoReflect(), paths).Interface()
}

func prefixOverlap(ps []string) bool {
	for i, a := range ps {
		for j, b := range ps {
			if i != j && a != b && mt.IsPrefix(mt.Segs(a), mt.Segs(b)) {
				return true
			}
		}
	}
	return false
}

func (c rcase) monitor(mon *lib.Monitor, out rout) {
	md := rootByName(c.Root).MD()
	site := "C06/" + c.Site
	allValid, sensible, bad := true, true, ""
	for _, p := range c.Mask.Paths {
		pi := mt.Classify(md, p)
		if !pi.Valid {
			allValid = false
		}
		if pi.Unknown || pi.ThroughBad {
			sensible = false
		}
		if pi.ThroughBad && (bad == "" || bad == "scalar") {
			bad = pi.BadKind // a continuation below a singular scalar never panicked: name the list/map one
		}
	}
	// validation clause (checked once per case, it does not depend on the site)
	if !c.Mask.Nil {
		if allValid && !out.Valid {
			mon.Violate("C06/Validate/rejects-valid-mask", "ResponseFilter.Validate rejected a valid mask", c, "nil", "InvalidArgument")
		}
		if !allValid && out.Valid {
			mon.Violate("C06/Validate/accepts-invalid-mask", "ResponseFilter.Validate accepted a mask with an unknown path or one that continues through a scalar, map or repeated field", c, "InvalidArgument", "nil")
		}
	} else if !out.Valid {
		mon.Violate("C06/Validate/rejects-nil-mask", "ResponseFilter.Validate rejected the nil mask", c, "nil", "InvalidArgument")
	}
	if out.Panic != "" {
		class := "other"
		if bad != "" {
			class = "mask-continues-through-" + bad
		}
		mon.Violate(site+"/panic/"+class, "the read panicked: "+out.Panic, c, "no panic", "panic")
		return
	}
	if out.Mutated != "" {
		mon.Violate(site+"/mutated", out.Mutated, c, "unchanged", "changed")
	}
	if !sensible {
		return // projection is specified for masks whose paths exist and continue through messages only
	}
	want := mt.CanonMsg(specProject(c.decode(), c.Mask))
	for _, got := range out.Results {
		if g := mt.CanonMsg(got); g != want {
			sig := site + "/projection"
			if prefixOverlap(c.Mask.Paths) {
				sig = site + "/parent-and-child-paths/projection"
			}
			mon.Violate(sig, "the read does not return the projection of the stored message onto the mask", c, want, g)
		}
	}
}

// ---------------------------------------------------------------------------------------------

func genCase(g *mt.Gen, site string) rcase {
	r := roots[0]
	if g.R.Intn(4) == 0 {
		r = roots[1+g.R.Intn(len(roots)-1)]
	}
	md := r.MD()
	focus := g.Focus(md, 2+g.R.Intn(4))
	msg := g.Msg(md, r.New, focus)
	c := rcase{Root: r.Name, Site: site, Msg: mt.EncodeMsg(msg), MsgText: mt.CanonMsg(msg), Mask: mt.NilMask()}
	switch x := g.R.Intn(20); {
	case x == 0: // nil
	case x == 1:
		c.Mask = mt.Mask{Paths: []string{}}
	case x < 12:
		c.Mask = g.MaskFrom(focus, mt.PathOpts{Corrupt: 0})
	default:
		c.Mask = g.MaskFrom(focus, mt.PathOpts{Corrupt: 0.5})
	}
	return c
}

func (c rcase) key() string {
	return strings.Join([]string{c.Root, c.Site, c.Mask.Enc(), c.MsgText}, " ")
}

func runCases(cases []rcase, tie, spec *lib.Tie, mon *lib.Monitor, drv *lib.Driver) {
	var lines []string
	for _, c := range cases {
		ty := schema.ID(rootByName(c.Root).MD())
		lines = append(lines,
			"rfilter "+c.Mask.Enc()+" "+c.MsgText,
			fmt.Sprintf("rvalidate %d %s", ty, c.Mask.Enc()),
			"project "+c.Mask.Enc()+" "+c.MsgText)
	}
	ans, err := drv.Batch(lines)
	if err != nil {
		tie.Fail(err)
		return
	}
	for i, c := range cases {
		mf, mv, mp := ans[3*i], ans[3*i+1], ans[3*i+2]
		out := c.runCode()
		model := mf
		if mf != "panic" && c.copies() == 2 {
			model = mf + " " + mf
		}
		nontrivial := !c.Mask.Nil && len(c.Mask.Paths) > 0
		tie.Record(c.key(), nontrivial, c, model+" valid="+mv, out.text()+" valid="+fmt.Sprint(out.Valid))
		tie.Count("site:" + c.Site)
		tie.Count("root:" + c.Root)
		if out.Panic != "" {
			tie.Count("outcome:panic")
		} else {
			tie.Count("outcome:ok")
		}
		tie.Count("valid:" + fmt.Sprint(out.Valid))
		// the Go oracle used by the monitor against the Lean specification `project`
		spec.Record(c.key(), nontrivial, c, mp, mt.CanonMsg(specProject(c.decode(), c.Mask)))
		mon.Eval(c.key(), nontrivial, nil)
		c.monitor(mon, out)
	}
}

func seededCases() []rcase {
	msg := &testproto.TestAllTypes{
		DefaultInt32:          7,
		DefaultForeignMessage: &testproto.ForeignMessage{C: 1, D: 2},
		RepeatedInt32:         []int32{1, 2},
		MapStringString:       map[string]string{"a": "b"},
	}
	var out []rcase
	for _, site := range sites {
		for _, ps := range [][]string{
			{"repeated_int32.x"}, {"map_string_string.a"}, {"default_int32.x"},
			{"default_foreign_message", "default_foreign_message.c"}, {"default_foreign_message.c"}, {"nope"},
		} {
			c := rcase{Root: "TestAllTypes", Site: site, Msg: mt.EncodeMsg(msg), MsgText: mt.CanonMsg(msg), Mask: mt.Mask{Paths: ps}}
			if strings.HasSuffix(site, "Pull") && !c.safe() {
				continue
			}
			out = append(out, c)
		}
	}
	return out
}

var prunedTree = []string{
	"default_int32", "optional_int32",
	"default_foreign_message", "default_foreign_message.c", "default_foreign_message.d",
	"default_nested_message", "default_nested_message.a", "default_nested_message.corecursive",
	"default_nested_message.corecursive.default_int32",
	"oneof_default_int32", "oneof_default_nested_message",
	"repeated_int32", "map_string_string", "repeated_foreign_message", "repeated_foreign_message.c",
	"repeated_int32.x", "map_string_string.a", "default_int32.x", "nope", "default_foreign_message.nope",
}

func runExhaustive(res *lib.Result, spec *lib.Tie, mon *lib.Monitor, drv *lib.Driver) {
	tie := res.Tie("reads-exhaustive", "K2",
		"all read masks of <=2 paths (ordered, duplicates included, plus nil and empty) over a pruned 20-path tree of TestAllTypes (15 valid paths, one through a repeated message, 5 corrupted) x 3 stored messages at FilterClone, Filter, Value.Get and Collection.Get; exhaustive over this finite domain")
	tie.Exhaustive = true
	zero := int32(0)
	msgs := []proto.Message{
		&testproto.TestAllTypes{},
		&testproto.TestAllTypes{
			DefaultInt32: 1, OptionalInt32: &zero,
			DefaultForeignMessage:  &testproto.ForeignMessage{C: 1, D: 2},
			DefaultNestedMessage:   &testproto.TestAllTypes_NestedMessage{A: 3, Corecursive: &testproto.TestAllTypes{DefaultInt32: 4, DefaultString: "s"}},
			OneofDefault:           &testproto.TestAllTypes_OneofDefaultInt32{OneofDefaultInt32: 6},
			RepeatedInt32:          []int32{1, 2},
			MapStringString:        map[string]string{"a": "1", "b": "2"},
			RepeatedForeignMessage: []*testproto.ForeignMessage{{C: 1, D: 2}, {D: 3}},
		},
		&testproto.TestAllTypes{
			DefaultForeignMessage: &testproto.ForeignMessage{D: 9},
			DefaultNestedMessage:  &testproto.TestAllTypes_NestedMessage{Corecursive: &testproto.TestAllTypes{}},
			OneofDefault:          &testproto.TestAllTypes_OneofDefaultNestedMessage{OneofDefaultNestedMessage: &testproto.TestAllTypes_NestedMessage{A: 8}},
		},
	}
	ms := []mt.Mask{mt.NilMask(), {Paths: []string{}}}
	for _, a := range prunedTree {
		ms = append(ms, mt.Mask{Paths: []string{a}})
	}
	for _, a := range prunedTree {
		for _, b := range prunedTree {
			ms = append(ms, mt.Mask{Paths: []string{a, b}})
		}
	}
	var cases []rcase
	for _, site := range []string{"FilterClone", "Filter", "Value.Get", "Collection.Get"} {
		for _, m := range ms {
			for _, msg := range msgs {
				cases = append(cases, rcase{Root: "TestAllTypes", Site: site, Msg: mt.EncodeMsg(msg), MsgText: mt.CanonMsg(msg), Mask: m})
			}
		}
	}
	runCases(cases, tie, spec, mon, drv)
}

func main() {
	f := lib.ParseFlags()
	var mds []protoreflect.MessageDescriptor
	for _, r := range roots {
		mds = append(mds, r.MD())
	}
	schema = mt.NewSchema(mds...)
	if f.Replay != "" {
		os.Exit(replay(f))
	}
	res := lib.NewResult("C06", f)
	drv, err := lib.StartDriver(f.Driver)
	if err != nil {
		lib.Fatal(err)
	}
	defer drv.Close()
	if ans, err := drv.Ask(schema.Line()); err != nil || ans != "ok" {
		lib.Fatal(fmt.Errorf("driver rejected the schema: %q %v", ans, err))
	}
	tie := res.Tie("reads", "K1",
		"random (stored message, read mask) pairs over TestAllTypes and three trait messages at ResponseFilter.FilterClone/Filter/Validate, Value.Get, Collection.Get/List, Value.Pull (seed) and Collection.Pull (seed and the old value of an update; only masks that cannot panic, the filter runs on another goroutine), compared with the Lean model's filter/validate (outcome: panic | returned message(s), plus the validation verdict); masks from the path tree with parents+children, duplicates, nil/empty, and (half of them) corrupted: unknown segment, continuation through scalar / repeated / map, empty segments; non-trivial = non-empty mask; distinct by (site, mask, message)")
	spec := res.Tie("projection-oracle", "K1",
		"the protoreflect projection used as the monitor's oracle against the Lean specification `project` on the same (message, mask) pairs")
	mon := res.Monitor("read-semantics",
		"for every case: returned message(s) = independent projection of the stored message onto the mask's path set (masks whose paths exist and continue only through messages; nil = everything, empty = nothing); the stored / passed-in message deep-equals its copy taken before the read; no panic for any mask; Validate rejects exactly the masks with an unknown path or a continuation through a scalar, map or repeated field")
	g := &mt.Gen{R: lib.NewRand(f.Seed)}
	runCases(seededCases(), tie, spec, mon, drv)
	n := f.N(6000, 120000)
	var cases []rcase
	for i := 0; i < n; i++ {
		site := sites[i%len(sites)]
		if strings.HasSuffix(site, "Pull") && i%3 != 0 {
			site = sites[i%4] // goroutine-backed reads are slower: fewer of them
		}
		c := genCase(g, site)
		if strings.HasSuffix(site, "Pull") && !c.safe() {
			c.Site = "FilterClone"
		}
		cases = append(cases, c)
		if len(cases) == 2000 || i == n-1 {
			runCases(cases, tie, spec, mon, drv)
			cases = cases[:0]
		}
	}
	if f.Thorough() {
		runExhaustive(res, spec, mon, drv)
	}
	sort.Strings(res.Notes)
	if err := res.Write(f.Out); err != nil {
		lib.Fatal(err)
	}
}

func replay(f lib.Flags) int {
	rp, err := lib.ReadReplay(f.Replay)
	if err != nil {
		lib.Fatal(err)
	}
	b, _ := json.Marshal(rp.Input)
	var c rcase
	if err := json.Unmarshal(b, &c); err != nil || c.Root == "" {
		fmt.Println("replay: no concrete input in file (", rp.Kind, rp.Broken, ")")
		return 2
	}
	if strings.HasSuffix(c.Site, "Pull") && !c.safe() {
		fmt.Println("replay: refusing to drive a goroutine-backed read with a mask that may panic")
		return 2
	}
	m := lib.NewMonitor("replay", "")
	out := c.runCode()
	c.monitor(m, out)
	fmt.Printf("replay %s site=%s mask=%s\n  stored=%s\n  -> %s\n", c.Root, c.Site, c.Mask.Enc(), c.MsgText, out.text())
	if len(m.Violations) > 0 {
		for _, v := range m.Violations {
			fmt.Printf("STILL FAILS %s: %s (expected %s, observed %s)\n", v.Signature, v.What, v.Expected, v.Observed)
		}
		return 1
	}
	fmt.Println("replay: property holds on this input now")
	return 0
}
