// Harness for C06 (reads return exactly the read-mask projection and never mutate): ties the Lean
// model (driverC06) to masks.ResponseFilter and the read paths of resource.Value / Collection, and
// evaluates the property on the real code against an independent projection written with protoreflect.
package main

import (
	"context"
	"encoding/json"
	"fmt"
	"os"
	"sort"
	"strings"
	"time"

	"google.golang.org/protobuf/proto"
	"google.golang.org/protobuf/reflect/protoreflect"

	"github.com/smart-core-os/sc-api/go/traits"
	"github.com/smart-core-os/sc-golang/internal/testproto"
	"github.com/smart-core-os/sc-golang/pkg/masks"
	"github.com/smart-core-os/sc-golang/pkg/resource"
	"github.com/smart-core-os/sc-golang/verifharness/cmd/c05/mt"
	"github.com/smart-core-os/sc-golang/verifharness/lib"
)

type root struct {
	Name string
	New  func() proto.Message
}

func (r root) MD() protoreflect.MessageDescriptor { return r.New().ProtoReflect().Descriptor() }

var roots = []root{
	{"TestAllTypes", func() proto.Message { return &testproto.TestAllTypes{} }},
	{"AirTemperature", func() proto.Message { return &traits.AirTemperature{} }},
	{"Brightness", func() proto.Message { return &traits.Brightness{} }},
	{"ElectricMode", func() proto.Message { return &traits.ElectricMode{} }},
}

func rootByName(n string) root {
	for _, r := range roots {
		if r.Name == n {
			return r
		}
	}
	panic("unknown root " + n)
}

var schema *mt.Schema

// rcase is one read: a stored message and a read mask at one call site.
type rcase struct {
	Root    string  `json:"root"`
	Site    string  `json:"site"`
	Msg     string  `json:"stored_hex"`
	MsgText string  `json:"stored"`
	// Msg2 is the message later written over the stored one at the Pull sites
	Msg2     string  `json:"second_hex,omitempty"`
	Msg2Text string  `json:"second,omitempty"`
	Mask     mt.Mask `json:"read_mask"`
	// Others: read masks of further subscribers pulling CONCURRENTLY from the same resource (Pull sites)
	Others []mt.Mask `json:"concurrent_masks,omitempty"`
	// Lossy: backpressure off for every subscriber (events may be merged or dropped)
	Lossy bool `json:"lossy,omitempty"`
}

var sites = []string{"FilterClone", "Filter", "Value.Get", "Collection.Get", "Collection.List",
	"Value.Pull", "Collection.Pull", "Collection.Pull+Include", "Collection.PullID"}

func isPull(site string) bool { return strings.Contains(site, "Pull") }

type rout struct {
	Panic string
	// Results: every message the read produced, in order (nil entries are absent old/new values).
	// Raw: the unprojected message each result must be the projection of (for Pull: what the same
	// scenario delivers without a read mask). Roles name each entry (seed-new, UPDATE-old, ...).
	Results []proto.Message
	Raw     []proto.Message
	Roles   []string
	Shape   string // sequence of event kinds and ids delivered under the mask
	Ref     string // ... and without a mask
	Mutated string // non-empty: what was mutated
	Valid   bool   // ResponseFilter.Validate accepted the mask
	// EntryMask: with concurrent subscribers, the mask each entry was delivered under
	EntryMask []mt.Mask
	// Pool: (lossy) every unprojected value the scenario can deliver; entries are not aligned with Raw
	Pool []proto.Message
	// Swapped: a delivered event object changed after it was delivered
	Swapped string
}

func msgText(m proto.Message) string {
	if m == nil {
		return "nil"
	}
	return mt.CanonMsg(m)
}

func (o rout) text() string {
	if o.Panic != "" {
		return "panic"
	}
	xs := []string{"[" + o.Shape + "]"}
	for _, m := range o.Results {
		xs = append(xs, msgText(m))
	}
	return strings.Join(xs, " ")
}

func (c rcase) decode() proto.Message {
	m, err := mt.DecodeMsg(c.Msg, rootByName(c.Root).New())
	if err != nil {
		panic(err)
	}
	return m
}

func (c rcase) decode2() proto.Message {
	if c.Msg2 == "" {
		return rootByName(c.Root).New()
	}
	m, err := mt.DecodeMsg(c.Msg2, rootByName(c.Root).New())
	if err != nil {
		panic(err)
	}
	return m
}

// safe: no path continues below a scalar, repeated scalar or map field (where fmutils may panic).
// Reads that filter on another goroutine (Pull) are only driven with safe masks: a panic there
// cannot be recovered by the harness.
func (c rcase) safe() bool {
	md := rootByName(c.Root).MD()
	for _, m := range append([]mt.Mask{c.Mask}, c.Others...) {
		for _, p := range m.Paths {
			if mt.Classify(md, p).ThroughBad {
				return false
			}
		}
	}
	return true
}

const waitFor = 5 * time.Second

// step runs one blocking store operation with a bound (a writer stalled by a subscriber is reported,
// not waited for).
func step(what string, f func() error) {
	done := make(chan error, 1)
	go func() { done <- f() }()
	select {
	case err := <-done:
		if err != nil {
			panic(what + ": " + err.Error())
		}
	case <-time.After(waitFor):
		panic(what + ": timed out")
	}
}

// delivered is everything one subscriber was delivered: the event kinds/ids and the messages in order
// (deep copies taken at the moment of delivery), plus the event objects themselves.
type delivered struct {
	shape  []string
	msgs   []proto.Message
	roles  []string
	stored proto.Message // the object that was stored when the subscription started
	before proto.Message // ... and a copy taken at that moment
	// kept event objects and what they held on delivery: an event must not change afterwards
	recheck []func() string
}

func clone(m proto.Message) proto.Message {
	if m == nil {
		return nil
	}
	return proto.Clone(m)
}

func nonEmpty(m proto.Message) bool {
	n := 0
	m.ProtoReflect().Range(func(protoreflect.FieldDescriptor, protoreflect.Value) bool { n++; return false })
	return n > 0
}

func sameMsg(a, b proto.Message) bool {
	if a == nil || b == nil {
		return a == nil && b == nil
	}
	return proto.Equal(a, b)
}

// pullScenario runs the fixed scenario of a Pull site with one subscriber per mask, all pulling
// concurrently from the same resource, and returns what each was delivered.  With backpressure every
// change is delivered to every subscriber, in order (deterministic); lossy subscribers are drained
// until the stream has been idle.
func (c rcase) pullScenario(masks []mt.Mask, lossy bool) []*delivered {
	r := rootByName(c.Root)
	msg, msg2 := c.decode(), c.decode2()
	ctx, cancel := context.WithCancel(context.Background())
	defer cancel()
	ds := make([]*delivered, len(masks))
	fins := make([]chan string, len(masks))
	opsDone := make(chan struct{})
	optsFor := func(mask mt.Mask) []resource.ReadOption {
		ropts := []resource.ReadOption{resource.WithBackpressure(!lossy)}
		if !mask.Nil {
			ropts = append(ropts, resource.WithReadMask(mask.FM()))
		}
		return ropts
	}
	collectValues := func(d *delivered, fin chan string, ch <-chan *resource.ValueChange, n int) {
		handle := func(v *resource.ValueChange) {
			role := "update"
			if v.SeedValue {
				role = "seed"
			}
			at := clone(v.Value)
			d.shape = append(d.shape, role)
			d.msgs = append(d.msgs, at)
			d.roles = append(d.roles, role+"-new")
			d.recheck = append(d.recheck, func() string {
				if !sameMsg(v.Value, at) {
					return role + ": " + msgText(at) + " -> " + msgText(v.Value)
				}
				return ""
			})
		}
		od := (<-chan struct{})(opsDone)
		go func() {
			for i := 0; lossy || i < n; i++ {
				select {
				case v, ok := <-ch:
					if !ok {
						fin <- "stream closed early"
						return
					}
					handle(v)
				case <-od:
					if !lossy {
						od = nil // deterministic: keep waiting for the remaining events
						i--
						continue
					}
					for { // lossy: drain until idle
						select {
						case v, ok := <-ch:
							if !ok {
								fin <- ""
								return
							}
							handle(v)
						case <-time.After(30 * time.Millisecond):
							fin <- ""
							return
						}
					}
				case <-time.After(waitFor):
					fin <- "timed out waiting for an event"
					return
				}
			}
			fin <- ""
		}()
	}
	collectChanges := func(d *delivered, fin chan string, ch <-chan *resource.CollectionChange, sentinel string) {
		go func() {
			for {
				select {
				case v, ok := <-ch:
					if !ok {
						fin <- "stream closed early"
						return
					}
					if v.Id == sentinel {
						fin <- ""
						return
					}
					role := v.ChangeType.String()
					if v.SeedValue {
						role = "seed"
					}
					atNew, atOld := clone(v.NewValue), clone(v.OldValue)
					d.shape = append(d.shape, role+":"+v.Id)
					d.msgs = append(d.msgs, atNew, atOld)
					d.roles = append(d.roles, role+"-new", role+"-old")
					d.recheck = append(d.recheck, func() string {
						if !sameMsg(v.NewValue, atNew) || !sameMsg(v.OldValue, atOld) {
							return role + ":" + v.Id + ": new " + msgText(atNew) + " -> " + msgText(v.NewValue) + ", old " + msgText(atOld) + " -> " + msgText(v.OldValue)
						}
						return ""
					})
				case <-time.After(waitFor):
					fin <- "timed out waiting for an event"
					return
				}
			}
		}()
	}
	finish := func() {
		close(opsDone)
		for _, fin := range fins {
			if e := <-fin; e != "" {
				panic(e)
			}
		}
	}
	for i := range masks {
		ds[i] = &delivered{}
		fins[i] = make(chan string, 1)
	}
	switch c.Site {
	case "Value.Pull":
		v := resource.NewValue(resource.WithInitialValue(msg))
		for i, m := range masks {
			ds[i].stored, ds[i].before = msg, proto.Clone(msg)
			collectValues(ds[i], fins[i], v.Pull(ctx, optsFor(m)...), 3)
		}
		step("Set", func() error { _, err := v.Set(msg2); return err })
		step("Set", func() error { _, err := v.Set(r.New()); return err })
		finish()
	case "Collection.PullID":
		col := resource.NewCollection()
		st, err := col.Add("x", msg)
		if err != nil {
			panic(err)
		}
		for i, m := range masks {
			ds[i].stored, ds[i].before = st, proto.Clone(st)
			collectValues(ds[i], fins[i], col.PullID(ctx, "x", optsFor(m)...), 3)
		}
		step("Add y", func() error { _, err := col.Add("y", c.decode()); return err })
		step("Update x", func() error { _, err := col.Update("x", msg2); return err })
		step("Update y", func() error { _, err := col.Update("y", c.decode2()); return err })
		step("Update x", func() error { _, err := col.Update("x", r.New()); return err })
		finish()
	case "Collection.Pull", "Collection.Pull+Include":
		col := resource.NewCollection()
		st, err := col.Add("x", msg)
		if err != nil {
			panic(err)
		}
		for i, m := range masks {
			ropts := optsFor(m)
			if c.Site == "Collection.Pull+Include" {
				ropts = append(ropts, resource.WithInclude(func(id string, m proto.Message) bool {
					return id == "zz" || (m != nil && nonEmpty(m))
				}))
			}
			ds[i].stored, ds[i].before = st, proto.Clone(st)
			collectChanges(ds[i], fins[i], col.Pull(ctx, ropts...), "zz")
		}
		// UPDATE (or, with the include set: leave = REMOVE, enter = ADD), ADD, REMOVE by Delete
		step("Update x", func() error { _, err := col.Update("x", r.New()); return err })
		step("Update x", func() error { _, err := col.Update("x", msg2); return err })
		step("Add y", func() error { _, err := col.Add("y", c.decode()); return err })
		step("Update y", func() error { _, err := col.Update("y", c.decode2()); return err })
		step("Delete y", func() error { _, err := col.Delete("y"); return err })
		step("Delete x", func() error { _, err := col.Delete("x"); return err })
		step("Add zz", func() error { _, err := col.Add("zz", c.decode()); return err })
		finish()
	default:
		panic("site " + c.Site)
	}
	return ds
}

func (c rcase) runCode() rout {
	msg := c.decode()
	before := proto.Clone(msg)
	var out rout
	var ropts []resource.ReadOption
	if !c.Mask.Nil {
		ropts = append(ropts, resource.WithReadMask(c.Mask.FM()))
	}
	rf := masks.NewResponseFilter(masks.WithFieldMask(c.Mask.FM()))
	out.Valid = rf.Validate(msg) == nil
	var stored proto.Message // the message that must not change
	panicked, pmsg := lib.Catch(func() {
		if isPull(c.Site) {
			masksAll := append([]mt.Mask{c.Mask}, c.Others...)
			ref := c.pullScenario([]mt.Mask{mt.NilMask()}, false)[0]
			got := c.pullScenario(masksAll, c.Lossy)
			out.Ref = strings.Join(ref.shape, ",")
			var shapes []string
			for i, d := range got {
				shapes = append(shapes, strings.Join(d.shape, ","))
				out.Results = append(out.Results, d.msgs...)
				out.Roles = append(out.Roles, d.roles...)
				for range d.msgs {
					out.EntryMask = append(out.EntryMask, masksAll[i])
				}
				if !c.Lossy {
					out.Raw = append(out.Raw, ref.msgs...)
				}
				for _, f := range d.recheck {
					if e := f(); e != "" && out.Swapped == "" {
						out.Swapped = fmt.Sprintf("subscriber %d (mask %s) %s", i, masksAll[i].Enc(), e)
					}
				}
			}
			out.Shape = strings.Join(shapes, " ; ")
			if len(got) > 1 {
				refs := make([]string, len(got))
				for i := range refs {
					refs[i] = out.Ref
				}
				out.Ref = strings.Join(refs, " ; ")
			}
			if c.Lossy {
				out.Pool = append([]proto.Message{nil}, ref.msgs...)
			}
			stored, before = got[0].stored, got[0].before
			return
		}
		out.Raw, out.Roles = []proto.Message{proto.Clone(msg)}, []string{"result"}
		switch c.Site {
		case "FilterClone":
			stored = msg
			out.Results = []proto.Message{rf.FilterClone(msg)}
		case "Filter":
			work := proto.Clone(msg)
			rf.Filter(work)
			out.Results = []proto.Message{work}
		case "Value.Get":
			v := resource.NewValue(resource.WithInitialValue(msg))
			stored = msg
			out.Results = []proto.Message{v.Get(ropts...)}
		case "Collection.Get":
			col := resource.NewCollection()
			st, err := col.Add("x", msg)
			if err != nil {
				panic(err)
			}
			stored = st
			before = proto.Clone(st)
			got, _ := col.Get("x", ropts...)
			out.Results = []proto.Message{got}
		case "Collection.List":
			col := resource.NewCollection()
			st, err := col.Add("x", msg)
			if err != nil {
				panic(err)
			}
			stored = st
			before = proto.Clone(st)
			out.Results = col.List(ropts...)
		default:
			panic("site " + c.Site)
		}
	})
	if panicked {
		out.Panic = pmsg
		return out
	}
	if stored != nil && !proto.Equal(stored, before) {
		out.Mutated = "stored/passed-in message changed: " + mt.CanonMsg(before) + " -> " + mt.CanonMsg(stored)
	}
	return out
}

// ---------------------------------------------------------------------------------------------
// Independent projection (protoreflect only)

func projectGo(m protoreflect.Message, paths [][]string) protoreflect.Message {
	out := m.New()
	m.Range(func(fd protoreflect.FieldDescriptor, v protoreflect.Value) bool {
		whole := false
		var tails [][]string
		for _, p := range paths {
			if len(p) > 0 && p[0] == string(fd.Name()) {
				if len(p) == 1 {
					whole = true
				} else {
					tails = append(tails, p[1:])
				}
			}
		}
		switch {
		case !whole && len(tails) == 0:
		case whole || fd.Message() == nil || fd.IsMap():
			out.Set(fd, v)
		case fd.IsList():
			l := out.Mutable(fd).List()
			for i := 0; i < v.List().Len(); i++ {
				l.Append(protoreflect.ValueOfMessage(projectGo(v.List().Get(i).Message(), tails)))
			}
		default:
			out.Set(fd, protoreflect.ValueOfMessage(projectGo(v.Message(), tails)))
		}
		return true
	})
	return out
}

func specProject(msg proto.Message, mask mt.Mask) proto.Message {
	if mask.Nil {
		return proto.Clone(msg)
	}
	var paths [][]string
	for _, p := range mask.Paths {
		paths = append(paths, mt.Segs(p))
	}
	return projectGo(proto.Clone(msg).ProtoReflect(), paths).Interface()
}

func prefixOverlap(ps []string) bool {
	for i, a := range ps {
		for j, b := range ps {
			if i != j && a != b && mt.IsPrefix(mt.Segs(a), mt.Segs(b)) {
				return true
			}
		}
	}
	return false
}

func (c rcase) monitor(mon *lib.Monitor, out rout) {
	md := rootByName(c.Root).MD()
	site := "C06/" + c.Site
	allValid, sensible, bad := true, true, ""
	for _, p := range c.Mask.Paths {
		pi := mt.Classify(md, p)
		if !pi.Valid {
			allValid = false
		}
		if pi.Unknown || pi.ThroughBad {
			sensible = false
		}
		if pi.ThroughBad && (bad == "" || bad == "scalar") {
			bad = pi.BadKind // a continuation below a singular scalar never panicked: name the list/map one
		}
	}
	// validation clause (checked once per case, it does not depend on the site)
	if !c.Mask.Nil {
		if allValid && !out.Valid {
			mon.Violate("C06/Validate/rejects-valid-mask", "ResponseFilter.Validate rejected a valid mask", c, "nil", "InvalidArgument")
		}
		if !allValid && out.Valid {
			mon.Violate("C06/Validate/accepts-invalid-mask", "ResponseFilter.Validate accepted a mask with an unknown path or one that continues through a scalar, map or repeated field", c, "InvalidArgument", "nil")
		}
	} else if !out.Valid {
		mon.Violate("C06/Validate/rejects-nil-mask", "ResponseFilter.Validate rejected the nil mask", c, "nil", "InvalidArgument")
	}
	if out.Panic != "" {
		class := "other"
		if bad != "" {
			class = "mask-continues-through-" + bad
		}
		mon.Violate(site+"/panic/"+class, "the read panicked: "+out.Panic, c, "no panic", "panic")
		return
	}
	if out.Mutated != "" {
		mon.Violate(site+"/mutated", out.Mutated, c, "unchanged", "changed")
	}
	for _, m := range c.Others {
		for _, p := range m.Paths {
			if pi := mt.Classify(md, p); pi.Unknown || pi.ThroughBad {
				sensible = false
			}
		}
	}
	if !sensible {
		return // projection is specified for masks whose paths exist and continue through messages only
	}
	if len(c.Others) > 0 {
		site += "/concurrent"
	}
	if out.Swapped != "" {
		mon.Violate(site+"/event-changed-after-delivery", "a delivered change object was altered after it had been delivered: "+out.Swapped, c, "unchanged", "changed")
	}
	maskOf := func(i int) mt.Mask {
		if i < len(out.EntryMask) {
			return out.EntryMask[i]
		}
		return c.Mask
	}
	if c.Lossy {
		// lossy subscribers may skip or merge events, but whatever they deliver is the projection of
		// some value the scenario stores
		for i, got := range out.Results {
			ok := false
			for _, raw := range out.Pool {
				want := "nil"
				if raw != nil {
					want = mt.CanonMsg(specProject(raw, maskOf(i)))
				}
				if msgText(got) == want {
					ok = true
					break
				}
			}
			if !ok {
				mon.Violate(site+"/lossy/projection", "a value delivered by a lossy subscription is not the projection (onto that subscriber's mask "+maskOf(i).Enc()+") of any stored value", c, "projection of a stored value", msgText(got))
			}
		}
		return
	}
	if isPull(c.Site) && out.Shape != out.Ref {
		mon.Violate(site+"/events-differ", "a read mask changed which events the subscription delivers", c, out.Ref, out.Shape)
		return
	}
	if len(out.Results) != len(out.Raw) {
		mon.Violate(site+"/events-differ", "a read mask changed the number of delivered messages", c, fmt.Sprint(len(out.Raw)), fmt.Sprint(len(out.Results)))
		return
	}
	for i, got := range out.Results {
		want := "nil"
		if out.Raw[i] != nil {
			want = mt.CanonMsg(specProject(out.Raw[i], maskOf(i)))
		}
		if g := msgText(got); g != want {
			sig := site + "/projection/" + out.Roles[i]
			if prefixOverlap(maskOf(i).Paths) {
				sig = site + "/parent-and-child-paths/projection"
			}
			mon.Violate(sig, "the "+out.Roles[i]+" message of the read is not the projection of the stored message onto the subscriber's mask "+maskOf(i).Enc(), c, want, g)
		}
	}
}

// ---------------------------------------------------------------------------------------------

func genCase(g *mt.Gen, site string) rcase {
	r := roots[0]
	if g.R.Intn(4) == 0 {
		r = roots[1+g.R.Intn(len(roots)-1)]
	}
	md := r.MD()
	focus := g.Focus(md, 2+g.R.Intn(4))
	msg := g.Msg(md, r.New, focus)
	// one case in six reads through a (populated) repeated message field
	var repPath string
	if g.R.Intn(6) == 0 {
		var reps []protoreflect.FieldDescriptor
		for i := 0; i < md.Fields().Len(); i++ {
			if fd := md.Fields().Get(i); fd.IsList() && fd.Message() != nil && fd.Message().Fields().Len() > 0 {
				reps = append(reps, fd)
			}
		}
		if len(reps) > 0 {
			fd := reps[g.R.Intn(len(reps))]
			g.Populate(msg.ProtoReflect(), fd, 2)
			fs := fd.Message().Fields()
			repPath = string(fd.Name()) + "." + string(fs.Get(g.R.Intn(fs.Len())).Name())
		}
	}
	c := rcase{Root: r.Name, Site: site, Msg: mt.EncodeMsg(msg), MsgText: mt.CanonMsg(msg), Mask: mt.NilMask()}
	if isPull(site) {
		msg2 := g.Msg(md, r.New, focus)
		c.Msg2, c.Msg2Text = mt.EncodeMsg(msg2), mt.CanonMsg(msg2)
	}
	switch x := g.R.Intn(20); {
	case x == 0: // nil
	case x == 1:
		c.Mask = mt.Mask{Paths: []string{}}
	case x < 12:
		c.Mask = g.MaskFrom(focus, mt.PathOpts{Corrupt: 0})
	default:
		c.Mask = g.MaskFrom(focus, mt.PathOpts{Corrupt: 0.5})
		if g.R.Intn(3) == 0 {
			// a descriptor-derived corruption (corrupt.go): the names the descriptor graph offers below a
			// map / repeated field, among others; sometimes below a field the message populates
			bad, _ := corruptionsOf(md).draw(g)
			c.Mask.Paths[g.R.Intn(len(c.Mask.Paths))] = bad
			if g.R.Intn(3) != 0 {
				populateAlong(g, msg.ProtoReflect(), bad) // the mask meets data where it goes wrong
				c.Msg, c.MsgText = mt.EncodeMsg(msg), mt.CanonMsg(msg)
			}
		}
	}
	if repPath != "" && !c.Mask.Nil {
		c.Mask.Paths = append(c.Mask.Paths, repPath)
	}
	if isPull(site) && g.R.Intn(2) == 0 {
		// one or two more subscribers pulling concurrently with their own masks
		for n := 1 + g.R.Intn(2); n > 0; n-- {
			switch g.R.Intn(5) {
			case 0:
				c.Others = append(c.Others, mt.NilMask())
			case 1:
				c.Others = append(c.Others, c.Mask) // the same mask contents
			default:
				c.Others = append(c.Others, g.MaskFrom(focus, mt.PathOpts{Corrupt: 0}))
			}
		}
		c.Lossy = g.R.Intn(6) == 0
	}
	return c
}

func (c rcase) key() string {
	k := strings.Join([]string{c.Root, c.Site, c.Mask.Enc(), c.MsgText, c.Msg2Text, fmt.Sprint(c.Lossy)}, " ")
	for _, m := range c.Others {
		k += " +" + m.Enc()
	}
	return k
}

func runCases(cases []rcase, tie, spec *lib.Tie, mon *lib.Monitor, drv *lib.Driver) {
	// the real code first: at the Pull sites the model is asked about every delivered message
	outs := make([]rout, len(cases))
	var lines []string
	for i, c := range cases {
		outs[i] = c.runCode()
		ty := schema.ID(rootByName(c.Root).MD())
		lines = append(lines, fmt.Sprintf("rvalidate %d %s", ty, c.Mask.Enc()), "project "+c.Mask.Enc()+" "+c.MsgText)
		if outs[i].Panic != "" {
			lines = append(lines, "rfilter "+c.Mask.Enc()+" "+c.MsgText)
			continue
		}
		for j, raw := range outs[i].Raw {
			if raw != nil {
				m := c.Mask
				if j < len(outs[i].EntryMask) {
					m = outs[i].EntryMask[j]
				}
				lines = append(lines, "rfilter "+m.Enc()+" "+mt.CanonMsg(raw))
			}
		}
	}
	ans, err := drv.Batch(lines)
	if err != nil {
		tie.Fail(err)
		return
	}
	k := 0
	for i, c := range cases {
		out := outs[i]
		mv, mp := ans[k], ans[k+1]
		k += 2
		var model string
		if out.Panic != "" {
			model = ans[k]
			k++
		} else {
			// the model delivers the events of the unmasked run, each message filtered
			xs := []string{"[" + out.Ref + "]"}
			for _, raw := range out.Raw {
				if raw == nil {
					xs = append(xs, "nil")
					continue
				}
				if ans[k] == "panic" {
					xs = []string{"panic"}
				} else if xs[0] != "panic" {
					xs = append(xs, ans[k])
				}
				k++
			}
			model = strings.Join(xs, " ")
		}
		nontrivial := !c.Mask.Nil && len(c.Mask.Paths) > 0
		if c.Lossy && out.Panic == "" {
			// which events a lossy subscriber sees is not determined: monitor only
			tie.Count("lossy:monitor-only")
			mon.Eval(c.key(), nontrivial, nil)
			c.monitor(mon, out)
			continue
		}
		if len(c.Others) > 0 {
			tie.Count(fmt.Sprintf("concurrent-subscribers:%d@%s", len(c.Others)+1, c.Site))
		}
		tie.Record(c.key(), nontrivial, c, model+" valid="+mv, out.text()+" valid="+fmt.Sprint(out.Valid))
		tie.Count("site:" + c.Site)
		tie.Count("root:" + c.Root)
		if out.Panic != "" {
			tie.Count("outcome:panic")
		} else {
			tie.Count("outcome:ok")
			for _, r := range out.Roles {
				tie.Count("delivered:" + r)
			}
		}
		tie.Count("valid:" + fmt.Sprint(out.Valid))
		switch {
		case c.Mask.Nil:
			tie.Count("mask:nil")
		case len(c.Mask.Paths) == 0:
			tie.Count("mask:empty")
		default:
			nested, rep := false, false
			for _, p := range c.Mask.Paths {
				pi := mt.Classify(rootByName(c.Root).MD(), p)
				nested = nested || (strings.Contains(p, ".") && pi.Valid)
				rep = rep || pi.ThroughList
			}
			switch {
			case rep:
				tie.Count("mask:through-repeated-message@" + c.Site)
			case nested:
				tie.Count("mask:nested@" + c.Site)
			default:
				tie.Count("mask:other@" + c.Site)
			}
		}
		// the Go oracle used by the monitor against the Lean specification `project`
		spec.Record(c.key(), nontrivial, c, mp, mt.CanonMsg(specProject(c.decode(), c.Mask)))
		mon.Eval(c.key(), nontrivial, nil)
		c.monitor(mon, out)
	}
}

// seededCases: at EVERY site, the mask kinds the property names — nil, empty non-nil, single,
// nested, through a repeated message, parent+child, unknown, and (synchronous sites only) the
// continuations that used to panic.
func seededCases() []rcase {
	msg := &testproto.TestAllTypes{
		DefaultInt32:           7,
		DefaultForeignMessage:  &testproto.ForeignMessage{C: 1, D: 2},
		RepeatedInt32:          []int32{1, 2},
		MapStringString:        map[string]string{"a": "b"},
		RepeatedForeignMessage: []*testproto.ForeignMessage{{C: 1, D: 2}, {D: 3}},
	}
	msg2 := &testproto.TestAllTypes{
		DefaultInt32:          8,
		DefaultString:         "s",
		DefaultForeignMessage: &testproto.ForeignMessage{C: 3, D: 4},
	}
	ms := []mt.Mask{mt.NilMask(), {Paths: []string{}}}
	for _, ps := range [][]string{
		{"default_int32"}, {"default_foreign_message.c"}, {"repeated_foreign_message.c"},
		{"default_foreign_message", "default_foreign_message.c"}, {"nope"},
		{"repeated_int32.x"}, {"map_string_string.a"}, {"default_int32.x"},
	} {
		ms = append(ms, mt.Mask{Paths: ps})
	}
	// one mask per kind of descriptor-derived corruption (corrupt.go)
	for _, p := range corruptionsOf((&testproto.TestAllTypes{}).ProtoReflect().Descriptor()).firstOfEachKind(1) {
		ms = append(ms, mt.Mask{Paths: []string{p}}, mt.Mask{Paths: []string{"default_int32", p}})
	}
	var out []rcase
	for _, site := range sites {
		for _, m := range ms {
			c := rcase{Root: "TestAllTypes", Site: site, Msg: mt.EncodeMsg(msg), MsgText: mt.CanonMsg(msg), Mask: m}
			if isPull(site) {
				c.Msg2, c.Msg2Text = mt.EncodeMsg(msg2), mt.CanonMsg(msg2)
				if !c.safe() {
					continue
				}
			}
			out = append(out, c)
		}
		if isPull(site) {
			// concurrent subscribers: no mask / disjoint / overlapping / nested, backpressure on and off
			P := func(ps ...string) mt.Mask { return mt.Mask{Paths: ps} }
			for _, ms := range [][]mt.Mask{
				{mt.NilMask(), P("default_int32")},
				{P("default_int32"), P("default_foreign_message")},
				{P("default_int32", "default_foreign_message"), P("default_foreign_message", "default_string")},
				{P("default_foreign_message.c"), P("default_foreign_message.d"), mt.NilMask()},
				{P("repeated_foreign_message.c"), P("repeated_foreign_message"), P()},
			} {
				for _, lossy := range []bool{false, true} {
					out = append(out, rcase{Root: "TestAllTypes", Site: site, Msg: mt.EncodeMsg(msg), MsgText: mt.CanonMsg(msg),
						Msg2: mt.EncodeMsg(msg2), Msg2Text: mt.CanonMsg(msg2), Mask: ms[0], Others: ms[1:], Lossy: lossy})
				}
			}
		}
	}
	return out
}

var prunedTree = []string{
	"default_int32", "optional_int32",
	"default_foreign_message", "default_foreign_message.c", "default_foreign_message.d",
	"default_nested_message", "default_nested_message.a", "default_nested_message.corecursive",
	"default_nested_message.corecursive.default_int32",
	"oneof_default_int32", "oneof_default_nested_message",
	"repeated_int32", "map_string_string", "repeated_foreign_message", "repeated_foreign_message.c",
	"repeated_int32.x", "map_string_string.a", "default_int32.x", "nope", "default_foreign_message.nope",
}

func runExhaustive(res *lib.Result, spec *lib.Tie, mon *lib.Monitor, drv *lib.Driver) {
	tie := res.Tie("reads-exhaustive", "K2",
		"all read masks of <=2 paths (ordered, duplicates included, plus nil and empty) over a pruned 20-path tree of TestAllTypes (15 valid paths, one through a repeated message, 5 corrupted) x 3 stored messages at FilterClone, Filter, Value.Get and Collection.Get; exhaustive over this finite domain")
	tie.Exhaustive = true
	zero := int32(0)
	msgs := []proto.Message{
		&testproto.TestAllTypes{},
		&testproto.TestAllTypes{
			DefaultInt32: 1, OptionalInt32: &zero,
			DefaultForeignMessage:  &testproto.ForeignMessage{C: 1, D: 2},
			DefaultNestedMessage:   &testproto.TestAllTypes_NestedMessage{A: 3, Corecursive: &testproto.TestAllTypes{DefaultInt32: 4, DefaultString: "s"}},
			OneofDefault:           &testproto.TestAllTypes_OneofDefaultInt32{OneofDefaultInt32: 6},
			RepeatedInt32:          []int32{1, 2},
			MapStringString:        map[string]string{"a": "1", "b": "2"},
			RepeatedForeignMessage: []*testproto.ForeignMessage{{C: 1, D: 2}, {D: 3}},
		},
		&testproto.TestAllTypes{
			DefaultForeignMessage: &testproto.ForeignMessage{D: 9},
			DefaultNestedMessage:  &testproto.TestAllTypes_NestedMessage{Corecursive: &testproto.TestAllTypes{}},
			OneofDefault:          &testproto.TestAllTypes_OneofDefaultNestedMessage{OneofDefaultNestedMessage: &testproto.TestAllTypes_NestedMessage{A: 8}},
		},
	}
	ms := []mt.Mask{mt.NilMask(), {Paths: []string{}}}
	for _, a := range prunedTree {
		ms = append(ms, mt.Mask{Paths: []string{a}})
	}
	for _, a := range prunedTree {
		for _, b := range prunedTree {
			ms = append(ms, mt.Mask{Paths: []string{a, b}})
		}
	}
	var cases []rcase
	for _, site := range []string{"FilterClone", "Filter", "Value.Get", "Collection.Get"} {
		for _, m := range ms {
			for _, msg := range msgs {
				cases = append(cases, rcase{Root: "TestAllTypes", Site: site, Msg: mt.EncodeMsg(msg), MsgText: mt.CanonMsg(msg), Mask: m})
			}
		}
	}
	runCases(cases, tie, spec, mon, drv)
}

func main() {
	f := lib.ParseFlags()
	var mds []protoreflect.MessageDescriptor
	for _, r := range roots {
		mds = append(mds, r.MD())
	}
	schema = mt.NewSchema(mds...)
	if f.Replay != "" {
		os.Exit(replay(f))
	}
	res := lib.NewResult("C06", f)
	drv, err := lib.StartDriver(f.Driver)
	if err != nil {
		lib.Fatal(err)
	}
	defer drv.Close()
	if ans, err := drv.Ask(schema.Line()); err != nil || ans != "ok" {
		lib.Fatal(fmt.Errorf("driver rejected the schema: %q %v", ans, err))
	}
	tie := res.Tie("reads", "K1",
		"random (stored message, read mask[, second message]) cases over TestAllTypes and three trait messages at ResponseFilter.FilterClone/Filter/Validate, Value.Get, Collection.Get/List and four subscription scenarios (with backpressure: deterministic; half of them with 2-3 CONCURRENT subscribers on the same resource, each with its own mask — none, equal, disjoint, overlapping, nested — every subscriber's stream compared under ITS mask; a sixth of those lossy, which are monitor-only): Value.Pull (seed + 2 updates), Collection.PullID (seed + 2 updates, other ids interleaved), Collection.Pull (seed, UPDATE new+old, ADD, REMOVE by Delete, old and new values of every event) and Collection.Pull with WithInclude (UPDATE that leaves the include set = REMOVE old value, UPDATE that enters = ADD, Delete); every scenario runs once without and once with the mask, and EVERY delivered message (nil ones included) is compared with the Lean model's filter of the unmasked message; event kinds/ids must be equal. Pull scenarios use only masks that cannot panic (the filter runs on another goroutine). Masks from the path tree with parents+children, duplicates, nil/empty, through repeated messages, and (half) corrupted: unknown segment, continuation through scalar / repeated / map, empty segments; at every site a fixed list of mask kinds (nil, empty, single, nested, repeated-message, parent+child, unknown) runs first; non-trivial = non-empty mask; distinct by (site, mask, messages)")
	spec := res.Tie("projection-oracle", "K1",
		"the protoreflect projection used as the monitor's oracle against the Lean specification `project` on the same (message, mask) pairs")
	mon := res.Monitor("read-semantics",
		"for every case: every returned / delivered message (seed, ADD/UPDATE new and old values, REMOVE old values; nil stays nil; with concurrent subscribers each under its own mask; lossy: the projection of some stored value) = independent projection of the stored message onto the mask's path set (masks whose paths exist and continue only through messages; nil = everything, empty = nothing); the stored / passed-in message deep-equals its copy taken before the read; a delivered change object is not altered after delivery (deep copy at delivery re-compared at the end); no panic for any mask; Validate rejects exactly the masks with an unknown path or a continuation through a scalar, map or repeated field")
	g := &mt.Gen{R: lib.NewRand(f.Seed)}
	// first of all (nothing has read through a mask in this process yet): sequences of reads
	qtie := res.Tie("read-history", "K1",
		"SEQUENCES of 8-10 reads executed in order, before anything else in the process has read through a mask: a valid mask V of 2-3 paths (top-level first, then nested) of TestAllTypes / AirTemperature / Brightness / ElectricMode and the ONE-path mask J whose only path is V's paths joined by one of ten separators (`,` `, ` ` ` `;` `|` `:` `+` `/` nothing, or printed as `[a b]`): J first (on another message type or the same) and then V at FilterClone, Filter, Value.Get, Collection.Get, Collection.List, on a second stored message, with the paths reversed, and (a quarter) at Value.Pull / Collection.Pull; or V first, then J at the five synchronous sites, then V on another message; the Lean model is a function of (mask, message) alone: every synchronous read whose mask the line protocol can carry against its filter; non-trivial: all; distinct by the whole sequence")
	qmon := res.Monitor("reads-have-no-memory",
		"for every read of every sequence, judged exactly like a single read (projection of the stored message onto the mask of THAT read, stored message unchanged, no panic, Validate rejects the one-path mask); in addition a mask whose only paths are single segments naming no field returns the empty message")
	runHistoryCases(historyCases(g, f.N(40, 400)), qtie, qmon, drv)
	runCases(seededCases(), tie, spec, mon, drv)
	n := f.N(6000, 120000)
	var cases []rcase
	for i := 0; i < n; i++ {
		site := sites[i%5]
		if i%4 == 3 {
			site = sites[5+(i/4)%4] // a Pull scenario is ~30 store operations: a quarter of the cases
		}
		c := genCase(g, site)
		if isPull(site) && !c.safe() {
			c.Site = "FilterClone"
			c.Msg2, c.Msg2Text, c.Others, c.Lossy = "", "", nil, false
		}
		cases = append(cases, c)
		if len(cases) == 1000 || i == n-1 {
			runCases(cases, tie, spec, mon, drv)
			cases = cases[:0]
		}
	}
	// read-option LISTS (order, nil after non-nil, WithReadPaths then WithReadMask, unrelated options)
	otie := res.Tie("read-options", "K1",
		"lists of 0-4 resource.ReadOption values (WithReadMask incl. nil and empty masks, WithReadPaths incl. no paths and paths fieldmaskpb.New rejects, WithUpdatesOnly, WithBackpressure, WithInclude, EmptyReadOption) in every order at ComputeReadConfig (configured request + ReadRequest.FilterClone + ResponseFilter().FilterClone), Value.Get, Collection.Get, Collection.List, the seed of Value.Pull and Collection.PullID, and lists of masks.WithFieldMask/WithFieldMaskPaths at masks.NewResponseFilter, against the Lean fold (ScVerif/C06/Opts.lean: computeReadConfig / readWith / newResponseFilter); a fixed family of list shapes (none, nil, mask, mask+nil, nil+mask, mask+mask, paths+nil, mask+paths, parent+child) runs first at every site, then one WithReadPaths per KIND of descriptor-derived corrupted path (corrupt.go: below every scalar / repeated / map field an arbitrary segment, an index and every name the descriptor graph offers there — map entry key / value, fields of a message-typed map value, fields of the repeated element —, unknown and empty segments, to depth 3), later a sample of that family drawn kind-first (thorough: all of it, every root) with the message populated where the path goes wrong; non-trivial = at least two options; distinct by (site, options, message)")
	omon := res.Monitor("read-option-lists",
		"for every option list: the read returns the independent projection of the stored message onto the mask of the RIGHT-MOST read-mask option (WithReadMask/WithReadPaths; nil or no such option = everything, no paths = nothing) — so a later WithReadMask(nil) switches an earlier mask off and the last of two masks wins; options that are not read-mask options do not change it; the last WithInclude decides what List returns; the stored message is unchanged; no panic except WithReadPaths with a path that is not part of the message, and building a WithReadPaths with ANY such path (unknown segment, continuation through a scalar, map or repeated field whatever the next segment is called) does panic")
	runOptionCases(seededOptionCases(), otie, omon, drv)
	var ocs []ocase
	for i, n := 0, f.N(1500, 30000); i < n; i++ {
		ocs = append(ocs, genOptionCase(g, optionSites[i%len(optionSites)]))
		if len(ocs) == 1000 || i == n-1 {
			runOptionCases(ocs, otie, omon, drv)
			ocs = ocs[:0]
		}
	}
	// WithReadPaths over the descriptor-derived corruption family (corrupt.go): a sample by kind, thorough: all of it
	runOptionCases(corruptSweep(g, 160, f.Thorough()), otie, omon, drv)
	// trait-level readers that compose a response and project it
	ctie := res.Tie("composed-readers", "K1",
		"every trait-level reader that composes its response and then projects it, or pages over stored items and projects the page (openclosepb Model/ModelServer GetPositions and Model.PullPositions with derived presets; ListModes, ListHails, ListPublications, ListConsumables, ListInventory, ListChildren, ListBookings, ListWasteRecords) and the server-streaming Pull RPC of each of those services through the in-process wrapper (PullPositions, PullModes, PullHails, PullPublications, PullConsumables, PullInventory, PullChildren, PullBookings, PullWasteRecords: every seed value under the mask vs the same stream without a mask; and, for the eight List/Pull services, the UPDATES: an unmasked and a masked client stream open on the same instance while 2-4 items are created / updated / deleted through the model, each write followed by a marker item: every change of the masked stream, old and new value, vs the change the unmasked stream delivers for the same write), first a FIXED part that is the same for every seed — for every reader the nothing-stored-yet start (empty collection / never-written value; openclosepb also with the configuration that makes its derived preset non-empty on an empty store: a preset without positions) x nil, empty, every single path of the item's path tree to depth 2 (each top-level path alone excludes the others and includes only itself), parent+child x the read, the seed values of the Pull RPC, and for model subscriptions seed + 2 writes and updates-only (no seed may be delivered) —, then freshly generated populated instances: masked read vs the Lean filter of the UNMASKED read of the same instance; masks: nil, empty, every single path of the item's path tree to depth 2 (through repeated messages too), parent+child in both orders, unknown paths, random 1-3 paths to depth 3; subscriptions: seed + 2-4 single stored changes, an event is due exactly when the projection changes; non-trivial = non-empty mask; distinct by (reader, instance seed, mask)")
	cmon := res.Monitor("composed-read-semantics",
		"for every trait-level reader and mask: each returned item / delivered value = independent projection of the corresponding unmasked item of the same instance; same number of items; the unmasked read after the masked read equals the one before (stored state not altered), messages returned by earlier reads do not change, repeating the masked read gives the same result; subscriptions deliver an event exactly when the projection of the current value changes, each equal to that projection; for the Pull RPC updates: the masked stream delivers, for every change the unmasked stream delivers, a change of the same kind whose old and new value are the projections (absent stays absent), and may leave one out only when both projections are equal; no panic for any mask")
	wtie := res.Tie("waste-stream", "K1",
		"wastepb ModelServer.PullWasteRecords against its adapter model (ScVerif/C06/Waste.lean: wastePull = replay of the last 50 records but the very last through FilterClone, then lastWasteRecord.Pull): on every seeds case of the wastepb reader the model is told the model's whole history (101-102 records) when the streams opened and the value lastWasteRecord held (half of the cases an AddWasteRecord is HELD between its Set and its append, so that value is not the last historical record) and predicts every value the unmasked and the masked stream send before they wait; non-trivial = non-empty mask; distinct by (instance seed, mask, held)")
	runComposed(fixedComposedCases(), ctie, wtie, cmon, drv) // the same for every seed
	runComposed(composedCases(g, f.N(12, 200), f.N(12, 120)), ctie, wtie, cmon, drv)
	htie := res.Tie("shared-containers", "K1",
		"a fresh TestAllTypes container whose repeated_foreign_message elements and default_foreign_message ARE 1-3 stored messages (the shape trait-level readers compose), with random owned fields, projected by ResponseFilter.Filter (in place) and FilterClone under masks that stay above, go below (nested, through the repeated field) or corrupt the shared fields: what the returned container shows AND every stored message afterwards, against the heap model (ScVerif/C06/Heap.lean: filterInPlace / filterCloneH); non-trivial = non-empty mask; distinct by (mode, mask, container, stored messages)")
	var hcs []hcase
	for i, n := 0, f.N(1200, 20000); i < n; i++ {
		hcs = append(hcs, genHeapCase(g, []string{"clone", "inplace"}[i%2]))
	}
	runHeapCases(hcs, htie, cmon, drv)
	ktie := res.Tie("collection-reads", "K1",
		"a resource.Collection of 0-4 items (ids that sort in byte order: a, B, a1, x, y, zz) read with a list of read options that combines an include callback (one of a closed family of 8 shared with the Lean model: always, never, non-empty, id-or-non-empty, has default_int32, has default_foreign_message.c, id is not y, has default_string) with read masks (WithReadMask / WithReadPaths, nil, empty, nested, parent+child), UpdatesOnly and unrelated options in any order, on a plain collection or one with WithNoDuplicates: Collection.List, everything Collection.Pull delivers (seeds, then 0-5 Add/Update/Delete writes: UPDATE, ADD on entering and REMOVE on leaving the include set) and everything Collection.PullID delivers for an id (stored or not), and everything Value.Pull delivers on a resource.Value (with the same equivalence) that is given the same messages, each compared with the Lean model (ScVerif/C06/Coll.lean: listWith / pullStream / pullID; ValuePull.lean: valuePull) fed with what a plain subscriber of the same collection saw (the store in a shuffled order, the raw events) and with what the value published; an injected clock makes change times exact; a fixed family of small cases (callback on a field the mask leaves out, PullID on an item that does not sort last) runs first; non-trivial = an include callback and a non-nil mask are both in effect; distinct by the whole case")
	kmon := res.Monitor("collection-read-semantics",
		"for every case: List(options) = the stored items the LAST include callback accepts WHEN GIVEN THE STORED MESSAGE, in id order, each projected onto the mask of the last read-mask option; the seed values of Pull = the same items as ADD changes with their change times, the seed flag, the last-seed flag on the final one only (none under UpdatesOnly); every later change of the masked Pull = the projection (old and new value; same id, kind, time, flags) of the change the same subscription without its read-mask options delivers (with WithNoDuplicates: of one of them, in order); PullID: exactly one seed value first iff the id is stored and accepted (and not UpdatesOnly) = projection of the stored item, its change time, flagged seed and last seed, and every value = projection of what the unmasked PullID delivers; Value.Pull: the projection of what the same subscription without its read-mask options delivers (with WithNoDuplicates: each value the projection of a value the resource held, in order); no message the collection stored and no delivered change object is altered; no panic, no stall")
	stie := res.Tie("publication-schedules", "K4",
		"the same collection cases as whole SCHEDULES: the Lean model (ScVerif/C06/Sched.lean: step / run / session / sessionID / listAfter) is told only what the harness did — items added, then 0-3 writes HELD between storing their value and bus.Send (yield point coll.update.beforeSend; a Delete among them completes), then the reads / subscriptions open, then the held writers are released in storage order or another one (publications overtaking each other), then 0-5 complete writes — and computes the store the subscriptions find, every change published afterwards (kind, old and new value, the ticking clock's change times) and from them List, everything the Pull with the option list, the PullID and a plain Pull are delivered, and Get(id) with the options before the subscriptions open and after all writes, List after all writes and Value.Get after all Sets (ReadAfter.lean: getAfter / vgetAfter); a third of the cases with clocks that stand still or one WithWriteTime for every Set (every item and change carries the same time: model world with tick 0); compared with the real collection run under exactly that schedule; non-trivial = at least one write was pending when the subscriptions opened; distinct by the whole case")
	runCollCases(seededCollCases(), ktie, stie, kmon, drv)
	var kcs []kcase
	for i, n := 0, f.N(700, 15000); i < n; i++ {
		kcs = append(kcs, genCollCase(g))
		if len(kcs) == 500 || i == n-1 {
			runCollCases(kcs, ktie, stie, kmon, drv)
			kcs = kcs[:0]
		}
	}
	// the lossy stage of subscriptions without backpressure
	lmtie := res.Tie("lossy-merge", "K2",
		"mergeChanges (pkg/resource/backpressure.go, through VerifMergeChanges) on every pair of change kinds (5 x 5) x last-seed flags (4) x value shapes (all four values present / the values a change of that kind normally has): merged change or `drop`, against the Lean mergeChanges (ScVerif/C06/Lossy.lean); exhaustive")
	lmtie.Exhaustive = true
	lstie := res.Tie("lossy-stage", "K4",
		"the goroutine of mergeCollectionExcess (through VerifMergeCollectionExcess) driven with an EXPLICIT schedule of its two select cases — the harness owns both channels and offers one operation at a time: `t` publish the next change into it, `h` receive what it hands over (where the model says the queue is empty: nothing may arrive within 1 ms) — on 1-7 published changes over 1-3 ids (ADD / UPDATE / REMOVE chains, one in ten an arbitrary kind; seed flags), every hand-over compared with the Lean model (Lossy.lean: lossyT, proved equal to `lossy`); a fixed family (two UPDATEs of one id, ADD+UPDATE, ADD+REMOVE cancelling, REMOVE+ADD = REPLACE, under six schedules) runs first; non-trivial = fewer changes handed over than published (something was merged or cancelled); distinct by (schedule, changes)")
	lmon := res.Monitor("lossy-stage-values",
		"for every schedule of the lossy stage: every change it hands over carries, as old and as new value, only values (or nil) that some published change of the same id carried; it never hands over more changes than were published; it never stalls")
	runLossyCases(mergeTable(), lmtie, lstie, lmon, drv)
	runLossyCases(seededStageCases(), lmtie, lstie, lmon, drv)
	var lcs []lcase
	for i, n := 0, f.N(400, 8000); i < n; i++ {
		lcs = append(lcs, genStageCase(g))
	}
	runLossyCases(lcs, lmtie, lstie, lmon, drv)
	if found, undriven := undrivenComposers(); len(undriven) > 0 {
		res.Notes = append(res.Notes, fmt.Sprintf("composing call sites in pkg/trait (functions calling FilterClone/ResponseFilter/NewResponseFilter): %d found, not driven by a composed-readers row: %s", len(found), strings.Join(undriven, ", ")))
	} else {
		res.Notes = append(res.Notes, fmt.Sprintf("composing call sites in pkg/trait: %d functions found, all driven by a composed-readers row (%s)", len(found), strings.Join(found, ", ")))
	}
	if f.Thorough() {
		runExhaustive(res, spec, mon, drv)
	}
	sort.Strings(res.Notes)
	if err := res.Write(f.Out); err != nil {
		lib.Fatal(err)
	}
}

func replay(f lib.Flags) int {
	rp, err := lib.ReadReplay(f.Replay)
	if err != nil {
		lib.Fatal(err)
	}
	b, _ := json.Marshal(rp.Input)
	var probe struct {
		Options *[]string `json:"options"`
		Reader  string    `json:"reader"`
		Shared  bool      `json:"shared_container"`
		Coll    bool      `json:"collection_read"`
		Lossy   bool      `json:"lossy_stage"`
		History bool      `json:"read_history"`
	}
	_ = json.Unmarshal(b, &probe)
	if probe.History {
		return replayHistory(b)
	}
	if probe.Reader != "" {
		return replayComposed(b)
	}
	if probe.Coll {
		return replayCollection(b)
	}
	if probe.Lossy {
		return replayLossy(b, f.Driver)
	}
	if probe.Shared {
		var c hcase
		if err := json.Unmarshal(b, &c); err != nil {
			return 2
		}
		m := lib.NewMonitor("replay", "")
		cont, heap, pmsg := c.run()
		c.monitor(m, heap, pmsg)
		fmt.Printf("replay shared container mode=%s mask=%s\n  stored before=%v\n  stored after =%v\n  returned=%s\n", c.Mode, c.Mask.Enc(), c.Texts, heap, cont)
		return reportReplay(m)
	}
	if probe.Options != nil {
		return replayOptions(b)
	}
	var c rcase
	if err := json.Unmarshal(b, &c); err != nil || c.Root == "" {
		fmt.Println("replay: no concrete input in file (", rp.Kind, rp.Broken, ")")
		return 2
	}
	if isPull(c.Site) && !c.safe() {
		fmt.Println("replay: refusing to drive a goroutine-backed read with a mask that may panic")
		return 2
	}
	m := lib.NewMonitor("replay", "")
	out := c.runCode()
	c.monitor(m, out)
	fmt.Printf("replay %s site=%s mask=%s\n  stored=%s\n  second=%s\n  unmasked events [%s]\n  -> %s\n", c.Root, c.Site, c.Mask.Enc(), c.MsgText, c.Msg2Text, out.Ref, out.text())
	if len(m.Violations) > 0 {
		for _, v := range m.Violations {
			fmt.Printf("STILL FAILS %s: %s (expected %s, observed %s)\n", v.Signature, v.What, v.Expected, v.Observed)
		}
		return 1
	}
	fmt.Println("replay: property holds on this input now")
	return 0
}

func replayOptions(b []byte) int {
	var c ocase
	if err := json.Unmarshal(b, &c); err != nil || c.Root == "" {
		fmt.Println("replay: no concrete input in file")
		return 2
	}
	m := lib.NewMonitor("replay", "")
	out := c.runCode()
	c.monitor(m, out)
	eff, _ := c.effective()
	fmt.Printf("replay %s site=%s options=%s (last read-mask option: %s)\n  stored=%s\n  -> %s\n", c.Root, c.Site, c.enc(), eff.Enc(), c.MsgText, out.text())
	return reportReplay(m)
}

func replayComposed(b []byte) int {
	var c ccase
	if err := json.Unmarshal(b, &c); err != nil {
		fmt.Println("replay: no concrete input in file")
		return 2
	}
	m := lib.NewMonitor("replay", "")
	out := c.run()
	c.monitor(m, out)
	fmt.Printf("replay reader=%s mode=%s instance-seed=%d mask=%s\n  unmasked=%s\n  masked  =%s\n", c.Reader, c.Mode, c.SetupSeed, c.Mask.Enc(), canonAll(out.Raw), canonAll(out.Got))
	return reportReplay(m)
}

func reportReplay(m *lib.Monitor) int {
	if len(m.Violations) > 0 {
		for _, v := range m.Violations {
			fmt.Printf("STILL FAILS %s: %s (expected %s, observed %s)\n", v.Signature, v.What, v.Expected, v.Observed)
		}
		return 1
	}
	fmt.Println("replay: property holds on this input now")
	return 0
}
