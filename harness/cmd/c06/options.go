// Read-option LISTS at the resource.ReadRequest level: several options, their order, a nil mask after a
// non-nil one, WithReadPaths then WithReadMask, unrelated options in between.  The effective read mask
// of a read is the one of the LAST read-mask option (nil = everything when there is none or when the
// last one is WithReadMask(nil)); the Lean model (ScVerif/C06/Opts.lean) folds the options like
// ComputeReadConfig does, the monitor's oracle scans the list from the right.
package main

import (
	"context"
	"fmt"
	"strings"
	"time"

	"google.golang.org/protobuf/proto"

	"github.com/smart-core-os/sc-golang/internal/testproto"
	"github.com/smart-core-os/sc-golang/pkg/masks"
	"github.com/smart-core-os/sc-golang/pkg/resource"
	"github.com/smart-core-os/sc-golang/verifharness/cmd/c05/mt"
	"github.com/smart-core-os/sc-golang/verifharness/lib"
)

// ocase is one read with a LIST of read options at one call site.
type ocase struct {
	Root    string `json:"root"`
	Site    string `json:"site"`
	Msg     string `json:"stored_hex"`
	MsgText string `json:"stored"`
	// Options in application order: M<mask> resource.WithReadMask (M~ is the nil mask), P<mask>
	// resource.WithReadPaths (P- no paths), U0|U1 WithUpdatesOnly, B0|B1 WithBackpressure,
	// I0 WithInclude(always true), I1 WithInclude(always false), I- WithInclude(nil), E EmptyReadOption{}.
	// At the site NewResponseFilter the entries are masks handed to masks.WithFieldMask.
	Options []string `json:"options"`
}

var optionSites = []string{"ComputeReadConfig", "Value.Get", "Collection.Get", "Collection.List", "Value.Pull", "Collection.PullID", "NewResponseFilter"}

func (c ocase) key() string {
	return strings.Join([]string{"opts", c.Root, c.Site, c.enc(), c.MsgText}, " ")
}

func (c ocase) enc() string {
	if len(c.Options) == 0 {
		return "_"
	}
	return strings.Join(c.Options, ",")
}

func parseMaskEnc(s string) mt.Mask {
	switch {
	case s == "~":
		return mt.NilMask()
	case s == "-":
		return mt.Mask{Paths: []string{}}
	default:
		return mt.Mask{Paths: strings.Split(s[1:], "/")}
	}
}

func (c ocase) decode() proto.Message {
	m, err := mt.DecodeMsg(c.Msg, rootByName(c.Root).New())
	if err != nil {
		panic(err)
	}
	return m
}

// build turns the encoded options into the real ones (WithReadPaths may panic: documented).
func (c ocase) build() []resource.ReadOption {
	var out []resource.ReadOption
	for _, o := range c.Options {
		switch {
		case o[0] == 'M':
			out = append(out, resource.WithReadMask(parseMaskEnc(o[1:]).FM()))
		case o[0] == 'P':
			out = append(out, resource.WithReadPaths(rootByName(c.Root).New(), parseMaskEnc(o[1:]).Paths...))
		case o == "U0", o == "U1":
			out = append(out, resource.WithUpdatesOnly(o == "U1"))
		case o == "B0", o == "B1":
			out = append(out, resource.WithBackpressure(o == "B1"))
		case o == "I0":
			out = append(out, resource.WithInclude(func(string, proto.Message) bool { return true }))
		case o == "I1":
			out = append(out, resource.WithInclude(func(string, proto.Message) bool { return false }))
		case o == "I-":
			out = append(out, resource.WithInclude(nil))
		case o == "E":
			out = append(out, resource.EmptyReadOption{})
		default:
			panic("option " + o)
		}
	}
	return out
}

// effective is the monitor's oracle: the mask of the right-most read-mask option, nil if none; earlier
// says whether a non-nil mask option precedes it (the "nil resets" / "last wins" situation).
func (c ocase) effective() (m mt.Mask, overrides bool) {
	m = mt.NilMask()
	found := false
	for i := len(c.Options) - 1; i >= 0; i-- {
		o := c.Options[i]
		if o[0] != 'M' && o[0] != 'P' {
			continue
		}
		if !found {
			m, found = parseMaskEnc(o[1:]), true
			continue
		}
		if !parseMaskEnc(o[1:]).Nil {
			overrides = true
		}
	}
	return m, overrides
}

type oout struct {
	Panic   string
	Results []proto.Message
	Config  string // ComputeReadConfig site: the configured request
	Mutated string
}

func (o oout) text() string {
	if o.Panic != "" {
		return "panic"
	}
	var xs []string
	if o.Config != "" {
		xs = append(xs, o.Config)
	}
	for _, m := range o.Results {
		xs = append(xs, msgText(m))
	}
	return strings.Join(xs, " ")
}

func (c ocase) runCode() oout {
	msg := c.decode()
	before := proto.Clone(msg)
	stored := msg
	var out oout
	panicked, pmsg := lib.Catch(func() {
		if c.Site == "NewResponseFilter" {
			var fo []masks.ResponseFilterOption
			for _, o := range c.Options {
				m := parseMaskEnc(o)
				if !m.Nil && len(m.Paths) > 0 && len(o)%2 == 0 {
					fo = append(fo, masks.WithFieldMaskPaths(m.Paths...)) // the other constructor, same meaning
				} else {
					fo = append(fo, masks.WithFieldMask(m.FM()))
				}
			}
			out.Results = []proto.Message{masks.NewResponseFilter(fo...).FilterClone(msg)}
			return
		}
		ropts := c.build()
		switch c.Site {
		case "ComputeReadConfig":
			rr := resource.ComputeReadConfig(ropts...)
			inc := "-"
			if rr.Include != nil {
				inc = "0"
				if !rr.Include("probe", nil) {
					inc = "1"
				}
			}
			b2i := map[bool]string{false: "0", true: "1"}
			m := mt.NilMask()
			if rr.ReadMask != nil {
				m = mt.Mask{Paths: rr.ReadMask.Paths}
			}
			out.Config = fmt.Sprintf("%s U%s B%s I%s", m.Enc(), b2i[rr.UpdatesOnly], b2i[rr.Backpressure], inc)
			// both spellings of the projection
			out.Results = []proto.Message{rr.FilterClone(msg), rr.ResponseFilter().FilterClone(msg)}
		case "Value.Get":
			v := resource.NewValue(resource.WithInitialValue(msg))
			out.Results = []proto.Message{v.Get(ropts...)}
		case "Collection.Get":
			col := resource.NewCollection()
			st, err := col.Add("x", msg)
			if err != nil {
				panic(err)
			}
			stored, before = st, proto.Clone(st)
			got, _ := col.Get("x", ropts...)
			out.Results = []proto.Message{got}
		case "Collection.List":
			col := resource.NewCollection()
			st, err := col.Add("x", msg)
			if err != nil {
				panic(err)
			}
			stored, before = st, proto.Clone(st)
			out.Results = col.List(ropts...)
		case "Value.Pull", "Collection.PullID":
			// the seed value of a subscription opened with the option list
			ctx, cancel := context.WithCancel(context.Background())
			defer cancel()
			var ch <-chan *resource.ValueChange
			if c.Site == "Value.Pull" {
				ch = resource.NewValue(resource.WithInitialValue(msg)).Pull(ctx, ropts...)
			} else {
				col := resource.NewCollection()
				st, err := col.Add("x", msg)
				if err != nil {
					panic(err)
				}
				stored, before = st, proto.Clone(st)
				ch = col.PullID(ctx, "x", ropts...)
			}
			select {
			case v, ok := <-ch:
				if !ok {
					panic("stream closed before the seed value")
				}
				out.Results = []proto.Message{clone(v.Value)}
			case <-time.After(waitFor):
				panic("timed out waiting for the seed value")
			}
		default:
			panic("site " + c.Site)
		}
	})
	if panicked {
		out.Panic = pmsg
		return out
	}
	if !proto.Equal(stored, before) {
		out.Mutated = "stored/passed-in message changed: " + mt.CanonMsg(before) + " -> " + mt.CanonMsg(stored)
	}
	return out
}

// pathsBuild: every WithReadPaths of the list is accepted by fieldmaskpb.New (all paths valid).
func (c ocase) pathsBuild() bool {
	md := rootByName(c.Root).MD()
	for _, o := range c.Options {
		if o[0] == 'P' {
			for _, p := range parseMaskEnc(o[1:]).Paths {
				if !mt.Classify(md, p).Valid {
					return false
				}
			}
		}
	}
	return true
}

// invalidReadPath: the first path of a WithReadPaths option that is not a field mask path of the root.
func (c ocase) invalidReadPath() (path, kind string) {
	md := rootByName(c.Root).MD()
	for _, o := range c.Options {
		if o[0] == 'P' {
			for _, p := range parseMaskEnc(o[1:]).Paths {
				if k := invalidKind(md, p); k != "" {
					return p, k
				}
			}
		}
	}
	return "", ""
}

func (c ocase) monitor(mon *lib.Monitor, out oout) {
	site := "C06/" + c.Site + "/options"
	if c.Site == "NewResponseFilter" {
		// masks.WithFieldMask(nil) is documented as the empty option: only lists without a nil entry
		// after a non-nil one are judged here (the last mask wins); the rest is the tie's business
		seenMask := false
		for _, o := range c.Options {
			if parseMaskEnc(o).Nil && seenMask {
				return
			}
			seenMask = seenMask || !parseMaskEnc(o).Nil
		}
	}
	if out.Panic != "" {
		if c.Site != "NewResponseFilter" && !c.pathsBuild() {
			return // WithReadPaths panics on a path that is not part of the message: documented
		}
		mon.Violate(site+"/panic", "a read with a list of read options panicked: "+out.Panic, c, "no panic", "panic")
		return
	}
	if c.Site != "NewResponseFilter" {
		// the validating option: "Panics if paths aren't part of m" — every path fieldmaskpb / Validate call
		// invalid (unknown segment, continuation through a scalar, map or repeated field whatever the
		// next segment is called) has to be refused when the option is built
		if p, kind := c.invalidReadPath(); kind != "" {
			mon.Violate(site+"/WithReadPaths-accepts-invalid-path/"+kind,
				"resource.WithReadPaths accepted the path "+fmt.Sprintf("%q", p)+", which is not a field mask path of the message ("+kind+"): validation has to report it", c, "panic", "no panic")
			return
		}
	}
	if out.Mutated != "" {
		mon.Violate(site+"/mutated", out.Mutated, c, "unchanged", "changed")
	}
	var eff mt.Mask
	overrides := false
	if c.Site == "NewResponseFilter" {
		eff = mt.NilMask()
		for _, o := range c.Options {
			if m := parseMaskEnc(o); !m.Nil {
				overrides = overrides || !eff.Nil
				eff = m
			}
		}
	} else {
		eff, overrides = c.effective()
	}
	md := rootByName(c.Root).MD()
	for _, p := range eff.Paths {
		if pi := mt.Classify(md, p); pi.Unknown || pi.ThroughBad {
			return
		}
	}
	class := "projection"
	switch {
	case overrides && eff.Nil:
		class = "nil-mask-after-mask/projection" // a later WithReadMask(nil) switches the earlier mask off
	case overrides:
		class = "mask-after-mask/projection" // the last mask wins
	}
	want := mt.CanonMsg(specProject(c.decode(), eff))
	if c.Site == "Collection.List" {
		inc := true // the last WithInclude decides
		for _, o := range c.Options {
			if o[0] == 'I' {
				inc = o != "I1"
			}
		}
		if !inc {
			if len(out.Results) != 0 {
				mon.Violate(site+"/include", "List returned an item the last WithInclude excludes", c, "no items", fmt.Sprint(len(out.Results)))
			}
			return
		}
	}
	if len(out.Results) == 0 {
		mon.Violate(site+"/"+class, "the read returned nothing", c, want, "nothing")
	}
	for _, got := range out.Results {
		if g := msgText(got); g != want {
			mon.Violate(site+"/"+class, "a read with the option list "+c.enc()+" is not the projection of the stored message onto the mask of the LAST read-mask option "+eff.Enc()+" (nil = everything)", c, want, g)
		}
	}
}

func runOptionCases(cases []ocase, tie *lib.Tie, mon *lib.Monitor, drv *lib.Driver) {
	outs := make([]oout, len(cases))
	var lines []string
	for i, c := range cases {
		outs[i] = c.runCode()
		ty := schema.ID(rootByName(c.Root).MD())
		switch c.Site {
		case "NewResponseFilter":
			lines = append(lines, "rfopts "+c.enc()+" "+c.MsgText)
		case "ComputeReadConfig":
			lines = append(lines, fmt.Sprintf("rconfig %d %s", ty, c.modelOpts()), fmt.Sprintf("ropts %d %s %s", ty, c.modelOpts(), c.MsgText))
		default:
			lines = append(lines, fmt.Sprintf("ropts %d %s %s", ty, c.modelOpts(), c.MsgText))
		}
	}
	ans, err := drv.Batch(lines)
	if err != nil {
		tie.Fail(err)
		return
	}
	k := 0
	for i, c := range cases {
		out := outs[i]
		var model string
		switch c.Site {
		case "ComputeReadConfig":
			model = ans[k]
			if ans[k] != "panic" {
				model += " " + ans[k+1] + " " + ans[k+1] // rr.FilterClone and rr.ResponseFilter().FilterClone
			}
			k += 2
		default:
			model = ans[k]
			k++
		}
		code := out.text()
		if c.Site == "Collection.List" && out.Panic == "" && len(out.Results) == 0 {
			code, model = "excluded", "excluded" // the include predicate is not part of the model's read
			inc := true
			for _, o := range c.Options {
				if o[0] == 'I' {
					inc = o != "I1"
				}
			}
			if inc {
				code = "nothing"
			}
		}
		eff, overrides := c.effective()
		nontrivial := len(c.Options) > 1
		tie.Record(c.key(), nontrivial, c, model, code)
		tie.Count("site:" + c.Site)
		tie.Count(fmt.Sprintf("options:%d", len(c.Options)))
		switch {
		case out.Panic != "":
			tie.Count("outcome:panic(WithReadPaths)")
		case overrides && eff.Nil:
			tie.Count("shape:nil-after-mask")
		case overrides:
			tie.Count("shape:mask-after-mask")
		case eff.Nil:
			tie.Count("shape:no-effective-mask")
		default:
			tie.Count("shape:one-mask")
		}
		mon.Eval(c.key(), nontrivial, nil)
		c.monitor(mon, out)
	}
}

// modelOpts: the include predicates are named by a number in the model.
func (c ocase) modelOpts() string { return c.enc() }

// corruptEnc: a mask of 1-3 paths of which one is a descriptor-derived corruption (corrupt.go).
func corruptEnc(g *mt.Gen, c *ocase) (enc, kind string) {
	md := rootByName(c.Root).MD()
	bad, kind := corruptionsOf(md).draw(g)
	ps := []string{bad}
	if g.R.Intn(2) == 0 {
		focus := g.Focus(md, 2)
		ps = append(ps, g.MaskFrom(focus, mt.PathOpts{Corrupt: 0}).Paths...)
		if len(ps) > 3 {
			ps = ps[:3]
		}
		g.R.Shuffle(len(ps), func(i, j int) { ps[i], ps[j] = ps[j], ps[i] })
	}
	return mt.Mask{Paths: ps}.Enc(), kind
}

func genMaskEnc(g *mt.Gen, c *ocase, valid bool) string {
	r := rootByName(c.Root)
	md := r.MD()
	if !valid && g.R.Intn(4) == 0 {
		e, _ := corruptEnc(g, c)
		return e
	}
	focus := g.Focus(md, 2+g.R.Intn(3))
	switch x := g.R.Intn(10); {
	case x == 0 && !valid:
		return "~"
	case x == 1:
		return "-"
	}
	for tries := 0; ; tries++ {
		m := g.MaskFrom(focus, mt.PathOpts{Corrupt: 0})
		ok := true
		for _, p := range m.Paths {
			pi := mt.Classify(md, p)
			if valid && !pi.Valid && tries < 20 {
				ok = false
			}
		}
		if ok {
			return m.Enc()
		}
	}
}

func genOptionCase(g *mt.Gen, site string) ocase {
	r := roots[0]
	if g.R.Intn(4) == 0 {
		r = roots[1+g.R.Intn(len(roots)-1)]
	}
	md := r.MD()
	msg := g.Msg(md, r.New, g.Focus(md, 3+g.R.Intn(4)))
	c := ocase{Root: r.Name, Site: site, Msg: mt.EncodeMsg(msg), MsgText: mt.CanonMsg(msg)}
	n := g.R.Intn(5)
	for i := 0; i < n; i++ {
		if site == "NewResponseFilter" {
			if g.R.Intn(3) == 0 {
				c.Options = append(c.Options, "~")
			} else {
				c.Options = append(c.Options, genMaskEnc(g, &c, false))
			}
			continue
		}
		switch x := g.R.Intn(12); {
		case x < 4:
			c.Options = append(c.Options, "M"+genMaskEnc(g, &c, false))
		case x < 6:
			c.Options = append(c.Options, "M~")
		case x < 8:
			if e := genMaskEnc(g, &c, g.R.Intn(3) != 0); e == "~" {
				c.Options = append(c.Options, "P-")
			} else {
				c.Options = append(c.Options, "P"+e)
			}
		case x == 8:
			o := "U0"
			if g.R.Intn(2) == 0 && !isPull(site) {
				o = "U1"
			}
			c.Options = append(c.Options, o)
		case x == 9:
			c.Options = append(c.Options, []string{"B0", "B1"}[g.R.Intn(2)])
		case x == 10:
			o := []string{"I0", "I-", "I1"}[g.R.Intn(3)]
			if o == "I1" && site != "ComputeReadConfig" && site != "Collection.List" {
				o = "I0"
			}
			c.Options = append(c.Options, o)
		default:
			c.Options = append(c.Options, "E")
		}
	}
	return c
}

// seededOptionCases: the list shapes the property's "nil mask means everything" and the last-wins
// order are about, smallest first, at every site.
func seededOptionCases() []ocase {
	msg := &testproto.TestAllTypes{
		DefaultInt32:           7,
		DefaultForeignMessage:  &testproto.ForeignMessage{C: 1, D: 2},
		RepeatedInt32:          []int32{1, 2},
		MapStringString:        map[string]string{"a": "b"},
		RepeatedForeignMessage: []*testproto.ForeignMessage{{C: 1, D: 2}, {D: 3}},
	}
	a, b, par := "/default_foreign_message.c", "/default_int32", "/default_foreign_message/default_foreign_message.d"
	var out []ocase
	for _, site := range optionSites {
		lists := [][]string{
			{}, {"M~"}, {"M" + a}, {"M" + a, "M~"}, {"M~", "M" + a}, {"M" + a, "M" + b}, {"P" + a, "M~"}, {"M" + a, "P" + b},
			{"P-"}, {"M" + a, "M-"}, {"M-", "M~"}, {"M" + a, "U0", "M~", "B1"}, {"M" + a, "E", "I0"}, {"P" + a, "P" + b},
			{"M" + par, "M~", "M" + b}, {"M" + a, "M" + b, "M~"}, {"Prepeated_foreign_message.c"}, {"P/nope"},
		}
		if site == "NewResponseFilter" {
			lists = [][]string{{}, {"~"}, {a}, {a, "~"}, {"~", a}, {a, b}, {a, "-"}, {"-", "~"}, {"-", b}, {par, b, "~"}}
		}
		if site != "NewResponseFilter" {
			// one WithReadPaths per KIND of descriptor-derived corruption (corrupt.go): alone, after a mask
			// and before a nil mask — building the option panics wherever it stands
			for i, p := range corruptionsOf((&testproto.TestAllTypes{}).ProtoReflect().Descriptor()).firstOfEachKind(2) {
				switch i % 3 {
				case 0:
					lists = append(lists, []string{"P/" + p})
				case 1:
					lists = append(lists, []string{"M" + a, "P/" + p})
				default:
					lists = append(lists, []string{"P/default_int32/" + p, "M~"})
				}
			}
		}
		for _, l := range lists {
			if len(l) > 0 && l[0] == "Prepeated_foreign_message.c" {
				l = []string{"P/repeated_foreign_message.c"}
			}
			out = append(out, ocase{Root: "TestAllTypes", Site: site, Msg: mt.EncodeMsg(msg), MsgText: mt.CanonMsg(msg), Options: l})
		}
	}
	return out
}
