// Shallow-fresh containers: a fresh TestAllTypes whose repeated_foreign_message elements and
// default_foreign_message ARE stored messages (the shape trait-level readers build), projected in place
// (ResponseFilter.Filter: documented to change the message it is given — and, through the references,
// the stored messages) and on a clone (FilterClone: must leave everything alone).  Ties the heap model
// of ScVerif/C06/Heap.lean to the real code: which stored messages are written, and to what.
package main

import (
	"fmt"
	"strings"

	"google.golang.org/protobuf/proto"

	"github.com/smart-core-os/sc-golang/internal/testproto"
	"github.com/smart-core-os/sc-golang/pkg/masks"
	"github.com/smart-core-os/sc-golang/verifharness/cmd/c05/mt"
	"github.com/smart-core-os/sc-golang/verifharness/lib"
)

type hcase struct {
	Heap    bool     `json:"shared_container"`
	Mode    string   `json:"mode"` // "inplace" | "clone"
	Own     string   `json:"own_hex"`
	OwnText string   `json:"own"`
	Stored  []string `json:"stored_hex"` // ForeignMessage values; the last one (if Single) is default_foreign_message
	Texts   []string `json:"stored"`
	Single  bool     `json:"single_ref"`
	Mask    mt.Mask  `json:"read_mask"`
}

func (c hcase) key() string {
	return fmt.Sprintf("heap %s %s %s %v %v", c.Mode, c.Mask.Enc(), c.OwnText, c.Texts, c.Single)
}

// run builds the container and returns (what the returned container shows, the stored messages afterwards).
func (c hcase) run() (container string, heap []string, panicMsg string) {
	own, err := mt.DecodeMsg(c.Own, &testproto.TestAllTypes{})
	if err != nil {
		panic(err)
	}
	cont := own.(*testproto.TestAllTypes)
	var stored []*testproto.ForeignMessage
	for _, s := range c.Stored {
		m, err := mt.DecodeMsg(s, &testproto.ForeignMessage{})
		if err != nil {
			panic(err)
		}
		stored = append(stored, m.(*testproto.ForeignMessage))
	}
	n := len(stored)
	if c.Single {
		n--
		cont.DefaultForeignMessage = stored[n]
	}
	cont.RepeatedForeignMessage = append([]*testproto.ForeignMessage(nil), stored[:n]...)
	rf := masks.NewResponseFilter(masks.WithFieldMask(c.Mask.FM()))
	var res proto.Message
	panicked, pmsg := lib.Catch(func() {
		if c.Mode == "inplace" {
			rf.Filter(cont)
			res = cont
		} else {
			res = rf.FilterClone(cont)
		}
	})
	if panicked {
		return "", nil, pmsg
	}
	for _, s := range stored {
		heap = append(heap, mt.CanonMsg(s))
	}
	return mt.CanonMsg(res), heap, ""
}

func (c hcase) line() string {
	n := len(c.Texts)
	refs, ref := "-", "-"
	if c.Single {
		n--
		ref = fmt.Sprintf("default_foreign_message:%d", n)
	}
	if n > 0 {
		var as []string
		for i := 0; i < n; i++ {
			as = append(as, fmt.Sprint(i))
		}
		refs = "repeated_foreign_message:" + strings.Join(as, "+")
	}
	return strings.Join(append([]string{"hfilter", c.Mode, c.Mask.Enc(), c.OwnText, refs, ref}, c.Texts...), " ")
}

func (c hcase) monitor(mon *lib.Monitor, heap []string, pmsg string) {
	if pmsg != "" {
		mon.Violate("C06/"+map[string]string{"inplace": "Filter", "clone": "FilterClone"}[c.Mode]+"/composed/panic", "projecting a container that shares stored messages panicked: "+pmsg, c, "no panic", "panic")
		return
	}
	if c.Mode != "clone" {
		return // Filter is documented to change what it is given
	}
	for i, t := range heap {
		if t != c.Texts[i] {
			mon.Violate("C06/FilterClone/composed/mutated", fmt.Sprintf("FilterClone of a container wrote to the stored message %d it references", i), c, c.Texts[i], t)
		}
	}
}

func genHeapCase(g *mt.Gen, mode string) hcase {
	md := (&testproto.TestAllTypes{}).ProtoReflect().Descriptor()
	var focus, all = g.Focus(md, 2+g.R.Intn(3)), md.Fields()
	own := &testproto.TestAllTypes{}
	for _, fd := range focus {
		if n := fd.Name(); n != "repeated_foreign_message" && n != "default_foreign_message" && g.R.Intn(3) != 0 {
			g.Populate(own.ProtoReflect(), fd, 2)
		}
	}
	c := hcase{Heap: true, Mode: mode, Own: mt.EncodeMsg(own), OwnText: mt.CanonMsg(own), Single: g.R.Intn(3) != 0}
	for i, n := 0, g.R.Intn(3)+1; i < n; i++ {
		s := &testproto.ForeignMessage{C: int32(g.R.Intn(3)), D: int32(g.R.Intn(3))}
		c.Stored, c.Texts = append(c.Stored, mt.EncodeMsg(s)), append(c.Texts, mt.CanonMsg(s))
	}
	focus = append(focus, all.ByName("repeated_foreign_message"), all.ByName("default_foreign_message"))
	switch g.R.Intn(12) {
	case 0:
		c.Mask = mt.NilMask()
	case 1:
		c.Mask = mt.Mask{Paths: []string{}}
	default:
		c.Mask = g.MaskFrom(focus, mt.PathOpts{Corrupt: 0.15})
		for _, extra := range []string{"repeated_foreign_message.c", "default_foreign_message.d", "repeated_foreign_message.d", "default_foreign_message.c"} {
			if g.R.Intn(4) == 0 {
				c.Mask.Paths = append(c.Mask.Paths, extra)
			}
		}
	}
	return c
}

func runHeapCases(cases []hcase, tie *lib.Tie, mon *lib.Monitor, drv *lib.Driver) {
	var lines []string
	for _, c := range cases {
		lines = append(lines, c.line())
	}
	ans, err := drv.Batch(lines)
	if err != nil {
		tie.Fail(err)
		return
	}
	for i, c := range cases {
		cont, heap, pmsg := c.run()
		code := cont + " |"
		for _, h := range heap {
			code += " " + h
		}
		if pmsg != "" {
			code = "panic"
		}
		wrote := false
		for j, h := range heap {
			wrote = wrote || h != c.Texts[j]
		}
		tie.Record(c.key(), !c.Mask.Nil && len(c.Mask.Paths) > 0, c, ans[i], code)
		tie.Count("mode:" + c.Mode)
		tie.Count(fmt.Sprintf("%s:stored-messages-written:%v", c.Mode, wrote))
		mon.Eval(c.key(), c.Mode == "clone" && !c.Mask.Nil && len(c.Mask.Paths) > 0, nil)
		c.monitor(mon, heap, pmsg)
	}
}
