// The lossy stage of a subscription without backpressure (pkg/resource/backpressure.go): mergeChanges
// as a table, and the goroutine of mergeCollectionExcess driven with an EXPLICIT schedule of its two
// select cases (the harness owns both channels and offers only one operation at a time, so every run is
// deterministic), against the Lean model (ScVerif/C06/Lossy.lean: mergeChanges / lossyT) and against a
// plain oracle: whatever the stage hands over carries only values of published changes of that id.
package main

import (
	"encoding/json"
	"fmt"
	"strings"
	"time"

	"google.golang.org/protobuf/proto"

	"github.com/smart-core-os/sc-api/go/types"
	"github.com/smart-core-os/sc-golang/internal/testproto"
	"github.com/smart-core-os/sc-golang/pkg/resource"
	"github.com/smart-core-os/sc-golang/verifharness/cmd/c05/mt"
	"github.com/smart-core-os/sc-golang/verifharness/lib"
)

// lchange is one published change; values are indices into lossyPool (-1: absent).
type lchange struct {
	ID   string `json:"id"`
	Time int64  `json:"time"`
	Type string `json:"type"`
	Old  int    `json:"old"`
	New  int    `json:"new"`
	Seed bool   `json:"seed,omitempty"`
	Last bool   `json:"last_seed,omitempty"`
}

// lcase: Stage: the goroutine under Sched ('t' take the next published change, 'h' hand the front of the
// queue over); else the table: mergeChanges(Published[0], Published[1]).
type lcase struct {
	Lossy     bool      `json:"lossy_stage"`
	Stage     bool      `json:"goroutine"`
	Sched     string    `json:"schedule,omitempty"`
	Published []lchange `json:"published"`
}

func (c lcase) key() string {
	b, _ := json.Marshal(c)
	return "lossy " + string(b)
}

var lossyPool = []*testproto.TestAllTypes{
	{DefaultInt32: 1, DefaultString: "a"},
	{DefaultInt32: 2, DefaultForeignMessage: &testproto.ForeignMessage{C: 1, D: 2}},
	{DefaultString: "b", DefaultForeignMessage: &testproto.ForeignMessage{D: 3}},
	{DefaultInt32: 4, DefaultString: "c", RepeatedInt32: []int32{1, 2}},
	{},
}

func lossyMsg(i int) proto.Message {
	if i < 0 {
		return nil
	}
	return proto.Clone(lossyPool[i%len(lossyPool)])
}

func (l lchange) real() resource.CollectionChange {
	return resource.CollectionChange{Id: l.ID, ChangeTime: time.Unix(l.Time, 0), ChangeType: types.ChangeType(types.ChangeType_value[l.Type]),
		OldValue: lossyMsg(l.Old), NewValue: lossyMsg(l.New), SeedValue: l.Seed, LastSeedValue: l.Last}
}

func (l lchange) tokens() string {
	bit := map[bool]string{false: "0", true: "1"}
	return strings.Join([]string{l.ID, fmt.Sprint(l.Time), l.Type, msgText(lossyMsg(l.Old)), msgText(lossyMsg(l.New)), bit[l.Seed], bit[l.Last]}, " ")
}

func changeText(c resource.CollectionChange) string {
	return strings.Join([]string{c.Id, fmt.Sprint(c.ChangeTime.Unix()), c.ChangeType.String(), msgText(c.OldValue), msgText(c.NewValue), flags(c.SeedValue, c.LastSeedValue)}, "|")
}

func (c lcase) line() string {
	var ps []string
	for _, p := range c.Published {
		ps = append(ps, p.tokens())
	}
	if !c.Stage {
		return "lmerge " + strings.Join(ps, " ")
	}
	s := c.Sched
	if s == "" {
		s = "."
	}
	return strings.TrimSpace("lstage " + s + " " + strings.Join(ps, " "))
}

const lossyQuiet = time.Millisecond

// runStage drives the real goroutine under the schedule; trace is the model's answer (one entry per
// hand-over: `_` = the queue is empty, nothing can be handed over), which tells the harness when a receive
// would block.  The answer is the code's trace in the same format, cut at the first deviation.
func (c lcase) runStage(trace []string) (got []string, handed []resource.CollectionChange) {
	in := make(chan any)
	out := resource.VerifMergeCollectionExcess(in)
	defer close(in)
	next := 0
	k := 0
	take := func() bool {
		if next >= len(c.Published) {
			return true
		}
		ch := c.Published[next].real()
		next++
		select {
		case in <- &ch:
			return true
		case <-time.After(waitFor):
			got = append(got, "the stage did not take a published change: timed out")
			return false
		}
	}
	hand := func() bool {
		want := "_"
		if k < len(trace) {
			want = trace[k]
		}
		k++
		wait := waitFor
		if want == "_" {
			wait = lossyQuiet
		}
		select {
		case v, ok := <-out:
			if !ok {
				got = append(got, "closed")
				return false
			}
			ch := *(v.(*resource.CollectionChange))
			handed = append(handed, ch)
			got = append(got, changeText(ch))
			return want != "_"
		case <-time.After(wait):
			if want == "_" {
				got = append(got, "_")
				return true
			}
			got = append(got, "nothing handed over: timed out")
			return false
		}
	}
	for _, a := range c.Sched {
		ok := true
		if a == 'h' {
			ok = hand()
		} else {
			ok = take()
		}
		if !ok {
			return
		}
	}
	for next < len(c.Published) {
		if !take() {
			return
		}
	}
	for k < len(trace) {
		if !hand() {
			return
		}
	}
	// nothing may be left
	select {
	case v, ok := <-out:
		if ok {
			ch := *(v.(*resource.CollectionChange))
			handed = append(handed, ch)
			got = append(got, changeText(ch))
		}
	case <-time.After(lossyQuiet):
	}
	return
}

func (c lcase) monitor(mon *lib.Monitor, got []string, handed []resource.CollectionChange) {
	site := "C06/lossy-stage"
	for _, g := range got {
		if strings.Contains(g, "timed out") || g == "closed" {
			mon.Violate(site+"/stalled", "the lossy stage of a subscription without backpressure stalled: "+g, c, "every published change is taken, queued changes are handed over", g)
			return
		}
	}
	// the oracle: per id, the values published for it
	vals := map[string]map[string]bool{}
	for _, p := range c.Published {
		if vals[p.ID] == nil {
			vals[p.ID] = map[string]bool{"nil": true}
		}
		vals[p.ID][msgText(lossyMsg(p.Old))] = true
		vals[p.ID][msgText(lossyMsg(p.New))] = true
	}
	for _, h := range handed {
		if !vals[h.Id][msgText(h.OldValue)] || !vals[h.Id][msgText(h.NewValue)] {
			mon.Violate(site+"/value-not-published", "the lossy stage handed over a change whose old or new value no published change of that id carried", c, "values of published changes of "+h.Id, changeText(h))
		}
	}
	if len(handed) > len(c.Published) {
		mon.Violate(site+"/more-than-published", "the lossy stage handed over more changes than were published", c, fmt.Sprint("at most ", len(c.Published)), fmt.Sprint(len(handed)))
	}
}

var lossyKinds = []string{"ADD", "UPDATE", "REMOVE", "REPLACE", "CHANGE_TYPE_UNSPECIFIED"}

// mergeTable: every pair of kinds x last-seed flags, with all four values present and with the values a
// change of that kind normally has.
func mergeTable() []lcase {
	var out []lcase
	for _, ka := range lossyKinds {
		for _, kb := range lossyKinds {
			for f := 0; f < 4; f++ {
				for v := 0; v < 2; v++ {
					a := lchange{ID: "x", Time: 1, Type: ka, Old: 0, New: 1, Last: f&1 != 0, Seed: f&1 != 0}
					b := lchange{ID: "x", Time: 2, Type: kb, Old: 2, New: 3, Last: f&2 != 0}
					if v == 1 {
						for _, l := range []*lchange{&a, &b} {
							if l.Type == "ADD" {
								l.Old = -1
							}
							if l.Type == "REMOVE" {
								l.New = -1
							}
						}
					}
					out = append(out, lcase{Lossy: true, Published: []lchange{a, b}})
				}
			}
		}
	}
	return out
}

func genStageCase(g *mt.Gen) lcase {
	ids := []string{"x", "y", "z"}[:1+g.R.Intn(3)]
	held := map[string]int{}
	present := map[string]bool{}
	c := lcase{Lossy: true, Stage: true}
	n := 1 + g.R.Intn(7)
	for i := 0; i < n; i++ {
		id := ids[g.R.Intn(len(ids))]
		l := lchange{ID: id, Time: int64(i + 1), Old: -1, New: g.R.Intn(len(lossyPool))}
		switch {
		case g.R.Intn(10) == 0:
			l.Type = lossyKinds[g.R.Intn(len(lossyKinds))]
			l.Old = g.R.Intn(len(lossyPool)+1) - 1
		case !present[id]:
			l.Type = "ADD"
			present[id] = true
			if g.R.Intn(6) == 0 {
				l.Seed, l.Last = true, g.R.Intn(2) == 0
			}
		case g.R.Intn(4) == 0:
			l.Type, l.Old, l.New = "REMOVE", held[id], -1
			present[id] = false
		default:
			l.Type, l.Old = "UPDATE", held[id]
		}
		held[id] = l.New
		c.Published = append(c.Published, l)
	}
	// runs of 't' let changes meet in the queue
	var sb strings.Builder
	for sb.Len() < 2*n && g.R.Intn(8) != 0 {
		a := byte('t')
		if g.R.Intn(3) == 0 {
			a = 'h'
		}
		for r := 1 + g.R.Intn(3); r > 0; r-- {
			sb.WriteByte(a)
		}
	}
	c.Sched = sb.String()
	return c
}

func seededStageCases() []lcase {
	upd := func(t int64, o, n int) lchange { return lchange{ID: "x", Time: t, Type: "UPDATE", Old: o, New: n} }
	add := func(id string, t int64, n int) lchange { return lchange{ID: id, Time: t, Type: "ADD", Old: -1, New: n} }
	rem := func(id string, t int64, o int) lchange { return lchange{ID: id, Time: t, Type: "REMOVE", Old: o, New: -1} }
	var out []lcase
	for _, s := range []string{"", "tth", "thth", "ttthh", "htth", "tthhh"} {
		out = append(out,
			lcase{Lossy: true, Stage: true, Sched: s, Published: []lchange{upd(1, 0, 1), upd(2, 1, 2)}},
			lcase{Lossy: true, Stage: true, Sched: s, Published: []lchange{add("x", 1, 0), upd(2, 0, 1), add("y", 3, 2)}},
			lcase{Lossy: true, Stage: true, Sched: s, Published: []lchange{add("x", 1, 0), rem("x", 2, 0), add("y", 3, 2)}},
			lcase{Lossy: true, Stage: true, Sched: s, Published: []lchange{add("y", 1, 3), upd(2, 0, 1), rem("x", 3, 1), add("x", 4, 2)}},
		)
	}
	return out
}

func runLossyCases(cases []lcase, mtie, stie *lib.Tie, mon *lib.Monitor, drv *lib.Driver) {
	var lines []string
	for _, c := range cases {
		lines = append(lines, c.line())
	}
	ans, err := drv.Batch(lines)
	if err != nil {
		stie.Fail(err)
		return
	}
	for i, c := range cases {
		if !c.Stage {
			code := ""
			panicked, pmsg := lib.Catch(func() {
				m, send := resource.VerifMergeChanges(c.Published[0].real(), c.Published[1].real())
				code = "drop"
				if send {
					code = changeText(m)
				}
			})
			if panicked {
				code = "panic: " + pmsg
			}
			mtie.Record(c.key(), true, c, ans[i], code)
			mtie.Count(c.Published[0].Type + "+" + c.Published[1].Type)
			continue
		}
		var trace []string
		if ans[i] != "-" {
			trace = strings.Split(ans[i], " ")
		}
		var got []string
		var handed []resource.CollectionChange
		panicked, pmsg := lib.Catch(func() { got, handed = c.runStage(trace) })
		if panicked {
			got = []string{"panic: " + pmsg}
		}
		code := "-"
		if len(got) > 0 {
			code = strings.Join(got, " ")
		}
		merged := len(handed) < len(c.Published)
		stie.Record(c.key(), merged, c, ans[i], code)
		stie.Count(fmt.Sprintf("published:%d handed-over:%d", len(c.Published), len(handed)))
		for _, t := range trace {
			if t == "_" {
				stie.Count("hand-over-on-empty-queue")
				break
			}
		}
		mon.Eval(c.key(), merged, nil)
		c.monitor(mon, got, handed)
	}
}

func replayLossy(b []byte, driver string) int {
	var c lcase
	if err := json.Unmarshal(b, &c); err != nil || len(c.Published) == 0 {
		fmt.Println("replay: no concrete input in file")
		return 2
	}
	drv, err := lib.StartDriver(driver)
	if err != nil {
		lib.Fatal(err)
	}
	defer drv.Close()
	if a, err := drv.Ask(schema.Line()); err != nil || a != "ok" {
		lib.Fatal(fmt.Errorf("driver rejected the schema: %q %v", a, err))
	}
	ans, err := drv.Ask(c.line())
	if err != nil {
		lib.Fatal(err)
	}
	m := lib.NewMonitor("replay", "")
	if !c.Stage {
		fmt.Println("replay: a row of the mergeChanges table has no monitor (model answer: " + ans + ")")
		return 2
	}
	var trace []string
	if ans != "-" {
		trace = strings.Split(ans, " ")
	}
	got, handed := c.runStage(trace)
	c.monitor(m, got, handed)
	fmt.Printf("replay lossy stage schedule=%q published=%d\n  model: %s\n  code : %s\n", c.Sched, len(c.Published), ans, strings.Join(got, " "))
	return reportReplay(m)
}
