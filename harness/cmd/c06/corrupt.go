// Corrupted mask paths derived from the DESCRIPTOR GRAPH.
//
// The property's corrupted masks are "unknown segment, continuation through scalar / map / repeated
// fields".  What follows the field that cannot be continued matters: a validator that walks the
// descriptors by hand resolves the next segment in whatever protoreflect hands it for that field —
// for a map field the synthetic map-entry message (fields `key` and `value`, and below `value` the
// fields of a message-typed map value), for a repeated message field the element message — unless it
// asks for the field's cardinality first.  So besides an arbitrary segment (`.x`, `.zz`) every
// non-continuable field is also continued with each name the descriptor graph offers at that spot,
// and with a few names that merely look plausible (`key`, `value`, an index, a map key).
//
// The family is enumerated per root message to depth 3 through singular messages, grouped by KIND; a
// draw picks a kind first and then a path of that kind, so that rare kinds are driven as often as
// common ones.  It is used for resource.WithReadPaths (options.go: the option panics on every one of
// them, like fieldmaskpb.New does), for masks handed to WithReadMask / ResponseFilter (main.go:
// Validate reports them, no read panics) and for the fixed families that run first.
package main

import (
	"sort"
	"strings"
	"sync"

	"google.golang.org/protobuf/proto"
	"google.golang.org/protobuf/reflect/protoreflect"

	"github.com/smart-core-os/sc-golang/verifharness/cmd/c05/mt"
)

type corruptFamily struct {
	Kinds  []string            // sorted
	ByKind map[string][]string // paths, in enumeration order
}

var (
	corruptMu    sync.Mutex
	corruptCache = map[protoreflect.FullName]*corruptFamily{}
)

// corruptionsOf enumerates the descriptor-derived corruptions of md's path tree.
func corruptionsOf(md protoreflect.MessageDescriptor) *corruptFamily {
	corruptMu.Lock()
	defer corruptMu.Unlock()
	if f := corruptCache[md.FullName()]; f != nil {
		return f
	}
	f := &corruptFamily{ByKind: map[string][]string{}}
	add := func(kind, path string) { f.ByKind[kind] = append(f.ByKind[kind], path) }
	// names the descriptor graph offers below fd when its cardinality is ignored, to depth 2
	below := func(fd protoreflect.FieldDescriptor) (one, two []string) {
		sub := fd.Message()
		if sub == nil {
			return nil, nil
		}
		for i := 0; i < sub.Fields().Len(); i++ {
			c := sub.Fields().Get(i)
			one = append(one, string(c.Name()))
			if cm := c.Message(); cm != nil {
				for j := 0; j < cm.Fields().Len() && j < 6; j++ {
					two = append(two, string(c.Name())+"."+string(cm.Fields().Get(j).Name()))
				}
			}
		}
		return one, two
	}
	var walk func(md protoreflect.MessageDescriptor, prefix string, depth int)
	walk = func(md protoreflect.MessageDescriptor, prefix string, depth int) {
		add("unknown/last", prefix+"nope")
		for i := 0; i < md.Fields().Len(); i++ {
			fd := md.Fields().Get(i)
			p := prefix + string(fd.Name())
			one, two := below(fd)
			switch {
			case fd.IsMap():
				add("map/arbitrary-key", p+".k")
				add("map/arbitrary-key", p+".1")
				for _, n := range one { // key, value
					add("map/entry-field", p+"."+n)
				}
				for _, n := range two { // value.<field of the message-typed map value>
					add("map/entry-field/value-child", p+"."+n)
				}
				if vm := fd.MapValue().Message(); vm != nil && vm.Fields().Len() > 0 {
					add("map/key-then-value-child", p+".k."+string(vm.Fields().Get(0).Name()))
				}
				add("map/entry-field/unknown-child", p+".value.zz")
			case fd.IsList() && fd.Message() != nil:
				for _, n := range one {
					add("repeated-message/element-field", p+"."+n)
				}
				for j, n := range two {
					if j < 4 {
						add("repeated-message/element-field/child", p+"."+n)
					}
				}
				add("repeated-message/unknown-child", p+".zz")
				add("repeated-message/index", p+".0")
			case fd.IsList():
				add("repeated-scalar/continued", p+".x")
				add("repeated-scalar/continued", p+".0")
				add("repeated-scalar/continued", p+".value")
			case fd.Message() != nil:
				add("message/unknown-child", p+".zz")
				add("syntax/trailing-dot", p+".")
				if depth > 1 {
					walk(fd.Message(), p+".", depth-1)
				}
			default:
				add("scalar/continued", p+".x")
				add("scalar/continued", p+".value")
				add("scalar/continued", p+".key")
				if prefix != "" {
					add("syntax/double-dot", strings.TrimSuffix(prefix, ".")+".."+string(fd.Name()))
				}
			}
		}
	}
	walk(md, "", 3)
	add("syntax/empty", "")
	for k := range f.ByKind {
		f.Kinds = append(f.Kinds, k)
	}
	sort.Strings(f.Kinds)
	corruptCache[md.FullName()] = f
	return f
}

// draw picks a kind, then a path of that kind.
func (f *corruptFamily) draw(g *mt.Gen) (path, kind string) {
	kind = f.Kinds[g.R.Intn(len(f.Kinds))]
	ps := f.ByKind[kind]
	return ps[g.R.Intn(len(ps))], kind
}

// firstOfEachKind: the shallowest representative(s) of every kind, for the fixed families.
func (f *corruptFamily) firstOfEachKind(per int) []string {
	var out []string
	for _, k := range f.Kinds {
		ps := append([]string(nil), f.ByKind[k]...)
		sort.SliceStable(ps, func(i, j int) bool { return strings.Count(ps[i], ".") < strings.Count(ps[j], ".") })
		for i := 0; i < per && i < len(ps); i++ {
			out = append(out, ps[i])
		}
	}
	return out
}

// invalidKind names why fieldmaskpb rejects a path (for signatures); "" if it is valid.
func invalidKind(md protoreflect.MessageDescriptor, path string) string {
	pi := mt.Classify(md, path)
	switch {
	case pi.Valid:
		return ""
	case pi.ThroughBad:
		return "continues-through-" + pi.BadKind
	case pi.ThroughList:
		return "continues-through-repeated-message"
	case pi.Unknown:
		for _, s := range mt.Segs(path) {
			if s == "" {
				return "empty-segment"
			}
		}
		return "unknown-segment"
	}
	return "invalid"
}

// populateAlong makes the message hold data where a path runs into it (the no-panic clause is about
// masks that meet populated fields): it walks the segments through singular messages, creating them,
// and populates the first field that is not one.  For a string-keyed map that the path continues
// through, half of the time an entry is stored under the very name the path continues with (a map
// holding the key "value" or "key").
func populateAlong(g *mt.Gen, m protoreflect.Message, path string) {
	segs := mt.Segs(path)
	for i, s := range segs {
		fd := m.Descriptor().Fields().ByName(protoreflect.Name(s))
		if fd == nil {
			return
		}
		if fd.Message() != nil && !fd.IsList() && !fd.IsMap() {
			m = m.Mutable(fd).Message()
			continue
		}
		g.Populate(m, fd, 2)
		if fd.IsMap() && fd.MapKey().Kind() == protoreflect.StringKind && i+1 < len(segs) && segs[i+1] != "" && g.R.Intn(2) == 0 {
			mp := m.Mutable(fd).Map()
			var v protoreflect.Value
			mp.Range(func(_ protoreflect.MapKey, x protoreflect.Value) bool { v = x; return false })
			if v.IsValid() {
				if fd.MapValue().Message() != nil {
					v = protoreflect.ValueOfMessage(proto.Clone(v.Message().Interface()).ProtoReflect())
				}
				mp.Set(protoreflect.ValueOfString(segs[i+1]).MapKey(), v)
			}
		}
		return
	}
}

// corruptSweep: WithReadPaths handed one corruption of the family each — every path of every kind of
// every root when all is set, n draws (kind first) otherwise — alone, after a mask, or next to a valid
// path and followed by WithReadMask(nil); mostly at ComputeReadConfig, the rest at the reading sites.
func corruptSweep(g *mt.Gen, n int, all bool) []ocase {
	var out []ocase
	one := func(r root, bad string) {
		md := r.MD()
		msg := g.Msg(md, r.New, g.Focus(md, 2))
		populateAlong(g, msg.ProtoReflect(), bad)
		c := ocase{Root: r.Name, Site: "ComputeReadConfig", Msg: mt.EncodeMsg(msg), MsgText: mt.CanonMsg(msg)}
		if g.R.Intn(4) == 0 {
			c.Site = optionSites[1+g.R.Intn(len(optionSites)-2)] // not NewResponseFilter
		}
		valid := g.MaskFrom(g.Focus(md, 2), mt.PathOpts{Corrupt: 0})
		switch g.R.Intn(3) {
		case 0:
			c.Options = []string{"P/" + bad}
		case 1:
			c.Options = []string{"M" + valid.Enc(), "P/" + bad}
		default:
			c.Options = []string{"P" + valid.Enc() + "/" + bad, "M~"}
		}
		out = append(out, c)
	}
	if all {
		for _, r := range roots {
			f := corruptionsOf(r.MD())
			for _, k := range f.Kinds {
				for _, p := range f.ByKind[k] {
					one(r, p)
				}
			}
		}
		return out
	}
	for i := 0; i < n; i++ {
		r := roots[0]
		if i%4 == 3 {
			r = roots[1+g.R.Intn(len(roots)-1)]
		}
		bad, _ := corruptionsOf(r.MD()).draw(g)
		one(r, bad)
	}
	return out
}
