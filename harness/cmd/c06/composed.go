// Trait-level readers that take a read mask and COMPOSE their response (build a message or a page from
// stored items and then project it with masks.ResponseFilter / ReadRequest.FilterClone), or hand the
// mask to the resource below: for every such reader the masked read must equal the independent
// projection of the UNMASKED read of the same instance, must not change what later unmasked reads
// return (stored state), and must not change messages returned earlier.
package main

import (
	"context"
	"fmt"
	"reflect"
	"go/ast"
	"go/parser"
	"go/token"
	"os"
	"path/filepath"
	"sort"
	"strings"
	"time"

	"google.golang.org/protobuf/proto"
	"google.golang.org/protobuf/reflect/protoreflect"
	"google.golang.org/protobuf/types/known/fieldmaskpb"

	"github.com/smart-core-os/sc-api/go/traits"
	"github.com/smart-core-os/sc-golang/pkg/resource"
	"github.com/smart-core-os/sc-golang/pkg/trait/bookingpb"
	"github.com/smart-core-os/sc-golang/pkg/trait/electricpb"
	"github.com/smart-core-os/sc-golang/pkg/trait/hailpb"
	"github.com/smart-core-os/sc-golang/pkg/trait/openclosepb"
	"github.com/smart-core-os/sc-golang/pkg/trait/parentpb"
	"github.com/smart-core-os/sc-golang/pkg/trait/publicationpb"
	"github.com/smart-core-os/sc-golang/pkg/trait/vendingpb"
	"github.com/smart-core-os/sc-golang/pkg/trait/wastepb"
	"github.com/smart-core-os/sc-golang/verifharness/cmd/c05/mt"
	"github.com/smart-core-os/sc-golang/verifharness/lib"
)

// instance is one populated model behind a reader.
type instance struct {
	// Read returns the messages the mask applies to: one for a Get, the items of the page for a List.
	Read func(mask *fieldmaskpb.FieldMask) []proto.Message
	// Pull (optional) subscribes with the mask; every delivered message the mask applies to.
	Pull func(ctx context.Context, mask *fieldmaskpb.FieldMask) <-chan proto.Message
	// Write (optional) performs ONE stored change (at most one event for a subscriber).
	Write func(g *mt.Gen)
	// Stream (optional) opens the server-streaming Pull RPC of the same service through the in-process
	// wrapper with the mask (updates_only off) and returns the client stream (has Recv); StreamName names
	// the RPC; Seeds is the number of values the stream delivers before it waits for changes.
	Stream     func(ctx context.Context, mask *fieldmaskpb.FieldMask) (any, error)
	StreamName string
	Seeds      func() int
	// Key / Marker (set by wire): the item's identifying field; Marker creates a fresh recognisable item and
	// returns its key (mode "updates")
	Key    string
	Marker func(i int, g *mt.Gen) string
	// Hold (set by wire; else Write): the write that is begun and HELD between storing its value and publishing
	// its change while streams open — a random stored change, or, for a service that streams one value, the
	// creation of an item
	Hold func(g *mt.Gen)
	// History (optional; wastepb): every record the model has appended, oldest first
	History func() []proto.Message
}

func (inst *instance) hold() func(g *mt.Gen) {
	if inst.Hold != nil {
		return inst.Hold
	}
	return inst.Write
}

// creader is one trait-level reader; Funcs names the source functions it drives (package.Func), used to
// report composing call sites found in the source tree that no row drives.
type creader struct {
	Name  string
	Item  func() proto.Message // the message type the read mask is relative to
	Funcs []string
	Build func(g *mt.Gen) *instance
}

var bg = context.Background()

func must[T any](v T, err error) T {
	if err != nil {
		panic(err)
	}
	return v
}

func fillItem(g *mt.Gen, m proto.Message) {
	for i := 0; i < 3; i++ {
		g.Fill(m.ProtoReflect(), 2, 4)
	}
}

func asMsgs[T proto.Message](xs []T) []proto.Message {
	out := make([]proto.Message, len(xs))
	for i, x := range xs {
		out[i] = x
	}
	return out
}

var directions = []traits.OpenClosePosition_Direction{
	traits.OpenClosePosition_DIRECTION_UNSPECIFIED, traits.OpenClosePosition_UP, traits.OpenClosePosition_DOWN,
	traits.OpenClosePosition_LEFT, traits.OpenClosePosition_RIGHT,
}

func genPosition(g *mt.Gen, dir traits.OpenClosePosition_Direction) *traits.OpenClosePosition {
	p := &traits.OpenClosePosition{}
	fillItem(g, p)
	p.Direction = dir
	return p
}

// buildOpenClose: 0-3 stored positions, 0-2 presets, the first of which usually matches the stored
// positions (so that the unmasked read reports a derived preset).
func buildOpenClose(g *mt.Gen) *openclosepb.Model {
	if composedStart != "" {
		// nothing stored yet; "empty+derived": a preset WITHOUT positions is configured (it stands for "no positions",
		// so the derived preset field is non-empty on the empty store), next to one with a position
		var opts []resource.Option
		if composedStart == "empty+derived" {
			opts = append(opts, openclosepb.WithPreset(&traits.OpenClosePositions_Preset{Name: "idle", Title: "Nothing deployed"}))
		}
		opts = append(opts, openclosepb.WithPreset(&traits.OpenClosePositions_Preset{Name: "p1", Title: "Preset 1"},
			&traits.OpenClosePosition{Direction: traits.OpenClosePosition_UP, OpenPercent: 40}))
		return openclosepb.NewModel(opts...)
	}
	var states []*traits.OpenClosePosition
	n := g.R.Intn(4)
	if g.R.Intn(3) == 0 {
		n = 1 + g.R.Intn(2)
	}
	for _, i := range g.R.Perm(len(directions))[:n] {
		states = append(states, genPosition(g, directions[i]))
	}
	cloneStates := func() []*traits.OpenClosePosition {
		var out []*traits.OpenClosePosition
		for _, s := range states {
			out = append(out, proto.Clone(s).(*traits.OpenClosePosition))
		}
		return out
	}
	opts := []resource.Option{openclosepb.WithInitialPositions(cloneStates()...)}
	for i, np := 0, g.R.Intn(3); i < np; i++ {
		desc := &traits.OpenClosePositions_Preset{Name: fmt.Sprintf("p%d", i), Title: fmt.Sprintf("Preset %d", i)}
		if i == 0 && g.R.Intn(4) != 0 {
			opts = append(opts, openclosepb.WithPreset(desc, cloneStates()...))
		} else {
			opts = append(opts, openclosepb.WithPreset(desc, genPosition(g, directions[g.R.Intn(len(directions))])))
		}
	}
	return openclosepb.NewModel(opts...)
}

func openCloseWrite(m *openclosepb.Model) func(g *mt.Gen) {
	return func(g *mt.Gen) {
		p := genPosition(g, directions[g.R.Intn(len(directions))])
		if _, err := m.UpdatePositions(&traits.OpenClosePositions{States: []*traits.OpenClosePosition{p}}); err != nil {
			panic(err)
		}
	}
}

func pageOf[T proto.Message](items []T, err error) []proto.Message {
	if err != nil {
		panic(err)
	}
	return asMsgs(items)
}

var creaders = []creader{
	{"openclosepb.Model.GetPositions", func() proto.Message { return &traits.OpenClosePositions{} },
		[]string{"openclosepb.GetPositions"},
		func(g *mt.Gen) *instance {
			m := buildOpenClose(g)
			return &instance{
				Read: func(mask *fieldmaskpb.FieldMask) []proto.Message {
					if mask == nil {
						return []proto.Message{must(m.GetPositions())}
					}
					return []proto.Message{must(m.GetPositions(resource.WithReadMask(mask)))}
				},
				Write: openCloseWrite(m),
			}
		}},
	{"openclosepb.ModelServer.GetPositions", func() proto.Message { return &traits.OpenClosePositions{} },
		[]string{"openclosepb.GetPositions"},
		func(g *mt.Gen) *instance {
			m := buildOpenClose(g)
			s := openclosepb.NewModelServer(m)
			return &instance{
				Read: func(mask *fieldmaskpb.FieldMask) []proto.Message {
					return []proto.Message{must(s.GetPositions(bg, &traits.GetOpenClosePositionsRequest{Name: "dev", ReadMask: mask}))}
				},
				StreamName: "openclosepb.ModelServer.PullPositions",
				Stream: func(ctx context.Context, mask *fieldmaskpb.FieldMask) (any, error) {
					return openclosepb.WrapApi(s).PullPositions(ctx, &traits.PullOpenClosePositionsRequest{Name: "dev", ReadMask: mask})
				},
				Seeds: func() int { return 1 },
				Write: openCloseWrite(m),
			}
		}},
	{"openclosepb.Model.PullPositions", func() proto.Message { return &traits.OpenClosePositions{} },
		[]string{"openclosepb.PullPositions"},
		func(g *mt.Gen) *instance {
			m := buildOpenClose(g)
			return &instance{
				Read: func(mask *fieldmaskpb.FieldMask) []proto.Message {
					return []proto.Message{must(m.GetPositions(resource.WithReadMask(mask)))}
				},
				Pull: func(ctx context.Context, mask *fieldmaskpb.FieldMask) <-chan proto.Message {
					out := make(chan proto.Message)
					var ropts []resource.ReadOption
					if mask != nil {
						ropts = append(ropts, resource.WithReadMask(mask))
					}
					if composedUpdatesOnly {
						ropts = append(ropts, resource.WithUpdatesOnly(true))
					}
					in := m.PullPositions(ctx, ropts...)
					go func() {
						defer close(out)
						for c := range in {
							select {
							case out <- c.Positions:
							case <-ctx.Done():
								return
							}
						}
					}()
					return out
				},
				Write: openCloseWrite(m),
			}
		}},
	{"electricpb.ModelServer.ListModes", func() proto.Message { return &traits.ElectricMode{} },
		[]string{"electricpb.ListModes"},
		func(g *mt.Gen) *instance {
			m := electricpb.NewModel()
			for i, n := 0, nStored(g, 1, 3); i < n; i++ {
				x := &traits.ElectricMode{}
				fillItem(g, x)
				x.Id, x.Normal = "", false
				must(m.CreateMode(x))
			}
			s := electricpb.NewModelServer(m)
			inst := &instance{Read: func(mask *fieldmaskpb.FieldMask) []proto.Message {
				r, err := s.ListModes(bg, &traits.ListModesRequest{Name: "dev", ReadMask: mask})
				return pageOf(r.GetModes(), err)
			}}
			inst.StreamName = "electricpb.ModelServer.PullModes"
			inst.Stream = func(ctx context.Context, mask *fieldmaskpb.FieldMask) (any, error) {
				return electricpb.WrapApi(s).PullModes(ctx, &traits.PullModesRequest{Name: "dev", ReadMask: mask})
			}
			inst.Seeds = func() int { return len(inst.Read(nil)) }
			wire(inst, crud{Key: "id", GenID: true, NewItem: func() proto.Message { return &traits.ElectricMode{} },
				Create: func(x proto.Message) (proto.Message, error) { return m.CreateMode(x.(*traits.ElectricMode)) },
				Update: func(x proto.Message) error { _, err := m.UpdateMode(x.(*traits.ElectricMode)); return err },
				Delete: func(id string) error { return m.DeleteMode(id) }})
			return inst
		}},
	{"hailpb.ModelServer.ListHails", func() proto.Message { return &traits.Hail{} },
		[]string{"hailpb.ListHails"},
		func(g *mt.Gen) *instance {
			m := hailpb.NewModel(hailpb.WithKeepAlive(-1))
			for i, n := 0, nStored(g, 1, 3); i < n; i++ {
				x := &traits.Hail{}
				fillItem(g, x)
				x.Id = ""
				must(m.CreateHail(x))
			}
			s := hailpb.NewModelServer(m)
			inst := &instance{Read: func(mask *fieldmaskpb.FieldMask) []proto.Message {
				r, err := s.ListHails(bg, &traits.ListHailsRequest{Name: "dev", ReadMask: mask})
				return pageOf(r.GetHails(), err)
			}}
			inst.StreamName = "hailpb.ModelServer.PullHails"
			inst.Stream = func(ctx context.Context, mask *fieldmaskpb.FieldMask) (any, error) {
				return hailpb.WrapApi(s).PullHails(ctx, &traits.PullHailsRequest{Name: "dev", ReadMask: mask})
			}
			inst.Seeds = func() int { return len(inst.Read(nil)) }
			wire(inst, crud{Key: "id", GenID: true, NewItem: func() proto.Message { return &traits.Hail{} },
				Create: func(x proto.Message) (proto.Message, error) { return m.CreateHail(x.(*traits.Hail)) },
				Update: func(x proto.Message) error { _, err := m.UpdateHail(x.(*traits.Hail)); return err },
				Delete: func(id string) error { _, err := m.DeleteHail(id); return err }})
			return inst
		}},
	{"publicationpb.ModelServer.ListPublications", func() proto.Message { return &traits.Publication{} },
		[]string{"publicationpb.ListPublications"},
		func(g *mt.Gen) *instance {
			m := publicationpb.NewModel()
			for i, n := 0, nStored(g, 1, 3); i < n; i++ {
				x := &traits.Publication{}
				fillItem(g, x)
				x.Id = fmt.Sprintf("pub%d", i)
				must(m.CreatePublication(x))
			}
			s := publicationpb.NewModelServer(m)
			inst := &instance{Read: func(mask *fieldmaskpb.FieldMask) []proto.Message {
				r, err := s.ListPublications(bg, &traits.ListPublicationsRequest{Name: "dev", ReadMask: mask})
				return pageOf(r.GetPublications(), err)
			}}
			inst.StreamName = "publicationpb.ModelServer.PullPublications"
			inst.Stream = func(ctx context.Context, mask *fieldmaskpb.FieldMask) (any, error) {
				return publicationpb.WrapApi(s).PullPublications(ctx, &traits.PullPublicationsRequest{Name: "dev", ReadMask: mask})
			}
			inst.Seeds = func() int { return len(inst.Read(nil)) }
			wire(inst, crud{Key: "id", NewItem: func() proto.Message { return &traits.Publication{} },
				Create: func(x proto.Message) (proto.Message, error) { return m.CreatePublication(x.(*traits.Publication)) },
				Update: func(x proto.Message) error { _, err := m.UpdatePublication(x.(*traits.Publication).Id, x.(*traits.Publication)); return err },
				Delete: func(id string) error { _, err := m.DeletePublication(id); return err }})
			return inst
		}},
	{"vendingpb.ModelServer.ListConsumables", func() proto.Message { return &traits.Consumable{} },
		[]string{"vendingpb.ListConsumables"},
		func(g *mt.Gen) *instance {
			m := vendingpb.NewModel()
			for i, n := 0, nStored(g, 1, 3); i < n; i++ {
				x := &traits.Consumable{}
				fillItem(g, x)
				x.Name = fmt.Sprintf("c%d", i)
				must(m.CreateConsumable(x))
			}
			s := vendingpb.NewModelServer(m)
			inst := &instance{Read: func(mask *fieldmaskpb.FieldMask) []proto.Message {
				r, err := s.ListConsumables(bg, &traits.ListConsumablesRequest{Name: "dev", ReadMask: mask})
				return pageOf(r.GetConsumables(), err)
			}}
			inst.StreamName = "vendingpb.ModelServer.PullConsumables"
			inst.Stream = func(ctx context.Context, mask *fieldmaskpb.FieldMask) (any, error) {
				return vendingpb.WrapApi(s).PullConsumables(ctx, &traits.PullConsumablesRequest{Name: "dev", ReadMask: mask})
			}
			inst.Seeds = func() int { return len(inst.Read(nil)) }
			wire(inst, crud{Key: "name", NewItem: func() proto.Message { return &traits.Consumable{} },
				Create: func(x proto.Message) (proto.Message, error) { return m.CreateConsumable(x.(*traits.Consumable)) },
				Update: func(x proto.Message) error { _, err := m.UpdateConsumable(x.(*traits.Consumable)); return err },
				Delete: func(id string) error { _, err := m.DeleteConsumable(id); return err }})
			return inst
		}},
	{"vendingpb.ModelServer.ListInventory", func() proto.Message { return &traits.Consumable_Stock{} },
		[]string{"vendingpb.ListInventory"},
		func(g *mt.Gen) *instance {
			m := vendingpb.NewModel()
			for i, n := 0, nStored(g, 1, 3); i < n; i++ {
				x := &traits.Consumable_Stock{}
				fillItem(g, x)
				x.Consumable = fmt.Sprintf("c%d", i)
				must(m.CreateStock(x))
			}
			s := vendingpb.NewModelServer(m)
			inst := &instance{Read: func(mask *fieldmaskpb.FieldMask) []proto.Message {
				r, err := s.ListInventory(bg, &traits.ListInventoryRequest{Name: "dev", ReadMask: mask})
				return pageOf(r.GetInventory(), err)
			}}
			inst.StreamName = "vendingpb.ModelServer.PullInventory"
			inst.Stream = func(ctx context.Context, mask *fieldmaskpb.FieldMask) (any, error) {
				return vendingpb.WrapApi(s).PullInventory(ctx, &traits.PullInventoryRequest{Name: "dev", ReadMask: mask})
			}
			inst.Seeds = func() int { return len(inst.Read(nil)) }
			wire(inst, crud{Key: "consumable", NewItem: func() proto.Message { return &traits.Consumable_Stock{} },
				Create: func(x proto.Message) (proto.Message, error) { return m.CreateStock(x.(*traits.Consumable_Stock)) },
				Update: func(x proto.Message) error { _, err := m.UpdateStock(x.(*traits.Consumable_Stock)); return err },
				Delete: func(id string) error { _, err := m.DeleteStock(id); return err }})
			return inst
		}},
	{"parentpb.ModelServer.ListChildren", func() proto.Message { return &traits.Child{} },
		[]string{"parentpb.ListChildren"},
		func(g *mt.Gen) *instance {
			m := parentpb.NewModel()
			for i, n := 0, nStored(g, 1, 3); i < n; i++ {
				x := &traits.Child{}
				fillItem(g, x)
				x.Name = fmt.Sprintf("child%d", i)
				sort.Slice(x.Traits, func(a, b int) bool { return x.Traits[a].Name < x.Traits[b].Name })
				m.AddChild(x)
			}
			s := parentpb.NewModelServer(m)
			inst := &instance{Read: func(mask *fieldmaskpb.FieldMask) []proto.Message {
				r, err := s.ListChildren(bg, &traits.ListChildrenRequest{Name: "dev", ReadMask: mask})
				return pageOf(r.GetChildren(), err)
			}}
			inst.StreamName = "parentpb.ModelServer.PullChildren"
			inst.Stream = func(ctx context.Context, mask *fieldmaskpb.FieldMask) (any, error) {
				return parentpb.WrapApi(s).PullChildren(ctx, &traits.PullChildrenRequest{Name: "dev", ReadMask: mask})
			}
			inst.Seeds = func() int { return len(inst.Read(nil)) }
			wire(inst, crud{Key: "name", NewItem: func() proto.Message { return &traits.Child{} },
				Create: func(x proto.Message) (proto.Message, error) { m.AddChild(x.(*traits.Child)); return x, nil },
				Update: func(x proto.Message) error { m.AddChildTrait(x.(*traits.Child).Name, "smartcore.verif.Extra"); return nil },
				Delete: func(id string) error { _, err := m.RemoveChildByName(id); return err }})
			return inst
		}},
	{"bookingpb.ModelServer.ListBookings", func() proto.Message { return &traits.Booking{} },
		[]string{"bookingpb.ListBookings"},
		func(g *mt.Gen) *instance {
			m := bookingpb.NewModel()
			for i, n := 0, nStored(g, 1, 3); i < n; i++ {
				x := &traits.Booking{}
				fillItem(g, x)
				x.Id = fmt.Sprintf("b%d", i)
				must(m.CreateBooking(x))
			}
			s := bookingpb.NewModelServer(m)
			inst := &instance{Read: func(mask *fieldmaskpb.FieldMask) []proto.Message {
				r, err := s.ListBookings(bg, &traits.ListBookingsRequest{Name: "dev", ReadMask: mask})
				return pageOf(r.GetBookings(), err)
			}}
			inst.StreamName = "bookingpb.ModelServer.PullBookings"
			inst.Stream = func(ctx context.Context, mask *fieldmaskpb.FieldMask) (any, error) {
				return bookingpb.WrapApi(s).PullBookings(ctx, &traits.ListBookingsRequest{Name: "dev", ReadMask: mask})
			}
			inst.Seeds = func() int { return len(inst.Read(nil)) }
			wire(inst, crud{Key: "id", NewItem: func() proto.Message { return &traits.Booking{} },
				Create: func(x proto.Message) (proto.Message, error) { return m.CreateBooking(x.(*traits.Booking)) },
				Update: func(x proto.Message) error { _, err := m.UpdateBooking(x.(*traits.Booking)); return err }})
			return inst
		}},
	{"wastepb.ModelServer.ListWasteRecords", func() proto.Message { return &traits.WasteRecord{} },
		[]string{"wastepb.ListWasteRecords", "wastepb.pullWasteRecordsWrapper"},
		func(g *mt.Gen) *instance {
			m := wastepb.NewModel() // comes with generated records
			for i, n := 0, nStored(g, 1, 2); i < n; i++ {
				x := &traits.WasteRecord{}
				fillItem(g, x)
				x.Id = fmt.Sprintf("w%d", i)
				must(m.AddWasteRecord(x))
			}
			s := wastepb.NewModelServer(m)
			inst := &instance{Read: func(mask *fieldmaskpb.FieldMask) []proto.Message {
				r, err := s.ListWasteRecords(bg, &traits.ListWasteRecordsRequest{Name: "dev", ReadMask: mask, PageSize: 4})
				return pageOf(r.GetWasteRecords(), err)
			}}
			inst.StreamName = "wastepb.ModelServer.PullWasteRecords"
			inst.Stream = func(ctx context.Context, mask *fieldmaskpb.FieldMask) (any, error) {
				return wastepb.WrapApi(s).PullWasteRecords(ctx, &traits.PullWasteRecordsRequest{Name: "dev", ReadMask: mask})
			}
			inst.Seeds = func() int { n := m.GetWasteRecordCount(); if n > 50 { n = 50 }; return n }
			inst.History = func() []proto.Message {
				n := m.GetWasteRecordCount()
				rs := m.ListWasteRecords(n, n) // latest first
				out := make([]proto.Message, len(rs))
				for i, r := range rs {
					out[len(rs)-1-i] = r
				}
				return out
			}
			wire(inst, crud{Key: "id", MarkerOnly: true, NewItem: func() proto.Message { return &traits.WasteRecord{} },
				Create: func(x proto.Message) (proto.Message, error) { return m.AddWasteRecord(x.(*traits.WasteRecord)) }})
			return inst
		}},
}

func readerByName(n string) (creader, bool) {
	for _, r := range creaders {
		if r.Name == n {
			return r, true
		}
	}
	return creader{}, false
}

// ccase is one masked read through a trait-level reader; the instance is rebuilt from SetupSeed.
type ccase struct {
	Reader    string  `json:"reader"`
	Mode      string  `json:"mode"` // "read" | "pull"
	SetupSeed int64   `json:"setup_seed"`
	Mask      mt.Mask `json:"read_mask"`
	Writes    int     `json:"writes,omitempty"`
	Pending   bool    `json:"first_write_pending,omitempty"` // modes updates, pull and seeds: a write has stored but not published when the streams open
	Unmasked  string  `json:"unmasked,omitempty"` // what the unmasked read returned (information for the reader of a replay)
	// Start: "" = an instance populated at random from SetupSeed; "empty" = nothing stored yet (empty collection /
	// never-written value), no derived configuration; "empty+derived" = nothing stored yet AND the configuration that
	// makes a derived field non-empty on an empty store (openclosepb: a preset without positions)
	Start string `json:"start,omitempty"`
	// UpdatesOnly (mode pull): the subscription is opened with WithUpdatesOnly(true): no seed may be delivered
	UpdatesOnly bool `json:"updates_only,omitempty"`
}

// composedStart / composedUpdatesOnly: the Start / UpdatesOnly of the case being run, read by the builders (cases
// run one after the other).
var (
	composedStart       string
	composedUpdatesOnly bool
)

// nStored draws the number of items a builder stores (the draw is made in every start mode, so that the random
// stream of an instance does not depend on it); nothing is stored when the case starts empty.
func nStored(g *mt.Gen, lo, span int) int {
	n := lo + g.R.Intn(span)
	if composedStart != "" {
		return 0
	}
	return n
}

func (c ccase) key() string {
	k := fmt.Sprintf("composed %s %s %d %s %d %v", c.Reader, c.Mode, c.SetupSeed, c.Mask.Enc(), c.Writes, c.Pending)
	if c.Start != "" || c.UpdatesOnly {
		k += fmt.Sprintf(" %s %v", c.Start, c.UpdatesOnly)
	}
	return k
}

type cout struct {
	Panic string
	// Raw[i] is the unmasked message Got[i] must be the projection of
	Raw, Got []proto.Message
	Roles    []string
	Mutated  string // a later unmasked read differs / an earlier result changed
	Stream   string // pull: missing or unexpected events
	Dropped  int    // updates: changes the masked stream left out because both projections were equal
	Held     bool   // updates: the pending first write was held between its commit and its publication
	Hist     []proto.Message // seeds: the model's history when the streams opened (readers with a History)
}

func canonAll(ms []proto.Message) string {
	var xs []string
	for _, m := range ms {
		xs = append(xs, msgText(m))
	}
	return "[" + strings.Join(xs, " ") + "]"
}

func cloneAll(ms []proto.Message) []proto.Message {
	out := make([]proto.Message, len(ms))
	for i, m := range ms {
		out[i] = clone(m)
	}
	return out
}

func (c ccase) run() cout {
	r, ok := readerByName(c.Reader)
	if !ok {
		return cout{Panic: "unknown reader " + c.Reader}
	}
	var out cout
	panicked, pmsg := lib.Catch(func() {
		g := &mt.Gen{R: lib.NewRand(c.SetupSeed)}
		composedStart, composedUpdatesOnly = c.Start, c.UpdatesOnly
		defer func() { composedStart, composedUpdatesOnly = "", false }()
		inst := r.Build(g)
		fm := c.Mask.FM()
		if c.Mode == "pull" {
			c.runPull(g, inst, &out)
			return
		}
		if c.Mode == "updates" {
			c.runUpdates(g, inst, &out)
			return
		}
		if c.Mode == "seeds" {
			// Pending: a write is begun BEFORE the streams open and held between storing its value and publishing its
			// change (and whatever the model does after that: wastepb appends the record to its history only then):
			// both streams are seeded from a model that is in the middle of a write
			if h := inst.hold(); c.Pending && h != nil {
				park := newParker("coll.update.beforeSend", "value.set.beforeSend")
				defer park.close()
				pend := park.start("pending write", func() error { h(g); return nil })
				out.Held = pend.held
				defer func() {
					if out.Panic == "" {
						pend.finish("pending write")
					}
				}()
			}
			n := inst.Seeds()
			before := cloneAll(inst.Read(nil))
			if inst.History != nil {
				out.Hist = cloneAll(inst.History())
			}
			out.Raw = collectSeeds(inst, nil, n, &out)
			if out.Stream == "" {
				out.Got = collectSeeds(inst, fm, n, &out)
			}
			for i := range out.Got {
				out.Roles = append(out.Roles, fmt.Sprintf("seed%d", i))
			}
			if after := inst.Read(nil); canonAll(after) != canonAll(before) {
				out.Mutated = "the unmasked read after the masked subscription delivered its seeds differs from the one before: " + canonAll(before) + " -> " + canonAll(after)
			}
			return
		}
		rawObjs := inst.Read(nil)
		raw := cloneAll(rawObjs)
		// an earlier masked result with another mask, kept: must not change either
		earlierObjs := inst.Read(&fieldmaskpb.FieldMask{})
		earlier := cloneAll(earlierObjs)
		gotObjs := inst.Read(fm)
		got := cloneAll(gotObjs)
		rawAfter := inst.Read(nil)
		again := inst.Read(fm)
		out.Raw, out.Got = raw, got
		switch {
		case len(got) != len(raw):
			out.Roles = nil
		default:
			for i := range got {
				out.Roles = append(out.Roles, fmt.Sprintf("item%d", i))
			}
		}
		switch {
		case canonAll(rawAfter) != canonAll(raw):
			out.Mutated = "the unmasked read after the masked read differs from the one before it: " + canonAll(raw) + " -> " + canonAll(rawAfter)
		case canonAll(rawObjs) != canonAll(raw):
			out.Mutated = "the messages returned by the earlier unmasked read changed: " + canonAll(raw) + " -> " + canonAll(rawObjs)
		case canonAll(earlierObjs) != canonAll(earlier):
			out.Mutated = "the messages returned by an earlier masked read changed: " + canonAll(earlier) + " -> " + canonAll(earlierObjs)
		case canonAll(again) != canonAll(got):
			out.Mutated = "repeating the masked read gives another result: " + canonAll(got) + " -> " + canonAll(again)
		case canonAll(gotObjs) != canonAll(got):
			out.Mutated = "the result of the masked read changed after it was returned: " + canonAll(got) + " -> " + canonAll(gotObjs)
		}
	})
	if panicked {
		out.Panic = pmsg
	}
	return out
}

// collectSeeds opens the server-streaming Pull RPC with the mask and returns the first n values it
// delivers (the `new_value` / resource field of every change, in order).
func collectSeeds(inst *instance, mask *fieldmaskpb.FieldMask, n int, out *cout) []proto.Message {
	ctx, cancel := context.WithCancel(bg)
	defer cancel()
	st, err := inst.Stream(ctx, mask)
	if err != nil {
		out.Stream = "opening the stream failed: " + err.Error()
		return nil
	}
	recv := reflect.ValueOf(st).MethodByName("Recv")
	type item struct {
		m   proto.Message
		err string
	}
	ch := make(chan item)
	go func() {
		defer close(ch)
		for {
			rs := recv.Call(nil)
			if !rs[1].IsNil() {
				select {
				case ch <- item{err: rs[1].Interface().(error).Error()}:
				case <-ctx.Done():
				}
				return
			}
			resp := rs[0].Interface().(proto.Message).ProtoReflect()
			changes := resp.Get(resp.Descriptor().Fields().ByName("changes")).List()
			for i := 0; i < changes.Len(); i++ {
				chg := changes.Get(i).Message()
				fd := chg.Descriptor().Fields().ByName("new_value")
				if fd == nil { // the resource field of a single-resource change: the only message field besides change_time
					for j := 0; j < chg.Descriptor().Fields().Len(); j++ {
						if f := chg.Descriptor().Fields().Get(j); f.Message() != nil && f.Name() != "change_time" {
							fd = f
						}
					}
				}
				var m proto.Message
				if chg.Has(fd) {
					m = proto.Clone(chg.Get(fd).Message().Interface())
				} else {
					m = chg.Get(fd).Message().New().Interface() // an unset value reads as the empty message
				}
				select {
				case ch <- item{m: m}:
				case <-ctx.Done():
					return
				}
			}
		}
	}()
	var got []proto.Message
	for len(got) < n {
		select {
		case it, ok := <-ch:
			if !ok || it.err != "" {
				out.Stream = fmt.Sprintf("the stream ended after %d of %d seed values: %s", len(got), n, it.err)
				return got
			}
			got = append(got, it.m)
		case <-time.After(waitFor):
			out.Stream = fmt.Sprintf("only %d of %d seed values within %s", len(got), n, waitFor)
			return got
		}
	}
	return got
}

// runPull: subscribe with the mask, then single stored changes; after each step the subscriber must hold
// the projection of the current unmasked value (the reader drops an event whose projection equals the
// one before it).
func (c ccase) runPull(g *mt.Gen, inst *instance, out *cout) {
	ctx, cancel := context.WithCancel(bg)
	defer cancel()
	// Pending: the first write is begun before the subscription opens and held between storing its value and
	// publishing its change; the subscription is seeded from what it stored and is then sent its change
	var pend *pgate
	if c.Pending {
		park := newParker("coll.update.beforeSend", "value.set.beforeSend")
		defer park.close()
		pend = park.start("pending write", func() error { inst.Write(g); return nil })
		out.Held = pend.held
	}
	raw0 := cloneAll(inst.Read(nil))
	ch := inst.Pull(ctx, c.Mask.FM())
	var last proto.Message
	expect := func(role string) bool {
		raw := clone(inst.Read(nil)[0])
		want := specProject(raw, c.Mask)
		if last != nil && proto.Equal(last, want) {
			return true // no event is due
		}
		select {
		case got, ok := <-ch:
			if !ok {
				out.Stream = "the stream ended at " + role
				return false
			}
			out.Raw, out.Got, out.Roles = append(out.Raw, raw), append(out.Got, clone(got)), append(out.Roles, role)
			last = clone(got)
			return true
		case <-time.After(waitFor):
			out.Stream = "no event within " + waitFor.String() + " at " + role + " although the projection of the value changed to " + msgText(want)
			return false
		}
	}
	if c.UpdatesOnly {
		// no seed under updates-only; nothing is written (a subscription that sends no seed gives no sign of
		// existing, so a write could not be ordered after it)
		select {
		case got, ok := <-ch:
			if ok {
				out.Stream = "a value was delivered under updates-only although nothing was written: " + msgText(got)
			}
		case <-time.After(30 * time.Millisecond):
		}
		return
	}
	if !expect("seed") {
		return
	}
	if after := inst.Read(nil); canonAll(after) != canonAll(raw0) {
		out.Mutated = "the unmasked read after the subscription delivered its seed differs from the one before: " + canonAll(raw0) + " -> " + canonAll(after)
	}
	for i := 0; i < c.Writes; i++ {
		if i == 0 && pend != nil {
			pend.finish("pending write")
		} else {
			inst.Write(g)
		}
		before := cloneAll(inst.Read(nil))
		if !expect(fmt.Sprintf("update%d", i+1)) {
			return
		}
		if after := inst.Read(nil); canonAll(after) != canonAll(before) && out.Mutated == "" {
			out.Mutated = "delivering an update changed what the unmasked read returns: " + canonAll(before) + " -> " + canonAll(after)
		}
	}
	select {
	case got, ok := <-ch:
		if ok {
			out.Stream = "an event nobody caused: " + msgText(got)
		}
	case <-time.After(15 * time.Millisecond):
	}
}

func (c ccase) monitor(mon *lib.Monitor, out cout) {
	r, _ := readerByName(c.Reader)
	site := "C06/" + c.Reader
	if c.Mode == "seeds" {
		site = "C06/" + r.Build(&mt.Gen{R: lib.NewRand(1)}).StreamName
	}
	if c.Mode == "updates" {
		site = "C06/" + r.Build(&mt.Gen{R: lib.NewRand(1)}).StreamName + "/updates"
	}
	md := r.Item().ProtoReflect().Descriptor()
	sensible := true
	for _, p := range c.Mask.Paths {
		if pi := mt.Classify(md, p); pi.Unknown || pi.ThroughBad {
			sensible = false
		}
	}
	if out.Panic != "" {
		mon.Violate(site+"/panic", "a masked read through a trait-level reader panicked: "+out.Panic, c, "no panic", "panic")
		return
	}
	if out.Mutated != "" {
		mon.Violate(site+"/mutated", out.Mutated, c, "unchanged", "changed")
	}
	if !sensible {
		return
	}
	if out.Stream != "" {
		mon.Violate(site+"/events", out.Stream, c, "one event per change of the projection", out.Stream)
		return
	}
	if len(out.Got) != len(out.Raw) {
		mon.Violate(site+"/items-differ", "a read mask changed the number of returned items", c, fmt.Sprint(len(out.Raw)), fmt.Sprint(len(out.Got)))
		return
	}
	for i, got := range out.Got {
		want := mt.CanonMsg(specProject(out.Raw[i], c.Mask))
		if g := msgText(got); g != want {
			class := "projection"
			if !c.Mask.Nil && len(c.Mask.Paths) > 0 {
				nested := false
				for _, p := range c.Mask.Paths {
					nested = nested || strings.Contains(p, ".")
				}
				if nested {
					class = "nested-mask/projection"
				}
			}
			mon.Violate(site+"/"+class, "the masked read ("+out.Roles[i]+", mask "+c.Mask.Enc()+") is not the projection of the unmasked read of the same instance", c, want, g)
		}
	}
}

func runComposed(cases []ccase, tie, wtie *lib.Tie, mon *lib.Monitor, drv *lib.Driver) {
	outs := make([]cout, len(cases))
	var lines []string
	defer func() { runWasteTie(cases, outs, wtie, drv) }()
	for i := range cases {
		outs[i] = cases[i].run()
		if len(outs[i].Raw) > 0 {
			if u := canonAll(outs[i].Raw); len(u) > 600 {
				cases[i].Unmasked = u[:600] + "..."
			} else {
				cases[i].Unmasked = u
			}
		}
		if outs[i].Panic == "" && len(outs[i].Got) == len(outs[i].Raw) {
			for _, raw := range outs[i].Raw {
				lines = append(lines, "rfilter "+cases[i].Mask.Enc()+" "+mt.CanonMsg(raw))
			}
		}
	}
	ans, err := drv.Batch(lines)
	if err != nil {
		tie.Fail(err)
		return
	}
	k := 0
	for i, c := range cases {
		out := outs[i]
		model, code := "", ""
		switch {
		case out.Panic != "":
			model, code = "no panic", "panic: "+out.Panic
		case len(out.Got) != len(out.Raw):
			model, code = fmt.Sprint(len(out.Raw), " items"), fmt.Sprint(len(out.Got), " items")
		default:
			model = "[" + strings.Join(ans[k:k+len(out.Raw)], " ") + "]"
			k += len(out.Raw)
			code = canonAll(out.Got)
		}
		if out.Stream != "" {
			code += " stream: " + out.Stream
		}
		nontrivial := !c.Mask.Nil && len(c.Mask.Paths) > 0
		tie.Record(c.key(), nontrivial, c, model, code)
		tie.Count("reader:" + c.Reader)
		tie.Count("mode:" + c.Mode)
		if c.Mode == "updates" {
			tie.Count("updates@" + c.Reader)
			for _, r := range out.Roles {
				if i := strings.LastIndexByte(r, '-'); i > 0 && !strings.Contains(r, "marker") {
					tie.Count("update-value:" + r[i+1:])
				}
			}
			if out.Dropped > 0 {
				tie.Count("updates:dropped-under-mask(equal projections)")
			}
			if c.Pending {
				tie.Count(fmt.Sprintf("updates:first-write-pending held=%v@%s", out.Held, c.Reader))
			}
		}
		if c.Mode == "pull" && c.Pending {
			tie.Count(fmt.Sprintf("pull:first-write-pending held=%v@%s", out.Held, c.Reader))
		}
		if c.Mode == "seeds" && c.Pending {
			tie.Count(fmt.Sprintf("seeds:write-pending held=%v@%s", out.Held, c.Reader))
		}
		nonEmptyRaw := false
		for _, m := range out.Raw {
			nonEmptyRaw = nonEmptyRaw || (m != nil && nonEmpty(m))
		}
		tie.Count(fmt.Sprintf("unmasked-nonempty:%v", nonEmptyRaw))
		mon.Eval(c.key(), nontrivial && nonEmptyRaw, nil)
		c.monitor(mon, out)
	}
}

// itemPaths: the path tree of md down to depth, through singular AND repeated messages.
func itemPaths(md protoreflect.MessageDescriptor, depth int) []string {
	var out []string
	var walk func(md protoreflect.MessageDescriptor, prefix string, d int)
	walk = func(md protoreflect.MessageDescriptor, prefix string, d int) {
		for i := 0; i < md.Fields().Len(); i++ {
			fd := md.Fields().Get(i)
			p := prefix + string(fd.Name())
			out = append(out, p)
			if d > 1 && fd.Message() != nil && !fd.IsMap() {
				walk(fd.Message(), p+".", d-1)
			}
		}
	}
	walk(md, "", depth)
	return out
}

// fixedComposedCases: the part of the family that is the same for every seed and runs first.  For every reader
// the "nothing stored yet" start — and, where the adapter derives a field from its configuration, the start with
// the configuration that makes the derived field non-empty on an empty store — under every mask shape: nil, empty,
// every single path of the item's path tree to depth 2 (each top-level path alone excludes every other field and
// includes only itself; the nested ones go below the composed fields), parent+child; in every mode that has a
// meaning on an empty store: the read, the seed values of the server-streaming Pull RPC, and for model
// subscriptions the seed followed by two writes as well as updates-only (no seed).
func fixedComposedCases() []ccase {
	var out []ccase
	for _, r := range creaders {
		md := r.Item().ProtoReflect().Descriptor()
		ms := []mt.Mask{mt.NilMask(), {Paths: []string{}}}
		for _, p := range itemPaths(md, 2) {
			ms = append(ms, mt.Mask{Paths: []string{p}})
			if i := strings.IndexByte(p, '.'); i > 0 && len(ms)%3 == 0 {
				ms = append(ms, mt.Mask{Paths: []string{p[:i], p}})
			}
		}
		composedStart = "empty"
		probe := r.Build(&mt.Gen{R: lib.NewRand(1)})
		composedStart = ""
		starts := []string{"empty"}
		if strings.HasPrefix(r.Name, "openclosepb.") {
			starts = []string{"empty+derived", "empty"}
		}
		for _, st := range starts {
			for i, m := range ms {
				sd := int64(1000 + i)
				if probe.Pull == nil {
					out = append(out, ccase{Reader: r.Name, Mode: "read", SetupSeed: sd, Mask: m, Start: st})
				}
				if probe.Stream != nil {
					out = append(out, ccase{Reader: r.Name, Mode: "seeds", SetupSeed: sd, Mask: m, Start: st})
				}
				if probe.Pull != nil {
					out = append(out, ccase{Reader: r.Name, Mode: "pull", SetupSeed: sd, Mask: m, Writes: 2, Start: st},
						ccase{Reader: r.Name, Mode: "pull", SetupSeed: sd, Mask: m, Start: st, UpdatesOnly: true})
				}
			}
		}
	}
	return out
}

// composedCases: for every reader: nil, empty, every single path of the item's path tree (depth 2,
// through repeated messages too), parent+child and sibling combinations, corrupted paths; then random
// masks of 1-3 paths.  Several differently populated instances per reader.
func composedCases(g *mt.Gen, perReader int, pullCases int) []ccase {
	var out []ccase
	for _, r := range creaders {
		md := r.Item().ProtoReflect().Descriptor()
		tree := itemPaths(md, 2)
		deep := itemPaths(md, 3)
		seed := func() int64 { return int64(g.R.Intn(1 << 30)) }
		var ms []mt.Mask
		ms = append(ms, mt.NilMask(), mt.Mask{Paths: []string{}})
		for _, p := range tree {
			ms = append(ms, mt.Mask{Paths: []string{p}})
		}
		for _, p := range tree {
			if i := strings.IndexByte(p, '.'); i > 0 {
				// parent + child, child + sibling under the same parent
				ms = append(ms, mt.Mask{Paths: []string{p[:i], p}}, mt.Mask{Paths: []string{p, p[:i]}})
			}
		}
		ms = append(ms, mt.Mask{Paths: []string{"nope"}}, mt.Mask{Paths: []string{tree[0] + ".nope.x"}})
		for i := 0; i < perReader; i++ {
			n := 1 + g.R.Intn(3)
			var ps []string
			for j := 0; j < n; j++ {
				ps = append(ps, deep[g.R.Intn(len(deep))])
			}
			ms = append(ms, mt.Mask{Paths: ps})
		}
		probe := r.Build(&mt.Gen{R: lib.NewRand(1)})
		hasPull := probe.Pull != nil
		if probe.Stream != nil {
			// the server-streaming Pull RPC of the same service: its seed values under the mask
			for i, m := range ms {
				if i < 2 || i%3 == int(g.R.Intn(3)) || len(m.Paths) > 1 {
					out = append(out, ccase{Reader: r.Name, Mode: "seeds", SetupSeed: seed(), Mask: m})
				}
				if i < 2 || i%3 == int(g.R.Intn(3)) || len(m.Paths) > 1 {
					out = append(out, ccase{Reader: r.Name, Mode: "seeds", SetupSeed: seed(), Mask: m, Pending: true})
				}
			}
		}
		if probe.Stream != nil && probe.Marker != nil {
			// ... and its UPDATES: changes of stored items while both an unmasked and a masked stream are open
			for i, m := range ms {
				if i < 2 || i%4 == int(g.R.Intn(4)) || len(m.Paths) > 1 {
					out = append(out, ccase{Reader: r.Name, Mode: "updates", SetupSeed: seed(), Mask: m, Writes: 2 + g.R.Intn(3), Pending: g.R.Intn(2) == 0})
				}
			}
		}
		if hasPull {
			for i, m := range ms {
				if i >= pullCases {
					break
				}
				out = append(out, ccase{Reader: r.Name, Mode: "pull", SetupSeed: seed(), Mask: m, Writes: 2 + g.R.Intn(3), Pending: i%2 == 1})
			}
			// nested masks below the composed fields are what a subscription must not get wrong
			for i := 0; i < pullCases; i++ {
				m := ms[g.R.Intn(len(ms))]
				out = append(out, ccase{Reader: r.Name, Mode: "pull", SetupSeed: seed(), Mask: m, Writes: 2 + g.R.Intn(3), Pending: g.R.Intn(2) == 0})
			}
			continue
		}
		// every mask on two differently populated instances
		for rep := 0; rep < 2; rep++ {
			for _, m := range ms {
				out = append(out, ccase{Reader: r.Name, Mode: "read", SetupSeed: seed(), Mask: m})
			}
		}
	}
	return out
}

// undrivenComposers scans the non-generated sources of pkg/trait for functions that call
// FilterClone / Filter / ResponseFilter / NewResponseFilter and returns those no reader row names.
func undrivenComposers() (found, undriven []string) {
	driven := map[string]bool{}
	for _, r := range creaders {
		for _, f := range r.Funcs {
			driven[f] = true
		}
	}
	root := filepath.Join(lib.RepoRoot(), "pkg", "trait")
	dirs, _ := os.ReadDir(root)
	fset := token.NewFileSet()
	seen := map[string]bool{}
	for _, d := range dirs {
		if !d.IsDir() {
			continue
		}
		files, _ := filepath.Glob(filepath.Join(root, d.Name(), "*.go"))
		for _, fn := range files {
			if strings.HasSuffix(fn, "_test.go") || strings.HasSuffix(fn, ".pb.go") {
				continue
			}
			af, err := parser.ParseFile(fset, fn, nil, 0)
			if err != nil {
				continue
			}
			for _, decl := range af.Decls {
				fd, ok := decl.(*ast.FuncDecl)
				if !ok || fd.Body == nil {
					continue
				}
				composes := false
				ast.Inspect(fd.Body, func(n ast.Node) bool {
					if call, ok := n.(*ast.CallExpr); ok {
						if sel, ok := call.Fun.(*ast.SelectorExpr); ok {
							switch sel.Sel.Name {
							case "FilterClone", "ResponseFilter", "NewResponseFilter":
								composes = true
							}
						}
					}
					return true
				})
				if composes {
					name := d.Name() + "." + fd.Name.Name
					if !seen[name] {
						seen[name] = true
						found = append(found, name)
						if !driven[name] {
							undriven = append(undriven, name)
						}
					}
				}
			}
		}
	}
	sort.Strings(found)
	sort.Strings(undriven)
	return
}

// runWasteTie: the adapter model of wastepb ModelServer.PullWasteRecords (ScVerif/C06/Waste.lean): told the
// model's history when the streams opened and what lastWasteRecord held (the value the unmasked stream sends
// last: with a held AddWasteRecord NOT the last historical record), it predicts every seed value of the
// unmasked and of the masked stream.
func runWasteTie(cases []ccase, outs []cout, wtie *lib.Tie, drv *lib.Driver) {
	var lines []string
	var idx []int
	for i, c := range cases {
		out := outs[i]
		if c.Mode != "seeds" || out.Hist == nil || out.Panic != "" || out.Stream != "" || len(out.Raw) == 0 || len(out.Got) != len(out.Raw) {
			continue
		}
		var hist []string
		for _, r := range out.Hist {
			hist = append(hist, mt.CanonMsg(r))
		}
		tail := fmt.Sprintf("U0 %d %s %s", len(hist), strings.Join(hist, " "), mt.CanonMsg(out.Raw[len(out.Raw)-1]))
		lines = append(lines, "wpull ~ "+tail, "wpull "+c.Mask.Enc()+" "+tail)
		idx = append(idx, i)
	}
	if len(lines) == 0 {
		return
	}
	ans, err := drv.Batch(lines)
	if err != nil {
		wtie.Fail(err)
		return
	}
	for k, i := range idx {
		c, out := cases[i], outs[i]
		flat := func(ms []proto.Message) string {
			var xs []string
			for _, m := range ms {
				xs = append(xs, msgText(m))
			}
			return strings.Join(xs, " ")
		}
		nontrivial := !c.Mask.Nil && len(c.Mask.Paths) > 0
		wtie.Record(c.key(), nontrivial, c, "unmasked: "+ans[2*k]+" ; masked: "+ans[2*k+1], "unmasked: "+flat(out.Raw)+" ; masked: "+flat(out.Got))
		wtie.Count(fmt.Sprintf("history:%d seeds:%d", len(out.Hist), len(out.Raw)))
		wtie.Count(fmt.Sprintf("writer-held-mid-add:%v", out.Held))
	}
}
