// Collection reads that combine a read mask with an include callback (resource.WithInclude), and
// PullID: List, the seed values and the update events of Pull, the values of PullID, on a collection of
// several items under a list of read options.  The Lean model (ScVerif/C06/Coll.lean) computes what the
// subscriber with the options is sent from what a plain subscriber (no options) saw; the monitor's
// oracle is written here: the include callback is a predicate on the STORED item, the mask only
// selects fields of what was kept.
package main

import (
	"context"
	"encoding/json"
	"fmt"
	"strconv"
	"strings"
	"sync"
	"time"

	"google.golang.org/protobuf/proto"
	"google.golang.org/protobuf/reflect/protoreflect"

	"github.com/smart-core-os/sc-golang/internal/testproto"
	"github.com/smart-core-os/sc-golang/internal/verifhook"
	"github.com/smart-core-os/sc-golang/pkg/resource"
	"github.com/smart-core-os/sc-golang/verifharness/cmd/c05/mt"
	"github.com/smart-core-os/sc-golang/verifharness/lib"
)

type kitem struct {
	ID   string `json:"id"`
	Hex  string `json:"hex"`
	Text string `json:"msg"`
}

type kwrite struct {
	Op   string `json:"op"` // add | update | delete
	ID   string `json:"id"`
	Hex  string `json:"hex,omitempty"`
	Text string `json:"msg,omitempty"`
}

// kcase: a collection holding Items, read with Options (same encoding as ocase.Options; I<n> is the
// n-th callback of the closed family predGo / Lean's namedPred), then Writes while subscribed.
type kcase struct {
	Root     string   `json:"root"`
	CollRead bool     `json:"collection_read"`
	Items    []kitem  `json:"items"`
	Options  []string `json:"read_options"`
	Equiv    bool     `json:"no_duplicates,omitempty"` // resource.WithNoDuplicates() on the collection
	PullID   string   `json:"pull_id"`
	// Pending: writes made BEFORE the subscriptions open whose change is published only AFTER they are open
	// (add/update: the writer is parked between storing its value and bus.Send, at the yield point
	// coll.update.beforeSend / value.set.beforeSend; delete: runs to completion, it publishes under the
	// lock).  Release: the order in which the parked writers (indices into Pending) are let go once every
	// subscription listens — any order, so publications may overtake each other.
	Pending []kwrite `json:"pending_writes,omitempty"`
	Release []int    `json:"release_order,omitempty"`
	Writes  []kwrite `json:"writes"`
	Order    int64    `json:"model_order_seed"` // the order in which the model is told about the items
	// Times: how writes are stamped.  "": every reading of the injected clock is a new instant.  "frozen": the
	// injected clocks stand still (the initial value and every write carry the SAME change time).
	// "same-write-time": the collection's clock stands still and every write to the resource.Value carries the same
	// resource.WithWriteTime (a device stamping a batch).
	Times string `json:"write_times,omitempty"`
}

// stamp is the one instant of "same-write-time".
const stamp = 7

// wopts: the write options every write to the resource.Value of the case carries.
func (c kcase) wopts() []resource.WriteOption {
	if c.Times == "same-write-time" {
		return []resource.WriteOption{resource.WithWriteTime(time.Unix(stamp, 0))}
	}
	return nil
}

// vtime: the change time of the k-th write (k = 1, 2, ...) to the resource.Value of the case (its initial
// value is stamped 0).
func (c kcase) vtime(k int64) int64 {
	switch c.Times {
	case "frozen":
		return 0
	case "same-write-time":
		return stamp
	}
	return k
}

func (c kcase) enc() string {
	if len(c.Options) == 0 {
		return "_"
	}
	return strings.Join(c.Options, ",")
}

func (c kcase) key() string {
	b, _ := json.Marshal(c)
	return "coll " + string(b)
}

// predGo is the closed family of include callbacks (Lean: namedPred).
func predGo(n int) resource.FilterFunc {
	has := func(m proto.Message, name string) bool {
		if m == nil {
			return false
		}
		r := m.ProtoReflect()
		fd := r.Descriptor().Fields().ByName(protoreflect.Name(name))
		return fd != nil && r.Has(fd)
	}
	switch n {
	case 0:
		return func(string, proto.Message) bool { return true }
	case 1:
		return func(string, proto.Message) bool { return false }
	case 2:
		return func(_ string, m proto.Message) bool { return m != nil && nonEmpty(m) }
	case 3:
		return func(id string, m proto.Message) bool { return id == "zz" || (m != nil && nonEmpty(m)) }
	case 4:
		return func(_ string, m proto.Message) bool { return has(m, "default_int32") }
	case 5:
		return func(_ string, m proto.Message) bool {
			if !has(m, "default_foreign_message") {
				return false
			}
			r := m.ProtoReflect()
			return has(r.Get(r.Descriptor().Fields().ByName("default_foreign_message")).Message().Interface(), "c")
		}
	case 6:
		return func(id string, _ proto.Message) bool { return id != "y" }
	default:
		return func(_ string, m proto.Message) bool { return has(m, "default_string") }
	}
}

// buildOpts: like ocase.build, with the callback family.
func (c kcase) buildOpts(options []string) []resource.ReadOption {
	var out []resource.ReadOption
	for _, o := range options {
		switch {
		case o[0] == 'M':
			out = append(out, resource.WithReadMask(parseMaskEnc(o[1:]).FM()))
		case o[0] == 'P':
			out = append(out, resource.WithReadPaths(rootByName(c.Root).New(), parseMaskEnc(o[1:]).Paths...))
		case o == "U0", o == "U1":
			out = append(out, resource.WithUpdatesOnly(o == "U1"))
		case o == "B0", o == "B1":
			out = append(out, resource.WithBackpressure(o == "B1"))
		case o == "I-":
			out = append(out, resource.WithInclude(nil))
		case o[0] == 'I':
			n, err := strconv.Atoi(o[1:])
			if err != nil {
				panic("option " + o)
			}
			out = append(out, resource.WithInclude(predGo(n)))
		case o == "E":
			out = append(out, resource.EmptyReadOption{})
		default:
			panic("option " + o)
		}
	}
	return out
}

// effective settings of the option list (scanned from the right: the last one of a kind decides)
func (c kcase) effMask() mt.Mask {
	for i := len(c.Options) - 1; i >= 0; i-- {
		if o := c.Options[i]; o[0] == 'M' || o[0] == 'P' {
			return parseMaskEnc(o[1:])
		}
	}
	return mt.NilMask()
}

func (c kcase) effInclude() resource.FilterFunc {
	for i := len(c.Options) - 1; i >= 0; i-- {
		if o := c.Options[i]; o[0] == 'I' {
			if o == "I-" {
				return nil
			}
			n, _ := strconv.Atoi(o[1:])
			return predGo(n)
		}
	}
	return nil
}

func (c kcase) effUpdatesOnly() bool {
	for i := len(c.Options) - 1; i >= 0; i-- {
		if o := c.Options[i]; o[0] == 'U' {
			return o == "U1"
		}
	}
	return false
}

func (c kcase) withoutMask() []string {
	var out []string
	for _, o := range c.Options {
		if o[0] != 'M' && o[0] != 'P' {
			out = append(out, o)
		}
	}
	return out
}

type tickClock struct {
	mu     sync.Mutex
	n      int64
	manual bool // the harness sets the time itself (every reading within one write is the same instant)
}

func (c *tickClock) Now() time.Time {
	c.mu.Lock()
	defer c.mu.Unlock()
	if !c.manual {
		c.n++
	}
	return time.Unix(c.n, 0)
}

func (c *tickClock) set(n int64) {
	c.mu.Lock()
	defer c.mu.Unlock()
	c.n = n
}

type kchange struct {
	ID         string
	Time       int64
	Type       string
	Old, New   proto.Message
	Seed, Last bool
	obj        *resource.CollectionChange
}

func flags(s, l bool) string {
	b := map[bool]string{false: "0", true: "1"}
	return "S" + b[s] + "L" + b[l]
}

func (k kchange) text() string {
	return strings.Join([]string{k.ID, fmt.Sprint(k.Time), k.Type, msgText(k.Old), msgText(k.New), flags(k.Seed, k.Last)}, "|")
}

func (k kchange) projected(m mt.Mask) string {
	p := func(x proto.Message) string {
		if x == nil {
			return "nil"
		}
		return mt.CanonMsg(specProject(x, m))
	}
	return strings.Join([]string{k.ID, fmt.Sprint(k.Time), k.Type, p(k.Old), p(k.New), flags(k.Seed, k.Last)}, "|")
}

type kvalue struct {
	Time       int64
	Val        proto.Message
	Seed, Last bool
	obj        *resource.ValueChange
}

func (k kvalue) text() string {
	return strings.Join([]string{fmt.Sprint(k.Time), msgText(k.Val), flags(k.Seed, k.Last)}, "|")
}

func (k kvalue) projected(m mt.Mask) string {
	v := "nil"
	if k.Val != nil {
		v = mt.CanonMsg(specProject(k.Val, m))
	}
	return strings.Join([]string{fmt.Sprint(k.Time), v, flags(k.Seed, k.Last)}, "|")
}

type kout struct {
	Panic      string
	List       []proto.Message // col.List(options...)
	S0, S1, S2 []kchange       // plain subscriber / with the options / with the options minus the read-mask ones
	P1, P2     []kvalue        // PullID with the options / minus the read-mask ones
	V0, V1, V2 []kvalue        // Value.Pull on a resource.Value given the same writes: plain / options / minus masks
	VRaw       []kvalue        // the changes that value published (what Set returned, when)
	Mutated    string
	Swapped    string
	NotParked  int // pending writers that published without stopping at the yield point
	// the same reads repeated after the writes (List and Get(PullID) were also made before them, with the same
	// options): with the options / with the options minus the read-mask ones
	ListEnd, ListEndRaw []proto.Message
	GetStart, GetEnd    proto.Message // col.Get(PullID, options...) before the subscriptions open / after the writes
	GetEndRaw           proto.Message // col.Get(PullID) after the writes
	VGetEnd, VGetEndRaw proto.Message // val.Get(options...) / val.Get() after the writes
}

func texts[T interface{ text() string }](xs []T) string {
	if len(xs) == 0 {
		return "-"
	}
	var out []string
	for _, x := range xs {
		out = append(out, x.text())
	}
	return strings.Join(out, " ")
}

func decodeRoot(root, hex string) proto.Message {
	m, err := mt.DecodeMsg(hex, rootByName(root).New())
	if err != nil {
		panic(err)
	}
	return m
}

const sentinelPrefix = "~"

// sentinelMsg: a message every callback of the family accepts (where it accepts any message of the root).
func sentinelMsg(root string) proto.Message {
	if root == "TestAllTypes" {
		return &testproto.TestAllTypes{DefaultInt32: 1, DefaultString: "s", DefaultForeignMessage: &testproto.ForeignMessage{C: 1}}
	}
	r := rootByName(root)
	for seed := int64(1); ; seed++ {
		m := r.New()
		(&mt.Gen{R: lib.NewRand(seed)}).Fill(m.ProtoReflect(), 1, 3)
		if nonEmpty(m) {
			return m
		}
	}
}

// parker holds writers between "value stored" and "change published": a goroutine started with start runs
// until it reaches one of the yield points and stays there until finish.  Goroutines not started by it pass.
type parker struct {
	mu     sync.Mutex
	gates  map[int64]*pgate
	all    []*pgate
	points map[string]bool
}

type pgate struct {
	parked, release chan struct{}
	done            chan error
	held            bool // the writer reached the yield point (false: it ran to completion, the point is gone)
	released        bool
}

func newParker(points ...string) *parker {
	p := &parker{gates: map[int64]*pgate{}, points: map[string]bool{}}
	for _, pt := range points {
		p.points[pt] = true
	}
	verifhook.Set(func(pt string) {
		if !p.points[pt] {
			return
		}
		p.mu.Lock()
		g := p.gates[verifhook.GoID()]
		p.mu.Unlock()
		if g == nil {
			return
		}
		close(g.parked)
		select {
		case <-g.release:
		case <-time.After(6 * waitFor):
		}
	})
	return p
}

// start runs f on a new goroutine until it parks (or returns).
func (p *parker) start(what string, f func() error) *pgate {
	g := &pgate{parked: make(chan struct{}), release: make(chan struct{}), done: make(chan error, 1)}
	p.mu.Lock()
	p.all = append(p.all, g)
	p.mu.Unlock()
	go func() {
		id := verifhook.GoID()
		p.mu.Lock()
		p.gates[id] = g
		p.mu.Unlock()
		err := f()
		p.mu.Lock()
		delete(p.gates, id)
		p.mu.Unlock()
		g.done <- err
	}()
	select {
	case <-g.parked:
		g.held = true
	case err := <-g.done:
		g.released = true
		if err != nil {
			panic(what + ": " + err.Error())
		}
	case <-time.After(waitFor):
		panic(what + ": timed out before it published")
	}
	return g
}

// finish lets a parked writer publish and waits for it to return.
func (g *pgate) finish(what string) {
	if g.released {
		return
	}
	g.released = true
	close(g.release)
	select {
	case err := <-g.done:
		if err != nil {
			panic(what + ": " + err.Error())
		}
	case <-time.After(waitFor):
		panic(what + ": timed out")
	}
}

// close removes the controller and lets every writer still parked go (after a panic of the scenario).
func (p *parker) close() {
	verifhook.Set(nil)
	p.mu.Lock()
	defer p.mu.Unlock()
	for _, g := range p.all {
		if !g.released {
			g.released = true
			close(g.release)
		}
	}
}

// releaseOrder: Release if it is a permutation of the parked writes' indices, else those indices in order.
func (c kcase) releaseOrder() []int {
	var idx []int
	seen := map[int]bool{}
	for i, w := range c.Pending {
		if w.Op != "delete" {
			idx = append(idx, i)
		}
	}
	ok := len(c.Release) == len(idx)
	for _, i := range c.Release {
		if i < 0 || i >= len(c.Pending) || c.Pending[i].Op == "delete" || seen[i] {
			ok = false
			break
		}
		seen[i] = true
	}
	if ok {
		return c.Release
	}
	return idx
}

func (c kcase) run() kout {
	var out kout
	panicked, pmsg := lib.Catch(func() {
		copts := []resource.Option{resource.WithClock(&tickClock{manual: c.Times != ""})}
		wo := c.wopts()
		if c.Equiv {
			copts = append(copts, resource.WithNoDuplicates())
		}
		col := resource.NewCollection(copts...)
		type kept struct{ obj, at proto.Message }
		var stored []kept
		keep := func(m proto.Message, err error) error {
			if err == nil && m != nil {
				stored = append(stored, kept{m, proto.Clone(m)})
			}
			return err
		}
		for _, it := range c.Items {
			if err := keep(col.Add(it.ID, decodeRoot(c.Root, it.Hex))); err != nil {
				panic(err)
			}
		}
		// writes that have stored their value but not published their change when the subscriptions open
		var park *parker
		gates := map[int]*pgate{}
		if len(c.Pending) > 0 {
			park = newParker("coll.update.beforeSend", "value.set.beforeSend")
			defer park.close()
			for i, w := range c.Pending {
				w := w
				switch w.Op {
				case "add":
					gates[i] = park.start("pending Add "+w.ID, func() error { return keep(col.Add(w.ID, decodeRoot(c.Root, w.Hex))) })
				case "update":
					gates[i] = park.start("pending Update "+w.ID, func() error { return keep(col.Update(w.ID, decodeRoot(c.Root, w.Hex))) })
				case "delete":
					step("Delete "+w.ID, func() error { _, err := col.Delete(w.ID); return err })
				default:
					panic("pending write " + w.Op)
				}
				if g := gates[i]; g != nil && !g.held {
					out.NotParked++
				}
			}
		}
		opts := c.buildOpts(append(append([]string{}, c.Options...), "B1"))
		optsNoMask := c.buildOpts(append(c.withoutMask(), "B1"))
		out.List = cloneAll(col.List(c.buildOpts(c.Options)...))
		if m, ok := col.Get(c.PullID, c.buildOpts(c.Options)...); ok {
			out.GetStart = clone(m)
		}

		ctx, cancel := context.WithCancel(context.Background())
		defer cancel()
		var mu sync.Mutex
		var wg sync.WaitGroup
		var rechecks []func() string
		pullC := func(dst *[]kchange, ch <-chan *resource.CollectionChange) {
			wg.Add(1)
			go func() {
				defer wg.Done()
				for v := range ch {
					k := kchange{ID: v.Id, Time: v.ChangeTime.Unix(), Type: v.ChangeType.String(), Old: clone(v.OldValue), New: clone(v.NewValue), Seed: v.SeedValue, Last: v.LastSeedValue, obj: v}
					mu.Lock()
					*dst = append(*dst, k)
					rechecks = append(rechecks, func() string {
						if !sameMsg(k.obj.NewValue, k.New) || !sameMsg(k.obj.OldValue, k.Old) {
							return k.text() + " -> new " + msgText(k.obj.NewValue) + ", old " + msgText(k.obj.OldValue)
						}
						return ""
					})
					mu.Unlock()
				}
			}()
		}
		pullV := func(dst *[]kvalue, ch <-chan *resource.ValueChange) {
			wg.Add(1)
			go func() {
				defer wg.Done()
				for v := range ch {
					k := kvalue{Time: v.ChangeTime.Unix(), Val: clone(v.Value), Seed: v.SeedValue, Last: v.LastSeedValue, obj: v}
					mu.Lock()
					*dst = append(*dst, k)
					rechecks = append(rechecks, func() string {
						if !sameMsg(k.obj.Value, k.Val) {
							return k.text() + " -> " + msgText(k.obj.Value)
						}
						return ""
					})
					mu.Unlock()
				}
			}()
		}
		pullC(&out.S0, col.Pull(ctx, resource.WithBackpressure(true)))
		pullC(&out.S1, col.Pull(ctx, opts...))
		pullC(&out.S2, col.Pull(ctx, optsNoMask...))
		pullV(&out.P1, col.PullID(ctx, c.PullID, opts...))
		pullV(&out.P2, col.PullID(ctx, c.PullID, optsNoMask...))
		// every subscription listens (Pull registers with the bus before it returns): the parked writers publish
		for _, i := range c.releaseOrder() {
			gates[i].finish("pending " + c.Pending[i].Op + " " + c.Pending[i].ID)
		}
		for _, w := range c.Writes {
			w := w
			switch w.Op {
			case "add":
				step("Add "+w.ID, func() error { return keep(col.Add(w.ID, decodeRoot(c.Root, w.Hex))) })
			case "update":
				step("Update "+w.ID, func() error { return keep(col.Update(w.ID, decodeRoot(c.Root, w.Hex))) })
			case "delete":
				step("Delete "+w.ID, func() error { _, err := col.Delete(w.ID); return err })
			default:
				panic("write " + w.Op)
			}
		}
		// the reads made before the writes, again (same options, same ids)
		out.ListEnd = cloneAll(col.List(c.buildOpts(c.Options)...))
		out.ListEndRaw = cloneAll(col.List(c.buildOpts(c.withoutMask())...))
		if m, ok := col.Get(c.PullID, c.buildOpts(c.Options)...); ok {
			out.GetEnd = clone(m)
		}
		if m, ok := col.Get(c.PullID); ok {
			out.GetEndRaw = clone(m)
		}
		// with backpressure a write returns once every subscription's goroutine has TAKEN the event; three
		// more writes push everything before them through the (at most three) stages to the collectors.  The
		// pushing items must pass every include callback that can pass anything (a callback that rejects them
		// would stop them at the first stage).
		for i := 1; i <= 3; i++ {
			id := fmt.Sprintf("%s%d", sentinelPrefix, i)
			step("Add "+id, func() error { _, err := col.Add(id, sentinelMsg(c.Root)); return err })
		}
		// the same messages written to a resource.Value (Value.Pull with the option list)
		vclock := &tickClock{manual: true}
		vopts := []resource.Option{resource.WithClock(vclock), resource.WithInitialValue(rootByName(c.Root).New())}
		if len(c.Items) > 0 {
			vopts[1] = resource.WithInitialValue(decodeRoot(c.Root, c.Items[0].Hex))
		}
		if c.Equiv {
			vopts = append(vopts, resource.WithNoDuplicates())
		}
		val := resource.NewValue(vopts...)
		_ = val.Get(c.buildOpts(c.Options)...)
		tick := int64(0)
		vgates := map[int]*pgate{}
		vtick := map[int]int64{}
		vset := map[int]proto.Message{}
		for i, w := range c.Pending {
			if w.Op == "delete" {
				continue
			}
			w := w
			tick++
			vclock.set(c.vtime(tick))
			vtick[i] = c.vtime(tick)
			i := i
			vgates[i] = park.start("pending Set", func() error {
				nv, err := val.Set(decodeRoot(c.Root, w.Hex), wo...)
				if err == nil {
					stored = append(stored, kept{nv, proto.Clone(nv)})
					vset[i] = proto.Clone(nv)
				}
				return err
			})
		}
		pullV(&out.V0, val.Pull(ctx, resource.WithBackpressure(true)))
		pullV(&out.V1, val.Pull(ctx, opts...))
		pullV(&out.V2, val.Pull(ctx, optsNoMask...))
		for _, i := range c.releaseOrder() {
			if !vgates[i].held {
				out.NotParked++
				continue // published before anybody listened
			}
			vclock.set(vtick[i])
			vgates[i].finish("pending Set")
			out.VRaw = append(out.VRaw, kvalue{Time: vtick[i], Val: vset[i]})
		}
		if park != nil {
			park.close()
		}
		for _, w := range c.Writes {
			if w.Op == "delete" {
				continue
			}
			w := w
			tick++
			vclock.set(c.vtime(tick))
			step("Set", func() error {
				nv, err := val.Set(decodeRoot(c.Root, w.Hex), wo...)
				if err == nil {
					stored = append(stored, kept{nv, proto.Clone(nv)})
					out.VRaw = append(out.VRaw, kvalue{Time: c.vtime(tick), Val: proto.Clone(nv)})
				}
				return err
			})
		}
		out.VGetEnd, out.VGetEndRaw = clone(val.Get(c.buildOpts(c.Options)...)), clone(val.Get())
		vEnd := tick + stamp // later than every write of the case, whatever its stamp
		vclock.set(vEnd + 1)
		step("Set", func() error { _, err := val.Set(sentinelMsg(c.Root)); return err })
		cancel()
		fin := make(chan struct{})
		go func() { wg.Wait(); close(fin) }()
		select {
		case <-fin:
		case <-time.After(waitFor):
			panic("subscriptions did not end within " + waitFor.String() + " of cancelling: timed out")
		}
		mu.Lock()
		defer mu.Unlock()
		dropSentinels := func(xs []kchange) []kchange {
			var ys []kchange
			for _, x := range xs {
				if !strings.HasPrefix(x.ID, sentinelPrefix) {
					ys = append(ys, x)
				}
			}
			return ys
		}
		out.S0, out.S1, out.S2 = dropSentinels(out.S0), dropSentinels(out.S1), dropSentinels(out.S2)
		upTo := func(xs []kvalue) []kvalue {
			var ys []kvalue
			for _, x := range xs {
				if x.Seed || x.Time <= vEnd {
					ys = append(ys, x)
				}
			}
			return ys
		}
		out.V0, out.V1, out.V2 = upTo(out.V0), upTo(out.V1), upTo(out.V2)
		for _, f := range rechecks {
			if e := f(); e != "" && out.Swapped == "" {
				out.Swapped = e
			}
		}
		for _, k := range stored {
			if !proto.Equal(k.obj, k.at) && out.Mutated == "" {
				out.Mutated = "a message the collection stored changed: " + mt.CanonMsg(k.at) + " -> " + mt.CanonMsg(k.obj)
			}
		}
	})
	if panicked {
		out.Panic = pmsg
	}
	return out
}

// modelLines: the store as the plain subscriber's seeds report it (told in another order), the raw events.
func (c kcase) modelLines(out kout) []string {
	var items, evs []string
	n := 0
	var seeds []kchange
	for _, k := range out.S0 {
		if k.Seed {
			seeds = append(seeds, k)
		} else {
			evs = append(evs, k.ID, fmt.Sprint(k.Time), k.Type, msgText(k.Old), msgText(k.New), "0", "0")
		}
	}
	lib.NewRand(c.Order).Shuffle(len(seeds), func(i, j int) { seeds[i], seeds[j] = seeds[j], seeds[i] })
	for _, k := range seeds {
		items = append(items, k.ID, msgText(k.New), fmt.Sprint(k.Time))
		n++
	}
	ty := schema.ID(rootByName(c.Root).MD())
	o := "B1"
	if len(c.Options) > 0 {
		o = c.enc() + ",B1"
	}
	eq := "-"
	if c.Equiv {
		eq = "E"
	}
	tail := strings.Join(append(items, evs...), " ")
	mk := func(mode string) string {
		return strings.TrimSpace(fmt.Sprintf("cread %d %s %s %s %d %s", ty, o, mode, eq, n, tail))
	}
	// Value.Pull: what the value held when the subscriptions started (the plain subscriber's seed), then
	// the published changes
	vl := fmt.Sprintf("vpull %d %s %s nil 0", ty, o, eq)
	if len(out.V0) > 0 && out.V0[0].Seed {
		vl = fmt.Sprintf("vpull %d %s %s %s %d", ty, o, eq, msgText(out.V0[0].Val), out.V0[0].Time)
	}
	for _, k := range out.VRaw {
		vl += fmt.Sprintf(" %d %s", k.Time, msgText(k.Val))
	}
	return []string{
		strings.TrimSpace(fmt.Sprintf("cread %d %s list %s %d %s", ty, c.enc(), eq, n, strings.Join(items, " "))),
		mk("pull"), mk("pullid=" + c.PullID), vl,
	}
}

// schedLines: the whole case as a schedule of write halves on an empty collection (ScVerif/C06/Sched.lean):
// the model is told only what the harness DID — it computes the store the subscriptions find, the changes
// published afterwards (kinds, old values, times of the ticking clock) and what each read delivers.
func (c kcase) schedLines() []string {
	var steps []string
	n := 0
	put := func(w kwrite, publish bool) {
		switch w.Op {
		case "add":
			steps = append(steps, "a", w.ID, w.Text)
		case "update":
			steps = append(steps, "u", w.ID, w.Text)
		case "delete":
			steps = append(steps, "d", w.ID)
			n++
			return
		}
		n++
		if publish {
			steps = append(steps, "p", "0")
			n++
		}
	}
	for _, it := range c.Items {
		put(kwrite{"add", it.ID, it.Hex, it.Text}, true)
	}
	var parked []int
	for i, w := range c.Pending {
		put(w, false)
		if w.Op != "delete" {
			parked = append(parked, i)
		}
	}
	npre := n
	for _, i := range c.releaseOrder() {
		for k, j := range parked {
			if j == i {
				steps = append(steps, "p", fmt.Sprint(k))
				n++
				parked = append(parked[:k:k], parked[k+1:]...)
				break
			}
		}
	}
	for _, w := range c.Writes {
		put(w, true)
	}
	ty := schema.ID(rootByName(c.Root).MD())
	eq := "-"
	if c.Equiv {
		eq = "E"
	}
	tail := strings.Join(steps, " ")
	op := "csched"
	if c.Times != "" {
		op = "cschedz" // the collection's clock stands still
	}
	mkAt := func(o, mode string, at int) string {
		return strings.TrimSpace(fmt.Sprintf("%s %d %s %s %s %d %s", op, ty, o, mode, eq, at, tail))
	}
	mk := func(o, mode string) string { return mkAt(o, mode, npre) }
	o := "B1"
	if len(c.Options) > 0 {
		o = c.enc() + ",B1"
	}
	// the resource.Value given the same messages: Set halves with the times the harness shows on its clock
	var vsteps []string
	init := msgText(rootByName(c.Root).New())
	if len(c.Items) > 0 {
		init = c.Items[0].Text
	}
	tick, vpre := 0, 0
	parked = parked[:0]
	vt := map[int]int{}
	for i, w := range c.Pending {
		if w.Op != "delete" {
			tick++
			vt[i] = tick
			vsteps = append(vsteps, "s", w.Text, fmt.Sprint(c.vtime(int64(tick))))
			parked = append(parked, i)
			vpre++
		}
	}
	for _, i := range c.releaseOrder() {
		for k, j := range parked {
			if j == i {
				vsteps = append(vsteps, "p", fmt.Sprint(k))
				parked = append(parked[:k:k], parked[k+1:]...)
				break
			}
		}
	}
	for _, w := range c.Writes {
		if w.Op != "delete" {
			tick++
			vsteps = append(vsteps, "s", w.Text, fmt.Sprint(c.vtime(int64(tick))), "p", "0")
		}
	}
	vl := strings.TrimSpace(fmt.Sprintf("vsched %d %s %s %s %d %s", ty, o, eq, init, vpre, strings.Join(vsteps, " ")))
	vg := strings.TrimSpace(fmt.Sprintf("vget %d %s %s %s", ty, c.enc(), init, strings.Join(vsteps, " ")))
	return []string{mk(c.enc(), "list"), mk(o, "pull"), mk(o, "pullid="+c.PullID), mk("B1", "pull"), vl, mkAt(c.enc(), "list", n),
		mk(c.enc(), "get="+c.PullID), mkAt(c.enc(), "get="+c.PullID, n), vg}
}

func (c kcase) schedText(out kout) string {
	if out.Panic != "" {
		return "panic: " + out.Panic
	}
	l := "-"
	if len(out.List) > 0 {
		var xs []string
		for _, m := range out.List {
			xs = append(xs, msgText(m))
		}
		l = strings.Join(xs, " ")
	}
	le := "-"
	if len(out.ListEnd) > 0 {
		var xs []string
		for _, m := range out.ListEnd {
			xs = append(xs, msgText(m))
		}
		le = strings.Join(xs, " ")
	}
	return "list: " + l + " ; pull: " + texts(out.S1) + " ; pullid: " + texts(out.P1) + " ; plain: " + texts(out.S0) + " ; value: " + texts(out.V1) + " ; list afterwards: " + le +
		" ; get: " + msgText(out.GetStart) + " ; get afterwards: " + msgText(out.GetEnd) + " ; value get afterwards: " + msgText(out.VGetEnd)
}

func (c kcase) codeText(out kout) string {
	if out.Panic != "" {
		return "panic: " + out.Panic
	}
	l := "-"
	if len(out.List) > 0 {
		var xs []string
		for _, m := range out.List {
			xs = append(xs, msgText(m))
		}
		l = strings.Join(xs, " ")
	}
	return "list: " + l + " ; pull: " + texts(out.S1) + " ; pullid: " + texts(out.P1) + " ; value: " + texts(out.V1)
}

func (c kcase) monitor(mon *lib.Monitor, out kout) {
	site := "C06/collection-reads"
	if out.Panic != "" {
		if strings.Contains(out.Panic, "timed out") {
			mon.Violate(site+"/stalled", "a collection read scenario stalled: "+out.Panic, c, "completes", out.Panic)
		} else {
			mon.Violate(site+"/panic", "a collection read with a list of options panicked: "+out.Panic, c, "no panic", "panic")
		}
		return
	}
	if out.Mutated != "" {
		mon.Violate(site+"/mutated", out.Mutated, c, "unchanged", "changed")
	}
	if out.Swapped != "" {
		mon.Violate(site+"/event-changed-after-delivery", "a delivered change object was altered after it had been delivered: "+out.Swapped, c, "unchanged", "changed")
	}
	mask, inc := c.effMask(), c.effInclude()
	md := rootByName(c.Root).MD()
	for _, p := range mask.Paths {
		if pi := mt.Classify(md, p); pi.Unknown || pi.ThroughBad {
			return
		}
	}
	// the oracle: accepted items of the store (the plain subscriber's seeds are the store, in id order)
	var accepted []kchange
	for _, k := range out.S0 {
		if k.Seed && (inc == nil || inc(k.ID, k.New)) {
			accepted = append(accepted, k)
		}
	}
	// List
	if len(out.List) != len(accepted) {
		mon.Violate(site+"/List/items-differ", "List with an include callback and a read mask does not return exactly the stored items the callback accepts (judged on the stored message)", c, fmt.Sprint(len(accepted), " items"), fmt.Sprint(len(out.List), " items"))
	} else {
		for i, k := range accepted {
			if want, got := mt.CanonMsg(specProject(k.New, mask)), msgText(out.List[i]); want != got {
				mon.Violate(site+"/List/projection", "item "+k.ID+" returned by List is not the projection of the stored item onto the effective mask "+mask.Enc(), c, want, got)
			}
		}
	}
	// the same reads after the writes: what is stored NOW, projected (the unmasked reads are the reference)
	if len(out.ListEnd) != len(out.ListEndRaw) {
		mon.Violate(site+"/List-after-writes/items-differ", "List with the options, repeated after the writes, does not return the items the same List without its read-mask options returns", c, fmt.Sprint(len(out.ListEndRaw), " items"), fmt.Sprint(len(out.ListEnd), " items"))
	} else {
		for i, raw := range out.ListEndRaw {
			if want, got := mt.CanonMsg(specProject(raw, mask)), msgText(out.ListEnd[i]); want != got {
				mon.Violate(site+"/List-after-writes/projection", "List with the options, repeated after the writes, returns an item that is not the projection onto "+mask.Enc()+" of what is stored now", c, want, got)
			}
		}
	}
	pOpt := func(m proto.Message) string {
		if m == nil {
			return "nil"
		}
		return mt.CanonMsg(specProject(m, mask))
	}
	if want, got := pOpt(out.GetEndRaw), msgText(out.GetEnd); want != got {
		mon.Violate(site+"/Get-after-writes/projection", "Get("+c.PullID+") with the options, repeated after the writes, is not the projection onto "+mask.Enc()+" of what is stored now", c, want, got)
	}
	if want, got := pOpt(out.VGetEndRaw), msgText(out.VGetEnd); want != got {
		mon.Violate(site+"/Value.Get-after-writes/projection", "Value.Get with the options, repeated after the writes, is not the projection onto "+mask.Enc()+" of the value held now", c, want, got)
	}
	// Pull: seeds
	var seeds1 []kchange
	var updates1, updates2 []kchange
	for _, k := range out.S1 {
		if k.Seed {
			seeds1 = append(seeds1, k)
		} else {
			updates1 = append(updates1, k)
		}
	}
	for _, k := range out.S2 {
		if !k.Seed {
			updates2 = append(updates2, k)
		}
	}
	var wantSeeds []string
	if !c.effUpdatesOnly() {
		for i, k := range accepted {
			k.Last = i == len(accepted)-1
			wantSeeds = append(wantSeeds, k.projected(mask))
		}
	}
	if w, g := strings.Join(wantSeeds, " "), texts(seeds1); w != g && !(len(wantSeeds) == 0 && g == "-") {
		sig := site + "/Pull/seed-projection"
		if len(wantSeeds) != len(seeds1) {
			sig = site + "/Pull/seeds-differ"
		}
		mon.Violate(sig, "the seed values of Pull are not the accepted stored items (callback judged on the stored message), in id order, each projected onto "+mask.Enc()+", the last one flagged", c, w, g)
	}
	// Pull: updates vs the same subscription without the mask
	matchStream := func(name string, want, got []string) {
		if c.Equiv {
			// a collection equivalence is asked about the projected values: the masked subscriber may be sent
			// fewer changes, each still the projection of one the unmasked subscriber was sent, in order
			j := 0
			for _, g := range got {
				for j < len(want) && want[j] != g {
					j++
				}
				if j == len(want) {
					mon.Violate(site+"/"+name+"/projection", "a change delivered under the mask "+mask.Enc()+" is not the projection of a change the same subscription delivers without the mask", c, strings.Join(want, " "), g)
					return
				}
				j++
			}
			return
		}
		if len(want) != len(got) {
			mon.Violate(site+"/"+name+"/events-differ", "a read mask changed which changes the subscription delivers", c, strings.Join(want, " "), strings.Join(got, " "))
			return
		}
		for i := range want {
			if want[i] != got[i] {
				mon.Violate(site+"/"+name+"/projection", "a change delivered under the mask "+mask.Enc()+" is not the projection (both values) of the change the same subscription delivers without the mask", c, want[i], got[i])
			}
		}
	}
	var w, g []string
	for _, k := range updates2 {
		w = append(w, k.projected(mask))
	}
	for _, k := range updates1 {
		g = append(g, k.text())
	}
	matchStream("Pull", w, g)
	// PullID: the seed value
	var item *kchange
	for i := range accepted {
		if accepted[i].ID == c.PullID {
			item = &accepted[i]
		}
	}
	var seedsP []kvalue
	for _, k := range out.P1 {
		if k.Seed {
			seedsP = append(seedsP, k)
		}
	}
	switch {
	case item == nil || c.effUpdatesOnly():
		if len(seedsP) > 0 {
			mon.Violate(site+"/PullID/unexpected-seed", "PullID delivered a seed value for an id that is not stored, not accepted by the include callback, or under UpdatesOnly", c, "no seed value", texts(seedsP))
		}
	case len(seedsP) != 1 || out.P1[0].text() != seedsP[0].text():
		mon.Violate(site+"/PullID/seed-missing", "PullID on a stored, accepted id does not start with exactly one seed value", c, "one seed value first", texts(out.P1))
	default:
		want := kvalue{Time: item.Time, Val: item.New, Seed: true, Last: true}.projected(mask)
		if got := seedsP[0].text(); got != want {
			mon.Violate(site+"/PullID/seed-projection", "the seed value of PullID is not the projection of the stored item onto "+mask.Enc()+" (with the item's change time, flagged seed and last seed)", c, want, got)
		}
	}
	w, g = nil, nil
	for _, k := range out.P2 {
		w = append(w, k.projected(mask))
	}
	for _, k := range out.P1 {
		g = append(g, k.text())
	}
	matchStream("PullID", w, g)
	// Value.Pull: under the mask, the projection of what the same subscription delivers without it; whatever
	// the equivalence, each value is the projection of a value the resource held, in order
	w, g = nil, nil
	for _, k := range out.V2 {
		w = append(w, k.projected(mask))
	}
	for _, k := range out.V1 {
		g = append(g, k.text())
	}
	if c.Equiv {
		w = nil
		if len(out.V0) > 0 && out.V0[0].Seed && !c.effUpdatesOnly() {
			w = append(w, out.V0[0].projected(mask))
		}
		for _, k := range out.VRaw {
			w = append(w, k.projected(mask))
		}
	}
	matchStream("Value.Pull", w, g)
}

var collIDs = []string{"a", "B", "x", "y", "zz", "a1"}

func genCollCase(g *mt.Gen) kcase {
	r := roots[0]
	if g.R.Intn(5) == 0 {
		r = roots[1+g.R.Intn(len(roots)-1)]
	}
	md := r.MD()
	focus := g.Focus(md, 2+g.R.Intn(3))
	genMsg := func() proto.Message {
		m := g.Msg(md, r.New, focus)
		if t, ok := m.(*testproto.TestAllTypes); ok {
			// the fields the callbacks look at: present in about half of the messages
			if g.R.Intn(2) == 0 {
				t.DefaultInt32 = int32(1 + g.R.Intn(5))
			}
			if g.R.Intn(2) == 0 {
				t.DefaultForeignMessage = &testproto.ForeignMessage{C: int32(g.R.Intn(2)), D: int32(1 + g.R.Intn(3))}
			}
			if g.R.Intn(3) == 0 {
				t.DefaultString = "s"
			}
		}
		if g.R.Intn(8) == 0 {
			m = r.New()
		}
		return m
	}
	c := kcase{Root: r.Name, CollRead: true, Order: int64(g.R.Intn(1 << 30)), Equiv: g.R.Intn(6) == 0}
	present := map[string]bool{}
	for _, i := range g.R.Perm(len(collIDs))[:g.R.Intn(5)] {
		m := genMsg()
		c.Items = append(c.Items, kitem{collIDs[i], mt.EncodeMsg(m), mt.CanonMsg(m)})
		present[collIDs[i]] = true
	}
	safeMask := func() string {
		for tries := 0; tries < 20; tries++ {
			m := g.MaskFrom(focus, mt.PathOpts{Corrupt: 0})
			if g.R.Intn(3) == 0 {
				m.Paths = append(m.Paths, []string{"default_int32", "default_foreign_message.c", "default_foreign_message.d", "default_string"}[g.R.Intn(4)])
			}
			ok := true
			for _, p := range m.Paths {
				if !mt.Classify(md, p).Valid {
					ok = false
				}
			}
			if ok {
				return m.Enc()
			}
		}
		return "-"
	}
	// the options: usually one callback and one mask, in either order, sometimes more / others in between
	var os []string
	if g.R.Intn(8) != 0 {
		os = append(os, fmt.Sprintf("I%d", g.R.Intn(8)))
	}
	switch x := g.R.Intn(10); {
	case x == 0:
	case x == 1:
		os = append(os, "M-")
	case x == 2:
		os = append(os, "P"+safeMask())
	default:
		os = append(os, "M"+safeMask())
	}
	for n := g.R.Intn(3); n > 0; n-- {
		os = append(os, []string{"E", "U0", "U1", "B0", "M~", "I-", fmt.Sprintf("I%d", g.R.Intn(8)), "M" + safeMask()}[g.R.Intn(8)])
	}
	g.R.Shuffle(len(os), func(i, j int) { os[i], os[j] = os[j], os[i] })
	c.Options = os
	c.PullID = collIDs[g.R.Intn(len(collIDs))]
	if len(c.Items) > 0 && g.R.Intn(3) != 0 {
		c.PullID = c.Items[g.R.Intn(len(c.Items))].ID
	}
	genWrites := func(n int, hot string) []kwrite {
		var ws []kwrite
		for ; n > 0; n-- {
			id := collIDs[g.R.Intn(len(collIDs))]
			if g.R.Intn(2) == 0 {
				id = hot
			}
			switch {
			case !present[id]:
				m := genMsg()
				ws = append(ws, kwrite{"add", id, mt.EncodeMsg(m), mt.CanonMsg(m)})
				present[id] = true
			case g.R.Intn(4) == 0:
				ws = append(ws, kwrite{Op: "delete", ID: id})
				present[id] = false
			default:
				m := genMsg()
				ws = append(ws, kwrite{"update", id, mt.EncodeMsg(m), mt.CanonMsg(m)})
			}
		}
		return ws
	}
	// a third of the cases: 1-3 writes whose change is still unpublished when the subscriptions open (mostly
	// on one id, so that the subscriber's seed and the changes it is sent afterwards do not form a chain),
	// published in storage order or in another one
	if g.R.Intn(3) == 0 {
		hot := c.PullID
		if len(c.Items) > 0 && g.R.Intn(2) == 0 {
			hot = c.Items[g.R.Intn(len(c.Items))].ID
		}
		c.Pending = genWrites(1+g.R.Intn(3), hot)
		var idx []int
		for i, w := range c.Pending {
			if w.Op != "delete" {
				idx = append(idx, i)
			}
		}
		if g.R.Intn(2) == 0 {
			g.R.Shuffle(len(idx), func(i, j int) { idx[i], idx[j] = idx[j], idx[i] })
		}
		c.Release = idx
	}
	c.Writes = genWrites(g.R.Intn(6), c.PullID)
	// a third of the cases: time does not tell the writes apart
	switch g.R.Intn(6) {
	case 0:
		c.Times = "frozen"
	case 1:
		c.Times = "same-write-time"
	}
	return c
}

// seededCollCases: smallest first — one or two items, a callback that looks at a field the mask does
// not select, PullID on an item that does not sort last.
func seededCollCases() []kcase {
	mk := func(m *testproto.TestAllTypes) (string, string) { return mt.EncodeMsg(m), mt.CanonMsg(m) }
	h1, t1 := mk(&testproto.TestAllTypes{DefaultInt32: 7, DefaultString: "s", DefaultForeignMessage: &testproto.ForeignMessage{C: 1, D: 2}})
	h2, t2 := mk(&testproto.TestAllTypes{DefaultString: "t", DefaultForeignMessage: &testproto.ForeignMessage{D: 3}})
	h3, t3 := mk(&testproto.TestAllTypes{DefaultInt32: 9})
	items := []kitem{{"x", h1, t1}, {"y", h2, t2}, {"zz", h3, t3}}
	writes := []kwrite{{"update", "x", h2, t2}, {"update", "x", h1, t1}, {"delete", "y", "", ""}, {"add", "a", h3, t3}}
	var out []kcase
	for _, os := range [][]string{
		{"I4", "M/default_string"}, {"M/default_string", "I4"}, {"I5", "M/default_foreign_message.d"}, {"I2", "M-"},
		{"I7", "M/default_int32", "M~"}, {"I4", "P/default_foreign_message.c"}, {"I4"}, {"M/default_string"}, {"I1", "M/default_int32"},
		{"I4", "M/default_string", "U1"}, {"I6", "M/default_foreign_message/default_foreign_message.c"}, {},
	} {
		for _, id := range []string{"x", "y", "q"} {
			out = append(out, kcase{Root: "TestAllTypes", CollRead: true, Items: items[:1], Options: os, PullID: id, Order: 1})
			out = append(out, kcase{Root: "TestAllTypes", CollRead: true, Items: items, Options: os, PullID: id, Writes: writes, Order: 2})
		}
	}
	// subscriptions opened between a commit and its publication: the seed already holds the value the first
	// change reports as NEW; two publications overtaking each other; an item deleted / added meanwhile
	upd := func(id, h, t string) kwrite { return kwrite{"update", id, h, t} }
	for _, os := range [][]string{
		{"M/default_string"}, {"I4", "M/default_string"}, {"M/default_foreign_message.d", "I7"}, {"I5", "M/default_int32"}, {"M/default_string", "U1"}, {},
	} {
		for _, p := range []struct {
			pend []kwrite
			rel  []int
			then []kwrite
		}{
			{[]kwrite{upd("x", h2, t2)}, []int{0}, writes[:2]},
			{[]kwrite{upd("x", h2, t2), upd("x", h3, t3)}, []int{1, 0}, writes[:2]},
			{[]kwrite{upd("x", h2, t2), upd("x", h3, t3), upd("x", h1, t1)}, []int{2, 0, 1}, writes[:2]},
			{[]kwrite{upd("x", h2, t2), {Op: "delete", ID: "x"}}, []int{0}, []kwrite{{"add", "x", h3, t3}, writes[1]}},
			{[]kwrite{{"add", "a", h3, t3}, upd("a", h1, t1)}, []int{0, 1}, writes[:2]},
		} {
			out = append(out, kcase{Root: "TestAllTypes", CollRead: true, Items: items[:1], Options: os, PullID: "x", Pending: p.pend, Release: p.rel, Order: 3})
			out = append(out, kcase{Root: "TestAllTypes", CollRead: true, Items: items, Options: os, PullID: "x", Pending: p.pend, Release: p.rel, Writes: p.then, Order: 4})
		}
	}
	// writes that time does not tell apart (a clock that stands still / one WithWriteTime for all): the reads
	// repeated after them must show what is stored then
	for _, times := range []string{"frozen", "same-write-time"} {
		for _, os := range [][]string{{"M/default_string"}, {"I4", "M/default_foreign_message.d"}, {"P/default_int32/default_string"}, {}} {
			out = append(out, kcase{Root: "TestAllTypes", CollRead: true, Items: items[:1], Options: os, PullID: "x", Writes: writes[:1], Order: 5, Times: times})
			out = append(out, kcase{Root: "TestAllTypes", CollRead: true, Items: items, Options: os, PullID: "x", Pending: []kwrite{upd("x", h3, t3)}, Release: []int{0}, Writes: writes[:1], Order: 6, Times: times})
		}
	}
	return out
}

func runCollCases(cases []kcase, tie, stie *lib.Tie, mon *lib.Monitor, drv *lib.Driver) {
	outs := make([]kout, len(cases))
	var lines []string
	for i, c := range cases {
		outs[i] = c.run()
		if outs[i].Panic == "" {
			lines = append(lines, c.modelLines(outs[i])...)
			lines = append(lines, c.schedLines()...)
		}
	}
	ans, err := drv.Batch(lines)
	if err != nil {
		tie.Fail(err)
		return
	}
	k := 0
	for i, c := range cases {
		out := outs[i]
		model := "no panic"
		if out.Panic == "" {
			model = "list: " + ans[k] + " ; pull: " + ans[k+1] + " ; pullid: " + ans[k+2] + " ; value: " + ans[k+3]
			smodel := "list: " + ans[k+4] + " ; pull: " + ans[k+5] + " ; pullid: " + ans[k+6] + " ; plain: " + ans[k+7] + " ; value: " + ans[k+8] + " ; list afterwards: " + ans[k+9] +
				" ; get: " + ans[k+10] + " ; get afterwards: " + ans[k+11] + " ; value get afterwards: " + ans[k+12]
			k += 13
			if out.NotParked == 0 {
				stie.Record(c.key(), len(c.Pending) > 0, c, smodel, c.schedText(out))
				stie.Count(fmt.Sprintf("parked-writers:%d", len(c.releaseOrder())))
			} else {
				stie.Count("skipped:a-writer-did-not-stop-at-the-yield-point")
			}
		}
		nontrivial := !c.effMask().Nil && c.effInclude() != nil
		tie.Record(c.key(), nontrivial, c, model, c.codeText(out))
		tie.Count(fmt.Sprintf("items:%d", len(c.Items)))
		tie.Count(fmt.Sprintf("writes:%d", len(c.Writes)))
		tie.Count(fmt.Sprintf("mask:%v include:%v", !c.effMask().Nil, c.effInclude() != nil))
		if c.Equiv {
			tie.Count("collection:no-duplicates")
		}
		if len(c.Pending) > 0 {
			tie.Count(fmt.Sprintf("pending:%d", len(c.Pending)))
			inOrder := true
			for i, j := range c.releaseOrder() {
				if i > 0 && j < c.releaseOrder()[i-1] {
					inOrder = false
				}
			}
			if !inOrder {
				tie.Count("pending:published-out-of-storage-order")
			}
			if out.NotParked > 0 {
				tie.Count("pending:writer-did-not-stop-at-the-yield-point")
			}
			// the subscriber's seed / previous change for an id does not hold what the next change reports as old
			held := map[string]string{}
			for _, k := range out.S0 {
				if h, ok := held[k.ID]; ok && !k.Seed && msgText(k.Old) != h {
					tie.Count("pending:change-does-not-chain")
					break
				}
				held[k.ID] = msgText(k.New)
			}
		}
		for _, k := range out.S1 {
			if k.Seed {
				tie.Count("delivered:seed")
			} else {
				tie.Count("delivered:" + k.Type)
			}
		}
		for _, k := range out.V1 {
			if k.Seed {
				tie.Count("value:seed")
			} else {
				tie.Count("value:update")
			}
		}
		if len(out.V1) < len(out.V2) {
			tie.Count("value:duplicates-under-mask-dropped")
		}
		for _, k := range out.P1 {
			if k.Seed {
				tie.Count("pullid:seed")
			} else {
				tie.Count("pullid:update")
			}
		}
		// did the callback and the mask interact: some stored item is judged differently on its projection
		if inc := c.effInclude(); inc != nil && !c.effMask().Nil {
			for _, s := range out.S0 {
				if s.Seed && inc(s.ID, s.New) != inc(s.ID, specProject(s.New, c.effMask())) {
					tie.Count("callback-differs-on-projection")
					break
				}
			}
		}
		mon.Eval(c.key(), nontrivial, nil)
		c.monitor(mon, out)
	}
}

func replayCollection(b []byte) int {
	var c kcase
	if err := json.Unmarshal(b, &c); err != nil || c.Root == "" {
		fmt.Println("replay: no concrete input in file")
		return 2
	}
	m := lib.NewMonitor("replay", "")
	out := c.run()
	c.monitor(m, out)
	fmt.Printf("replay collection read options=%s pull_id=%s items=%d pending=%d release=%v writes=%d\n  plain subscriber: %s\n  with the options: %s\n", c.enc(), c.PullID, len(c.Items), len(c.Pending), c.releaseOrder(), len(c.Writes), texts(out.S0), c.codeText(out))
	return reportReplay(m)
}
