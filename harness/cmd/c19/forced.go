package main

import (
	"encoding/base64"
	"fmt"
	"math/rand"
	"runtime"
	"sort"
	"strings"
	"sync"
	"sync/atomic"
	"time"

	"google.golang.org/protobuf/proto"

	"github.com/smart-core-os/sc-golang/pkg/resource"
	"github.com/smart-core-os/sc-golang/pkg/time/clock"
	"github.com/smart-core-os/sc-golang/pkg/trait/electricpb"
	"github.com/smart-core-os/sc-golang/verifharness/lib"
)

// gateClock is the injected model clock of a forced-overlap round: it shows the same instant until the
// round advances it (stamp rounds: while calls are queued behind the parked one), and, once armed, parks the next caller of Now until release is closed. ChangeActiveMode reads the
// model clock while it holds Model.mu, so parking it there makes every other model operation queue up
// behind the lock; closing release lets all of them go at the same moment.
type gateClock struct {
	t       atomic.Int64
	armed   atomic.Bool
	entered chan struct{}
	release chan struct{}
	// parkArmed: the parking spot is not the clock but the caller's WithExpectedCheck callback of a DeleteMode
	// (Collection.Delete calls it after deleteMode's "is it the active mode" guard and before the removal,
	// holding no lock of its own: the delete is parked between its guard and its write, inside Model.mu)
	parkArmed atomic.Bool
}

// parkCheck is that callback: it parks its first caller until release is closed and never refuses.
func (c *gateClock) parkCheck(proto.Message) error {
	if c.parkArmed.CompareAndSwap(true, false) {
		close(c.entered)
		<-c.release
	}
	return nil
}

func (c *gateClock) Now() time.Time {
	if c.armed.CompareAndSwap(true, false) {
		close(c.entered)
		<-c.release
	}
	return time.Unix(c.t.Load(), 0)
}
func (c *gateClock) At(t time.Time) <-chan time.Time {
	ch := make(chan time.Time, 1)
	ch <- t
	return ch
}
func (c *gateClock) After(d time.Duration) <-chan time.Time { return c.At(time.Unix(c.t.Load(), 0).Add(d)) }
func (c *gateClock) Every(d time.Duration) clock.Ticker     { return nopTicker{} }

// overlap is one forced-overlap round: Prefix runs sequentially, Gate is parked inside the model lock,
// Queued are issued concurrently (one goroutine each) while it is parked, then everything is released.
type overlap struct {
	Class  string `json:"class"`
	Prefix []op   `json:"prefix"`
	Gate   op     `json:"gate"`
	Queued []op   `json:"queued"`
	Now    int64  `json:"now"`
	// Advance > 0 (stamp rounds): once the queued calls are blocked behind the parked one the model clock is
	// moved from Now to Now+Advance, the active mode is observed at that instant, then the parked call is released.
	Advance int64 `json:"advance,omitempty"`
}

func newGateClock(t int64) *gateClock {
	gc := &gateClock{}
	gc.t.Store(t)
	return gc
}

// chunks scripted for id generation in a round: distinct 6-byte chunks, consumed in execution order.
func overlapChunks() [][]byte {
	var out [][]byte
	for j := 0; j < 12; j++ {
		b := make([]byte, 6)
		for k := range b {
			b[k] = byte(200 + 5*j + k)
		}
		out = append(out, b)
	}
	return out
}

func newOverlapWorld(clk clock.Clock) *world {
	w := &world{clk: &fakeClock{}, rng: &scriptReader{}}
	w.rng.queue = overlapChunks()
	w.model = electricpb.NewModel(electricpb.WithClock(clk), resource.WithRNG(w.rng))
	w.server = electricpb.NewModelServer(w.model)
	return w
}

// blockedInModel counts goroutines that wait for a lock somewhere below electricpb.
func blockedInModel() int {
	buf := make([]byte, 1<<18)
	n := runtime.Stack(buf, true)
	cnt := 0
	for _, g := range strings.Split(string(buf[:n]), "\n\n") {
		if !strings.Contains(g, "electricpb.(*Model") {
			continue
		}
		if strings.Contains(g, "sync.(*RWMutex).Lock") || strings.Contains(g, "sync.(*RWMutex).RLock") || strings.Contains(g, "sync.(*Mutex).Lock") {
			cnt++
		}
	}
	return cnt
}

type overlapObs struct {
	Forced  bool // the gate was parked and every queued call was blocked or finished before release
	Parked  bool // the gate operation was parked inside the model lock
	GateOut string
	Outs    []string // per queued op
	Final   string
	Err     string
	// stamp rounds: the active mode observed after the clock was advanced and before the release ("" = not observed)
	ActiveAtAdvance string
}

// runOverlap executes the round on the real code. All waits are bounded.
func runOverlap(ov overlap) overlapObs {
	gc := newGateClock(ov.Now)
	w := newOverlapWorld(gc)
	for _, o := range ov.Prefix {
		w.exec(o)
	}
	var obs overlapObs
	gc.entered = make(chan struct{})
	gc.release = make(chan struct{})
	released := false
	releaseOnce := func() {
		if !released {
			released = true
			close(gc.release)
		}
	}
	defer releaseOnce()
	gw := w
	if (ov.Gate.Kind == "delete" || ov.Gate.Kind == "update") && ov.Gate.Check == "pk" {
		gc.parkArmed.Store(true)
		gw = &world{model: w.model, server: w.server, clk: w.clk, rng: w.rng, park: gc.parkCheck}
	} else {
		gc.armed.Store(true)
	}
	gateDone := make(chan string, 1)
	go func() {
		out, _, _ := gw.exec(ov.Gate)
		gateDone <- out
	}()
	parked := false
	select {
	case <-gc.entered:
		parked = true
	case out := <-gateDone:
		// the gate operation never read the clock (e.g. it failed): nothing is parked
		gc.armed.Store(false)
		gc.parkArmed.Store(false)
		gateDone <- out
	case <-time.After(2 * time.Second):
		gc.armed.Store(false)
		gc.parkArmed.Store(false)
	}
	outs := make([]string, len(ov.Queued))
	var finished atomic.Int32
	var wg sync.WaitGroup
	for i, o := range ov.Queued {
		wg.Add(1)
		go func(i int, o op) {
			defer wg.Done()
			out, _, _ := w.exec(o)
			outs[i] = out
			finished.Add(1)
		}(i, o)
	}
	obs.Parked = parked
	if parked {
		// wait until every queued call is blocked on a lock of the model (or has already returned)
		deadline := time.Now().Add(100 * time.Millisecond)
		for time.Now().Before(deadline) {
			if blockedInModel()+int(finished.Load()) >= len(ov.Queued) {
				obs.Forced = true
				break
			}
			time.Sleep(200 * time.Microsecond)
		}
	}
	if ov.Advance > 0 && obs.Forced {
		// the clock moves on while the calls wait for the model lock; at the new instant the old mode is
		// still active (ActiveMode does not take the model lock; the wait is bounded all the same)
		gc.t.Add(ov.Advance)
		seen := make(chan string, 1)
		go func() { seen <- showMode(w.model.ActiveMode()) }()
		select {
		case obs.ActiveAtAdvance = <-seen:
		case <-time.After(2 * time.Second):
		}
	} else if ov.Advance > 0 {
		gc.t.Add(ov.Advance)
	}
	releaseOnce()
	done := make(chan struct{})
	go func() { wg.Wait(); close(done) }()
	select {
	case <-done:
	case <-time.After(30 * time.Second):
		obs.Err = "queued operations did not finish within 30s"
		return obs
	}
	select {
	case obs.GateOut = <-gateDone:
	case <-time.After(30 * time.Second):
		obs.Err = "the gate operation did not finish within 30s"
		return obs
	}
	obs.Outs = outs
	obs.Final = w.stateString(w.snapshot())
	return obs
}

// seqReference runs prefix + the given order sequentially on a fresh real model with the same clock
// value and RNG script; it also renders the Lean driver lines of that order.
func seqReference(ov overlap, order []op) (outs []string, final string, lines []string) {
	gc := newGateClock(ov.Now)
	w := newOverlapWorld(gc)
	now := ov.Now
	render := func(o op) string {
		o.Now = now
		if o.Kind == "create" || o.Kind == "s.create" {
			w.rng.mu.Lock()
			cs := []string{}
			if len(w.rng.queue) > 0 {
				cs = append(cs, base64.RawURLEncoding.EncodeToString(w.rng.queue[0]))
			}
			w.rng.mu.Unlock()
			for i := len(cs); i < 10; i++ {
				cs = append(cs, cand(i, 7))
			}
			o.Cands = cs
		}
		return o.line()
	}
	lines = append(lines, "reset")
	for _, o := range ov.Prefix {
		lines = append(lines, render(o))
		w.exec(o)
	}
	// the calls of the round are performed after the release, i.e. at the advanced instant
	now = ov.Now + ov.Advance
	gc.t.Store(now)
	for _, o := range order {
		lines = append(lines, render(o))
		out, _, _ := w.exec(o)
		outs = append(outs, out)
	}
	return outs, w.stateString(w.snapshot()), lines
}

func permutations(n int) [][]int {
	var res [][]int
	p := make([]int, n)
	for i := range p {
		p[i] = i
	}
	var rec func(k int)
	rec = func(k int) {
		if k == n {
			res = append(res, append([]int(nil), p...))
			return
		}
		for i := k; i < n; i++ {
			p[k], p[i] = p[i], p[k]
			rec(k + 1)
			p[k], p[i] = p[i], p[k]
		}
	}
	rec(0)
	return res
}

// explain looks for a serial order of {gate} ∪ queued whose sequential execution on the real code
// gives every call the outcome it had concurrently and the same final state.
func explain(ov overlap, obs overlapObs) (found bool, order []op, lines []string, seqOuts []string, seqFinal string) {
	all := append([]op{ov.Gate}, ov.Queued...)
	got := append([]string{obs.GateOut}, obs.Outs...)
	for _, perm := range permutations(len(all)) {
		ord := make([]op, len(all))
		want := make([]string, len(all))
		for i, j := range perm {
			ord[i] = all[j]
			want[i] = got[j]
		}
		outs, final, ls := seqReference(ov, ord)
		ok := final == obs.Final
		for i := range outs {
			if outs[i] != want[i] {
				ok = false
			}
		}
		if ok {
			return true, ord, ls, outs, final
		}
	}
	outs, final, ls := seqReference(ov, all)
	return false, all, ls, outs, final
}

// genOverlap draws a forced-overlap round.
func genOverlap(r *rand.Rand) overlap {
	if r.Intn(4) == 0 {
		return genStampOverlap(r)
	}
	switch r.Intn(8) {
	case 0, 1:
		return genParkedDelete(r)
	case 2:
		return genParkedUpdate(r)
	}
	ov := overlap{Now: int64(500 + r.Intn(100))}
	ids := []string{"a", "b", "c", "x"}
	// setup: a few stored modes, at most one normal, and a first active mode
	normalAt := r.Intn(len(ids) + 2) // >= len: no normal mode
	var added []string
	for i, id := range ids {
		if r.Intn(5) == 0 && id != "a" && id != "b" {
			continue
		}
		added = append(added, id)
		ov.Prefix = append(ov.Prefix, op{Kind: "add", Mode: &mode{ID: id, Title: "t" + id, Normal: i == normalAt}})
	}
	// the gate switches to a stored mode other than the active one, so that it reads the clock inside the lock
	if r.Intn(2) == 0 {
		ov.Prefix = append(ov.Prefix, op{Kind: "change", ID: "a"})
		ov.Gate = op{Kind: "change", ID: added[1+r.Intn(len(added)-1)]}
	} else {
		ov.Gate = op{Kind: []string{"change", "s.change"}[r.Intn(2)], ID: added[r.Intn(len(added))]}
	}
	n := 2 + r.Intn(3)
	id := ids[r.Intn(len(ids))]
	switch r.Intn(8) {
	case 0, 1:
		ov.Class = "same-delete-allow-missing"
		for i := 0; i < n; i++ {
			ov.Queued = append(ov.Queued, op{Kind: "s.delete", ID: id, AllowMissing: true})
		}
	case 2:
		ov.Class = "same-delete"
		k := []string{"s.delete", "delete"}[r.Intn(2)]
		for i := 0; i < n; i++ {
			ov.Queued = append(ov.Queued, op{Kind: k, ID: id, AllowMissing: i%2 == 1 && r.Intn(2) == 0})
		}
	case 3:
		ov.Class = "normal-race"
		for i := 0; i < n; i++ {
			switch r.Intn(5) {
			case 4:
				ov.Queued = append(ov.Queued, op{Kind: "update", Mode: &mode{ID: fmt.Sprint("u", i%2), Title: "up", Normal: true}, CreateIfAbsent: true})
			case 0:
				ov.Queued = append(ov.Queued, op{Kind: "s.create", Mode: &mode{Title: fmt.Sprint("c", i), Normal: true}})
			case 1:
				ov.Queued = append(ov.Queued, op{Kind: "s.update", Mode: &mode{ID: ids[r.Intn(4)], Title: "u", Normal: true}, HasMask: true, Mask: []string{"normal"}})
			case 2:
				ov.Queued = append(ov.Queued, op{Kind: "update", Mode: &mode{ID: ids[r.Intn(4)], Title: "u", Normal: true}})
			default:
				ov.Queued = append(ov.Queued, op{Kind: "add", Mode: &mode{ID: fmt.Sprint("n", i), Normal: true}})
			}
		}
	case 4, 5:
		ov.Class = "change-vs-delete"
		// deletes of the mode the parked ChangeActiveMode is switching to, and switches to modes being deleted
		ov.Queued = append(ov.Queued, op{Kind: []string{"s.delete", "delete"}[r.Intn(2)], ID: ov.Gate.ID, AllowMissing: r.Intn(2) == 0})
		for i := 1; i < n; i++ {
			switch r.Intn(3) {
			case 0:
				ov.Queued = append(ov.Queued, op{Kind: "s.change", ID: id})
			case 1:
				ov.Queued = append(ov.Queued, op{Kind: "s.delete", ID: id, AllowMissing: r.Intn(2) == 0})
			default:
				ov.Queued = append(ov.Queued, op{Kind: "s.clear"})
			}
		}
	case 6:
		ov.Class = "same-update"
		for i := 0; i < n; i++ {
			ov.Queued = append(ov.Queued, op{Kind: "s.update", Mode: &mode{ID: id, Title: fmt.Sprint("w", i), Normal: r.Intn(2) == 0}})
		}
	default:
		ov.Class = "mixed"
		for i := 0; i < n; i++ {
			o := genContended(r)
			ov.Queued = append(ov.Queued, o)
		}
	}
	for i := range ov.Queued {
		ov.Queued[i].Now = ov.Now
	}
	ov.Gate.Now = ov.Now
	for i := range ov.Prefix {
		ov.Prefix[i].Now = ov.Now
	}
	return ov
}

// genParkedDelete draws a round whose parked call is a DeleteMode: it has passed deleteMode's guard (the victim is
// not the active mode) and is held in the caller's WithExpectedCheck callback, before the removal. 1-3 calls that
// make the victim the active mode (ChangeActiveMode, UpdateActiveMode, SetActiveMode, and ChangeToNormalMode /
// ClearActiveMode when the victim is the normal mode), or rewrite / re-add / delete it, are issued meanwhile. In
// every serial order a switch to the victim either comes first (then the delete is refused) or finds no mode.
func genParkedDelete(r *rand.Rand) overlap {
	ov := overlap{Class: "delete-parked-vs-switch", Now: int64(500 + r.Intn(100))}
	ids := []string{"a", "b", "c", "x"}
	victim := ids[1+r.Intn(3)]
	victimNormal := r.Intn(2) == 0
	for _, id := range ids {
		ov.Prefix = append(ov.Prefix, op{Kind: "add", Mode: &mode{ID: id, Title: "t" + id, Normal: id == victim && victimNormal}})
	}
	if r.Intn(3) != 0 {
		ov.Prefix = append(ov.Prefix, op{Kind: []string{"change", "s.change"}[r.Intn(2)], ID: "a"})
	}
	ov.Gate = op{Kind: "delete", ID: victim, AllowMissing: r.Intn(2) == 0, Check: "pk"}
	if r.Intn(3) == 0 {
		ov.Gate.Expected = &mode{ID: victim, Title: "t" + victim, Normal: victimNormal}
	}
	n := 1 + r.Intn(3)
	for i := 0; i < n; i++ {
		switch r.Intn(9) {
		case 0, 1:
			ov.Queued = append(ov.Queued, op{Kind: "change", ID: victim})
		case 2:
			ov.Queued = append(ov.Queued, op{Kind: "s.change", ID: victim})
		case 3:
			ov.Queued = append(ov.Queued, op{Kind: "setactive", Mode: &mode{ID: victim, Title: "set"}})
		case 4, 5:
			ov.Queued = append(ov.Queued, op{Kind: []string{"clear", "s.clear"}[r.Intn(2)]})
		case 6:
			ov.Queued = append(ov.Queued, op{Kind: "s.update", Mode: &mode{ID: victim, Title: "u"}, HasMask: true, Mask: []string{"title"}})
		case 7:
			ov.Queued = append(ov.Queued, op{Kind: "s.delete", ID: victim, AllowMissing: r.Intn(2) == 0})
		default:
			ov.Queued = append(ov.Queued, op{Kind: "update", Mode: &mode{ID: victim, Title: "up"}, CreateIfAbsent: true})
		}
	}
	for i := range ov.Queued {
		ov.Queued[i].Now = ov.Now
	}
	ov.Gate.Now = ov.Now
	for i := range ov.Prefix {
		ov.Prefix[i].Now = ov.Now
	}
	return ov
}

// genParkedUpdate is the I1 analogue: an UpdateMode (or an upsert) that makes a mode normal has passed updateMode's
// "no other normal mode" guard and is held in the caller's WithExpectedCheck callback, before the write; 1-3 calls
// that would make ANOTHER mode normal (AddMode, the CreateMode RPC, UpdateMode at both levels, an upsert), delete
// the target, or clear to the normal mode are issued meanwhile. The parked call did pass its guard, so in every
// serial order it comes before any of the others that succeeds in making a mode normal.
func genParkedUpdate(r *rand.Rand) overlap {
	ov := overlap{Class: "update-parked-vs-normal-race", Now: int64(500 + r.Intn(100))}
	for _, id := range []string{"a", "b", "c"} {
		ov.Prefix = append(ov.Prefix, op{Kind: "add", Mode: &mode{ID: id, Title: "t" + id}})
	}
	if r.Intn(2) == 0 {
		ov.Prefix = append(ov.Prefix, op{Kind: "change", ID: "a"})
	}
	target := []string{"b", "c", "u"}[r.Intn(3)] // "u" is not stored: an upsert
	ov.Gate = op{Kind: "update", Mode: &mode{ID: target, Title: "gate", Normal: true}, CreateIfAbsent: target == "u", Check: "pk"}
	if r.Intn(2) == 0 {
		ov.Gate.HasMask, ov.Gate.Mask = true, []string{"normal"}
	}
	n := 1 + r.Intn(3)
	for i := 0; i < n; i++ {
		switch r.Intn(8) {
		case 0:
			ov.Queued = append(ov.Queued, op{Kind: "add", Mode: &mode{ID: fmt.Sprint("n", i), Normal: true}})
		case 1:
			ov.Queued = append(ov.Queued, op{Kind: "s.create", Mode: &mode{Title: fmt.Sprint("c", i), Normal: true}})
		case 2:
			ov.Queued = append(ov.Queued, op{Kind: "update", Mode: &mode{ID: "a", Title: "u", Normal: true}})
		case 3:
			ov.Queued = append(ov.Queued, op{Kind: "s.update", Mode: &mode{ID: "c", Normal: true}, HasMask: true, Mask: []string{"normal"}})
		case 4:
			ov.Queued = append(ov.Queued, op{Kind: "update", Mode: &mode{ID: fmt.Sprint("v", i%2), Normal: true}, CreateIfAbsent: true})
		case 5:
			ov.Queued = append(ov.Queued, op{Kind: []string{"delete", "s.delete"}[r.Intn(2)], ID: target, AllowMissing: r.Intn(2) == 0})
		case 6:
			ov.Queued = append(ov.Queued, op{Kind: []string{"clear", "s.clear"}[r.Intn(2)]})
		default:
			ov.Queued = append(ov.Queued, op{Kind: "s.update", Mode: &mode{ID: target, Title: "w", Normal: false}})
		}
	}
	for i := range ov.Queued {
		ov.Queued[i].Now = ov.Now
	}
	ov.Gate.Now = ov.Now
	for i := range ov.Prefix {
		ov.Prefix[i].Now = ov.Now
	}
	return ov
}

// stampStarts are the start times the stored modes of a stamp round carry (0 = none); all differ from
// every instant the round's clock shows.
var stampStarts = map[string]int64{"a": 3, "b": 0, "c": 9, "x": 0}

func isSwitch(k string) bool { return k == "change" || k == "s.change" || k == "clear" || k == "s.clear" }

// genStampOverlap draws a stamp round, the dual of the other classes: an operation on the mode list
// (create / add / update / delete - none of them reads the clock for a start time) is parked inside the
// model lock, 1-3 switches of the active mode (ChangeActiveMode, UpdateActiveMode, ChangeToNormalMode,
// ClearActiveMode; plus now and then a delete or an update of a switch target) queue up behind it, the
// model clock moves on, then the parked call is released. A switch is performed after the release, so
// the start time it stamps must be the advanced instant.
func genStampOverlap(r *rand.Rand) overlap {
	ov := overlap{Class: "stamp-queued-switch", Now: int64(500 + r.Intn(100)), Advance: int64(1 + r.Intn(600))}
	ids := []string{"a", "b", "c", "x"}
	normalAt := r.Intn(len(ids) + 1)
	var added []string
	for i, id := range ids {
		if r.Intn(5) == 0 && id != "a" && id != "b" {
			continue
		}
		added = append(added, id)
		ov.Prefix = append(ov.Prefix, op{Kind: "add", Mode: &mode{ID: id, Title: "t" + id, Normal: i == normalAt, Start: stampStarts[id]}})
	}
	active := ""
	if r.Intn(3) != 0 {
		active = added[r.Intn(len(added))]
		ov.Prefix = append(ov.Prefix, op{Kind: []string{"change", "s.change"}[r.Intn(2)], ID: active})
	}
	// the parked call: a successful write to the mode list that leaves the switch targets alone
	victim := ""
	for _, id := range added {
		if id != active && id != "a" && id != "b" {
			victim = id
		}
	}
	switch k := r.Intn(5); {
	case k == 0:
		ov.Gate = op{Kind: "add", Mode: &mode{ID: "g", Title: "gate"}}
	case k == 1:
		ov.Gate = op{Kind: []string{"create", "s.create"}[r.Intn(2)], Mode: &mode{Title: "gate"}}
	case k == 2:
		ov.Gate = op{Kind: []string{"update", "s.update"}[r.Intn(2)], Mode: &mode{ID: added[r.Intn(len(added))], Title: "gate"}, HasMask: true, Mask: []string{"title"}}
	case k == 3 && victim != "":
		ov.Gate = op{Kind: []string{"delete", "s.delete"}[r.Intn(2)], ID: victim}
	default:
		ov.Gate = op{Kind: "add", Mode: &mode{ID: "g", Title: "gate", Desc: "d"}}
	}
	n := 1 + r.Intn(3)
	for i := 0; i < n; i++ {
		id := added[r.Intn(len(added))]
		switch r.Intn(8) {
		case 0, 1, 2:
			ov.Queued = append(ov.Queued, op{Kind: "change", ID: id})
		case 3, 4:
			ov.Queued = append(ov.Queued, op{Kind: "s.change", ID: id})
		case 5:
			ov.Queued = append(ov.Queued, op{Kind: []string{"clear", "s.clear"}[r.Intn(2)]})
		case 6:
			if i > 0 {
				ov.Queued = append(ov.Queued, op{Kind: "s.delete", ID: id, AllowMissing: r.Intn(2) == 0})
			} else {
				ov.Queued = append(ov.Queued, op{Kind: "change", ID: id})
			}
		default:
			if i > 0 {
				ov.Queued = append(ov.Queued, op{Kind: "s.update", Mode: &mode{ID: id, Title: "u"}, HasMask: true, Mask: []string{"title"}})
			} else {
				ov.Queued = append(ov.Queued, op{Kind: "s.change", ID: id})
			}
		}
	}
	for i := range ov.Queued {
		ov.Queued[i].Now = ov.Now + ov.Advance
	}
	ov.Gate.Now = ov.Now
	for i := range ov.Prefix {
		ov.Prefix[i].Now = ov.Now
	}
	return ov
}

// startField extracts the start_time from a rendered result "OK=m:<id>:<title>:<normal>:<start>:…".
func startField(out string) (start string, ok bool) {
	if !strings.HasPrefix(out, "OK=m:") {
		return "", false
	}
	fs := strings.Split(out[len("OK="):], ":")
	if len(fs) < 5 {
		return "", false
	}
	return fs[4], true
}

func idField(out string) string {
	fs := strings.Split(out, ":")
	if len(fs) < 2 {
		return ""
	}
	b, _ := hexDecode(fs[1])
	return b
}

// checkStamp is the start-time clause under a moving clock, with its own oracle: every switch of the
// round was performed after the clock had been advanced (the old active mode was observed at the
// advanced instant, and the model lock was still held by the parked call), so the start time a
// successful switch returns is the advanced instant - or, when the mode was already the active one, the
// start time it is stored with. Nothing else is "the clock's current time" for any order of the calls.
func checkStamp(m *lib.Monitor, ov overlap, obs overlapObs) {
	if ov.Advance <= 0 || !obs.Forced {
		return
	}
	input := map[string]any{"overlap": ov}
	t1 := fmt.Sprint(ov.Now + ov.Advance)
	stored := func(id string) string {
		if v := stampStarts[id]; v != 0 {
			return fmt.Sprint(v)
		}
		return "-"
	}
	for i, o := range ov.Queued {
		if !isSwitch(o.Kind) {
			continue
		}
		st, ok := startField(obs.Outs[i])
		if !ok {
			continue
		}
		id := idField(obs.Outs[i])
		if st != t1 && st != stored(id) {
			m.Violate("C19/stamp/start-time-not-clock-at-switch/"+o.Kind,
				"a switch of the active mode that waited for the model lock stamped a start time that is not the model clock's time at the switch", input,
				fmt.Sprintf("start_time %s: the clock showed %s from before the switch could be performed (active mode observed at that instant: %s)", t1, t1, obs.ActiveAtAdvance),
				fmt.Sprintf("%s -> %s (the clock showed %d only while the call was queuing)", o.line(), obs.Outs[i], ov.Now))
		}
	}
}

// checkOverlap evaluates one round: every call's outcome and the final state must be those of SOME
// serial order (oracle: the real code run sequentially), and the outcomes that no serial order can
// produce are named directly.
func checkOverlap(m *lib.Monitor, ov overlap, obs overlapObs) (found bool, order []op, lines []string) {
	input := map[string]any{"overlap": ov}
	if obs.Err != "" {
		m.Violate("C19/overlap/stuck/"+ov.Class, "operations did not finish", input, "all calls return", obs.Err)
		return false, nil, nil
	}
	all := append([]op{ov.Gate}, ov.Queued...)
	got := append([]string{obs.GateOut}, obs.Outs...)
	for i, o := range all {
		if got[i] == "panic" {
			m.Violate("C19/overlap/panic/"+o.Kind, "an operation panicked under concurrency", input, "no panic", "panic")
		}
		if (o.Kind == "delete" || o.Kind == "s.delete") && o.AllowMissing && o.ID != "" && got[i] == "err:NotFound" {
			m.Violate("C19/delete/allow-missing-not-ok/concurrent-"+o.Kind, "a delete with allow-missing reported NotFound under a concurrent mix (no serial order allows that)", input, "OK (or FailedPrecondition for the active mode)", got[i])
		}
	}
	checkStamp(m, ov, obs)
	found, order, lines, seqOuts, seqFinal := explain(ov, obs)
	if !found {
		sort.Strings(seqOuts)
		m.Violate("C19/serialisable/"+ov.Class, "the outcomes of concurrent calls and the final state are not those of any serial order of the calls", input,
			"some serial order, e.g. gate first: "+strings.Join(seqOuts, " | ")+" final "+seqFinal,
			"gate "+obs.GateOut+" queued "+strings.Join(obs.Outs, " | ")+" final "+obs.Final)
	}
	return found, order, lines
}
