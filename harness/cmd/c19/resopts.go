package main

import (
	"fmt"
	"math/rand"
	"sort"

	"github.com/smart-core-os/sc-golang/verifharness/lib"
)

// Two families; the property's state clauses (I1-I3, the start-time stamp, the result codes) are evaluated on them
// by the plain-Go monitor of icpt.go (ids compared as they are); the Lean side of the first is ActiveW.lean (wstep;
// driver line `awconfig p:<fields> <active> <modes|->`):
//
//   - resource options on the ACTIVE MODE resource: NewModel(WithActiveModeOption(resource.WithWritablePaths(...))).
//     A write to the active mode then only touches the writable fields; the property's clauses do not depend on it
//     as long as `id` is writable: a switch to a different mode is stamped with the clock's time whatever else is
//     writable (the stamp is not a caller's write).
//   - the model clock over its whole range: the fake clock is set to instants at, next to and far outside the ends
//     of what a protobuf Timestamp calls valid (year 1 .. year 9999), and to the epoch. "Stamps its start time with
//     the clock's current time" has no exception.  Sequences whose readings are all positive also go through the
//     model tie (the model's time is a natural number).

// stateOnly: the run is outside the Lean model's vocabulary (a clock reading that is not a positive natural number, or
// writable fields together with options the driver's awconfig line does not carry): plain-Go monitor only, no tie.
func (c config) stateOnly(seq []op) bool {
	if len(c.ActiveWritable) > 0 && (len(c.Recs) > 0 || c.Icpt != "") {
		return true
	}
	for _, o := range seq {
		if o.Now <= 0 {
			return true
		}
	}
	return false
}

func activeWritableSets() [][]string {
	return [][]string{
		{"id", "title", "description", "voltage", "segments", "normal"}, // everything but the start time (5105353)
		{"id", "title"},
		{"id", "normal", "start_time"},
		{"id"},
	}
}

// switchAlphabet: two stored modes, every way of switching between them, at both API levels.
func switchAlphabet() []op {
	m := func(id string, normal bool) *mode { return &mode{ID: id, Title: "t" + id, Normal: normal} }
	return []op{
		{Kind: "add", Mode: m("a", true)},
		{Kind: "add", Mode: m("b", false)},
		{Kind: "change", ID: "a"},
		{Kind: "change", ID: "b"},
		{Kind: "s.change", ID: "a"},
		{Kind: "s.change", ID: "b"},
		{Kind: "clear"},
		{Kind: "s.clear"},
		{Kind: "setactive", Mode: &mode{ID: "b", Title: "set", Start: 5}},
		{Kind: "delete", ID: "a"},
		{Kind: "s.delete", ID: "b", AllowMissing: true},
		{Kind: "update", Mode: &mode{ID: "b", Title: "x", Normal: false}, HasMask: true, Mask: []string{"title"}},
	}
}

// resourceOptionFamily: per writable set, from the new model and from a configured one, every sequence over
// switchAlphabet up to maxLen (new model: the two adds come first), then random longer ones.
func (rn *runner) resourceOptionFamily(tie *lib.Tie, r *rand.Rand, maxLen, random int) {
	al := switchAlphabet()
	configured := []mode{{ID: "a", Title: "ta", Normal: true}, {ID: "b", Title: "tb"}}
	var cfgs []config
	for _, w := range activeWritableSets() {
		cfgs = append(cfgs, config{ActiveWritable: w, Modes: configured},
			config{ActiveWritable: w, Modes: configured, Active: &mode{ID: "b", Title: "tb", Start: 3}})
	}
	for _, cfg := range cfgs {
		for n := 1; n <= maxLen; n++ {
			var rec func(prefix []op)
			rec = func(prefix []op) {
				if len(prefix) == n {
					rn.do(cfg, withNow(prefix), tie, fmt.Sprintf("active-writable-len-%d", n))
					return
				}
				for _, o := range al {
					rec(append(append([]op{}, prefix...), o))
				}
			}
			rec(nil)
		}
	}
	sets := activeWritableSets()
	for i := 0; i < random; i++ {
		seq := make([]op, 3+r.Intn(10))
		for j := range seq {
			seq[j] = al[r.Intn(len(al))]
		}
		rn.do(config{ActiveWritable: sets[r.Intn(len(sets))]}, withNow(seq), tie, "active-writable-random")
	}
}

// clockReadings: seconds since the epoch. A Timestamp is "valid" from -62135596800 (0001-01-01T00:00:00Z) to
// 253402300799 (9999-12-31T23:59:59Z).
func clockReadings() []int64 {
	return []int64{
		-1 << 40, -62135596801, -62135596800, -62135596799, -1, 0, 1, 1700000000,
		253402300798, 253402300799, 253402300800, 253402300801, 1 << 40,
	}
}

// clockRangeFamily: switch-heavy sequences with the clock set to readings drawn from clockReadings; half of the
// sequences use positive readings in increasing order only, and so feed the model tie too.
func (rn *runner) clockRangeFamily(tie *lib.Tie, r *rand.Rand, n int) {
	al := switchAlphabet()
	all := clockReadings()
	var pos []int64
	for _, x := range all {
		if x > 0 {
			pos = append(pos, x)
		}
	}
	// every reading, at the first switch away from the placeholder and at a switch between two stored modes
	for _, x := range all {
		for _, k := range []string{"change", "s.change"} {
			rn.do(config{}, []op{
				{Kind: "add", Mode: &mode{ID: "a", Title: "ta", Normal: true}, Now: 10},
				{Kind: "add", Mode: &mode{ID: "b", Title: "tb"}, Now: 11},
				{Kind: k, ID: "b", Now: x},
				{Kind: "clear", Now: x},
				{Kind: "s.clear", Now: x},
			}, tie, "clock-range-each")
		}
	}
	for i := 0; i < n; i++ {
		pool := all
		if i%2 == 0 {
			pool = pos
		}
		seq := make([]op, 4+r.Intn(8))
		nows := make([]int64, len(seq))
		for j := range seq {
			seq[j] = al[r.Intn(len(al))]
			if j < 2 {
				seq[j] = al[j] // the two adds
			}
			nows[j] = pool[r.Intn(len(pool))]
		}
		if i%2 == 0 {
			sort.Slice(nows, func(a, b int) bool { return nows[a] < nows[b] })
		}
		for j := range seq {
			seq[j].Now = nows[j]
		}
		rn.do(config{}, seq, tie, "clock-range")
	}
}
