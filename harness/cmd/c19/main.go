// Harness for C19 (the electric model keeps its documented mode invariants): runs operation
// sequences on the real electricpb.Model and its ElectricApi/MemorySettingsApi servers, compares
// every step (result + whole observable state) with the Lean model (driverC19), evaluates the
// invariants after every step with an independent oracle, and stress-tests 2-4 goroutines.
package main

import (
	"encoding/json"
	"fmt"
	"math/rand"
	"os"
	"strings"
	"sync"

	"github.com/smart-core-os/sc-golang/pkg/trait/electricpb"
	"github.com/smart-core-os/sc-golang/verifharness/lib"
)

type runner struct {
	f     lib.Flags
	drv   *lib.Driver
	mon   *lib.Monitor
	lines []string
	pend  []pend
}

type pend struct {
	tie   *lib.Tie
	cfg   config
	seq   []op
	obs   []stepObs
	first int
}

func (rn *runner) do(cfg config, seq []op, tie *lib.Tie, class string) {
	var obs []stepObs
	stateOnly := cfg.stateOnly(seq)
	if cfg.foreign() {
		// a record configured under a key it does not carry: outside the property's hypothesis, tie only
		obs = runSeqMon(nil, cfg, seq)
		tie.Count("foreign-key-configuration")
	} else if cfg.Icpt != "" || len(cfg.ActiveWritable) > 0 || stateOnly {
		// the mode collection behind an id interceptor: own monitor (icpt.go), streams feed the tie;
		// resource options on the active mode / clock readings the model has no notion of (resopts.go): same monitor,
		// ids compared as they are
		obs = runSeqMon(nil, cfg, seq)
		key := cfg.line() + " " + strings.Join(cfg.ActiveWritable, ",") + "\n"
		for _, o := range seq {
			key += o.line() + "\n"
		}
		rn.mon.Eval(key, len(seq) > 1, map[string]any{"init": cfg, "ops": seq, "last": obs[len(obs)-1].Out})
		rn.mon.Count("class:" + class)
		monitorIcpt(rn.mon, cfg, seq, obs)
	} else {
		obs = runSeqMon(rn.mon, cfg, seq)
		key := cfg.line() + "\n"
		for _, o := range seq {
			key += o.line() + "\n"
		}
		rn.mon.Eval(key, len(seq) > 1, map[string]any{"init": cfg, "ops": seq, "last": obs[len(obs)-1].Out})
		rn.mon.Count("class:" + class)
		if cfg.Active != nil || len(cfg.Modes) > 0 || len(cfg.Recs) > 0 {
			rn.mon.Count("configured-initial-state")
		}
		monitorSeq(rn.mon, cfg, seq, obs)
	}
	for _, st := range obs {
		tie.Count("op:" + st.Op.Kind)
		r := st.Out
		if len(r) > 3 && r[:3] == "OK=" {
			r = "OK"
		}
		tie.Count("result:" + r)
	}
	if rn.drv == nil || stateOnly {
		return
	}
	rn.lines = append(rn.lines, cfg.line())
	first := len(rn.lines)
	for _, o := range seq {
		rn.lines = append(rn.lines, o.line())
	}
	rn.pend = append(rn.pend, pend{tie: tie, cfg: cfg, seq: seq, obs: obs, first: first})
	if len(rn.lines) > 6000 {
		rn.flush()
	}
}

// doConfig: a configuration whose construction must panic (or not) - model vs code, on the construction alone.
func (rn *runner) doConfig(cfg config, tie *lib.Tie) {
	code := "ok"
	if p, _ := lib.Catch(func() { newWorldCfg(cfg) }); p {
		code = "panic"
	}
	tie.Count("construction:" + code)
	if rn.drv == nil {
		return
	}
	rn.flush()
	ans, err := rn.drv.Batch([]string{cfg.line()})
	if err != nil {
		tie.Fail(err)
		return
	}
	model := ans[0]
	if j := indexByte(model, ' '); j > 0 {
		model = model[:j]
	}
	tie.Record("construct "+cfg.line(), true, map[string]any{"init": cfg}, model, code)
}

func (rn *runner) flush() {
	if rn.drv == nil || len(rn.lines) == 0 {
		return
	}
	ans, err := rn.drv.Batch(rn.lines)
	if err != nil {
		for _, p := range rn.pend {
			p.tie.Fail(err)
		}
		rn.lines, rn.pend = nil, nil
		return
	}
	for _, p := range rn.pend {
		prefix := p.cfg.line() + "\n"
		for i, st := range p.obs {
			prefix += st.Op.line() + "\n"
			p.tie.Record(prefix, true, map[string]any{"init": p.cfg, "ops": p.seq[:i+1]}, ans[p.first+i], st.Out+" "+st.State)
		}
	}
	rn.lines, rn.pend = nil, nil
}

// alphabet of the bounded-exhaustive tie: three mode ids (a, b, c), both API levels.
func alphabet(cfg config) []op {
	a := func(id string, normal bool) *mode { return &mode{ID: id, Title: "t" + id, Normal: normal} }
	al := baseAlphabet(a)
	// every Model-API operation that takes an id, with the placeholder active mode's own id ("" by default)
	p := cfg.placeholderID()
	al = append(al,
		op{Kind: "setactive", Mode: &mode{ID: p, Title: "ph", Start: 6}},
		op{Kind: "change", ID: p},
		op{Kind: "delete", ID: p},
		op{Kind: "delete", ID: p, AllowMissing: true},
		op{Kind: "update", Mode: &mode{ID: p, Title: "ph", Normal: true}},
		op{Kind: "find", ID: p},
		op{Kind: "find", ID: "a"},
	)
	return al
}

func baseAlphabet(a func(id string, normal bool) *mode) []op {
	return []op{
		{Kind: "add", Mode: &mode{ID: "a", Title: "ta", Normal: true, Desc: "d", Volt: 240, Segs: []int{5, 7}}},
		{Kind: "add", Mode: a("b", true)},
		{Kind: "add", Mode: a("b", false)},
		{Kind: "create", Mode: &mode{Title: "gen"}, Cands: tenCands()},
		{Kind: "s.create", Mode: &mode{Title: "gen", Normal: true}, Cands: tenCands()},
		{Kind: "s.create", NilMode: true, Cands: tenCands()}, // a CreateMode request without a mode
		{Kind: "update", Mode: a("b", true)},
		{Kind: "s.update", Mode: a("b", true), HasMask: true, Mask: []string{"normal"}},
		{Kind: "update", Mode: &mode{ID: "a", Title: "x", Normal: true}, HasMask: true, Mask: []string{"title"}},
		{Kind: "s.update", Mode: &mode{ID: "a", Title: "y", Start: 77}},
		{Kind: "s.update", Mode: &mode{ID: "a", Desc: "e", Volt: 110, Segs: []int{9}}, HasMask: true, Mask: []string{"description", "voltage", "segments"}},
		{Kind: "delete", ID: "a"},
		{Kind: "s.delete", ID: "b"},
		{Kind: "delete", ID: "b", AllowMissing: true},
		{Kind: "s.delete", ID: "c", AllowMissing: true},
		{Kind: "s.delete", ID: "c"},
		{Kind: "change", ID: "a"},
		{Kind: "s.change", ID: "b"},
		{Kind: "s.change", ID: "c"},
		{Kind: "clear"},
		{Kind: "s.clear"},
		{Kind: "setactive", Mode: &mode{ID: "b", Title: "set", Start: 5}},
		// Model-level write options: UpdateMode as an upsert (with and without a mask that leaves the id out),
		// value preconditions on update and delete
		{Kind: "update", Mode: a("c", true), CreateIfAbsent: true},
		{Kind: "update", Mode: &mode{ID: "b", Title: "up", Normal: true}, HasMask: true, Mask: []string{"title"}, CreateIfAbsent: true},
		{Kind: "delete", ID: "b", Expected: a("b", false)},
		// DeleteMode with the caller's check AND an expected value: on a stored mode the check is asked first (b is
		// refused by the check although the expected value differs too), on an absent id neither is consulted
		{Kind: "delete", ID: "b", Expected: a("b", true), Check: "ca"},
		{Kind: "delete", ID: "c", AllowMissing: true, Expected: a("c", false), Check: "cn"},
		// the caller's own code and a reset mask among the options (tame ones: options.go)
		{Kind: "update", Mode: &mode{ID: "a", Title: "x", Normal: true, Desc: "d"}, HasReset: true, Reset: []string{"description", "normal"}, Before: "tp", After: "nk"},
		{Kind: "update", Mode: a("b", true), HasMask: true, Mask: []string{"normal"}, Check: "cn"},
		{Kind: "update", Mode: &mode{ID: "c", Title: "up", Normal: true}, HasMask: true, Mask: []string{"title", "normal"}, CreateIfAbsent: true, Before: "n0", After: "ds"},
	}
}

// untameProbes: short sequences that end in an UpdateMode whose options are outside WOpts.Tame (a reset mask
// naming id, a callback that renames the record or raises normal), one untame option each, over existing and
// absent (upsert) ids, with and without masks. What they show is recorded in known_findings/C19.json.
func untameProbes() [][]op {
	a := func(id string, normal bool) *mode { return &mode{ID: id, Title: "t" + id, Normal: normal} }
	prefix := []op{{Kind: "add", Mode: a("a", true)}, {Kind: "add", Mode: a("b", false)}}
	var out [][]op
	for _, last := range []op{
		{Kind: "update", Mode: a("b", false), HasReset: true, Reset: []string{"id"}},
		{Kind: "update", Mode: a("b", false), HasMask: true, Mask: []string{"title"}, HasReset: true, Reset: []string{"title", "id"}},
		{Kind: "update", Mode: a("c", false), CreateIfAbsent: true, HasReset: true, Reset: []string{"id"}},
		{Kind: "update", Mode: a("b", false), After: "i0"},
		{Kind: "update", Mode: a("b", false), HasMask: true, Mask: []string{"title"}, Before: "iz"},
		{Kind: "update", Mode: a("c", false), CreateIfAbsent: true, After: "iz"},
		{Kind: "update", Mode: a("b", false), After: "n1"},
		{Kind: "update", Mode: a("b", false), HasMask: true, Mask: []string{"normal"}, Before: "n1"},
		{Kind: "update", Mode: a("c", false), CreateIfAbsent: true, HasMask: true, Mask: []string{"title"}, After: "n1"},
		// an untame option that does no harm here: the only normal mode is the one updated
		{Kind: "update", Mode: a("a", false), After: "n1"},
	} {
		out = append(out, withNow(append(append([]op{}, prefix...), last)))
		// … and what the code does afterwards (the keyed model follows): the record is reached under its KEY, the
		// guards look at the id it carries
		key := last.Mode.ID
		out = append(out, withNow(append(append([]op{}, prefix...), last,
			op{Kind: "find", ID: key}, op{Kind: "change", ID: key}, op{Kind: "delete", ID: key},
			op{Kind: "add", Mode: a(key, false)}, op{Kind: "s.clear"})))
		out = append(out, withNow(append(append([]op{}, prefix...), last,
			op{Kind: "s.update", Mode: &mode{ID: key, Title: "again", Normal: true}}, op{Kind: "s.change", ID: "zz"},
			op{Kind: "setactive", Mode: &mode{ID: key, Title: "set"}}, op{Kind: "delete", ID: "", AllowMissing: true},
			op{Kind: "s.delete", ID: key}, op{Kind: "clear"})))
	}
	return out
}

func tenCands() []string {
	var cs []string
	for i := 0; i < 10; i++ {
		cs = append(cs, cand(i, 0))
	}
	return cs
}

func withNow(seq []op) []op {
	out := make([]op, len(seq))
	for i, o := range seq {
		o.Now = int64(10 + i)
		out[i] = o
	}
	return out
}

func (rn *runner) exhaustive(cfg config, tie *lib.Tie, maxLen int) {
	al := alphabet(cfg)
	var rec func(prefix []op)
	rec = func(prefix []op) {
		if len(prefix) > 0 {
			// a sequence covers its prefixes: only maximal ones (or shorter ones at the length bound) are run
			if len(prefix) == maxLen {
				rn.do(cfg, withNow(prefix), tie, fmt.Sprintf("exhaustive-len-%d", maxLen))
				return
			}
		}
		for _, o := range al {
			rec(append(append([]op{}, prefix...), o))
		}
	}
	rec(nil)
}

var idPool = []string{"a", "b", "c", "ab", cand(0, 0), cand(0, 1), cand(1, 0), cand(2, 0)}
var titles = []string{"", "t", "eco", "é"}
var paths = []string{"id", "title", "normal", "start_time", "description", "voltage", "segments"}

func genMode(r *rand.Rand, id string) *mode {
	m := &mode{ID: id, Title: titles[r.Intn(len(titles))], Normal: r.Intn(3) == 0}
	if r.Intn(4) == 0 {
		m.Start = int64(1 + r.Intn(50))
	}
	if r.Intn(3) == 0 {
		m.Desc = titles[r.Intn(len(titles))]
	}
	if r.Intn(3) == 0 {
		m.Volt = []int{110, 230, 240}[r.Intn(3)]
	}
	for r.Intn(3) == 0 && len(m.Segs) < 3 {
		m.Segs = append(m.Segs, 1+r.Intn(9))
	}
	return m
}

func genMask(r *rand.Rand, o *op) {
	switch r.Intn(6) {
	case 0, 1:
		return // no mask
	case 2:
		o.HasMask = true // empty mask
	default:
		o.HasMask = true
		for _, p := range paths {
			if r.Intn(2) == 0 {
				o.Mask = append(o.Mask, p)
			}
		}
		if r.Intn(12) == 0 {
			o.Mask = append(o.Mask, "bogus")
		}
	}
}

// genExpected draws the argument of WithExpectedValue: the blank message, the plain mode the generators
// store under that id most often, or a random mode.
func genExpected(r *rand.Rand, id string) *mode {
	switch r.Intn(4) {
	case 0:
		return &mode{}
	case 1:
		return &mode{ID: id, Title: titles[r.Intn(len(titles))]}
	case 2:
		return &mode{ID: id, Title: titles[r.Intn(len(titles))], Normal: true}
	}
	return genMode(r, id)
}

// genWriteOpts adds Model-level write options to an UpdateMode: upsert, expect-absent, expected value.
func genWriteOpts(r *rand.Rand, o *op) {
	if r.Intn(5) < 3 {
		return
	}
	if r.Intn(3) != 0 {
		o.CreateIfAbsent = true
	}
	if r.Intn(5) == 0 {
		o.ExpectAbsent = true
	}
	if r.Intn(4) == 0 {
		o.Expected = genExpected(r, o.Mode.ID)
	}
	genCallerCode(r, o)
}

// genCallerCode adds tame caller-supplied code / a reset mask to an UpdateMode: a reset mask over any paths
// but id (now and then with an unknown path), an expected-check, before / after interceptors.
func genCallerCode(r *rand.Rand, o *op) {
	if r.Intn(2) == 0 {
		return
	}
	if r.Intn(2) == 0 {
		o.HasReset = true
		for _, p := range paths[1:] {
			if r.Intn(4) == 0 {
				o.Reset = append(o.Reset, p)
			}
		}
		if r.Intn(15) == 0 {
			o.Reset = append(o.Reset, "bogus")
		}
	}
	if r.Intn(3) == 0 {
		o.Check = checkNames[r.Intn(len(checkNames))]
	}
	if r.Intn(3) == 0 {
		o.Before = tameIcpts[r.Intn(len(tameIcpts))]
	}
	if r.Intn(3) == 0 {
		o.After = tameIcpts[r.Intn(len(tameIcpts))]
	}
}

// genUntame draws an UpdateMode with exactly one option outside WOpts.Tame (used as the LAST operation only).
func genUntame(r *rand.Rand, id string, now int64) op {
	o := op{Kind: "update", Mode: genMode(r, id), Now: now}
	genMask(r, &o)
	for _, p := range o.Mask {
		if p == "bogus" {
			o.Mask = nil
		}
	}
	o.CreateIfAbsent = r.Intn(2) == 0
	switch r.Intn(3) {
	case 0:
		o.HasReset = true
		o.Reset = []string{"id"}
		if r.Intn(2) == 0 {
			o.Reset = append(o.Reset, paths[1+r.Intn(len(paths)-1)])
		}
	case 1:
		n := []string{"i0", "iz"}[r.Intn(2)]
		if r.Intn(2) == 0 {
			o.Before = n
		} else {
			o.After = n
		}
	default:
		if r.Intn(2) == 0 {
			o.Before = "n1"
		} else {
			o.After = "n1"
		}
	}
	return o
}

func genOp(r *rand.Rand, step int) op {
	id := idPool[r.Intn(len(idPool))]
	if r.Intn(3) == 0 {
		id = idPool[r.Intn(3)]
	}
	now := int64(100 + 3*step + r.Intn(3))
	cands := func() []string {
		var cs []string
		for i := 0; i < 10; i++ {
			cs = append(cs, cand(i, r.Intn(2)))
		}
		return cs
	}
	switch r.Intn(24) {
	case 0, 1, 2:
		return op{Kind: "add", Mode: genMode(r, id), Now: now}
	case 3:
		return op{Kind: "create", Mode: genMode(r, ""), Cands: cands(), Now: now}
	case 4:
		if r.Intn(8) == 0 {
			return op{Kind: "s.create", NilMode: true, Cands: cands(), Now: now} // a request without a mode
		}
		return op{Kind: "s.create", Mode: genMode(r, ""), Cands: cands(), Now: now}
	case 5:
		if r.Intn(3) == 0 {
			return op{Kind: "s.create", Mode: genMode(r, id), Cands: cands(), Now: now} // id set: InvalidArgument
		}
		return op{Kind: "create", Mode: genMode(r, ""), Cands: cands(), Now: now}
	case 6, 7, 8:
		o := op{Kind: "update", Mode: genMode(r, id), Now: now}
		genMask(r, &o)
		genWriteOpts(r, &o)
		return o
	case 9, 10:
		o := op{Kind: "s.update", Mode: genMode(r, id), Now: now}
		if r.Intn(10) == 0 {
			o.Mode.ID = ""
		}
		if r.Intn(20) == 0 {
			o.NilMode = true // a request without a mode
		}
		genMask(r, &o)
		return o
	case 11, 12:
		o := op{Kind: "delete", ID: id, AllowMissing: r.Intn(2) == 0, Now: now}
		if r.Intn(4) == 0 {
			o.Expected = genExpected(r, id)
		}
		if r.Intn(4) == 0 {
			o.Check = checkNames[r.Intn(len(checkNames))]
		}
		return o
	case 13, 14:
		o := op{Kind: "s.delete", ID: id, AllowMissing: r.Intn(2) == 0, Now: now}
		if r.Intn(10) == 0 {
			o.ID = ""
		}
		return o
	case 15:
		return op{Kind: "setactive", Mode: genMode(r, id), Now: now}
	case 16, 17:
		return op{Kind: "change", ID: id, Now: now}
	case 18, 19:
		o := op{Kind: "s.change", ID: id, Now: now}
		if r.Intn(10) == 0 {
			o.ID = ""
			o.NilMode = r.Intn(2) == 0 // no active_mode message at all
		}
		return o
	case 20, 21:
		return op{Kind: "clear", Now: now}
	case 22:
		return op{Kind: "s.clear", Now: now}
	default:
		// documented contract panics of the Model API
		if r.Intn(2) == 0 {
			return op{Kind: "add", Mode: genMode(r, ""), Now: now}
		}
		return op{Kind: "create", Mode: genMode(r, id), Cands: cands(), Now: now}
	}
}

// configuredStates are the non-default initial states of the bounded-exhaustive tie (all InitOk:
// distinct ids, at most one normal mode).
func configuredStates() []config {
	return []config{
		// two initial modes, one normal; the placeholder's id names no mode
		{Modes: []mode{{ID: "b", Title: "tb"}, {ID: "a", Title: "ta", Normal: true}}, Active: &mode{ID: "boot", Title: "placeholder"}},
		// the placeholder is a copy of an initial mode
		{Modes: []mode{{ID: "b", Title: "tb", Normal: true}}, Active: &mode{ID: "b", Title: "tb", Normal: true, Start: 3}},
		// the placeholder carries the id of a mode that is only added later
		{Active: &mode{ID: "a", Title: "early"}},
	}
}

// keyedStates: initial records given through WithModeOption(resource.WithInitialRecord(key, mode)) - one with
// every record under its id (what WithInitialMode does), one with a record under a key it does not carry (the
// mode with id "a" under the key "c": tie only).
func keyedStates() []config {
	return []config{
		{Recs: []keyed{{"b", mode{ID: "b", Title: "tb"}}, {"a", mode{ID: "a", Title: "ta", Normal: true}}}},
		{Recs: []keyed{{"c", mode{ID: "a", Title: "ta", Normal: true}}, {"b", mode{ID: "b", Title: "tb"}}}},
	}
}

// genConfig draws an initial state: mostly NewModel(), else up to three initial modes (at most one
// normal) and a placeholder active mode whose id is "", a fresh id, or the id of a (future) mode.
func genConfig(r *rand.Rand) config {
	if r.Intn(5) < 3 {
		return config{}
	}
	var cfg config
	ids := []string{"a", "b", "c", "ab"}
	r.Shuffle(len(ids), func(i, j int) { ids[i], ids[j] = ids[j], ids[i] })
	n := r.Intn(4)
	normalAt := r.Intn(n + 2)
	for i := 0; i < n; i++ {
		m := mode{ID: ids[i], Title: titles[r.Intn(len(titles))], Normal: i == normalAt}
		if r.Intn(5) == 0 {
			m.Start = int64(1 + r.Intn(50))
		}
		cfg.Modes = append(cfg.Modes, m)
	}
	if r.Intn(4) != 0 {
		p := genMode(r, []string{"", "boot", "a", "b", "c"}[r.Intn(5)])
		cfg.Active = p
	}
	// now and then the records are given directly (WithInitialRecord), half of these with one record under a key it
	// does not carry (tie only) or a key configured twice (panic)
	if n > 0 && r.Intn(5) == 0 {
		for _, m := range cfg.Modes {
			cfg.Recs = append(cfg.Recs, keyed{Key: m.ID, Mode: m})
		}
		cfg.Modes = nil
		switch r.Intn(4) {
		case 0:
			cfg.Recs[r.Intn(n)].Key = []string{"k", "zz", ""}[r.Intn(3)]
		case 1:
			cfg.Recs[r.Intn(n)].Mode.ID = []string{"", "zz", "a"}[r.Intn(3)]
		case 2:
			if r.Intn(3) == 0 {
				cfg.Recs = append(cfg.Recs, keyed{Key: cfg.Recs[0].Key, Mode: mode{ID: "dup"}})
			}
		}
		return cfg
	}
	// now and then a configuration the options reject: an id configured twice, a mode without id
	if n > 0 && r.Intn(10) == 0 {
		if r.Intn(2) == 0 {
			cfg.Modes = append(cfg.Modes, mode{ID: cfg.Modes[r.Intn(n)].ID, Title: "dup"})
		} else {
			cfg.Modes[r.Intn(n)].ID = ""
		}
	}
	return cfg
}

// genOpCfg is genOp, except that every so often the id argument is the placeholder's own id or "".
func genOpCfg(r *rand.Rand, step int, cfg config) op {
	o := genOp(r, step)
	if r.Intn(6) != 0 {
		return o
	}
	id := ""
	if r.Intn(2) == 0 {
		id = cfg.placeholderID()
	}
	switch o.Kind {
	case "setactive", "update":
		o.Mode.ID = id
	case "change", "delete":
		o.ID = id
	case "clear":
		o = op{Kind: "find", ID: id, Now: o.Now}
	case "s.clear":
		o = op{Kind: "find", ID: idPool[r.Intn(len(idPool))], Now: o.Now}
	}
	return o
}

// genContended draws from the operations that race on the invariants: several threads trying to
// make different modes normal, and deletes racing with switches of the active mode.
func genContended(r *rand.Rand) op {
	id := idPool[r.Intn(4)]
	switch r.Intn(10) {
	case 0, 1, 2:
		return op{Kind: "add", Mode: &mode{ID: id, Normal: true}}
	case 3:
		return op{Kind: "s.create", Mode: &mode{Normal: true}}
	case 4:
		return op{Kind: "update", Mode: &mode{ID: id, Normal: true}}
	case 5:
		return op{Kind: "update", Mode: &mode{ID: id, Normal: true}, CreateIfAbsent: true}
	case 6:
		return op{Kind: "add", Mode: &mode{ID: id}}
	case 7:
		return op{Kind: "s.delete", ID: id, AllowMissing: r.Intn(2) == 0}
	case 8:
		return op{Kind: "change", ID: id}
	default:
		return op{Kind: "update", Mode: &mode{ID: id, Normal: false}}
	}
}

// exhaustion of id generation: the ten candidates are all taken
func exhaustedSeq() []op {
	var seq []op
	var cs []string
	for i := 0; i < 10; i++ {
		cs = append(cs, cand(i, 0))
		seq = append(seq, op{Kind: "add", Mode: &mode{ID: cand(i, 0)}, Now: int64(i + 1)})
	}
	seq = append(seq, op{Kind: "create", Mode: &mode{Title: "x"}, Cands: cs, Now: 20})
	seq = append(seq, op{Kind: "s.delete", ID: cand(9, 0), Now: 21})
	seq = append(seq, op{Kind: "s.create", Mode: &mode{Title: "x"}, Cands: cs, Now: 22})
	return seq
}

// stress: G goroutines issue random operations concurrently on one model; the invariants are
// evaluated at quiescence.
func (rn *runner) stress(r *rand.Rand, mon *lib.Monitor, rounds int) {
	for round := 0; round < rounds; round++ {
		g := 2 + r.Intn(3)
		clk := &fakeClock{}
		clk.now.Store(1000)
		model := electricpb.NewModel(electricpb.WithClock(clk), electricpb.WithRNG(rand.New(rand.NewSource(r.Int63()))))
		w := &world{model: model, server: electricpb.NewModelServer(model), clk: clk, rng: &scriptReader{}}
		progs := make([][]op, g)
		for t := range progs {
			n := 5 + r.Intn(20)
			for i := 0; i < n; i++ {
				o := genOp(r, i)
				if round%2 == 1 {
					o = genContended(r)
				}
				o.Cands = nil
				if (o.Kind == "create" && o.Mode.ID != "") || (o.Kind == "add" && o.Mode.ID == "") {
					o = op{Kind: "clear"}
				}
				progs[t] = append(progs[t], o)
			}
		}
		results := make([][]string, g)
		var wg sync.WaitGroup
		var changedMu sync.Mutex
		changed := false
		for t := 0; t < g; t++ {
			wg.Add(1)
			go func(t int) {
				defer wg.Done()
				// each goroutine applies through its own world view so that bookkeeping is not shared
				wt := &world{model: w.model, server: w.server, clk: &fakeClock{}, rng: &scriptReader{}}
				for _, o := range progs[t] {
					out, err, _ := wt.apply(o)
					results[t] = append(results[t], out)
					if err == nil {
						switch o.Kind {
						case "setactive", "change", "clear", "s.change", "s.clear":
							changedMu.Lock()
							changed = true
							changedMu.Unlock()
						}
					}
				}
			}(t)
		}
		wg.Wait()
		input := map[string]any{"goroutines": progs, "results": results}
		mon.Eval(fmt.Sprint(round), true, nil)
		mon.Count(fmt.Sprintf("goroutines:%d", g))
		for _, rs := range results {
			for _, x := range rs {
				if x == "panic" {
					mon.Violate("C19/stress/panic", "an operation panicked under concurrency", input, "no panic", "panic")
				}
				if x == "err:Aborted" {
					mon.Count("aborted")
				}
			}
		}
		scratch := lib.NewMonitor("scratch", "")
		checkInvariants(scratch, "quiescence", w.snapshot(), changed, input)
		if len(scratch.Violations) > 0 {
			// confirm by re-running the same goroutine programs
			mon.Count("violation-candidates")
			confirmed := map[string]bool{}
			for try := 0; try < 300 && len(confirmed) == 0; try++ {
				again := lib.NewMonitor("scratch", "")
				replayConcurrent(again, progs)
				for _, v := range again.Violations {
					confirmed[v.Signature] = true
				}
			}
			for _, v := range scratch.Violations {
				if confirmed[v.Signature] {
					mon.Violate(v.Signature, v.What, v.Input, v.Expected, v.Observed)
				} else {
					mon.Count("unconfirmed:" + v.Signature)
				}
			}
		}
	}
}

// overlaps runs the forced-overlap rounds (K4-like tie + serialisability monitor).
func (rn *runner) overlaps(r *rand.Rand, tie *lib.Tie, mon *lib.Monitor, rounds int) {
	for i := 0; i < rounds; i++ {
		ov := genOverlap(r)
		obs := runOverlap(ov)
		key := fmt.Sprint(ov.Class, ov.Prefix, ov.Gate, ov.Queued, ov.Advance)
		mon.Eval(key, obs.Forced, map[string]any{"overlap": ov, "gate": obs.GateOut, "outcomes": obs.Outs})
		mon.Count("class:" + ov.Class)
		if obs.Forced {
			mon.Count("forced")
		} else if obs.Parked {
			mon.Count("not-forced:queue-not-observed-blocked")
		} else {
			mon.Count("not-forced:gate-not-parked")
		}
		// a timing-sensitive family confirms itself: a violating round is re-run (same prefix, gate and
		// queued calls) and only reported when it violates again with the same signature
		scratch := lib.NewMonitor("scratch", "")
		found, order, lines := checkOverlap(scratch, ov, obs)
		if len(scratch.Violations) > 0 {
			mon.Count("violation-candidates")
			confirmed := map[string]bool{}
			for try := 0; try < 20 && len(confirmed) < len(scratch.Violations); try++ {
				again := lib.NewMonitor("scratch", "")
				checkOverlap(again, ov, runOverlap(ov))
				for _, v := range again.Violations {
					confirmed[v.Signature] = true
				}
			}
			for _, v := range scratch.Violations {
				if confirmed[v.Signature] {
					mon.Violate(v.Signature, v.What, v.Input, v.Expected, v.Observed)
				} else {
					mon.Count("unconfirmed:" + v.Signature)
				}
			}
			if len(confirmed) == 0 {
				continue // not reproducible: neither a violation nor a tie case
			}
		}
		tie.Count("class:" + ov.Class)
		if rn.drv == nil || lines == nil {
			continue
		}
		ans, err := rn.drv.Batch(lines)
		if err != nil {
			tie.Fail(err)
			return
		}
		// the model's outcomes of the serial order (the one that explains the observation if there is
		// one, else gate first), against the concurrent outcomes arranged in that order
		all := append([]op{ov.Gate}, ov.Queued...)
		got := append([]string{obs.GateOut}, obs.Outs...)
		var modelOuts []string
		for k := range order {
			a := ans[len(ans)-len(order)+k]
			if j := indexByte(a, ' '); j > 0 {
				a = a[:j]
			}
			modelOuts = append(modelOuts, a)
		}
		// arrange the concurrent outcomes: identical calls are interchangeable, prefer the outcome the model gives
		used := make([]bool, len(all))
		codeOuts := make([]string, len(order))
		for pass := 0; pass < 2; pass++ {
			for k, o := range order {
				if codeOuts[k] != "" {
					continue
				}
				for j := range all {
					if !used[j] && all[j].line() == o.line() && (pass == 1 || got[j] == modelOuts[k]) {
						used[j] = true
						codeOuts[k] = got[j]
						break
					}
				}
			}
		}
		last := ans[len(ans)-1]
		modelFinal := last
		if j := indexByte(last, ' '); j > 0 {
			modelFinal = last[j+1:]
		}
		if j := strings.Index(modelFinal, " events="); j >= 0 {
			modelFinal = modelFinal[:j] // the forced-overlap rounds do not follow the streams
		}
		tie.Record(key, obs.Forced, map[string]any{"overlap": ov, "serial_order_found": found},
			fmt.Sprint(modelOuts, " || ", modelFinal), fmt.Sprint(codeOuts, " || ", obs.Final))
	}
}

func indexByte(s string, c byte) int {
	for i := 0; i < len(s); i++ {
		if s[i] == c {
			return i
		}
	}
	return -1
}

func main() {
	f := lib.ParseFlags()
	if f.Replay != "" {
		os.Exit(replay(f))
	}
	res := lib.NewResult("C19", f)
	rn := &runner{f: f}
	exLen := f.N(3, 4)
	ex := res.Tie("electric-exhaustive", "K2",
		fmt.Sprintf("ALL operation sequences of length <= %d over a 37-operation alphabet (Model API and both servers; add/create/update with and without masks/delete with and without allow-missing/change/clear/set-active/find over mode ids a, b, c, one generated id, UpdateMode as an upsert (WithCreateIfAbsent, with and without a mask that leaves the id out) and DeleteMode with WithExpectedValue / WithExpectedCheck (stored and absent ids), UpdateMode with the caller's own code among its options (WithResetMask over other fields than id, WithExpectedCheck, InterceptBefore / InterceptAfter from a named family shared with the driver), and the placeholder active mode's own id — \"\" by default — for every Model-API operation that takes an id) on NewModel(), and all sequences of length <= %d from five configured initial states (WithInitialMode + WithInitialActiveMode: placeholder naming no mode / a copy of an initial mode / the id of a mode added later; WithModeOption(resource.WithInitialRecord(key, mode)): every record under its id / the normal mode a under the key c - the latter outside the theorems' hypothesis, tie to the keyed model only); after every step the result and the whole observable state (sorted modes, active mode, normal mode) and the events delivered to PullModes / PullActiveMode subscribers are compared with the Lean model; plus the construction itself for the accepted configurations and for three rejected ones (id configured twice, mode without id: panic in model and code); distinct = distinct (initial state, operation prefix)", exLen, exLen-1))
	ex.Exhaustive = true
	tie := res.Tie("electric-random", "K1",
		"random operation sequences (length 1-40) from one PRNG, 40% of them from a random InitOk configuration (0-3 initial modes, placeholder active mode with id \"\"/fresh/existing/future), over 8 ids incl. ids the scripted RNG will generate plus \"\" and the placeholder's id as arguments, random masks (nil, empty, subsets of id/title/normal/start_time/description/voltage/segments, unknown path), Model-level write options on UpdateMode / DeleteMode (WithCreateIfAbsent, WithExpectAbsent, WithExpectedValue with blank / plausible / random values, WithExpectedCheck with four named checks on both; WithResetMask over random paths incl. an unknown one, WithExpectedCheck, InterceptBefore / InterceptAfter with the four tame named callbacks; in 1 of 8 sequences the LAST operation is an UpdateMode with exactly one option outside the theorems' hypothesis WOpts.Tame - reset mask naming id, a callback renaming the record or raising normal - plus ten fixed probes of that kind: the model follows the code there too, the record being stored under the call's key), rejected configurations (construction panics), both API levels, documented contract panics, id-generation retries and exhaustion; every step's result, whole observable state and stream events compared with the Lean model; distinct = distinct operation prefix")
	rn.mon = res.Monitor("electric-invariants",
		"after EVERY step of every sequence on the real model, with plain Go bookkeeping as oracle: I1 at most one normal mode; I2 a delete of the active id fails and keeps the mode, and a delete of the id under which the active mode was last selected never succeeds; I3 once changed the active id is in modes; clear selects the normal mode / NotFound; a successful switch to a different id stamps start_time = clock now; delete of an absent id = NotFound, or OK with allow-missing; a failed operation changes nothing; every listed mode is found by a lookup of the id it carries (C19/key/…); no panic other than the two documented contract panics; an UpdateMode whose options are outside WOpts.Tame is reported under a qualified operation name (update[reset-id], update[intercept-id], update[intercept-normal]); PullModes / PullActiveMode followed from the model's creation: every expected event arrives, the subscriber's folded view has at most one normal mode after every event and equals Modes() at every operation boundary, an active-mode event is the active mode and names a stored mode; a second subscriber joins both streams half way through every sequence without updates_only: it is seeded with one ADD per stored mode in listing order and with the active mode, then is sent the same PullModes events and every changed active mode (C19/pull/late-…); after a successful UpdateMode outside WOpts.Tame, and for configurations with a record under a foreign key, the run feeds the tie only; runs behind an id interceptor (WithIDInterceptor(strings.ToLower) on the mode collection) are judged by the same state clauses with ids identified up to spelling (the active mode is the stored mode its id names in any case), a delete that names the active mode by another spelling than the one it carries is reported as delete[other-spelling] / s.delete[other-spelling], streams feed the tie there; non-trivial = more than one step")
	stress := res.Monitor("electric-stress",
		"2-4 goroutines issue 5-24 random operations each on one shared model (Model API and servers mixed); I1 and I3 evaluated at quiescence, no panic; one evaluation = one round")
	k4 := res.Tie("electric-forced-overlap", "K4",
		"forced overlaps: a ChangeActiveMode is parked inside Model.mu through the injected clock, 2-4 calls (same RPC on the same id with and without allow-missing, racing normal flags via create/update/upsert/add, deletes of the mode being switched to, mixed) are issued concurrently and observed blocked on the model's locks (goroutine dump), then all are released; stamp rounds (1 in 4) are the dual: a write to the mode list (create/add/update/delete) is parked inside the lock, 1-3 switches of the active mode (ChangeActiveMode, UpdateActiveMode, ChangeToNormalMode, ClearActiveMode, now and then with a delete/update of a target) queue behind it, the model clock is advanced while they wait and the old active mode is observed at the new instant, then the parked call is released - the serial order is performed at the advanced instant; parked-write rounds (about 1 in 4): a DeleteMode is parked in its own WithExpectedCheck callback, i.e. after deleteMode's active-mode guard and before the removal, while 1-3 calls switch to / set active / clear to / rewrite / delete the same mode, or an UpdateMode / upsert that makes a mode normal is parked there, i.e. after updateMode's second-normal-mode guard and before the write, while 1-3 calls try to make another mode normal, delete the target or clear to the normal mode; the observed per-call outcomes + final state are matched to a serial order and that order is executed by the Lean model (C19_mutex_serialises: every execution equals some serial run); distinct = (class, prefix, gate, queued)")
	serial := res.Monitor("electric-serialisable",
		"per forced-overlap round on the real code: every call's outcome and the final state must equal those of SOME serial order of the calls (oracle: the same calls run sequentially on a fresh real model, all permutations tried); a delete with allow-missing must never report NotFound; in stamp rounds the start time returned by a switch that waited for the lock is the clock's time at the switch (the advanced instant; or the stored start time when the mode was already active), never the instant at which the call started to queue; no panic, no stuck call; one evaluation = one round, non-trivial = the queued calls were observed blocked behind the parked one")
	ic := res.Tie("electric-id-interceptor", "K2",
		fmt.Sprintf("the mode collection behind an id interceptor, NewModel(WithModeOption(resource.WithIDInterceptor(strings.ToLower))): ALL operation sequences of length <= 3 over a 21-operation alphabet with two spellings of one id (add / create / update / upsert / delete with and without allow-missing / change / clear / set-active / find over the ids a, b and B, both API levels, generated ids with upper-case letters) from a new model and of length <= %d from one configured with an initial record spelled in upper case, plus random sequences of length 4-12 over the same alphabet and the construction itself (accepted, and two initial records the interceptor maps to one key: panic); after every step result, whole observable state and stream events are compared with the Lean model ikstep (Icpt.lean: the interceptor applied where collection.go applies it, model.go's guards comparing spellings); distinct = distinct (initial state, operation prefix)", f.N(2, 3)))
	ic.Exhaustive = true
	if f.Driver != "" {
		d, err := lib.StartDriver(f.Driver)
		if err != nil {
			ic.Fail(err)
			ex.Fail(err)
			tie.Fail(err)
			k4.Fail(err)
		} else {
			rn.drv = d
			defer d.Close()
		}
	} else {
		ex.Fail(fmt.Errorf("no driver given"))
		ic.Fail(fmt.Errorf("no driver given"))
		tie.Fail(fmt.Errorf("no driver given"))
		k4.Fail(fmt.Errorf("no driver given"))
	}
	r := lib.NewRand(f.Seed)
	// small first: the first violating input per signature is kept as the replay
	rn.exhaustive(config{}, ex, 1)
	rn.exhaustive(config{}, ex, 2)
	for _, cfg := range append(configuredStates(), keyedStates()...) {
		rn.exhaustive(cfg, ex, 1)
		rn.exhaustive(cfg, ex, 2)
	}
	// initial-record options: what the construction rejects (panic) and accepts
	for _, cfg := range append(append(configuredStates(), keyedStates()...),
		config{Recs: []keyed{{"a", mode{ID: "a"}}, {"b", mode{ID: "x"}}, {"a", mode{ID: "y"}}}},
		config{Recs: []keyed{{"", mode{ID: "", Title: "no key, no id"}}}},
		config{Modes: []mode{{ID: "a", Title: "ta"}, {ID: "b", Title: "tb"}, {ID: "a", Title: "again"}}},
		config{Modes: []mode{{ID: "a", Title: "ta"}, {ID: "", Title: "no id"}}},
		config{Modes: []mode{{ID: "", Title: "no id"}}, Active: &mode{ID: "a"}}) {
		rn.doConfig(cfg, ex)
	}
	for _, seq := range untameProbes() {
		rn.do(config{}, seq, tie, "untame-options-probe")
	}
	if exLen >= 3 {
		rn.exhaustive(config{}, ex, 3)
	}
	if exLen >= 4 {
		rn.exhaustive(config{}, ex, 4)
		for _, cfg := range append(configuredStates(), keyedStates()...) {
			rn.exhaustive(cfg, ex, 3)
		}
	}
	rn.flush()
	rn.icptFamily(ic, r, 3, f.N(2, 3), f.N(200, 6000))
	rn.flush()
	// own random stream: the families below were added in round 8 and must not shift the draws of the older ones
	// (the forced overlaps find some seeded changes only in particular rounds)
	r8 := rand.New(rand.NewSource(int64(f.Seed)*7919 + 8))
	rn.nsFamily(ic, r8, 3, f.N(300, 6000))
	rn.flush()
	rn.resourceOptionFamily(tie, r8, f.N(3, 4), f.N(300, 6000))
	rn.clockRangeFamily(tie, r8, f.N(400, 8000))
	rn.flush()
	rn.do(config{}, exhaustedSeq(), tie, "id-exhaustion")
	for i := 0; i < f.N(1500, 30000); i++ {
		n := 1 + r.Intn(12)
		if i%5 == 0 {
			n = 1 + r.Intn(40)
		}
		cfg := genConfig(r)
		if cfg.invalid() {
			rn.doConfig(cfg, tie)
			continue
		}
		seq := make([]op, n)
		for j := range seq {
			seq[j] = genOpCfg(r, j, cfg)
		}
		if r.Intn(8) == 0 {
			// one operation (the last one, or one in the middle with the rest of the sequence following by key)
			// carries one option outside the theorems' hypothesis (see untameProbes)
			j := n - 1
			if r.Intn(2) == 0 {
				j = r.Intn(n)
			}
			seq[j] = genUntame(r, idPool[r.Intn(4)], seq[j].Now)
		}
		rn.do(cfg, seq, tie, "random")
	}
	rn.flush()
	rn.stress(r, stress, f.N(800, 8000))
	rn.overlaps(r, k4, serial, f.N(500, 6000))
	if err := res.Write(f.Out); err != nil {
		lib.Fatal(err)
	}
}

func replay(f lib.Flags) int {
	rp, err := lib.ReadReplay(f.Replay)
	if err != nil {
		lib.Fatal(err)
	}
	b, _ := json.Marshal(rp.Input)
	var in struct {
		Init       config   `json:"init"`
		Ops        []op     `json:"ops"`
		Goroutines [][]op   `json:"goroutines"`
		Overlap    *overlap `json:"overlap"`
		LateJoin   *int     `json:"late_subscriber_joins_after"`
	}
	if err := json.Unmarshal(b, &in); err == nil && in.Overlap != nil {
		m := lib.NewMonitor("replay", "")
		fmt.Println("replay of a forced overlap: re-running the round up to 50 times")
		for i := 0; i < 50 && len(m.Violations) == 0; i++ {
			obs := runOverlap(*in.Overlap)
			checkOverlap(m, *in.Overlap, obs)
			if i == 0 || len(m.Violations) > 0 {
				fmt.Printf("round %d: forced=%v gate %s -> %s; queued -> %v; final %s\n", i, obs.Forced, in.Overlap.Gate.line(), obs.GateOut, obs.Outs, obs.Final)
			}
		}
		if len(m.Violations) > 0 {
			for _, v := range m.Violations {
				fmt.Printf("STILL FAILS %s: %s (expected %s, observed %s)\n", v.Signature, v.What, v.Expected, v.Observed)
			}
			return 1
		}
		fmt.Println("replay: property holds on this input now")
		return 0
	}
	if err := json.Unmarshal(b, &in); err != nil || (len(in.Ops) == 0 && len(in.Goroutines) == 0) {
		fmt.Println("replay: no concrete operation sequence in file (", rp.Kind, rp.Broken, ")")
		return 2
	}
	m := lib.NewMonitor("replay", "")
	if len(in.Ops) > 0 {
		fmt.Println("initial state:", in.Init.line())
		join := len(in.Ops) / 2
		if in.LateJoin != nil {
			join = *in.LateJoin
			fmt.Println("a second subscriber joins PullModes / PullActiveMode (not updates-only) after", join, "operation(s)")
		}
		if in.Init.Icpt != "" || len(in.Init.ActiveWritable) > 0 || in.Init.stateOnly(in.Ops) {
			if in.Init.Icpt != "" {
				fmt.Println("the mode collection has an id interceptor (" + in.Init.Icpt + "): ids are compared up to spelling")
			}
			if len(in.Init.ActiveWritable) > 0 {
				fmt.Println("the active mode resource has writable fields:", in.Init.ActiveWritable)
			}
			obs := runSeqMon(nil, in.Init, in.Ops)
			for i, st := range obs {
				fmt.Printf("step %d: %s -> %s %s\n", i, st.Op.line(), st.Out, st.State)
			}
			monitorIcpt(m, in.Init, in.Ops, obs)
		} else {
			obs := runSeqMonJoin(m, in.Init, in.Ops, join)
			for i, st := range obs {
				fmt.Printf("step %d: %s -> %s %s\n", i, st.Op.line(), st.Out, st.State)
			}
			monitorSeq(m, in.Init, in.Ops, obs)
		}
	} else {
		// a concurrent witness: re-run the same programs a number of times
		fmt.Println("replay of a concurrent witness: re-running the goroutine programs 200 times")
		for i := 0; i < 200 && len(m.Violations) == 0; i++ {
			replayConcurrent(m, in.Goroutines)
		}
	}
	if len(m.Violations) > 0 {
		for _, v := range m.Violations {
			fmt.Printf("STILL FAILS %s: %s (expected %s, observed %s)\n", v.Signature, v.What, v.Expected, v.Observed)
		}
		return 1
	}
	fmt.Println("replay: property holds on this input now")
	return 0
}

func replayConcurrent(m *lib.Monitor, progs [][]op) {
	clk := &fakeClock{}
	model := electricpb.NewModel(electricpb.WithClock(clk))
	server := electricpb.NewModelServer(model)
	var wg sync.WaitGroup
	var mu sync.Mutex
	changed := false
	for t := range progs {
		wg.Add(1)
		go func(t int) {
			defer wg.Done()
			wt := &world{model: model, server: server, clk: &fakeClock{}, rng: &scriptReader{}}
			for _, o := range progs[t] {
				_, err, _ := wt.apply(o)
				if err == nil {
					switch o.Kind {
					case "setactive", "change", "clear", "s.change", "s.clear":
						mu.Lock()
						changed = true
						mu.Unlock()
					}
				}
			}
		}(t)
	}
	wg.Wait()
	w := &world{model: model}
	checkInvariants(m, "quiescence", w.snapshot(), changed, map[string]any{"goroutines": progs})
}
