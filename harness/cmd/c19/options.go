package main

import (
	"google.golang.org/grpc/codes"
	"google.golang.org/grpc/status"
	"google.golang.org/protobuf/proto"

	"github.com/smart-core-os/sc-api/go/traits"
	"github.com/smart-core-os/sc-golang/pkg/resource"
)

// The small closed family of named caller-supplied callbacks shared with the Lean driver
// (lean/ScVerif/C19/Named.lean has the same functions on the model's Mode).

// namedIcpt is a resource.InterceptBefore / InterceptAfter callback by name.
func namedIcpt(name string) resource.UpdateInterceptor {
	return func(old, new proto.Message) {
		o, n := old.(*traits.ElectricMode), new.(*traits.ElectricMode)
		switch name {
		case "tp": // delta-style: depends on the old value
			n.Title = o.Title + "+"
		case "ds":
			n.Description = o.Title
		case "n0":
			n.Normal = false
		case "nk": // keep the stored flag
			n.Normal = o.Normal
		case "n1": // NOT tame: raises normal behind the guard
			n.Normal = true
		case "i0": // NOT tame: the record loses its id
			n.Id = ""
		case "iz": // NOT tame: the record is renamed
			n.Id = "zz"
		}
	}
}

// namedCheck is a resource.WithExpectedCheck callback by name.
func namedCheck(name string) func(proto.Message) error {
	return func(cur proto.Message) error {
		c := cur.(*traits.ElectricMode)
		switch name {
		case "cn":
			if !c.Normal {
				return status.Error(codes.FailedPrecondition, "only the normal mode may be updated")
			}
		case "ct":
			if c.Title == "" {
				return status.Error(codes.NotFound, "untitled")
			}
		case "ca": // a code no other branch of a write produces for a stored mode
			if !c.Normal {
				return status.Error(codes.Aborted, "only the normal mode")
			}
		}
		return nil
	}
}

var tameIcpts = []string{"tp", "ds", "n0", "nk"}
var checkNames = []string{"cn", "ct", "ca", "ok"}

func (o op) hasCallerCode() bool {
	return o.HasReset || o.Check != "" || o.Before != "" || o.After != ""
}

func dash(s string) string {
	if s == "" {
		return "-"
	}
	return s
}

// untame classifies an UpdateMode whose options are outside the hypothesis of the invariant theorems
// (WOpts.Tame): "" when tame. The generators put at most ONE untame option on an operation, and only on the
// last operation of a sequence (the record may then no longer carry its key: the model's state, keyed by id,
// ends there).
func (o op) untame() string {
	if o.Kind != "update" {
		return ""
	}
	for _, p := range o.Reset {
		if p == "id" {
			return "reset-id"
		}
	}
	for _, n := range []string{o.Before, o.After} {
		switch n {
		case "i0", "iz":
			return "intercept-id"
		case "n1":
			return "intercept-normal"
		}
	}
	return ""
}

// sigKind is the operation's name in monitor signatures: the kind, qualified when its options are untame.
func (o op) sigKind() string {
	if u := o.untame(); u != "" {
		return o.Kind + "[" + u + "]"
	}
	return o.Kind
}

// callerOpts are the options carrying the caller's own code and the reset mask.
func (o op) callerOpts() []resource.WriteOption { return o.callerOptsWith(nil) }

// callerOptsWith: park, when given, stands in for the check named "pk" (forced-overlap rounds, forced.go).
func (o op) callerOptsWith(park func(proto.Message) error) []resource.WriteOption {
	var opts []resource.WriteOption
	if o.HasReset {
		opts = append(opts, resource.WithResetPaths(append([]string{}, o.Reset...)...))
	}
	if o.Check == "pk" && park != nil {
		opts = append(opts, resource.WithExpectedCheck(park))
	} else if o.Check != "" {
		opts = append(opts, resource.WithExpectedCheck(namedCheck(o.Check)))
	}
	if o.Before != "" {
		opts = append(opts, resource.InterceptBefore(namedIcpt(o.Before)))
	}
	if o.After != "" {
		opts = append(opts, resource.InterceptAfter(namedIcpt(o.After)))
	}
	return opts
}
