package main

import (
	"fmt"
	"strings"

	"google.golang.org/grpc/codes"
	"google.golang.org/grpc/status"

	"github.com/smart-core-os/sc-golang/verifharness/lib"
)

// stepObs is what one step showed on the real code.
type stepObs struct {
	Op     op
	Out    string
	State  string
	Before snap
	After  snap
	Err    error
	Panic  bool
}

// runSeq executes a sequence on a fresh real model.
func runSeq(cfg config, seq []op) []stepObs { return runSeqMon(nil, cfg, seq) }

// runSeqMon also follows the model's PullModes / PullActiveMode streams from its creation; their events
// are part of every step's observation, and (with a monitor) the subscriber's view is checked.
func runSeqMon(m *lib.Monitor, cfg config, seq []op) []stepObs {
	return runSeqMonJoin(m, cfg, seq, len(seq)/2)
}

// runSeqMonJoin: the late subscriber joins after `join` operations (a replay states the point explicitly).
func runSeqMonJoin(m *lib.Monitor, cfg config, seq []op, join int) []stepObs {
	w := newWorldCfg(cfg)
	w.subscribe(cfg)
	defer w.streams.cancel()
	defer func() {
		if w.streams.lateCancel != nil {
			w.streams.lateCancel()
		}
	}()
	obs := make([]stepObs, 0, len(seq))
	hadActive := false
	for i, o := range seq {
		if i == join && m != nil && !w.untamed && !w.foreign {
			w.joinLate(m, map[string]any{"init": cfg, "ops": seq[:i+1], "late_subscriber_joins_after": i})
		}
		before := w.snapshot()
		out, err, p := w.apply(o)
		after := w.snapshot()
		if o.untame() != "" && err == nil && !p {
			w.untamed = true
		}
		input := map[string]any{"init": cfg, "ops": seq[:i+1]}
		if w.streams.lateModes != nil {
			input["late_subscriber_joins_after"] = join
		}
		evs := w.collectEvents(m, input, o, before, after, err, &hadActive)
		obs = append(obs, stepObs{Op: o, Out: out, State: w.stateString(after) + evs, Before: before, After: after, Err: err, Panic: p})
	}
	if w.streams.lateModes != nil && m != nil && !w.untamed {
		if n := w.streams.lateModes.pending() + w.streams.lateActive.pending(); n > 0 {
			m.Violate("C19/pull/late-unexpected-event", "the subscriber that joined later was sent an event although nothing observable changed", map[string]any{"init": cfg, "ops": seq}, "no further event", fmt.Sprint(n, " pending"))
		}
	}
	if n := w.streams.modes.pending() + w.streams.active.pending(); n > 0 && m != nil {
		m.Violate("C19/pull/unexpected-event", "a stream delivered an event although nothing observable changed", map[string]any{"init": cfg, "ops": seq}, "no further event", fmt.Sprint(n, " pending"))
	}
	return obs
}

func isCode(err error, c codes.Code) bool {
	if err == nil {
		return false
	}
	s, ok := status.FromError(err)
	return ok && s.Code() == c
}

func targetID(o op) string {
	switch o.Kind {
	case "delete", "s.delete", "change", "s.change":
		return o.ID
	}
	if o.Mode != nil {
		return o.Mode.ID
	}
	return ""
}

// checkInvariants evaluates I1 and I3 on a state (used after every step and at quiescence).
func checkInvariants(m *lib.Monitor, where string, s snap, changed bool, input any) {
	if ns := s.normals(); len(ns) > 1 {
		m.Violate("C19/I1/more-than-one-normal-mode/"+where, "more than one mode is marked normal", input, "at most 1 normal mode", fmt.Sprintf("%d normal modes: %q", len(ns), ns))
	}
	if changed && !s.has(s.Active.Id) {
		m.Violate("C19/I3/active-mode-not-in-modes/"+where, "the active mode (once changed) does not refer to a mode that exists", input, "active id in modes", fmt.Sprintf("active id %q not in modes", s.Active.Id))
	}
}

// monitorSeq evaluates the property's statements on the real observations with its own oracle
// (plain Go bookkeeping, no Lean model involved).
func monitorSeq(m *lib.Monitor, cfg config, seq []op, obs []stepObs) {
	changed := false
	activeKey := "" // the id under which the active mode was last selected (meaningful once changed)
	for i, st := range obs {
		o := st.Op
		input := map[string]any{"init": cfg, "ops": seq[:i+1]}
		k := o.Kind
		sk := o.sigKind() // the name in signatures: qualified when the operation's options are outside WOpts.Tame
		if st.Panic {
			documented := o.Mode != nil && ((k == "create" && o.Mode.ID != "") || (k == "add" && o.Mode.ID == ""))
			if !documented {
				m.Violate("C19/panic/"+sk, "the operation panicked", input, "a result or an error status", st.Err.Error())
				return
			}
			continue
		}
		ok := st.Err == nil
		changedBefore := changed
		if ok && (k == "setactive" || k == "change" || k == "clear" || k == "s.change" || k == "s.clear") {
			changed = true
		}
		// every listed mode is found under the id it carries (the record carries the key it is stored under): what
		// I2's "delete of the active id is refused" and I3's "the active id is in modes" rest on
		if len(st.After.Orphans) > 0 && len(st.Before.Orphans) == 0 {
			m.Violate("C19/key/listed-mode-not-found-by-its-id/"+sk, "a listed mode is not found by a lookup of the id it carries: it is stored under another key, so the model can make it active under one id and delete it under the other", input, "FindMode(m.Id) finds m for every listed m", fmt.Sprintf("not found: %q", st.After.Orphans))
			return // the root cause is reported; what follows from it (I3 at once when the record is the active mode's) is not reported separately
		}
		// I1, I3 after every step; reported at the step that breaks them (the signature names that operation)
		if ns := st.After.normals(); len(ns) > 1 && len(st.Before.normals()) <= 1 {
			m.Violate("C19/I1/more-than-one-normal-mode/"+sk, "more than one mode is marked normal", input, "at most 1 normal mode", fmt.Sprintf("%d normal modes: %q", len(ns), ns))
		}
		if changed && !st.After.has(st.After.Active.Id) && !(changedBefore && !st.Before.has(st.Before.Active.Id)) {
			m.Violate("C19/I3/active-mode-not-in-modes/"+sk, "the active mode (once changed) does not refer to a mode that exists", input, "active id in modes", fmt.Sprintf("active id %q not in modes", st.After.Active.Id))
		}
		// I2: the active mode is never deleted
		if (k == "delete" || k == "s.delete") && ok && changedBefore && o.ID == activeKey {
			m.Violate("C19/I2/active-mode-deleted/"+sk, "the delete of the mode that had been made active succeeded", input, "FailedPrecondition, mode kept", st.Out+" (active mode selected by id "+fmt.Sprintf("%q", activeKey)+")")
		}
		if ok {
			switch k {
			case "change", "s.change":
				activeKey = o.ID
			case "setactive":
				activeKey = o.Mode.ID
			case "clear", "s.clear":
				activeKey = st.After.Active.Id
			}
		}
		if k == "delete" || k == "s.delete" {
			if o.ID == st.Before.Active.Id && st.Before.has(o.ID) && (!st.After.has(o.ID) || ok) {
				m.Violate("C19/I2/active-mode-deleted/"+sk, "the active mode was deleted (or the delete reported success)", input, "FailedPrecondition, mode kept", st.Out)
			}
			// deleting an absent mode
			if !st.Before.has(o.ID) && o.ID != "" && o.ID != st.Before.Active.Id {
				if o.AllowMissing && !ok {
					m.Violate("C19/delete/allow-missing-not-ok/"+sk, "deleting an absent mode with allow-missing did not succeed", input, "OK", st.Out)
				}
				if !o.AllowMissing && !isCode(st.Err, codes.NotFound) {
					m.Violate("C19/delete/absent-not-notfound/"+sk, "deleting an absent mode did not report NotFound", input, "NotFound", st.Out)
				}
			}
		}
		// clear selects the normal mode
		if k == "clear" || k == "s.clear" {
			ns := st.Before.normals()
			if len(ns) == 0 {
				if !isCode(st.Err, codes.NotFound) {
					m.Violate("C19/clear/no-normal-mode-not-notfound/"+sk, "clearing the active mode without a normal mode did not report NotFound", input, "NotFound", st.Out)
				}
			} else if !ok || !contains(ns, st.After.Active.Id) {
				m.Violate("C19/clear/normal-mode-not-selected/"+sk, "clearing the active mode did not select the normal mode", input, fmt.Sprintf("active in %q", ns), st.Out+" active="+st.After.Active.Id)
			}
		}
		// switching to a different mode stamps its start time with the clock's current time
		if ok && (k == "change" || k == "s.change" || k == "clear" || k == "s.clear") {
			if st.After.Active.Id != st.Before.Active.Id {
				t := st.After.Active.StartTime
				if t == nil || t.Seconds != o.Now || t.Nanos != 0 {
					m.Violate("C19/stamp/start-time-not-now/"+sk, "switching to a different mode did not stamp start_time with the clock's current time", input, fmt.Sprint(o.Now), fmt.Sprint(t))
				}
			}
			if k == "change" || k == "s.change" {
				if st.After.Active.Id != o.ID {
					m.Violate("C19/change/wrong-mode-active/"+sk, "ChangeActiveMode succeeded but another mode is active", input, o.ID, st.After.Active.Id)
				}
			}
		}
		// a failed operation changes nothing
		if !ok && (strings.Join(modeStrings(st.Before), ";") != strings.Join(modeStrings(st.After), ";") || showMode(st.Before.Active) != showMode(st.After.Active)) {
			m.Violate("C19/failed-op-changed-state/"+sk, "an operation that returned an error changed the modes or the active mode", input, "state unchanged", st.State)
		}
		// after a successful UpdateMode outside WOpts.Tame (reported above when it broke something) the rest of the
		// sequence is outside the theorems' hypothesis: it feeds the tie (the keyed Lean model follows the code there)
		if o.untame() != "" && ok {
			return
		}
	}
}

func modeStrings(s snap) []string {
	out := make([]string, len(s.Modes))
	for i, m := range s.Modes {
		out[i] = showMode(m)
	}
	return out
}

func contains(xs []string, x string) bool {
	for _, y := range xs {
		if y == x {
			return true
		}
	}
	return false
}
