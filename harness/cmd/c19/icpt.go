package main

import (
	"fmt"
	"math/rand"
	"strings"

	"google.golang.org/grpc/codes"

	"github.com/smart-core-os/sc-golang/verifharness/lib"
)

// The mode collection behind an id interceptor: NewModel(WithModeOption(resource.WithIDInterceptor(strings.ToLower))).
// The collection looks every id up under its lower-case image, the records keep the spelling they were written
// with, and model.go compares ids as spelled. The Lean side is Icpt.lean (ikstep; driver line `iconfig lower …`).
// The family has its own alphabet (two spellings of one id) and its own monitor, whose plain-Go oracle identifies
// ids up to spelling: "the active mode" is the stored mode the active id names, whatever the case.

// canon is the id interceptor of the configuration (the identity without one).
func (c config) canon(id string) string {
	if c.Icpt == "lower" {
		return strings.ToLower(id)
	}
	if c.Icpt == "ns" {
		return nsPrefix(id)
	}
	return id
}

// nsPrefix is an idempotent namespace prefix: it maps the empty id - the id of a new model's placeholder active
// mode - to the key "ns/" (6e97ca4: the placeholder names no mode, whatever the interceptor makes of "").
func nsPrefix(id string) string {
	if strings.HasPrefix(id, "ns/") {
		return id
	}
	return "ns/" + id
}

// nsAlphabet: the ids x, ns/x (= x to the collection) and ns/ (the key of the empty id), both API levels.
func nsAlphabet() []op {
	m := func(id string, normal bool) *mode { return &mode{ID: id, Title: "t" + id, Normal: normal} }
	return []op{
		{Kind: "add", Mode: m("ns/", false)},
		{Kind: "add", Mode: m("x", true)},
		{Kind: "add", Mode: m("ns/x", false)},
		{Kind: "create", Mode: &mode{Title: "gen"}, Cands: tenCands()},
		{Kind: "update", Mode: &mode{ID: "ns/", Title: "u"}, HasMask: true, Mask: []string{"title"}},
		{Kind: "update", Mode: &mode{ID: "ns/x", Title: "u"}, HasMask: true, Mask: []string{"title"}},
		{Kind: "delete", ID: "ns/"},
		{Kind: "s.delete", ID: "ns/"},
		{Kind: "delete", ID: "x"},
		{Kind: "s.delete", ID: "ns/x", AllowMissing: true},
		{Kind: "change", ID: "x"},
		{Kind: "s.change", ID: "ns/"},
		{Kind: "change", ID: ""},
		{Kind: "clear"},
		{Kind: "setactive", Mode: &mode{ID: "ns/", Title: "set", Start: 5}},
		{Kind: "find", ID: ""},
	}
}

// nsFamily: all sequences up to maxLen over nsAlphabet from a new model behind the ns/ prefix, then random ones.
func (rn *runner) nsFamily(tie *lib.Tie, r *rand.Rand, maxLen, random int) {
	al := nsAlphabet()
	cfg := config{Icpt: "ns"}
	rn.doConfig(cfg, tie)
	for n := 1; n <= maxLen; n++ {
		var rec func(prefix []op)
		rec = func(prefix []op) {
			if len(prefix) == n {
				rn.do(cfg, withNow(prefix), tie, fmt.Sprintf("ns-interceptor-len-%d", n))
				return
			}
			for _, o := range al {
				rec(append(append([]op{}, prefix...), o))
			}
		}
		rec(nil)
	}
	for i := 0; i < random; i++ {
		seq := make([]op, 4+r.Intn(9))
		for j := range seq {
			seq[j] = al[r.Intn(len(al))]
		}
		rn.do(cfg, withNow(seq), tie, "ns-interceptor-random")
	}
}

func icptConfigs() []config {
	return []config{
		{Icpt: "lower"},
		// an initial record spelled in upper case: kept under the lower-case key (215ba16)
		{Icpt: "lower", Recs: []keyed{{"B", mode{ID: "B", Title: "tB", Normal: true}}, {"a", mode{ID: "a", Title: "ta"}}}},
	}
}

// icptAlphabet: the ids a, b and B (= b to the collection), both API levels.
func icptAlphabet() []op {
	m := func(id string, normal bool) *mode { return &mode{ID: id, Title: "t" + id, Normal: normal} }
	return []op{
		{Kind: "add", Mode: m("B", false)},
		{Kind: "add", Mode: m("b", true)},
		{Kind: "add", Mode: m("a", true)},
		{Kind: "create", Mode: &mode{Title: "gen"}, Cands: tenCands()},
		{Kind: "s.create", Mode: &mode{Title: "gen", Normal: true}, Cands: tenCands()},
		{Kind: "update", Mode: &mode{ID: "b", Title: "x"}, HasMask: true, Mask: []string{"title"}},
		{Kind: "s.update", Mode: m("B", true), HasMask: true, Mask: []string{"normal"}},
		{Kind: "update", Mode: &mode{ID: "B", Title: "up", Normal: true}, CreateIfAbsent: true},
		{Kind: "delete", ID: "b"},
		{Kind: "delete", ID: "B"},
		{Kind: "s.delete", ID: "b"},
		{Kind: "s.delete", ID: "B", AllowMissing: true},
		{Kind: "delete", ID: "a"},
		{Kind: "change", ID: "B"},
		{Kind: "s.change", ID: "b"},
		{Kind: "change", ID: "a"},
		{Kind: "clear"},
		{Kind: "s.clear"},
		{Kind: "setactive", Mode: &mode{ID: "b", Title: "set", Start: 5}},
		{Kind: "find", ID: "b"},
		{Kind: "find", ID: "B"},
	}
}

// icptFamily: all sequences up to maxLen over icptAlphabet from the new model, up to maxLenConfigured from the
// configured one, then random longer ones.
func (rn *runner) icptFamily(tie *lib.Tie, r *rand.Rand, maxLen, maxLenConfigured, random int) {
	al := icptAlphabet()
	for ci, cfg := range icptConfigs() {
		rn.doConfig(cfg, tie)
		bound := maxLen
		if ci > 0 {
			bound = maxLenConfigured
		}
		for n := 1; n <= bound; n++ {
			var rec func(prefix []op)
			rec = func(prefix []op) {
				if len(prefix) == n {
					rn.do(cfg, withNow(prefix), tie, fmt.Sprintf("id-interceptor-len-%d", n))
					return
				}
				for _, o := range al {
					rec(append(append([]op{}, prefix...), o))
				}
			}
			rec(nil)
		}
	}
	// two initial records whose keys the interceptor maps to one key: the construction panics (model and code)
	rn.doConfig(config{Icpt: "lower", Recs: []keyed{{"B", mode{ID: "B"}}, {"b", mode{ID: "b"}}}}, tie)
	cfgs := icptConfigs()
	for i := 0; i < random; i++ {
		seq := make([]op, 4+r.Intn(9))
		for j := range seq {
			seq[j] = al[r.Intn(len(al))]
		}
		rn.do(cfgs[r.Intn(len(cfgs))], withNow(seq), tie, "id-interceptor-random")
	}
}

// hasCanon: a mode whose id is a spelling of id is listed.
func hasCanon(cfg config, s snap, id string) bool {
	for _, m := range s.Modes {
		if cfg.canon(m.Id) == cfg.canon(id) {
			return true
		}
	}
	return false
}

// monitorIcpt evaluates the property's statements on a run behind an id interceptor. The oracle is plain Go
// bookkeeping on the observations; an id names the stored mode whose id has the same canonical form.
func monitorIcpt(m *lib.Monitor, cfg config, seq []op, obs []stepObs) {
	changed := false
	activeKey := "" // canonical form of the id under which the active mode was last selected
	for i, st := range obs {
		o := st.Op
		input := map[string]any{"init": cfg, "ops": seq[:i+1]}
		k := o.Kind
		sk := k
		if st.Panic {
			documented := o.Mode != nil && ((k == "create" && o.Mode.ID != "") || (k == "add" && o.Mode.ID == ""))
			if !documented {
				m.Violate("C19/panic/"+sk, "the operation panicked", input, "a result or an error status", st.Err.Error())
				return
			}
			continue
		}
		ok := st.Err == nil
		changedBefore := changed
		if ok && (k == "setactive" || k == "change" || k == "clear" || k == "s.change" || k == "s.clear") {
			changed = true
		}
		if k == "delete" || k == "s.delete" {
			// the call names the active mode by another spelling of its id than the one the active mode carries
			if o.ID != st.Before.Active.Id && cfg.canon(o.ID) == cfg.canon(st.Before.Active.Id) {
				sk = k + "[other-spelling]"
			}
			// I2: the active mode is never deleted
			namesActive := changedBefore && (cfg.canon(o.ID) == activeKey || cfg.canon(o.ID) == cfg.canon(st.Before.Active.Id))
			if namesActive && hasCanon(cfg, st.Before, o.ID) && (ok || !hasCanon(cfg, st.After, o.ID)) {
				m.Violate("C19/I2/active-mode-deleted/"+sk, "the active mode was deleted (or the delete reported success): the call names it by an id the collection maps to the same stored mode", input, "FailedPrecondition, mode kept", fmt.Sprintf("%s; active id %q, deleted id %q, modes after: %q", st.Out, st.Before.Active.Id, o.ID, modeStrings(st.After)))
				return // the root cause is reported; I3 fails at the same step as its consequence
			}
			// a mode that is not the active one is not refused as the active one; nothing is active before the first
			// switch (the placeholder's id names no mode, unless the call spells that very id: C19_placeholder)
			if !namesActive && o.ID != st.Before.Active.Id && hasCanon(cfg, st.Before, o.ID) && isCode(st.Err, codes.FailedPrecondition) {
				m.Violate("C19/delete/non-active-refused/"+sk, "DeleteMode of a mode that is not active was refused with ErrDeleteActiveMode", input, "OK, mode deleted", st.Out)
			}
			// deleting an absent mode
			if !hasCanon(cfg, st.Before, o.ID) && o.ID != "" && cfg.canon(o.ID) != cfg.canon(st.Before.Active.Id) {
				if o.AllowMissing && !ok {
					m.Violate("C19/delete/allow-missing-not-ok/"+sk, "deleting an absent mode with allow-missing did not succeed", input, "OK", st.Out)
				}
				if !o.AllowMissing && !isCode(st.Err, codes.NotFound) {
					m.Violate("C19/delete/absent-not-notfound/"+sk, "deleting an absent mode did not report NotFound", input, "NotFound", st.Out)
				}
			}
		}
		if ns := st.After.normals(); len(ns) > 1 && len(st.Before.normals()) <= 1 {
			m.Violate("C19/I1/more-than-one-normal-mode/"+sk, "more than one mode is marked normal", input, "at most 1 normal mode", fmt.Sprintf("%d normal modes: %q", len(ns), ns))
		}
		if changed && !hasCanon(cfg, st.After, st.After.Active.Id) && !(changedBefore && !hasCanon(cfg, st.Before, st.Before.Active.Id)) {
			m.Violate("C19/I3/active-mode-not-in-modes/"+sk, "the active mode (once changed) does not refer to a mode that exists", input, "active id in modes (up to spelling)", fmt.Sprintf("active id %q not in modes", st.After.Active.Id))
		}
		if ok {
			switch k {
			case "change", "s.change":
				activeKey = cfg.canon(o.ID)
			case "setactive":
				activeKey = cfg.canon(o.Mode.ID)
			case "clear", "s.clear":
				activeKey = cfg.canon(st.After.Active.Id)
			}
		}
		if k == "clear" || k == "s.clear" {
			ns := st.Before.normals()
			if len(ns) == 0 {
				if !isCode(st.Err, codes.NotFound) {
					m.Violate("C19/clear/no-normal-mode-not-notfound/"+sk, "clearing the active mode without a normal mode did not report NotFound", input, "NotFound", st.Out)
				}
			} else if !ok || !contains(ns, st.After.Active.Id) {
				m.Violate("C19/clear/normal-mode-not-selected/"+sk, "clearing the active mode did not select the normal mode", input, fmt.Sprintf("active in %q", ns), st.Out+" active="+st.After.Active.Id)
			}
		}
		if ok && (k == "change" || k == "s.change" || k == "clear" || k == "s.clear") {
			if cfg.canon(st.After.Active.Id) != cfg.canon(st.Before.Active.Id) {
				t := st.After.Active.StartTime
				if t == nil || t.Seconds != o.Now || t.Nanos != 0 {
					m.Violate("C19/stamp/start-time-not-now/"+sk, "switching to a different mode did not stamp start_time with the clock's current time", input, fmt.Sprint(o.Now), fmt.Sprint(t))
				}
			}
			if (k == "change" || k == "s.change") && cfg.canon(st.After.Active.Id) != cfg.canon(o.ID) {
				m.Violate("C19/change/wrong-mode-active/"+sk, "ChangeActiveMode succeeded but another mode is active", input, o.ID, st.After.Active.Id)
			}
		}
		if !ok && (strings.Join(modeStrings(st.Before), ";") != strings.Join(modeStrings(st.After), ";") || showMode(st.Before.Active) != showMode(st.After.Active)) {
			m.Violate("C19/failed-op-changed-state/"+sk, "an operation that returned an error changed the modes or the active mode", input, "state unchanged", st.State)
		}
	}
}
